(** Ring LTS: the (one, multi, resps) fields of a slot.  PutOne writes [n.one] only, PutMulti writes
    [n.multi] and [n.resps] only, NextResultCh resets all three when it frees the slot.  Invariant: a free
    slot holds the zero tuple, an occupied slot holds exactly what its occupant supplied - so the writer and
    the reader are handed the putter's own payload, for every schedule, ring size and lap (wrap-around). *)
From Coq Require Import List NArith ZArith Bool Arith Lia.
Require Import RV.Model.Base RV.Model.Ring RV.Proofs.RingBase RV.Proofs.RingInv RV.Proofs.RingInv2 RV.Proofs.RingTheorems.
Import ListNotations.
Local Open Scope nat_scope.

Ltac rst := cbn [write read1 read2 slots wpc rpc nw n1 n2 wseq rseq recv
                 set_slots set_slot set_counts set_wpc set_rpc add_recv
                 mark payload pm c_one c_multi c_resps slept rlock tk parked1 woken1 bc wt wparked wwoken fillseq
                 sl_lists sl_fill sl_mark sl_clear sl_writer sl_rlock] in *.
Ltac slot_cases s' s E := destruct (Nat.eq_dec s' s) as [E|E]; [subst s'; rewrite ?upd_same|rewrite ?upd_other by exact E].

Definition tuple := (option nat * option nat * option nat)%type.

(** what putter p supplies: PutOne(cmd p) or PutMulti(multi p, resps p) *)
Definition own (p : nat) (m : bool) : tuple := if m then (None, Some p, Some p) else (Some p, None, None).
Definition trip (x : slot) : tuple := (c_one x, c_multi x, c_resps x).

Definition slot_ok (x : slot) : Prop :=
  (mark x = 0 -> trip x = (None, None, None)) /\
  (mark x <> 0 -> exists p, payload x = Some p /\ trip x = own p (pm x)).

Lemma trip_none : forall x, trip x = (None, None, None) -> c_one x = None /\ c_multi x = None /\ c_resps x = None.
Proof.
  intros x H. unfold trip in H. split; [exact (f_equal (fun t => fst (fst t)) H)|].
  split; [exact (f_equal (fun t => snd (fst t)) H)|exact (f_equal (fun t => snd t) H)].
Qed.

Definition InvP (st : state) : Prop := forall s, slot_ok (slots st s).

Lemma invp_init : forall start, InvP (init start).
Proof. intros start s. unfold slot_ok, trip. cbn. split; [reflexivity|intro H; exfalso; apply H; reflexivity]. Qed.

Lemma slot_ok_same : forall x y, mark y = mark x -> payload y = payload x -> pm y = pm x -> trip y = trip x -> slot_ok x -> slot_ok y.
Proof. intros x y A B C D H. unfold slot_ok in *. rewrite A, B, C, D. exact H. Qed.

Lemma writer_take_ok : forall st s r1' st1, InvP st -> writer_take st s r1' = Some st1 -> InvP st1.
Proof.
  intros st s r1' st1 I T. apply writer_take_some in T. destruct T as [Hm T]. subst st1. intro s'. rst.
  slot_cases s' s E; [|apply I]. destruct (I s) as [_ B]. destruct B as (p & B1 & B2); [lia|].
  unfold slot_ok, trip in *. rst. split; [intro X; discriminate|]. intros _. exists p. auto.
Qed.

Theorem invp_step : forall k st l st', InvP st -> lstep k st l = Some st' -> InvP st'.
Proof.
  intros k st l st' I Hl. destruct l; cbn [lstep] in Hl.
  - apply some_inj in Hl. subst st'. intro s'. rst.
    match goal with |- context [upd _ ?s _ s'] => slot_cases s' s E; [|apply I] end.
    eapply slot_ok_same; [| | | |apply I]; reflexivity.
  - destruct (negb (rlock (slots st s)) && (memb p (tk (slots st s)) || memb p (woken1 (slots st s)))); [|discriminate].
    set (x := slots st s) in *.
    remember (if memb p (tk x) then sl_lists x (remove1 p (tk x)) (parked1 x) (woken1 x) (bc x) (wt x)
              else sl_lists x (tk x) (parked1 x) (remove1 p (woken1 x)) (bc x) (wt x)) as x1 eqn:Ex1.
    assert (X1 : slot_ok x1 /\ mark x1 = mark x).
    { subst x1. destruct (memb p (tk x)); (split; [eapply slot_ok_same; [| | | |apply (I s)]; reflexivity|reflexivity]). }
    destruct X1 as [O1 M1]. clear Ex1.
    destruct (Nat.eqb (mark x1) 0) eqn:Hm; apply some_inj in Hl; subst st'; intro s'; rst; (slot_cases s' s E; [|apply I]).
    + apply Nat.eqb_eq in Hm. destruct O1 as [A _]. specialize (A Hm). destruct (trip_none _ A) as (A1 & A2 & A3).
      destruct (slept x1); unfold slot_ok, trip, own; rst; rewrite A1, A2, A3;
        (split; [intro X; discriminate|intros _; exists p; split; [reflexivity|destruct m; reflexivity]]).
    + eapply slot_ok_same; [| | | |exact O1]; reflexivity.
  - destruct (memb p (bc (slots st s))); [|discriminate]. apply some_inj in Hl. subst st'. intro s'. rst.
    slot_cases s' s E; [|apply I]. destruct (wparked (slots st s)); (eapply slot_ok_same; [| | | |apply (I s)]; reflexivity).
  - destruct (wpc st); [|discriminate]. destruct (rlock _); [discriminate|].
    match type of Hl with context [writer_take ?a ?b ?c] => destruct (writer_take a b c) as [st1|] eqn:T end;
      apply some_inj in Hl; subst st'; [eapply writer_take_ok; eassumption|exact I].
  - destruct (wpc st); [|discriminate]. destruct (rlock _); [discriminate|].
    match type of Hl with context [writer_take ?a ?b ?c] => destruct (writer_take a b c) as [st1|] eqn:T end;
      apply some_inj in Hl; subst st'; [eapply writer_take_ok; eassumption|].
    intro s'. rst. match goal with |- context [upd _ ?s _ s'] => slot_cases s' s E; [|apply I] end.
    eapply slot_ok_same; [| | | |apply I]; reflexivity.
  - destruct (wpc st) as [|s]; [discriminate|]. destruct (wwoken (slots st s) && negb (rlock (slots st s))); [|discriminate].
    assert (I1 : InvP (set_slot st s (sl_writer (slots st s) false false false))).
    { intro s'. rst. slot_cases s' s E; [|apply I]. eapply slot_ok_same; [| | | |apply (I s)]; reflexivity. }
    match type of Hl with context [writer_take ?a ?b ?c] => destruct (writer_take a b c) as [st1|] eqn:T end;
      apply some_inj in Hl; subst st'.
    + pose proof (writer_take_ok _ _ _ _ I1 T) as I2. intro s'. apply (I2 s').
    + intro s'. rst. rewrite upd_same. slot_cases s' s E; [|apply I].
      rst. eapply slot_ok_same; [| | | |apply (I s)]; reflexivity.
  - destruct (rpc st); try discriminate. destruct (rlock _); [discriminate|].
    destruct (Nat.eqb _ 2); apply some_inj in Hl; subst st'; intro s'; rst.
    + match goal with |- context [upd _ ?s _ s'] => slot_cases s' s E; [|apply I] end.
      unfold slot_ok, trip. rst. split; [reflexivity|intro X; congruence].
    + match goal with |- context [upd _ ?s _ s'] => slot_cases s' s E; [|apply I] end.
      eapply slot_ok_same; [| | | |apply I]; reflexivity.
  - destruct (rpc st) as [|s [i|]|]; try discriminate. destruct (memb p (wt (slots st s))); [|discriminate].
    apply some_inj in Hl. subst st'. intro s'. rst. slot_cases s' s E; [|apply I].
    eapply slot_ok_same; [| | | |apply (I s)]; reflexivity.
  - destruct (rpc st) as [|s [i|]|]; try discriminate. apply some_inj in Hl. subst st'. intro s'. rst.
    slot_cases s' s E; [|apply I]. eapply slot_ok_same; [| | | |apply (I s)]; reflexivity.
  - destruct (rpc st) as [| |s]; try discriminate. destruct o as [p|].
    + destruct (memb p (parked1 (slots st s))); [|discriminate]. apply some_inj in Hl. subst st'. intro s'. rst.
      slot_cases s' s E; [|apply I]. eapply slot_ok_same; [| | | |apply (I s)]; reflexivity.
    + destruct (is_nil _); [|discriminate]. apply some_inj in Hl. subst st'. exact I.
  - destruct (wpc st); [|discriminate]. apply some_inj in Hl. subst st'. exact I.
Qed.

Theorem invp_reachable : forall k start st, reachable k start st -> InvP st.
Proof.
  intros k start st Hr. eapply reachable_ind; [apply invp_init| |exact Hr].
  intros s0 l s1 I Hl. eapply invp_step; eassumption.
Qed.

Section Handout.
Variable k : nat.
Variable start : N.

(** a fill stores exactly what the putter supplies and records its kind *)
Theorem fill_supplies : forall st p s m st', reachable k start st -> lstep k st (PutLock p s m) = Some st' ->
  length (fillseq (slots st' s)) = S (length (fillseq (slots st s))) ->
  payload (slots st' s) = Some p /\ pm (slots st' s) = m /\ trip (slots st' s) = own p m /\
  fillseq (slots st' s) = fillseq (slots st s) ++ [p].
Proof.
  intros st p s m st' Hr Hl Hlen. pose proof (invp_reachable _ _ _ Hr) as I. cbn [lstep] in Hl.
  destruct (negb (rlock (slots st s)) && (memb p (tk (slots st s)) || memb p (woken1 (slots st s)))); [|discriminate].
  set (x := slots st s) in *.
  remember (if memb p (tk x) then sl_lists x (remove1 p (tk x)) (parked1 x) (woken1 x) (bc x) (wt x)
            else sl_lists x (tk x) (parked1 x) (remove1 p (woken1 x)) (bc x) (wt x)) as x1 eqn:Ex1.
  assert (X1 : slot_ok x1 /\ mark x1 = mark x /\ fillseq x1 = fillseq x).
  { subst x1. destruct (memb p (tk x)); (split; [eapply slot_ok_same; [| | | |apply (I s)]; reflexivity|split; reflexivity]). }
  destruct X1 as (O1 & M1 & F1). clear Ex1.
  destruct (Nat.eqb (mark x1) 0) eqn:Hm; apply some_inj in Hl; subst st'; rst; rewrite upd_same in *.
  - apply Nat.eqb_eq in Hm. destruct O1 as [A _]. specialize (A Hm). destruct (trip_none _ A) as (A1 & A2 & A3).
    destruct (slept x1); unfold trip, own; rst; rewrite A1, A2, A3, F1; (repeat split; try reflexivity; destruct m; reflexivity).
  - rst. rewrite F1 in Hlen. lia.
Qed.

(** the reader is handed the own tuple of the item it completes *)
Theorem reader_handout_own : forall st st' s i, reachable k start st -> lstep k st RNext = Some st' ->
  rpc st' = RHold s (Some i) ->
  s = idx k (u32 (read2 st + 1)) /\ payload (slots st s) = Some i /\ handed k st RNext = own i (pm (slots st s)) /\
  trip (slots st' s) = (None, None, None).
Proof.
  intros st st' s i Hr Hl Hh. pose proof (invp_reachable _ _ _ Hr) as I. cbn [lstep] in Hl.
  destruct (rpc st); try discriminate. set (s0 := idx k (u32 (read2 st + 1))) in *.
  destruct (rlock (slots st s0)); [discriminate|].
  destruct (Nat.eqb (mark (slots st s0)) 2) eqn:Hm; apply some_inj in Hl; subst st'; rst; inversion Hh as [[Hs Hi]].
  apply Nat.eqb_eq in Hm. destruct (I s0) as [_ B]. destruct B as (p & B1 & B2); [lia|].
  rewrite B1 in *. cbn [handed]. fold s0. unfold trip in *. split; [reflexivity|]. split; [reflexivity|].
  split; [exact B2|]. rewrite upd_same. reflexivity.
Qed.

(** the writer is handed the own (one, multi) of the item it dequeues *)
Theorem writer_handout_own : forall st l st', reachable k start st ->
  (l = WNext \/ l = WWaitEnter \/ l = WWaitRetry) -> lstep k st l = Some st' -> n1 st' = S (n1 st) ->
  exists s i, payload (slots st s) = Some i /\ wseq st' = wseq st ++ [i] /\
    fst (handed k st l) = fst (own i (pm (slots st s))).
Proof.
  intros st l st' Hr Hlab Hl Hn. pose proof (invp_reachable _ _ _ Hr) as I.
  assert (Key : forall st0 s r1' st1, (forall s', slot_ok (slots st0 s')) -> writer_take st0 s r1' = Some st1 ->
            exists i, payload (slots st0 s) = Some i /\ wseq st1 = wseq st0 ++ [i] /\
                      (c_one (slots st0 s), c_multi (slots st0 s)) = fst (own i (pm (slots st0 s)))).
  { intros st0 s r1' st1 I0 T. apply writer_take_some in T. destruct T as [Hm T]. subst st1.
    destruct (I0 s) as [_ B]. destruct B as (p & B1 & B2); [lia|]. exists p. rst. rewrite B1. cbn [opt_list].
    split; [reflexivity|]. split; [reflexivity|]. unfold trip in B2. destruct (own p (pm (slots st0 s))) as [[a b] c] eqn:E.
    inversion B2. reflexivity. }
  destruct Hlab as [H|[H|H]]; subst l; cbn [lstep] in Hl.
  - destruct (wpc st); [|discriminate]. set (s := idx k (u32 (read1 st + 1))) in *. destruct (rlock (slots st s)); [discriminate|].
    destruct (writer_take st s (u32 (read1 st + 1))) as [st1|] eqn:T; apply some_inj in Hl; subst st'; [|lia].
    destruct (Key st s _ st1 I T) as (i & K1 & K2 & K3). exists s, i. cbn [handed fst]. fold s. auto.
  - destruct (wpc st); [|discriminate]. set (s := idx k (u32 (read1 st + 1))) in *. destruct (rlock (slots st s)); [discriminate|].
    destruct (writer_take st s (u32 (read1 st + 1))) as [st1|] eqn:T; apply some_inj in Hl; subst st'; [|rst; lia].
    destruct (Key st s _ st1 I T) as (i & K1 & K2 & K3). exists s, i. cbn [handed fst]. fold s. auto.
  - destruct (wpc st) as [|s] eqn:Hw; [discriminate|]. destruct (wwoken (slots st s) && negb (rlock (slots st s))); [|discriminate].
    match type of Hl with context [writer_take ?a ?b ?c] => destruct (writer_take a b c) as [st1|] eqn:T end;
      apply some_inj in Hl; subst st'; [|rst; lia].
    match type of T with writer_take ?a _ _ = _ => assert (I1 : forall s', slot_ok (slots a s')) end.
    { intro s'. rst. slot_cases s' s E; [|apply I]. eapply slot_ok_same; [| | | |apply (I s)]; reflexivity. }
    destruct (Key _ s _ st1 I1 T) as (i & K1 & K2 & K3). rst. rewrite upd_same in *. rst.
    exists s, i. cbn [handed fst]. rewrite Hw. auto.
Qed.

End Handout.
