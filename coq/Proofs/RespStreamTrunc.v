(** streamTo on a TRUNCATED counted string: every strict prefix of the reply is reported unclean,
    with an error (the connection must not be recycled). *)
From Coq Require Import List Arith NArith ZArith Bool Lia ZifyN ZifyNat ZifyBool.
Require Import RV.Model.Base RV.Model.RespWrite RV.Model.RespStream.
Require Import RV.Proofs.BinaryProofs RV.Proofs.RespWriteProofs RV.Proofs.RespIOProofs RV.Proofs.RespBaseProofs
               RV.Proofs.RespScalarProofs RV.Proofs.RespRoundtrip RV.Proofs.RespStreamProofs RV.Proofs.RespStreamCounted
               RV.Proofs.RespStreamChunks RV.Proofs.RespSafetyBase RV.Proofs.RespStreamSafety.
Import ListNotations.
Open Scope N_scope.

Definition unclean (o : sout) : Prop := snd o = false /\ snd (fst o) <> SNone.

Section Trunc.
Variable B : nat.
Hypothesis HB : (32 <= B)%nat.

(** a line cut before its LF cannot be read *)
Lemma find_lf_firstn_none (l : bytes) j : find_lf l = Some (length l - 1)%nat -> (j < length l)%nat -> find_lf (firstn j l) = None.
Proof.
  revert j; induction l as [|x l IH]; intros j H Hj; [cbn in Hj; lia|].
  destruct j as [|j]; [reflexivity|]. cbn [firstn find_lf] in *.
  destruct (x =? LFb).
  - inversion H. cbn [length] in *. destruct l; [cbn in Hj; lia|cbn in H1; lia].
  - destruct (find_lf l) as [i|] eqn:E; [|discriminate]. inversion H.
    assert (Hl : (1 <= length l)%nat) by (apply find_lf_lt in E; lia).
    rewrite IH; [reflexivity| |cbn [length] in Hj; lia]. f_equal. cbn [length] in *. lia.
Qed.

Lemma runw_read_i_cut (line : bytes) j w : find_lf line = Some (length line - 1)%nat -> (j < length line)%nat ->
  exists e s', runw B read_i (firstn j line) w = (Err e, s', w) /\ e <> eChunked.
Proof.
  intros Hl Hj.
  pose proof (find_lf_firstn_none line j Hl Hj) as Hn.
  destruct (runw B read_i (firstn j line) w) as [[r s'] w'] eqn:E.
  apply (runw_reader_run B read_i _ w r s' w' ro_read_i) in E as (al' & E & ->).
  unfold read_i, bindr in E. rewrite run_bind, run_do_op in E. cbn [flat_step fst snd meter] in E.
  assert (Hn' : find_lf (firstn B (firstn j line)) = None).
  { destruct (find_lf (firstn B (firstn j line))) as [i|] eqn:Ei; [|reflexivity].
    rewrite <- (firstn_skipn B (firstn j line)) in Hn. now rewrite (find_lf_app_some _ _ _ Ei) in Hn. }
  rewrite Hn' in E. destruct (B <=? length (firstn j line))%nat; cbn [fst snd run] in E; inversion E; subst;
    eexists _, _; split; try reflexivity; discriminate.
Qed.


Lemma hdr_find_lf n : find_lf (dec n ++ crlf) = Some (length (dec n ++ crlf) - 1)%nat.
Proof.
  pose proof (find_lf_line (dec n) [] (no_lf_digits _ (dec_digits n))) as H. rewrite !app_nil_r in H.
  rewrite H. f_equal. rewrite app_length. cbn. lia.
Qed.

Lemma runw_discard_short k s w : (0 <= k)%Z -> blen s < Z.to_N k ->
  runw B (do_op (ODiscard k)) s w = (Err eEOF, [], w).
Proof.
  intros Hk Hs. rewrite runw_do_op. cbn [flatw_step flat_step].
  destruct (Z.ltb_spec k 0); [lia|]. destruct (N.leb_spec (Z.to_N k) (blen s)); [lia|]. reflexivity.
Qed.

(** io.Copy when the stream ends inside the payload, with a writer that does not fail *)
Lemma runw_copy_out_short n (s1 : bytes) w : unlimited w -> blen s1 < n ->
  exists w', runw B (do_op (OCopyOut n)) s1 w = (Ok s1, [], w') /\ w_failed w' = false.
Proof.
  intros Hw Hn. rewrite runw_do_op. cbn [flatw_step].
  destruct (N.leb_spec n (blen s1)); [lia|].
  destruct s1 as [|b l]; [eexists; split; reflexivity|].
  destruct (unlimited_write w (b :: l) Hw) as (Ea & Ef & _ & _). unfold accepted in Ea.
  destruct (w_write w (b :: l)) as [d w'] eqn:Ew. cbn [fst snd] in *. subst d.
  exists w'. split; [|exact Ef]. now rewrite skipn_all.
Qed.

(** io.Copy when the stream ends inside the payload, with ANY writer: what was accepted is a prefix of what
    was available, and what was available but not accepted is still on the stream *)
Lemma runw_copy_out_short_any n (s1 : bytes) w : blen s1 < n ->
  exists d s2 w', runw B (do_op (OCopyOut n)) s1 w = (Ok d, s2, w') /\ (length d + length s2 = length s1)%nat.
Proof.
  intros Hn. rewrite runw_do_op. cbn [flatw_step].
  destruct (N.leb_spec n (blen s1)); [lia|].
  destruct s1 as [|b l]; [eexists _, _, _; split; reflexivity|].
  pose proof (accepted_len w (b :: l)) as Hd. unfold accepted in Hd.
  destruct (w_write w (b :: l)) as [d w'] eqn:Ew. cbn [fst] in Hd.
  eexists _, _, _. split; [reflexivity|]. rewrite skipn_length. lia.
Qed.

Definition err_unclean (n : Z) (e : N) : sout := (n, SErr e, false).

(** the end of streamTo's string branch when fewer bytes are left than it wants to discard *)
Lemma runw_finish_short written e left (s1 : bytes) w1 : (0 <= left)%Z -> blen s1 < Z.to_N left -> e <> SPanic ->
  unclean (fst (fst (runw B (bind (do_op (ODiscard left)) (fun r : result bytes =>
        match r return prog sout with
        | Ok _ => Ret (written, e, true)
        | Err e2 => Ret (written, match e with SNone => SErr e2 | _ => e end, false)
        | Panic => Ret (written, SPanic, false)
        end)) s1 w1))).
Proof.
  intros Hl Hs He. rewrite (runw_bind_eq B _ _ _ _ _ _ _ (runw_discard_short left s1 w1 Hl Hs)).
  cbn. unfold unclean. cbn. split; [reflexivity|]. destruct e; try discriminate; congruence.
Qed.

Theorem stream_counted_trunc f t s k w :
  (t = tBlobString \/ t = tVerbatim) -> (zlen s + 2 < two63)%Z ->
  (k < length (enc (VBlob t s)))%nat ->
  unclean (fst (fst (runw B (stream_to (S f)) (firstn k (enc (VBlob t s))) w))).
Proof.
  intros Ht Hlen Hk.
  assert (Hkb : k_stream_blob t = true) by (destruct Ht; subst; reflexivity).
  assert (Hnc : (t =? tChunk) = false) by (destruct Ht; subst; reflexivity).
  assert (Es : enc (VBlob t s) = t :: (dec (blen s) ++ crlf) ++ s ++ crlf).
  { cbn [enc app]. rewrite <- ?app_assoc. reflexivity. }
  rewrite Es in *. set (hdr := dec (blen s) ++ crlf) in *.
  destruct k as [|k'].
  - (* nothing arrived *)
    cbn [firstn]. rewrite stream_to_S, runw_bind, runw_do_op. cbn. unfold unclean. cbn. split; [reflexivity|discriminate].
  - cbn [firstn]. rewrite runw_stream_cons_blob by assumption.
    cbn [length] in Hk. rewrite !app_length in Hk. cbn [crlf length] in Hk.
    destruct (Nat.lt_ge_cases k' (length hdr)) as [Hh|Hh].
    + (* cut inside the length line *)
      rewrite firstn_app_short by lia.
      destruct (runw_read_i_cut hdr k' w (hdr_find_lf (blen s)) Hh) as (e & s' & E & Hne).
      rewrite (runw_bind_eq B _ _ _ _ _ _ _ E).
      apply N.eqb_neq in Hne. rewrite Hne. cbn. unfold unclean. cbn. split; [reflexivity|discriminate].
    + (* the length line is complete *)
      rewrite firstn_app, firstn_all2 by lia.
      set (j := (k' - length hdr)%nat). assert (Hj : (j < length s + 2)%nat) by (unfold j, hdr in *; lia).
      unfold hdr. rewrite <- app_assoc.
      assert (Hb : (Z.of_N (blen s) < two63)%Z) by (unfold blen, zlen in *; lia).
      rewrite (runw_bind_eq B _ _ _ _ _ _ _ (runw_read_i_nat B (blen s) _ w HB Hb)).
      replace (Z.of_N (blen s)) with (zlen s) by (unfold blen, zlen; lia).
      unfold stream_blob.
      destruct (Z.eqb_spec (zlen s) (-1)) as [Hx|_]; [unfold zlen in Hx; lia|].
      destruct (list_eq_dec N.eq_dec s []) as [->|Hne].
      * (* empty payload, cut inside the final CRLF *)
        change (zlen (@nil N)) with 0%Z. cbn [Z.eqb negb app]. rewrite Hnc.
        rewrite (runw_bind_eq B _ _ _ _ _ _ _ (runw_discard_short 2 (firstn j crlf) w ltac:(lia)
                   ltac:(unfold blen; rewrite firstn_length; cbn [length] in *; lia))).
        cbn. unfold unclean. cbn. split; [reflexivity|discriminate].
      * destruct (Z.eqb_spec (zlen s) 0) as [Hx|_]; [destruct s; [congruence|unfold zlen in Hx; cbn [length] in Hx; lia]|].
        cbn [negb].
        replace (Z.to_N (zlen s)) with (blen s) by (unfold blen, zlen; lia).
        destruct (Nat.lt_ge_cases j (length s)) as [Hjs|Hjs].
        -- (* cut inside the payload: whatever the writer does, more is to be discarded than is left *)
           rewrite firstn_app_short by lia.
           destruct (runw_copy_out_short_any (blen s) (firstn j s) w) as (d & s2 & w' & E & Hds).
           { unfold blen. rewrite firstn_length. lia. }
           rewrite firstn_length in Hds.
           rewrite (runw_bind_eq B _ _ _ _ _ _ _ E).
           rewrite (runw_bind_eq B _ _ _ _ _ _ _ (runw_writer_err B _ w')).
           rewrite (wrap64_small_z (zlen s - zlen d + 2)) by (unfold zlen, two63 in *; lia).
           apply runw_finish_short; [unfold zlen; lia|unfold blen, zlen; lia|destruct (w_failed w'); discriminate].
        -- (* payload complete, cut inside the final CRLF *)
           rewrite firstn_app, firstn_all2 by lia.
           rewrite (runw_bind_eq B _ _ _ _ _ _ _ (runw_copy_out B s _ w Hne)).
           pose proof (accepted_len w s) as Hd. set (d := accepted w s) in *.
           rewrite (runw_bind_eq B _ _ _ _ _ _ _ (runw_writer_err B _ (snd (w_write w s)))).
           rewrite (wrap64_small_z (zlen s - zlen d + 2)) by (unfold zlen, two63 in *; lia).
           apply runw_finish_short; [unfold zlen; lia| |destruct (w_failed (snd (w_write w s))); discriminate].
           unfold blen, zlen. rewrite app_length, skipn_length, firstn_length. cbn [crlf length]. lia.
Qed.

End Trunc.
