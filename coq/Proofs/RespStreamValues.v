(** streamTo on every kind of reply that goes through readNextMessage (simple strings, doubles, big
    numbers, integers, booleans, nulls, errors, pushes, aggregates) and on RESP2 nulls of string type. *)
From Coq Require Import List Arith NArith ZArith Bool Lia ZifyN ZifyNat ZifyBool.
Require Import RV.Model.Base RV.Model.RespWrite RV.Model.RespStream.
Require Import RV.Proofs.RespIOProofs RV.Proofs.RespScalarProofs RV.Proofs.RespRoundtrip RV.Proofs.RespStreamProofs
               RV.Proofs.RespStreamCounted.
Import ListNotations.
Open Scope N_scope.

Section Values.
Variable B : nat.
Hypothesis HB : (32 <= B)%nat.

Definition wres (w : wstate) (d : bytes) : sout :=
  (zlen (accepted w d), (if w_failed (snd (w_write w d)) then SErr eWriter else SNone), true).

(** +simple, ,double, (big number: the line is written *)
Theorem stream_line f t s rest w :
  (t = tSimpleString \/ t = tFloat \/ t = tBigNumber) -> no_lf s = true ->
  runw B (stream_to (S f)) (enc (VLine t s) ++ rest) w = (wres w s, rest, snd (w_write w s)).
Proof.
  intros Ht Hs.
  assert (Hwf : wf (VLine t s) = true) by (cbn [wf]; rewrite Hs; destruct Ht as [->|[->| ->]]; reflexivity).
  rewrite (runw_stream_default B HB f (VLine t s) t (s ++ crlf) rest w Hwf);
    [|cbn; lia|reflexivity|destruct Ht as [->|[->| ->]]; reflexivity].
  assert (E : stream_msg (stream_to f) (Ok (abs (VLine t s))) = write_out s)
    by (destruct Ht as [->|[->| ->]]; reflexivity).
  rewrite E. apply runw_write_out.
Qed.

(** :integer and #bool: the decimal numeral of the value is written *)
Theorem stream_int f i rest w : in_i64 i ->
  runw B (stream_to (S f)) (enc (VInt i) ++ rest) w = (wres w (decZ i), rest, snd (w_write w (decZ i))).
Proof.
  intros Hi.
  assert (Hwf : wf (VInt i) = true) by (cbn [wf]; unfold in_i64b, in_i64 in *; lia).
  rewrite (runw_stream_default B HB f (VInt i) tInteger (decZ i ++ crlf) rest w Hwf); [|cbn; lia|reflexivity|reflexivity].
  change (stream_msg (stream_to f) (Ok (abs (VInt i)))) with (write_out (decZ i)). apply runw_write_out.
Qed.

Theorem stream_bool f (b : bool) rest w :
  let d := if b then [49] else [48] in
  runw B (stream_to (S f)) (enc (VBool b) ++ rest) w = (wres w d, rest, snd (w_write w d)).
Proof.
  cbv zeta.
  rewrite (runw_stream_default B HB f (VBool b) tBool ([if b then 116 else 102] ++ crlf) rest w eq_refl);
    [|cbn; lia|reflexivity|reflexivity].
  destruct b; apply runw_write_out.
Qed.

(** nulls of every encoding become rueidis.Nil; nothing is written; the reply is consumed *)
Theorem stream_null f t rest w : is_null_type t = true ->
  runw B (stream_to (S f)) (enc (VNull t) ++ rest) w = ((0%Z, SNil, true), rest, w).
Proof.
  intros Ht.
  destruct (k_stream_blob t) eqn:Hk.
  - (* $-1 and =-1 are seen by streamTo itself *)
    assert (Hne : (t =? tNull) = false).
    { unfold is_null_type in Ht. repeat (apply orb_true_iff in Ht; destruct Ht as [Ht|Ht]); apply N.eqb_eq in Ht; subst; try discriminate Hk; reflexivity. }
    cbn [enc]. rewrite Hne. change (([t; 45; 49] ++ crlf) ++ rest) with (t :: [45; 49] ++ crlf ++ rest).
    rewrite runw_stream_cons_blob by assumption.
    rewrite (runw_bind_eq B _ _ _ _ _ _ _ (runw_read_i_minus1 B rest w HB)). reflexivity.
  - destruct (enc_cons (VNull t)) as (t0 & s0 & E0).
    assert (Et : t0 = t) by (cbn [enc] in E0; destruct (t =? tNull) eqn:En; [apply N.eqb_eq in En; subst|]; cbn [app] in E0; congruence).
    subst t0.
    rewrite (runw_stream_default B HB f (VNull t) t s0 rest w Ht); [reflexivity|cbn; lia|assumption|assumption].
Qed.

(** -error and !blob error (counted or streamed) become a RedisError carrying the decoded message *)
Theorem stream_error f v rest w : wf v = true -> (cost v <= S f)%nat ->
  (m_typ (abs v) = tSimpleErr \/ m_typ (abs v) = tBlobErr) ->
  (forall t s, enc v = t :: s -> k_stream_blob t = false) ->
  runw B (stream_to (S f)) (enc v ++ rest) w = ((0%Z, SRedis (abs v), true), rest, w).
Proof.
  intros Hwf Hf Ht Hk. destruct (enc_cons v) as (t0 & s0 & E0).
  rewrite (runw_stream_default B HB f v t0 s0 rest w Hwf Hf E0 (Hk _ _ E0)).
  unfold stream_msg. destruct Ht as [-> | ->]; reflexivity.
Qed.

(** pushes are skipped *)
Theorem stream_push f st l s w : wf (VAgg tPush st l) = true -> (cost (VAgg tPush st l) <= S f)%nat ->
  runw B (stream_to (S f)) (enc (VAgg tPush st l) ++ s) w = runw B (stream_to f) s w.
Proof.
  intros Hwf Hf. destruct (enc_cons (VAgg tPush st l)) as (t0 & s0 & E0).
  assert (Et : t0 = tPush) by (cbn [enc] in E0; rewrite (agg_header_cons tPush st (length l)) in E0; cbn [app] in E0; congruence).
  subst t0.
  rewrite (runw_stream_default B HB f _ tPush s0 s w Hwf Hf E0 eq_refl). reflexivity.
Qed.

(** any other aggregate is refused, but consumed completely *)
Theorem stream_aggregate f t st l rest w : (t = tArray \/ t = tSet \/ t = tMap) ->
  wf (VAgg t st l) = true -> (cost (VAgg t st l) <= S f)%nat ->
  runw B (stream_to (S f)) (enc (VAgg t st l) ++ rest) w = ((0%Z, SErr eUnsupported, true), rest, w).
Proof.
  intros Ht Hwf Hf. destruct (enc_cons (VAgg t st l)) as (t0 & s0 & E0).
  assert (Et : t0 = t) by (cbn [enc] in E0; rewrite (agg_header_cons t st (length l)) in E0; cbn [app] in E0; congruence).
  subst t0.
  rewrite (runw_stream_default B HB f _ t s0 rest w Hwf Hf E0); [|destruct Ht as [->|[->| ->]]; reflexivity].
  destruct Ht as [->|[->| ->]]; reflexivity.
Qed.

End Values.
