(** Invariants of the pool LTS, proved for every configuration that follows the repaired code
    ([skip_uncounted], [locked_bcast]), every capacity and every schedule. *)
From Coq Require Import List NArith ZArith Bool Arith Lia.
Require Import RV.Model.Base RV.Model.Pool RV.Proofs.PoolBase.
Import ListNotations.
Open Scope Z_scope.

Ltac st := cbn [size idle down timer_on tarmed mutex parked woken making exiting entered cancellable armed
                ctxdone bpend held broken nostop used sigs cbc dstores
                upd_threads upd_wires upd_misc set_eval hand_out set_mutex add_making] in *.

(** reachability *)
Definition reachable (cfg : config) (s : state) : Prop := exists sch, run cfg sch init = Some s.

Lemma run_app : forall cfg a b s, run cfg (a ++ b) s = match run cfg a s with Some s' => run cfg b s' | None => None end.
Proof.
  intros cfg a. induction a as [|l r IH]; intros b s; cbn [app run]; [reflexivity|].
  destruct (lstep cfg s l); [apply IH|reflexivity].
Qed.

Lemma reachable_ind : forall cfg (P : state -> Prop),
  P init -> (forall s l s', P s -> lstep cfg s l = Some s' -> P s') ->
  forall s, reachable cfg s -> P s.
Proof.
  intros cfg P H0 Hs s [sch Hr]. revert s Hr.
  induction sch as [|l r IH] using rev_ind; intros s Hr.
  - cbn [run] in Hr. inversion Hr; subst. exact H0.
  - rewrite run_app in Hr. destruct (run cfg r init) as [s1|] eqn:E; [|discriminate].
    cbn [run] in Hr. destruct (lstep cfg s1 l) as [s2|] eqn:E2; [|discriminate].
    inversion Hr; subst. eapply Hs; [apply IH; reflexivity|exact E2].
Qed.

Lemma reachable_step : forall cfg s l s', reachable cfg s -> lstep cfg s l = Some s' -> reachable cfg s'.
Proof.
  intros cfg s l s' [sch Hr] Hl. exists (sch ++ [l]). rewrite run_app, Hr. cbn [run]. rewrite Hl. reflexivity.
Qed.

(** ---- accounting ---- *)

Record Inv1 (cfg : config) (s : state) : Prop := {
  i1_size : size s = Z.of_nat (live s) - Z.of_nat (dstores s);
  i1_cap : Z.of_nat (live s) <= cap cfg;
  i1_down : down s = false -> dstores s = 0%nat /\ ~ In DeadDown (held s);
  i1_mutex : forall t, mutex s = Some t -> idle s = [] /\ size s = cap cfg /\ down s = false
}.

Lemma inv1_init : forall cfg, 0 <= cap cfg -> Inv1 cfg init.
Proof.
  intros cfg Hc. constructor; cbn; try lia; try tauto; try discriminate.
Qed.

Lemma live_unfold : forall s, live s = (count_counted (held s) + length (idle s) + length (making s))%nat.
Proof. reflexivity. Qed.

Lemma inv1_acquire_eval : forall cfg t s, Inv1 cfg s -> mutex s = None -> Inv1 cfg (acquire_eval cfg t s).
Proof.
  intros cfg t s I Hm. unfold acquire_eval.
  destruct (eval cfg (down s) (memb t (ctxdone s)) (broken s) (nostop s) (idle s) (size s)) as [[[o l'] sz'] cl] eqn:E.
  apply eval_spec in E. destruct E as (E1 & E2 & E3 & E4).
  destruct I as [I1 I2 I3 I4]. rewrite live_unfold in I1, I2.
  assert (Hlen : length (idle s) = (length cl + length (ogot o) + length l')%nat).
  { rewrite E1 at 1. rewrite !app_length. lia. }
  destruct o; cbn [ogot length] in Hlen.
  - (* OPark *) destruct E4 as (F1 & F2 & F3 & F4). subst l'. cbn [length] in Hlen.
    constructor; unfold live; st.
    + cbn [length]. lia.
    + cbn [length]. lia.
    + exact I3.
    + intros u Hu. repeat split; [lia|exact F3].
  - (* OCtxDead *) rewrite (E3 (or_intror E4)) in *. cbn [length app] in *.
    constructor; unfold live; st; cbn [count_counted counted].
    + lia.
    + lia.
    + intros Hd. destruct (I3 Hd) as [D1 D2]. split; [exact D1|]. cbn [In]. intros [X|X]; [discriminate|tauto].
    + discriminate.
  - (* ODown *) destruct E4 as [F1 F2]. rewrite (E3 (or_introl F1)) in *. cbn [length app] in *.
    constructor; unfold live; st; cbn [count_counted counted].
    + lia.
    + lia.
    + rewrite F1. discriminate.
    + discriminate.
  - (* OMake *) destruct E4 as (F1 & F2 & F3 & F4). subst l'. cbn [length] in Hlen.
    destruct (I3 F2) as [D1 D2].
    constructor; unfold live; st; cbn [length].
    + lia.
    + lia.
    + intros _. split; [exact D1|exact D2].
    + discriminate.
  - (* OGot *) destruct E4 as (F1 & F2 & F3 & F4).
    constructor; unfold live; st; cbn [count_counted counted].
    + lia.
    + lia.
    + intros Hd. destruct (I3 Hd) as [D1 D2]. split; [exact D1|]. cbn [In]. intros [X|X]; [discriminate|tauto].
    + discriminate.
Qed.

Lemma mutex_free_true : forall s, mutex_free s = true -> mutex s = None.
Proof. intros s. unfold mutex_free. destruct (mutex s); [discriminate|reflexivity]. Qed.

Lemma inv1_step : forall cfg s l s', skip_uncounted cfg = true ->
  Inv1 cfg s -> lstep cfg s l = Some s' -> Inv1 cfg s'.
Proof.
  intros cfg s l s' Hskip I Hl. destruct l; cbn [lstep] in Hl.
  - (* AcqEnter *)
    destruct (mutex_free s && negb (memb t (entered s)) && (c || negb (memb t (ctxdone s)))) eqn:G; [|discriminate].
    inversion Hl; subst s'. apply andb_true_iff in G. destruct G as [G G3]. apply andb_true_iff in G. destruct G as [G1 G2].
    apply inv1_acquire_eval; [|st; apply mutex_free_true; exact G1].
    destruct I as [I1 I2 I3 I4]. constructor; unfold live in *; st; assumption.
  - (* AcqPark *)
    destruct (mutex s) as [u|] eqn:Hm; [|discriminate]. destruct (Nat.eqb t u); [|discriminate].
    inversion Hl; subst s'. destruct I as [I1 I2 I3 I4]. constructor; unfold live in *; st; try assumption. discriminate.
  - (* AcqWake *)
    destruct (mutex_free s && memb t (woken s)) eqn:G; [|discriminate]. apply andb_true_iff in G. destruct G as [G1 G2].
    inversion Hl; subst s'. apply inv1_acquire_eval; [|st; apply mutex_free_true; exact G1].
    destruct I as [I1 I2 I3 I4]. constructor; unfold live in *; st; assumption.
  - (* MakeOk *)
    destruct (memb t (making s)) eqn:G; [|discriminate]. pose proof (remove1_length _ _ G) as Hlen.
    destruct I as [I1 I2 I3 I4]. unfold live in *.
    destruct id as [id|].
    + destruct (memb id (used s)); [discriminate|]. inversion Hl; subst s'.
      constructor; unfold live; st; cbn [count_counted counted]; try lia; try assumption.
      intros Hd. destruct (I3 Hd) as [D1 D2]. split; [exact D1|]. cbn [In]. intros [X|X]; [discriminate|tauto].
    + inversion Hl; subst s'.
      constructor; unfold live; st; cbn [count_counted counted]; try lia; try assumption.
      intros Hd. destruct (I3 Hd) as [D1 D2]. split; [exact D1|]. cbn [In]. intros [X|X]; [discriminate|tauto].
  - (* MakeBad *)
    destruct (mutex_free s && memb t (making s) && negb (memb id (used s))) eqn:G; [|discriminate].
    apply andb_true_iff in G. destruct G as [G G3]. apply andb_true_iff in G. destruct G as [G1 G2].
    inversion Hl; subst s'. pose proof (remove1_length _ _ G2) as Hlen.
    apply inv1_acquire_eval; [|st; apply mutex_free_true; exact G1].
    destruct I as [I1 I2 I3 I4]. unfold live in *. apply mutex_free_true in G1.
    constructor; unfold live; st; try lia; try assumption.
    intros u Hu. rewrite G1 in Hu. discriminate.
  - (* AcqReturn *)
    destruct (memb t (exiting s)); [|discriminate]. inversion Hl; subst s'.
    destruct I as [I1 I2 I3 I4]. constructor; unfold live in *; st; assumption.
  - (* CtxCancel *)
    destruct (negb (memb t (ctxdone s)) && (negb (memb t (entered s)) || memb t (cancellable s))); [|discriminate].
    inversion Hl; subst s'. destruct I as [I1 I2 I3 I4]. constructor; unfold live in *; st; assumption.
  - (* Bcast *)
    destruct (memb t (bpend s) && (negb (locked_bcast cfg) || mutex_free s)); [|discriminate].
    inversion Hl; subst s'. destruct I as [I1 I2 I3 I4]. constructor; unfold live in *; st; assumption.
  - (* Store *)
    destruct (wmemb w (held s) && mutex_free s) eqn:G; [|discriminate]. apply andb_true_iff in G. destruct G as [G1 G2].
    apply mutex_free_true in G2.
    pose proof (count_counted_remove _ _ G1) as Hc.
    destruct I as [I1 I2 I3 I4]. unfold live in *.
    assert (HDD : forall x, In DeadDown (wremove1 x (held s)) -> In DeadDown (held s)) by (intros x; apply wremove1_In).
    destruct (if down s then None else is_real_ok s w) as [id|] eqn:E.
    + destruct (down s) eqn:Hd; [discriminate|]. unfold is_real_ok in E. destruct w as [j| | |]; try discriminate.
      destruct (memb j (broken s)); [discriminate|]. inversion E; subst j. inversion Hl; subst s'.
      cbn [counted] in Hc. destruct (I3 eq_refl) as [D1 D2].
      constructor; unfold live; st; cbn [length]; try lia.
      * intros _. split; [exact D1|]. intro X. apply D2. apply HDD in X. exact X.
      * rewrite G2. discriminate.
    + inversion Hl; subst s'. clear Hl.
      constructor; unfold live; st.
      * destruct w as [j| | |]; cbn [counted wire_eqb andb] in *; try rewrite Hskip; cbn [andb]; try lia.
      * destruct w as [j| | |]; cbn [counted] in Hc; lia.
      * intros Hd. destruct (I3 Hd) as [D1 D2]. destruct w as [j| | |].
        -- split; [exact D1|]. intro X. apply D2. apply HDD in X. exact X.
        -- split; [exact D1|]. intro X. apply D2. apply HDD in X. exact X.
        -- exfalso. apply D2. apply wmemb_In. exact G1.
        -- split; [exact D1|]. intro X. apply D2. apply HDD in X. exact X.
      * rewrite G2. discriminate.
  - (* Signal *)
    destruct (sigs s) as [|k]; [discriminate|]. destruct o as [u|].
    + destruct (memb u (parked s)); [|discriminate]. inversion Hl; subst s'.
      destruct I as [I1 I2 I3 I4]. constructor; unfold live in *; st; assumption.
    + destruct (is_nil (parked s)); [|discriminate]. inversion Hl; subst s'.
      destruct I as [I1 I2 I3 I4]. constructor; unfold live in *; st; assumption.
  - (* CloseCS *)
    destruct (mutex_free s) eqn:G; [|discriminate]. apply mutex_free_true in G. inversion Hl; subst s'.
    destruct I as [I1 I2 I3 I4]. constructor; unfold live in *; st; try assumption; try discriminate.
    rewrite G. discriminate.
  - (* CloseBcast *)
    destruct (cbc s) as [|k]; [discriminate|]. inversion Hl; subst s'.
    destruct I as [I1 I2 I3 I4]. constructor; unfold live in *; st; assumption.
  - (* IdleCleanup *)
    destruct (mutex_free s && tarmed s) eqn:G; [|discriminate]. apply andb_true_iff in G. destruct G as [G1 G2].
    apply mutex_free_true in G1. inversion Hl; subst s'.
    destruct I as [I1 I2 I3 I4]. unfold live in *.
    constructor; unfold live; st; try assumption.
    + rewrite skipn_length. lia.
    + rewrite skipn_length. lia.
    + rewrite G1. discriminate.
  - (* WBreak *)
    destruct (memb id (used s)); [|discriminate]. inversion Hl; subst s'.
    destruct I as [I1 I2 I3 I4]. constructor; unfold live in *; st; assumption.
  - (* WExpire *)
    destruct (memb id (used s)); [|discriminate]. inversion Hl; subst s'.
    destruct I as [I1 I2 I3 I4]. constructor; unfold live in *; st; assumption.
Qed.

Theorem inv1_reachable : forall cfg s, skip_uncounted cfg = true -> 0 <= cap cfg -> reachable cfg s -> Inv1 cfg s.
Proof.
  intros cfg s Hs Hc Hr. eapply reachable_ind; [apply inv1_init; exact Hc| |exact Hr].
  intros s0 l s1 I Hl. eapply inv1_step; eassumption.
Qed.
