(** Multi-key helpers: every key maps to its own reply, the key set is exact (C31). *)
From Coq Require Import String Ascii.
From Coq Require Import List Arith NArith ZArith Bool Lia.
Require Import RV.Model.Base RV.Model.CacheBatch RV.Model.Helpers.
Require Import RV.Proofs.CacheBatchBase RV.Proofs.CacheBatchHelper.
Import ListNotations.
Open Scope nat_scope.

Definition key_dec : forall a b : key, {a = b} + {a <> b} := list_eq_dec N.eq_dec.

Lemma NoDup_snoc {A} (l : list A) x : NoDup l -> ~ In x l -> NoDup (l ++ [x]).
Proof.
  induction 1 as [|a l Ha Hl IH]; intro Hx; cbn [app]; [constructor; [intros []|constructor]|].
  constructor.
  - intro H. apply in_app_or in H as [H|[<-|[]]]; [contradiction|]. apply Hx. now left.
  - apply IH. intro H. apply Hx. now right.
Qed.

(** ** maps built by repeated assignment *)

Definition set_keys {B} (f : key -> B) (ks : list key) (m : list (key * B)) : list (key * B) :=
  fold_left (fun m k => kv_set k (f k) m) ks m.

Lemma set_keys_get {B} (f : key -> B) ks : forall m k,
  kv_get k (set_keys f ks m) = if in_dec key_dec k ks then Some (f k) else kv_get k m.
Proof.
  induction ks as [|x ks IH]; intros m k; [reflexivity|].
  cbn [set_keys fold_left]. fold (set_keys f ks (kv_set x (f x) m)). rewrite IH.
  destruct (in_dec key_dec k ks) as [Hi|Hn]; destruct (in_dec key_dec k (x :: ks)) as [Hi'|Hn']; try reflexivity.
  - exfalso. apply Hn'. now right.
  - destruct Hi' as [->|Hi']; [apply kv_get_set_same|contradiction].
  - apply kv_get_set_other. intro E; subst. apply Hn'. now left.
Qed.

Lemma set_all_get {B} ks (v : B) k : kv_get k (set_all ks v) = if in_dec key_dec k ks then Some v else None.
Proof. unfold set_all. exact (set_keys_get (fun _ => v) ks [] k). Qed.

(** ** arrayToKV *)

Lemma array_to_kv_spec (f : key -> msg) keys : forall m,
  array_to_kv m (map f keys) keys = Ok (set_keys f keys m).
Proof. induction keys as [|k keys IH]; intro m; cbn [map array_to_kv set_keys fold_left]; [reflexivity|apply IH]. Qed.

(** more results than keys is the only way to panic; fewer leave the remaining keys unbound *)
Lemma array_to_kv_no_panic arr : forall keys m, length arr <= length keys -> array_to_kv m arr keys <> Panic.
Proof.
  induction arr as [|v arr IH]; intros keys m Hl; cbn [array_to_kv]; [discriminate|].
  destruct keys as [|k keys]; [cbn in Hl; lia|]. apply IH. cbn in Hl. lia.
Qed.

(** ** MGet / JsonMGet on a single, standalone or sentinel client *)

Section Single.
  Variable srv : argv -> msg.
  Variable get : key -> msg.

  Lemma client_mget_spec cmd keys :
    srv cmd = arr (map get keys) ->
    client_mget srv cmd keys = Ok (inl (set_keys get keys [])).
  Proof.
    intro H. unfold client_mget, do_cmd, to_array. cbn [r_err new_result r_val]. rewrite H.
    cbn [arr m_typ m_vals]. cbn [N.eqb tArr Pos.eqb orb]. now rewrite array_to_kv_spec.
  Qed.
End Single.

(** ** slot -> command maps (internal/cmds) and the grouping loop of clusterMGet *)

Section Slots.
  Variable slot_of : key -> N.
  Variable head : bytes.

  Definition in_slot (s : N) (k : key) : bool := N.eqb (slot_of k) s.

  Lemma assoc_cmd_append s t a m :
    assoc_N s (cmd_append t head a m)
    = if N.eqb s t then Some (match assoc_N t m with Some c => c ++ a | None => head :: a end) else assoc_N s m.
  Proof.
    induction m as [|[u c] m IH]; cbn [cmd_append assoc_N].
    - destruct (N.eqb s t); reflexivity.
    - destruct (N.eqb_spec t u) as [->|Htu]; cbn [assoc_N]; destruct (N.eqb_spec s u) as [->|Hsu];
        rewrite ?N.eqb_refl; try reflexivity.
      + destruct (N.eqb_spec u t); [congruence|reflexivity].
      + exact IH.
  Qed.

  Lemma cmd_append_keys t a m : In t (map fst m) -> map fst (cmd_append t head a m) = map fst m.
  Proof.
    induction m as [|[u c] m IH]; [intros []|]. cbn [cmd_append map fst].
    destruct (N.eqb_spec t u) as [->|Hne]; [reflexivity|]. intros [E|H]; [cbn in E; congruence|].
    cbn [map fst]. f_equal. now apply IH.
  Qed.

  Lemma cmd_append_new t a m : ~ In t (map fst m) -> cmd_append t head a m = m ++ [(t, head :: a)].
  Proof.
    induction m as [|[u c] m IH]; intro Hn; [reflexivity|]. cbn [cmd_append].
    destruct (N.eqb_spec t u) as [->|Hne]; [exfalso; apply Hn; now left|].
    cbn [app]. f_equal. apply IH. intro H. apply Hn. now right.
  Qed.

  Lemma cmd_append_nodup t a m : NoDup (map fst m) -> NoDup (map fst (cmd_append t head a m)).
  Proof.
    intro Hnd. destruct (in_dec N.eq_dec t (map fst m)) as [Hi|Hn].
    - now rewrite cmd_append_keys.
    - rewrite cmd_append_new by assumption. rewrite map_app. cbn [map fst]. now apply NoDup_snoc.
  Qed.

  (** the command of slot [s] is exactly the keys of that slot, in input order, multiplicities kept *)
  Lemma slot_mcmds_gen keys : forall m s,
    assoc_N s (fold_left (fun m k => cmd_append (slot_of k) head [k] m) keys m)
    = match assoc_N s m with
      | Some c => Some (c ++ filter (in_slot s) keys)
      | None => if existsb (in_slot s) keys then Some (head :: filter (in_slot s) keys) else None
      end.
  Proof.
    induction keys as [|k keys IH]; intros m s.
    - cbn. destruct (assoc_N s m); [now rewrite app_nil_r|reflexivity].
    - cbn [fold_left filter existsb]. rewrite IH, assoc_cmd_append.
      assert (Es : in_slot s k = N.eqb s (slot_of k)) by (unfold in_slot; apply N.eqb_sym).
      rewrite Es. clear Es.
      destruct (N.eqb_spec s (slot_of k)) as [E|Hne].
      + rewrite E. destruct (assoc_N (slot_of k) m); cbn [orb app]; [now rewrite <- app_assoc|reflexivity].
      + destruct (assoc_N s m); reflexivity.
  Qed.

  Lemma slot_mcmds_spec keys s :
    assoc_N s (slot_mcmds slot_of head keys)
    = if existsb (in_slot s) keys then Some (head :: filter (in_slot s) keys) else None.
  Proof. unfold slot_mcmds. now rewrite slot_mcmds_gen. Qed.

  Lemma slot_mcmds_nodup keys : NoDup (map fst (slot_mcmds slot_of head keys)).
  Proof.
    unfold slot_mcmds. assert (H : NoDup (map fst (@nil (N * argv)))) by constructor.
    revert H. generalize (@nil (N * argv)). induction keys as [|k keys IH]; intros m H; [exact H|].
    cbn [fold_left]. apply IH. now apply cmd_append_nodup.
  Qed.

  Lemma assoc_N_in {B} s (c : B) m : NoDup (map fst m) -> (In (s, c) m <-> assoc_N s m = Some c).
  Proof.
    induction m as [|[t d] m IH]; intro Hnd; cbn [In assoc_N]; [split; [intros []|discriminate]|].
    inversion Hnd as [|? ? Hnt Hnd']; subst. destruct (N.eqb_spec s t) as [->|Hne].
    - split; [intros [E|H]; [now inversion E|]|intro E; left; congruence].
      exfalso. apply Hnt. apply in_map_iff. exists (t, c). auto.
    - rewrite <- IH by assumption. split; [intros [E|H]; [inversion E; congruence|assumption]|auto].
  Qed.

  (** every command of the map: its slot occurs among the keys, its arguments are the keys of that slot *)
  Lemma slot_mcmds_in keys s c :
    In (s, c) (slot_mcmds slot_of head keys) ->
    c = head :: filter (in_slot s) keys /\ existsb (in_slot s) keys = true.
  Proof.
    intro H. apply assoc_N_in in H; [|apply slot_mcmds_nodup]. rewrite slot_mcmds_spec in H.
    destruct (existsb (in_slot s) keys); [|discriminate]. split; [congruence|reflexivity].
  Qed.

  (** *** the grouping loop of clusterMGet computes the same commands *)

  Fixpoint index_of (s : N) (l : list N) : option nat :=
    match l with
    | [] => None
    | t :: r => if N.eqb s t then Some 0 else option_map S (index_of s r)
    end.

  Lemma index_of_none s l : index_of s l = None <-> ~ In s l.
  Proof.
    induction l as [|t l IH]; cbn [index_of In]; [split; auto|].
    destruct (N.eqb_spec s t) as [E|Hne].
    - split; [discriminate|]. intro H. exfalso. apply H. left. congruence.
    - split.
      + intro H. destruct (index_of s l) eqn:E; [discriminate|]. intros [E'|Hin]; [congruence|].
        exact (proj1 IH eq_refl Hin).
      + intro H. assert (Hn : ~ In s l) by tauto. apply IH in Hn. now rewrite Hn.
  Qed.

  Lemma index_of_app_new s l t : ~ In t l ->
    index_of s (l ++ [t]) = match index_of s l with Some i => Some i | None => if N.eqb s t then Some (length l) else None end.
  Proof.
    intro Hn. induction l as [|u l IH]; cbn [app index_of length].
    - destruct (N.eqb s t); reflexivity.
    - destruct (N.eqb_spec s u) as [->|Hne]; [reflexivity|].
      rewrite IH by (intro H; apply Hn; now right).
      destruct (index_of s l); cbn [option_map]; [reflexivity|]. destruct (N.eqb s t); reflexivity.
  Qed.

  Lemma append_at_index s a sc : forall i,
    index_of s (map fst sc) = Some i ->
    exists c, nth_error (map snd sc) i = Some c /\
      map snd (cmd_append s head a sc) = upd i (c ++ a) (map snd sc).
  Proof.
    induction sc as [|[t c] sc IH]; intros i Hi; [discriminate|].
    cbn [map fst snd index_of cmd_append] in *.
    destruct (N.eqb_spec s t) as [->|Hne].
    - injection Hi as <-. exists c. split; reflexivity.
    - destruct (index_of s (map fst sc)) as [j|] eqn:Ej; [|discriminate]. cbn in Hi. injection Hi as <-.
      destruct (IH j eq_refl) as (c' & Hn & Hm). exists c'. split; [exact Hn|]. cbn [map snd upd]. now rewrite Hm.
  Qed.

  Definition grp_rel (st : list (N * nat) * list argv) (sc : list (N * argv)) : Prop :=
    snd st = map snd sc /\ NoDup (map fst sc) /\ forall t, slot_find t (fst st) = index_of t (map fst sc).

  Lemma group_by_slot_spec keys :
    group_by_slot slot_of head keys = Ok (map snd (slot_mcmds slot_of head keys)).
  Proof.
    unfold group_by_slot, slot_mcmds.
    assert (H : grp_rel ([], []) []) by (split; [reflexivity|split; [constructor|intro; reflexivity]]).
    revert H. generalize (@nil (N * argv)) as sc. generalize (@nil (N * nat), @nil argv) as st.
    induction keys as [|k keys IH]; intros [idx cmds] sc (Hc & Hnd & Hidx); cbn [fst snd] in *.
    - cbn [fold_left]. now rewrite Hc.
    - cbn [fold_left]. rewrite Hidx.
      destruct (index_of (slot_of k) (map fst sc)) as [i|] eqn:Ei.
      + destruct (append_at_index (slot_of k) [k] sc i Ei) as (c & Hn & Hm).
        rewrite Hc, Hn. apply IH. split; [|split]; cbn [fst snd].
        * now rewrite Hm.
        * now apply cmd_append_nodup.
        * intro t. rewrite Hidx. rewrite cmd_append_keys; [reflexivity|].
          destruct (in_dec N.eq_dec (slot_of k) (map fst sc)) as [Hi|Hn']; [assumption|].
          apply index_of_none in Hn'. congruence.
      + apply index_of_none in Ei. apply IH. split; [|split]; cbn [fst snd].
        * rewrite cmd_append_new by assumption. rewrite map_app, Hc. reflexivity.
        * now apply cmd_append_nodup.
        * intro t. rewrite cmd_append_new by assumption. rewrite map_app. cbn [map fst].
          rewrite index_of_app_new by assumption. cbn [slot_find]. rewrite Hidx, Hc, map_length.
          rewrite <- (map_length fst sc).
          destruct (N.eqb_spec t (slot_of k)) as [->|Hne].
          -- apply index_of_none in Ei. now rewrite Ei.
          -- destruct (index_of t (map fst sc)); reflexivity.
  Qed.
End Slots.

(** the same for the pair-taking builders (MSets, MSetNXs, JsonMSets): the command of slot [s] holds the
    pairs of that slot, in the order in which the Go map was iterated *)
Section SlotPairs.
  Variable slot_of : key -> N.
  Variable head : bytes.
  Variable enc : key * bytes -> list bytes.      (* [k; v] or [k; path; v] *)

  Definition pair_in_slot (s : N) (kv : key * bytes) : bool := N.eqb (slot_of (fst kv)) s.

  Lemma slot_pairs_gen kvs : forall m s,
    assoc_N s (fold_left (fun m kv => cmd_append (slot_of (fst kv)) head (enc kv) m) kvs m)
    = match assoc_N s m with
      | Some c => Some (c ++ flat_map enc (filter (pair_in_slot s) kvs))
      | None => if existsb (pair_in_slot s) kvs then Some (head :: flat_map enc (filter (pair_in_slot s) kvs)) else None
      end.
  Proof.
    induction kvs as [|kv kvs IH]; intros m s.
    - cbn. destruct (assoc_N s m); [now rewrite app_nil_r|reflexivity].
    - cbn [fold_left filter existsb]. rewrite IH, assoc_cmd_append.
      assert (Es : pair_in_slot s kv = N.eqb s (slot_of (fst kv))) by (unfold pair_in_slot; apply N.eqb_sym).
      rewrite Es. clear Es.
      destruct (N.eqb_spec s (slot_of (fst kv))) as [E|Hne].
      + rewrite E. destruct (assoc_N (slot_of (fst kv)) m); cbn [orb flat_map]; [now rewrite <- app_assoc|reflexivity].
      + destruct (assoc_N s m); reflexivity.
  Qed.
End SlotPairs.

(** ** MGet / JsonMGet on a cluster client *)

Section Cluster.
  Variable srv : argv -> msg.
  Variable slot_of : key -> N.
  Variable get : key -> msg.

  Lemma collect_one_spec ks : forall pre post ret,
    pre <> [] ->
    collect_one ret (pre ++ ks ++ post) (length pre - 1) (map get ks) = Ok (set_keys get ks ret).
  Proof.
    induction ks as [|k ks IH]; intros pre post ret Hp; [reflexivity|].
    cbn [map collect_one].
    assert (El : S (length pre - 1) = length pre) by (destruct pre; [contradiction|cbn; lia]).
    rewrite El, nth_error_app2, Nat.sub_diag by lia. cbn [app nth_error].
    assert (E2 : length pre = length (pre ++ [k]) - 1) by (rewrite app_length; cbn; lia).
    assert (E3 : pre ++ k :: ks ++ post = (pre ++ [k]) ++ ks ++ post) by now rewrite <- app_assoc.
    rewrite E2, E3. rewrite IH by (destruct pre; discriminate). reflexivity.
  Qed.

  (** commands [head :: ks ++ post] answered elementwise *)
  Lemma collect_spec head post (groups : list (list key)) : forall ret,
    (forall ks, srv (head :: ks ++ post) = arr (map get ks)) ->
    collect ret (map (fun ks => head :: ks ++ post) groups) (do_multi srv (map (fun ks => head :: ks ++ post) groups))
    = Ok (inl (fold_left (fun m ks => set_keys get ks m) groups ret)).
  Proof.
    intros ret Hs. revert ret. induction groups as [|ks groups IH]; intro ret; [reflexivity|].
    cbn [map do_multi collect fold_left]. unfold do_cmd at 1, to_array. cbn [r_err new_result r_val].
    rewrite Hs. cbn [arr m_typ m_vals]. cbn [N.eqb tArr Pos.eqb orb].
    pose proof (collect_one_spec ks [head] post ret) as H1. cbn [app length Nat.sub] in H1.
    rewrite H1 by discriminate. apply IH.
  Qed.

  Lemma groups_get (groups : list (list key)) : forall ret k,
    kv_get k (fold_left (fun m ks => set_keys get ks m) groups ret)
    = if in_dec key_dec k (concat groups) then Some (get k) else kv_get k ret.
  Proof.
    induction groups as [|ks groups IH]; intros ret k; [reflexivity|].
    cbn [fold_left concat]. rewrite IH, set_keys_get.
    destruct (in_dec key_dec k (concat groups)) as [H1|H1]; destruct (in_dec key_dec k (ks ++ concat groups)) as [H2|H2];
      try reflexivity.
    - exfalso. apply H2, in_or_app. now right.
    - destruct (in_dec key_dec k ks) as [H3|H3]; [reflexivity|]. exfalso. apply in_app_or in H2. tauto.
    - destruct (in_dec key_dec k ks) as [H3|H3]; [|reflexivity]. exfalso. apply H2, in_or_app. now left.
  Qed.

  (** the key groups of the commands built by the grouping loop *)
  Definition groups_of (head : bytes) (keys : list key) : list (list key) :=
    map (fun sc => tl (snd sc)) (slot_mcmds slot_of head keys).

  Lemma cmds_as_groups head keys :
    map snd (slot_mcmds slot_of head keys) = map (fun ks => head :: ks ++ []) (groups_of head keys).
  Proof.
    unfold groups_of. rewrite map_map. apply map_ext_in. intros [s c] Hin.
    apply slot_mcmds_in in Hin as [-> _]. cbn [snd tl]. now rewrite app_nil_r.
  Qed.

  Lemma groups_cover head keys k : In k (concat (groups_of head keys)) <-> In k keys.
  Proof.
    unfold groups_of. rewrite in_concat. split.
    - intros (ks & Hks & Hk). apply in_map_iff in Hks as ([s c] & <- & Hin).
      apply slot_mcmds_in in Hin as [-> _]. cbn [snd tl] in Hk. apply filter_In in Hk. tauto.
    - intro Hk. exists (filter (in_slot slot_of (slot_of k)) keys). split.
      + apply in_map_iff. exists (slot_of k, head :: filter (in_slot slot_of (slot_of k)) keys). split; [reflexivity|].
        apply assoc_N_in; [apply slot_mcmds_nodup|]. rewrite slot_mcmds_spec.
        assert (E : existsb (in_slot slot_of (slot_of k)) keys = true).
        { apply existsb_exists. exists k. split; [assumption|apply N.eqb_refl]. }
        now rewrite E.
      + apply filter_In. split; [assumption|apply N.eqb_refl].
  Qed.

  (** all keys of one command share its slot (what lets a cluster node accept the command) *)
  Lemma groups_same_slot head keys c :
    In c (map snd (slot_mcmds slot_of head keys)) -> exists s, forall k, In k (tl c) -> slot_of k = s.
  Proof.
    intro H. apply in_map_iff in H as ([s c'] & <- & Hin). exists s.
    apply slot_mcmds_in in Hin as [-> _]. cbn [snd tl]. intros k Hk. apply filter_In in Hk as [_ Hk]. now apply N.eqb_eq.
  Qed.

  Theorem cluster_mget_spec keys :
    (forall ks, srv (bs "MGET" :: ks) = arr (map get ks)) ->
    exists m, cluster_mget srv slot_of keys = Ok (inl m) /\
      (forall k, In k keys -> kv_get k m = Some (get k)) /\ (forall k, ~ In k keys -> kv_get k m = None).
  Proof.
    intro Hs. unfold cluster_mget. destruct keys as [|k0 keys0] eqn:Ek.
    - exists []. split; [reflexivity|]. split; [intros k []|reflexivity].
    - rewrite <- Ek. rewrite group_by_slot_spec, cmds_as_groups.
      rewrite collect_spec by (intro ks; rewrite app_nil_r; apply Hs).
      eexists. split; [reflexivity|]. split; intros k Hk; rewrite groups_get;
        destruct (in_dec key_dec k (concat (groups_of (bs "MGET") keys))) as [H|H]; try reflexivity.
      + exfalso. apply H. now apply groups_cover.
      + exfalso. apply Hk. now apply groups_cover in H.
  Qed.

  Theorem cluster_json_mget_spec keys path :
    (forall ks, srv ((bs "JSON.MGET" :: ks) ++ [path]) = arr (map get ks)) ->
    exists m, cluster_json_mget srv slot_of keys path = Ok (inl m) /\
      (forall k, In k keys -> kv_get k m = Some (get k)) /\ (forall k, ~ In k keys -> kv_get k m = None).
  Proof.
    intro Hs. unfold cluster_json_mget. destruct keys as [|k0 keys0] eqn:Ek.
    - exists []. split; [reflexivity|]. split; [intros k []|reflexivity].
    - rewrite <- Ek. rewrite group_by_slot_spec, cmds_as_groups, map_map.
      assert (Em : map (fun x => (bs "JSON.MGET" :: x ++ []) ++ [path]) (groups_of (bs "JSON.MGET") keys)
                   = map (fun ks => bs "JSON.MGET" :: ks ++ [path]) (groups_of (bs "JSON.MGET") keys)).
      { apply map_ext. intro ks. now rewrite app_nil_r. }
      rewrite Em. rewrite collect_spec by (intro ks; apply (Hs ks)).
      eexists. split; [reflexivity|]. split; intros k Hk; rewrite groups_get;
        destruct (in_dec key_dec k (concat (groups_of (bs "JSON.MGET") keys))) as [H|H]; try reflexivity.
      + exfalso. apply H. now apply groups_cover.
      + exfalso. apply Hk. now apply groups_cover in H.
  Qed.
End Cluster.

(** ** MSet / MSetNX / MDel / JsonMSet *)

Section Sets.
  Variable srv : argv -> msg.

  (** doMultiSet over commands whose second word is the key; commands for the same key are the same command *)
  Lemma do_multi_set_go_spec (keyf : argv -> key) (cmds : list argv) : forall ret,
    (forall c, In c cmds -> nth_error c 1 = Some (keyf c)) ->
    do_multi_set_go ret cmds (do_multi srv cmds)
    = Ok (fold_left (fun m c => kv_set (keyf c) (msg_error (srv c)) m) cmds ret).
  Proof.
    induction cmds as [|c cmds IH]; intros ret Hk; [reflexivity|].
    cbn [do_multi map do_multi_set_go fold_left]. rewrite (Hk c (or_introl eq_refl)).
    unfold do_cmd at 1. unfold res_error. cbn [r_err new_result r_val]. apply IH. intros; apply Hk; now right.
  Qed.

  Lemma fold_cmds_get (keyf : argv -> key) (cmds : list argv) : forall ret k,
    (forall c c', In c cmds -> In c' cmds -> keyf c = keyf c' -> c = c') ->
    kv_get k (fold_left (fun m c => kv_set (keyf c) (msg_error (srv c)) m) cmds ret)
    = match find (fun c => bytes_eqb (keyf c) k) cmds with
      | Some c => Some (msg_error (srv c))
      | None => kv_get k ret
      end.
  Proof.
    induction cmds as [|c cmds IH]; intros ret k Hsame; [reflexivity|].
    cbn [fold_left find]. rewrite IH by (intros; apply Hsame; auto using in_cons).
    destruct (find (fun c0 => bytes_eqb (keyf c0) k) cmds) as [c'|] eqn:Ef.
    - apply find_some in Ef as [Hin Hk]. apply list_eqb_N_eq in Hk.
      destruct (bytes_eqb (keyf c) k) eqn:Ec; [|reflexivity]. apply list_eqb_N_eq in Ec.
      assert (c = c') by (apply Hsame; [now left|now right|congruence]). now subst.
    - destruct (bytes_eqb (keyf c) k) eqn:Ec.
      + apply list_eqb_N_eq in Ec. subst k. apply kv_get_set_same.
      + apply kv_get_set_other. intro E. rewrite E, bytes_eqb_refl in Ec. discriminate.
  Qed.

  (** every key of a per-key command list is bound to the error (or nil) of its own command's reply *)
  Theorem do_multi_set_spec (keyf : argv -> key) (cmds : list argv) :
    (forall c, In c cmds -> nth_error c 1 = Some (keyf c)) ->
    (forall c c', In c cmds -> In c' cmds -> keyf c = keyf c' -> c = c') ->
    exists m, do_multi_set srv cmds = Ok m /\
      (forall c, In c cmds -> kv_get (keyf c) m = Some (msg_error (srv c))) /\
      (forall k, (forall c, In c cmds -> keyf c <> k) -> kv_get k m = None).
  Proof.
    intros Hk Hsame. unfold do_multi_set. rewrite (do_multi_set_go_spec keyf) by assumption.
    eexists. split; [reflexivity|]. split.
    - intros c Hc. rewrite fold_cmds_get by assumption.
      destruct (find (fun c0 => bytes_eqb (keyf c0) (keyf c)) cmds) as [c'|] eqn:Ef.
      + apply find_some in Ef as [Hin He]. apply list_eqb_N_eq in He.
        assert (c' = c) by (apply Hsame; auto). now subst.
      + exfalso. apply (find_none _ _ Ef c) in Hc. now rewrite bytes_eqb_refl in Hc.
    - intros k Hn. rewrite fold_cmds_get by assumption.
      destruct (find (fun c0 => bytes_eqb (keyf c0) k) cmds) as [c'|] eqn:Ef; [|reflexivity].
      apply find_some in Ef as [Hin He]. apply list_eqb_N_eq in He. exfalso. eapply Hn; eauto.
  Qed.
End Sets.

(** ** DecodeSliceOfJSON *)
Section DecodeProof.
  Variable T : Type.
  Variable zero : T.
  Variable dec : msg -> T + err.

  Definition elem_ok (v : msg) (t : T) : Prop :=
    (m_typ v = tNull /\ t = zero) \/ (m_typ v <> tNull /\ dec v = inl t) \/ (m_typ v <> tNull /\ dec v = inr ENil /\ t = zero).

  Lemma decode_elems_positional vs : forall ts, decode_elems T zero dec vs = inl ts -> Forall2 elem_ok vs ts.
  Proof.
    induction vs as [|v vs IH]; intros ts H; cbn [decode_elems] in H; [injection H as <-; constructor|].
    destruct (N.eqb_spec (m_typ v) tNull) as [Hn|Hn].
    - destruct (decode_elems T zero dec vs) as [ts'|] eqn:E; [|discriminate]. injection H as <-.
      constructor; [left; auto|now apply IH].
    - destruct (dec v) as [t|e] eqn:Ed.
      + destruct (decode_elems T zero dec vs) as [ts'|] eqn:E; [|discriminate]. injection H as <-.
        constructor; [right; left; auto|now apply IH].
      + destruct e; try discriminate.
        destruct (decode_elems T zero dec vs) as [ts'|] eqn:E; [|discriminate]. injection H as <-.
        constructor; [right; right; auto|now apply IH].
  Qed.
End DecodeProof.
