(** End-to-end statement for CLUSTER SHARDS. *)
From Coq Require Import List Arith NArith ZArith Bool Lia Permutation.
Require Import RV.Model.Base RV.Model.ClusterTopo RV.Model.ClusterShardSpec RV.Proofs.ClusterTopoProofs.
Import ListNotations.
Open Scope Z_scope.

Lemma hnode_fields n :
  mstring (omap_get k_health (as_map (enc_hnode n))) = (if hn_online n then online else s_fail) /\
  intlen (omap_get k_port (as_map (enc_hnode n))) = hn_port n /\
  intlen (omap_get k_tlsport (as_map (enc_hnode n))) = hn_tls n /\
  mstring (omap_get k_endpoint (as_map (enc_hnode n))) = hn_host n /\
  mstring (omap_get k_role (as_map (enc_hnode n))) = (if hn_master n then s_master else s_replica).
Proof. destruct n as [h p t m o]. repeat split; reflexivity. Qed.

Lemma shard_nodes_enc dh tls : forall ns acc m,
  shard_nodes dh tls (map enc_hnode ns) acc m = hkept dh tls ns acc m.
Proof.
  induction ns as [|n r IH]; intros acc m; [reflexivity|].
  cbn [map shard_nodes hkept]. destruct (hnode_fields n) as [F1 [F2 [F3 [F4 F5]]]].
  rewrite F1, F2, F3, F4, F5. unfold hnode_addr.
  destruct (hn_online n).
  - assert (bytes_eqb online online = true) as -> by reflexivity. cbn [negb].
    destruct (parse_endpoint dh (hn_host n) _) as [a|]; [|apply IH].
    destruct (hn_master n).
    + assert (bytes_eqb s_master s_master = true) as -> by reflexivity. apply IH.
    + assert (bytes_eqb s_replica s_master = false) as -> by reflexivity. apply IH.
  - assert (bytes_eqb s_fail online = false) as -> by reflexivity. cbn [negb]. apply IH.
Qed.

Lemma enc_ranges_length rs : length (enc_ranges rs) = (2 * length rs)%nat.
Proof. induction rs as [|r l IH]; cbn [enc_ranges flat_map length app]; [reflexivity|]. fold (enc_ranges l). lia. Qed.

Lemma div2_double n : Nat.div2 (2 * n) = n.
Proof. induction n as [|n IH]; [reflexivity|]. replace (2 * S n)%nat with (S (S (2 * n))) by lia. cbn [Nat.div2]. now rewrite IH. Qed.

Lemma shard_slots_enc rs : shard_slots (length rs) (enc_ranges rs) = Ok rs.
Proof.
  induction rs as [|[lo hi] l IH]; [reflexivity|].
  cbn [length shard_slots enc_ranges flat_map app fst snd]. fold (enc_ranges l). rewrite IH. reflexivity.
Qed.

Lemma shard_fields s :
  values (omap_get k_slots (as_map (enc_shard s))) = enc_ranges (sd_ranges s) /\
  values (omap_get k_nodes (as_map (enc_shard s))) = map enc_hnode (sd_nodes s).
Proof. destruct s. split; reflexivity. Qed.

(** what parseShards does with one well-formed shard *)
Lemma parse_shards_entry_enc dh tls s acc :
  parse_shards_entry dh tls (enc_shard s) acc =
  match hkept dh tls (sd_nodes s) [] None with
  | (kept, Some m) =>
    match swap0 kept m with
    | Ok nodes' => match nodes' with
                   | first :: _ => Ok (assoc_set first (mkGroup nodes' (sd_ranges s)) acc)
                   | [] => Panic
                   end
    | Err e => Err e
    | Panic => Panic
    end
  | (_, None) => Ok acc
  end.
Proof.
  unfold parse_shards_entry. destruct (shard_fields s) as [F1 F2]. rewrite F1, F2.
  rewrite enc_ranges_length, div2_double, shard_slots_enc. cbn [bind].
  rewrite shard_nodes_enc. destruct (hkept dh tls (sd_nodes s) [] None) as [kept [m|]]; [|reflexivity].
  destruct (swap0 kept m) as [nodes'| |]; cbn [bind]; try reflexivity.
  destruct nodes' as [|f r]; reflexivity.
Qed.

Lemma hkept_bound dh tls : forall ns acc m kept k,
  (forall j, m = Some j -> (j < length acc)%nat) -> hkept dh tls ns acc m = (kept, Some k) -> (k < length kept)%nat.
Proof.
  induction ns as [|n r IH]; intros acc m kept k Hm H; cbn [hkept] in H.
  - inversion H; subst. auto.
  - destruct (hn_online n); [|eapply IH; eauto].
    destruct (hnode_addr dh tls n); [|eapply IH; eauto].
    eapply IH; [|exact H]. intros j. destruct (hn_master n).
    + intro E; inversion E; subst. rewrite app_length. cbn. lia.
    + intro E. specialize (Hm j E). rewrite app_length. lia.
Qed.

Lemma In_firstn' {A} (l : list A) n x : In x (firstn n l) -> In x l.
Proof. revert l. induction n as [|n IH]; intros [|y l]; cbn; try tauto. intros [H|H]; auto. Qed.
Lemma In_skipn' {A} (l : list A) n x : In x (skipn n l) -> In x l.
Proof. revert l. induction n as [|n IH]; intros [|y l]; cbn; try tauto. intro H. right. auto. Qed.

Lemma In_tl {A} (l : list A) x : In x (tl l) -> In x l.
Proof. destruct l; cbn; auto. Qed.

Lemma swap0_incl l m l' : swap0 l m = Ok l' -> forall a, In a l' -> In a l.
Proof.
  unfold swap0. destruct (idx l 0) as [x0| |] eqn:E0; try discriminate. destruct (idx l m) as [xm| |] eqn:Em; try discriminate.
  cbn [bind]. unfold idx in E0, Em.
  destruct (nth_error l 0) eqn:N0; try discriminate. destruct (nth_error l m) eqn:Nm; try discriminate.
  inversion E0; inversion Em; subst.
  destruct m as [|k]; intro H; injection H as E; subst l'; intros a Ha; [exact Ha|].
  destruct Ha as [<-|Ha]; [eapply nth_error_In; exact Nm|].
  apply in_app_or in Ha. destruct Ha as [Ha|[<-|Ha]].
  - apply In_tl. eapply In_firstn'; exact Ha.
  - eapply nth_error_In; exact N0.
  - apply In_tl. apply (In_skipn' (tl l) (S k)). exact Ha.
Qed.

(** the group a shard with a primary contributes: the primary first, then the other kept nodes, its ranges *)
Lemma parse_shards_entry_group dh tls s acc p :
  shard_primary dh tls s = Some p ->
  exists nodes', parse_shards_entry dh tls (enc_shard s) acc = Ok (assoc_set p (mkGroup nodes' (sd_ranges s)) acc) /\
                 hd_error nodes' = Some p /\
                 forall a, In a nodes' -> In a (fst (hkept dh tls (sd_nodes s) [] None)).
Proof.
  unfold shard_primary. rewrite parse_shards_entry_enc.
  destruct (hkept dh tls (sd_nodes s) [] None) as [kept [m|]] eqn:K; [|discriminate]. intro Hp.
  assert (Hb : (m < length kept)%nat) by (eapply hkept_bound; [|exact K]; intros j E; discriminate).
  destruct (swap0_ok kept m Hb) as [l' [Hs [Hne H0]]]. rewrite Hs.
  destruct l' as [|f r]; [congruence|]. cbn [nth_error] in H0. rewrite Hp in H0. inversion H0; subst f.
  exists (p :: r). split; [reflexivity|]. split; [reflexivity|].
  intros a Ha. cbn [fst].
  exact (swap0_incl _ _ _ Hs a Ha).
Qed.

Definition kept_of (dh : bytes) (tls : bool) (s : shard) : list addr := fst (hkept dh tls (sd_nodes s) [] None).

Record shards_inv (dh : bytes) (tls : bool) (done : list shard) (acc : groups) : Prop := {
  hi_nodup : NoDup (keys acc);
  hi_headed : Forall group_headed acc;
  hi_from : forall k g, In (k, g) acc ->
              exists s, In s done /\ shard_primary dh tls s = Some k /\ g_slots g = sd_ranges s /\
                        forall a, In a (g_nodes g) -> In a (kept_of dh tls s);
  hi_has : forall s p, In s done -> shard_primary dh tls s = Some p -> assoc_get p acc <> None;
}.

Lemma shards_inv_nil dh tls : shards_inv dh tls [] [].
Proof. constructor; cbn; try tauto; constructor. Qed.

Lemma shard_primary_none_entry dh tls s acc :
  shard_primary dh tls s = None -> parse_shards_entry dh tls (enc_shard s) acc = Ok acc.
Proof.
  unfold shard_primary. rewrite parse_shards_entry_enc.
  destruct (hkept dh tls (sd_nodes s) [] None) as [kept [m|]] eqn:K; [|reflexivity]. intro Hp.
  assert (Hb : (m < length kept)%nat) by (eapply hkept_bound; [|exact K]; intros j E; discriminate).
  apply nth_error_None in Hp. lia.
Qed.

Lemma shards_inv_step dh tls done acc s acc' :
  shards_inv dh tls done acc -> parse_shards_entry dh tls (enc_shard s) acc = Ok acc' -> shards_inv dh tls (done ++ [s]) acc'.
Proof.
  intros [ND HD FROM HAS] E.
  destruct (shard_primary dh tls s) as [p|] eqn:P.
  - destruct (parse_shards_entry_group dh tls s acc p P) as [nodes' [E' [Hh Hk]]]. rewrite E' in E. inversion E; subst acc'. clear E.
    constructor.
    + now apply assoc_set_NoDup.
    + apply Forall_forall. intros [k g] Hin. apply In_assoc_set in Hin. destruct Hin as [[-> ->]|Hin].
      * exact Hh.
      * rewrite Forall_forall in HD. exact (HD _ Hin).
    + intros k g Hin. apply In_assoc_set in Hin. destruct Hin as [[-> ->]|Hin].
      * exists s. split; [apply in_or_app; right; now left|]. split; [exact P|]. split; [reflexivity|exact Hk].
      * destruct (FROM k g Hin) as [s0 [I0 R0]]. exists s0. split; [apply in_or_app; now left|exact R0].
    + intros s0 p0 Hin P0. apply in_app_or in Hin. destruct (addr_eqb p p0) eqn:Ep.
      * apply addr_eqb_spec in Ep. subst p0. rewrite assoc_get_set_same. discriminate.
      * apply addr_eqb_neq in Ep. rewrite assoc_get_set_other by exact Ep.
        destruct Hin as [Hin|[<-|[]]]; [eapply HAS; eauto|congruence].
  - rewrite (shard_primary_none_entry dh tls s acc P) in E. inversion E; subst acc'.
    constructor; auto.
    + intros k g Hin. destruct (FROM k g Hin) as [s0 [I0 R0]]. exists s0. split; [apply in_or_app; now left|exact R0].
    + intros s0 p0 Hin P0. apply in_app_or in Hin. destruct Hin as [Hin|[<-|[]]]; [eapply HAS; eauto|congruence].
Qed.

Lemma parse_shards_entry_enc_total dh tls s acc : exists acc', parse_shards_entry dh tls (enc_shard s) acc = Ok acc'.
Proof.
  destruct (shard_primary dh tls s) as [p|] eqn:P.
  - destruct (parse_shards_entry_group dh tls s acc p P) as [nodes' [E' _]]. eauto.
  - exists acc. now apply shard_primary_none_entry.
Qed.

Lemma parse_shards_loop_enc dh tls l : forall done acc,
  shards_inv dh tls done acc ->
  exists gs, parse_shards_loop dh tls (map enc_shard l) acc = Ok gs /\ shards_inv dh tls (done ++ l) gs.
Proof.
  induction l as [|s r IH]; intros done acc I; cbn [map parse_shards_loop].
  - exists acc. rewrite app_nil_r. auto.
  - destruct (parse_shards_entry_enc_total dh tls s acc) as [acc' E]. rewrite E. cbn [bind].
    destruct (IH _ _ (shards_inv_step _ _ _ _ _ _ I E)) as [gs [E2 I2]]. exists gs. split; [exact E2|]. now rewrite <- app_assoc in I2.
Qed.

Theorem parse_shards_spec dh tls l :
  exists gs, parse_shards dh tls (enc_shards l) = Ok gs /\ shards_inv dh tls l gs.
Proof.
  unfold parse_shards, enc_shards. cbn [values].
  destruct (parse_shards_loop_enc dh tls l [] [] (shards_inv_nil dh tls)) as [gs [E I]]. exists gs. auto.
Qed.

(** the table built from a CLUSTER SHARDS reply, in any iteration order of the groups *)
Theorem shards_table dh tls l c sh m r s :
  t_kind c <> CfgReplicaOnly ->
  In sh l -> shard_primary dh tls sh = Some m -> In r (sd_ranges sh) -> covers r s = true ->
  (forall sh' m', In sh' l -> shard_primary dh tls sh' = Some m' ->
      (m' = m -> sh' = sh) /\ ((exists r', In r' (sd_ranges sh') /\ covers r' s = true) -> m' = m)) ->
  exists gs, parse_shards dh tls (enc_shards l) = Ok gs /\
             forall o, Permutation (map snd gs) o -> wslot c o s = Some m.
Proof.
  intros Hk Hin Pm Hr Hc Hu. destruct (parse_shards_spec dh tls l) as [gs [E [ND HD FROM HAS]]].
  exists gs. split; [exact E|]. intros o P.
  destruct (assoc_get m gs) as [g|] eqn:G; [|exfalso; exact (HAS sh m Hin Pm G)].
  pose proof (assoc_get_In _ _ _ G) as Gin.
  destruct (FROM m g Gin) as [s0 [I0 [P0 [S0 _]]]].
  assert (s0 = sh) by (apply (proj1 (Hu s0 m I0 P0)); reflexivity). subst s0.
  assert (Hg : In g o) by (apply (Permutation_in _ P); apply in_map_iff; exists (m, g); auto).
  assert (Hl : lists g s = true) by (unfold lists; apply existsb_exists; exists r; rewrite S0; auto).
  apply (wslot_default_unique c o s g m Hk Hg Hl).
  - intros g' Hg' Hl'. apply Permutation_sym in P. apply (Permutation_in _ P) in Hg'.
    apply in_map_iff in Hg'. destruct Hg' as [[k g''] [Eq Hin']]. cbn [snd] in Eq. subst g''.
    destruct (FROM k g' Hin') as [s1 [I1 [P1 [S1 _]]]].
    unfold lists in Hl'. apply existsb_exists in Hl'. destruct Hl' as [r' [Hr' Hc']]. rewrite S1 in Hr'.
    assert (k = m) by (apply (proj2 (Hu s1 k I1 P1)); eauto). subst k.
    apply (In_assoc_get _ _ _ ND) in Hin'. congruence.
  - rewrite Forall_forall in HD. exact (HD _ Gin).
Qed.

(** every node of a parsed group is online and has an endpoint (unhealthy / endpoint-less nodes are skipped) *)
Lemma hkept_sound dh tls : forall ns acc m kept m',
  hkept dh tls ns acc m = (kept, m') ->
  forall a, In a kept -> In a acc \/ exists n, In n ns /\ hn_online n = true /\ hnode_addr dh tls n = Some a.
Proof.
  induction ns as [|n r IH]; intros acc m kept m' H a Ha; cbn [hkept] in H.
  - inversion H; subst. now left.
  - destruct (hn_online n) eqn:On.
    + destruct (hnode_addr dh tls n) as [b|] eqn:Ad.
      * destruct (IH _ _ _ _ H a Ha) as [Hin|[n' [? ?]]].
        -- apply in_app_or in Hin. destruct Hin as [?|[<-|[]]]; [now left|]. right. exists n. cbn. auto.
        -- right. exists n'. cbn. auto.
      * destruct (IH _ _ _ _ H a Ha) as [?|[n' [? ?]]]; [now left|right; exists n'; cbn; auto].
    + destruct (IH _ _ _ _ H a Ha) as [?|[n' [? ?]]]; [now left|right; exists n'; cbn; auto].
Qed.
