(** Basic lemmas for the pipe LTS: functional updates, sums over thread lists, frame lemmas for the
    reader's effect on the state. *)
From Coq Require Import List NArith ZArith Bool Arith Lia.
Require Import RV.Model.Base RV.Model.PipeQueue RV.Model.Pipe RV.Model.PipeLts.
Import ListNotations.
Open Scope N_scope.

Lemma upd_same {A} (f : N -> A) t x : upd f t x t = x.
Proof. unfold upd. now rewrite N.eqb_refl. Qed.

Lemma upd_other {A} (f : N -> A) t x u : u <> t -> upd f t x u = f u.
Proof. intros H. unfold upd. destruct (N.eqb u t) eqn:E; [apply N.eqb_eq in E; contradiction|reflexivity]. Qed.

Fixpoint sumf {A} (f : A -> nat) (l : list A) : nat :=
  match l with
  | [] => 0%nat
  | x :: r => (f x + sumf f r)%nat
  end.

Lemma sumf_ext {A} (f g : A -> nat) l : (forall x, In x l -> f x = g x) -> sumf f l = sumf g l.
Proof.
  induction l as [|x l IH]; intros H; cbn; [reflexivity|].
  rewrite (H x (or_introl eq_refl)), IH; [reflexivity|]. intros y Hy. apply H. now right.
Qed.

Lemma sumf_upd_notin {A} (h : A -> nat) (f : N -> A) t x l :
  ~ In t l -> sumf (fun u => h (upd f t x u)) l = sumf (fun u => h (f u)) l.
Proof.
  intros H. apply sumf_ext. intros u Hu. rewrite upd_other; [reflexivity|]. intros ->. contradiction.
Qed.

Lemma sumf_upd_in {A} (h : A -> nat) (f : N -> A) t x l :
  NoDup l -> In t l ->
  (sumf (fun u => h (upd f t x u)) l + h (f t) = sumf (fun u => h (f u)) l + h x)%nat.
Proof.
  induction l as [|a l IH]; intros Hnd Hin; [destruct Hin|].
  inversion Hnd as [|? ? Hna Hnd']; subst. cbn [sumf].
  destruct Hin as [->|Hin].
  - rewrite upd_same. rewrite sumf_upd_notin by assumption. lia.
  - assert (a <> t) by (intros ->; contradiction).
    rewrite upd_other by assumption. specialize (IH Hnd' Hin). lia.
Qed.

Lemma sumf_zero {A} (f : A -> nat) l : sumf f l = 0%nat -> forall x, In x l -> f x = 0%nat.
Proof.
  induction l as [|a l IH]; intros H x Hx; [destruct Hx|]. cbn in H.
  destruct Hx as [->|Hx]; [lia|]. apply IH; [lia|assumption].
Qed.

Lemma sumf_ge {A} (f : A -> nat) l x : In x l -> (f x <= sumf f l)%nat.
Proof.
  induction l as [|a l IH]; intros Hx; [destruct Hx|]. cbn.
  destruct Hx as [->|Hx]; [lia|]. specialize (IH Hx). lia.
Qed.

Lemma filter_atmost1 {A} (P : A -> bool) (l : list A) :
  NoDup l -> (forall x y, In x l -> In y l -> P x = true -> P y = true -> x = y) ->
  (List.length (filter P l) <= 1)%nat.
Proof.
  induction l as [|a l IH]; intros Hnd H; cbn; [lia|].
  inversion Hnd as [|? ? Hna Hnd']; subst.
  destruct (P a) eqn:Pa.
  - cbn. assert (filter P l = []) as ->; [|cbn; lia].
    destruct (filter P l) as [|b r] eqn:E; [reflexivity|].
    assert (In b (filter P l)) as Hb by (rewrite E; now left).
    apply filter_In in Hb as [Hb1 Hb2].
    assert (a = b) by (apply H; [now left|now right|assumption|assumption]). subst. contradiction.
  - apply IH; [assumption|]. intros x y Hx Hy. apply H; now right.
Qed.

Lemma filter_nil {A} (P : A -> bool) l : (forall x, In x l -> P x = false) -> filter P l = [].
Proof.
  induction l as [|a l IH]; intros H; cbn; [reflexivity|].
  rewrite (H a (or_introl eq_refl)). apply IH. intros x Hx. apply H. now right.
Qed.

(** sum of the counts held on the waits counter *)
Definition hsum (s : pstate) : nat :=
  (sumf (fun t => holds (p_calls s t)) (p_tids s) + sumf (fun t => kholds (p_closers s t)) (p_ktids s))%nat.

(** ** what the reader's actions leave unchanged *)
Definition same_ctl (s s' : pstate) : Prop :=
  p_st s' = p_st s /\ p_bg s' = p_bg s /\ p_waits s' = p_waits s /\ p_err s' = p_err s /\ p_w s' = p_w s /\
  p_wbuf s' = p_wbuf s /\ p_wclosed s' = p_wclosed s /\ p_conn s' = p_conn s /\ p_c2s s' = p_c2s s /\
  p_s2c s' = p_s2c s /\ p_b s' = p_b s /\ p_cache_closed s' = p_cache_closed s /\ p_tids s' = p_tids s /\
  p_closers s' = p_closers s /\ p_ktids s' = p_ktids s /\ p_wlog s' = p_wlog s /\ p_sent s' = p_sent s /\
  (forall t, k_pc (p_calls s' t) = k_pc (p_calls s t) /\ k_drain (p_calls s' t) = k_drain (p_calls s t) /\
             k_cmds (p_calls s' t) = k_cmds (p_calls s t) /\ k_multi (p_calls s' t) = k_multi (p_calls s t) /\
             k_ctx (p_calls s' t) = k_ctx (p_calls s t) /\ k_done (p_calls s' t) = k_done (p_calls s t) /\
             k_ret (p_calls s' t) = k_ret (p_calls s t) /\ k_ctxput (p_calls s' t) = k_ctxput (p_calls s t) /\
             k_donestart (p_calls s' t) = k_donestart (p_calls s t)).

Lemma same_ctl_refl s : same_ctl s s.
Proof. unfold same_ctl. repeat split; reflexivity. Qed.

Lemma same_ctl_trans s1 s2 s3 : same_ctl s1 s2 -> same_ctl s2 s3 -> same_ctl s1 s3.
Proof.
  unfold same_ctl. intros H1 H2.
  destruct H1 as (a1&a2&a3&a4&a5&a6&a7&a8&a9&a10&a11&a12&a13&a14&a15&a16&a17&a18).
  destruct H2 as (b1&b2&b3&b4&b5&b6&b7&b8&b9&b10&b11&b12&b13&b14&b15&b16&b17&b18).
  repeat split; try congruence;
    destruct (a18 t) as (c1&c2&c3&c4&c5&c6&c7&c8&c9); destruct (b18 t) as (d1&d2&d3&d4&d5&d6&d7&d8&d9); congruence.
Qed.

Lemma apply_act_same_ctl o m s a : same_ctl s (apply_act o m s a).
Proof.
  unfold same_ctl. destruct a as [k v|got|i c|i mg|i x|x|w|]; cbn [apply_act];
    try (repeat split; reflexivity).
  - destruct got; [|repeat split; reflexivity].
    destruct (q_next_result (p_q s)) as [[sl q']|]; repeat split; reflexivity.
  - cbn. repeat split; try reflexivity; unfold upd; destruct (N.eqb t o) eqn:E;
      try reflexivity; apply N.eqb_eq in E; subst; reflexivity.
  - destruct m; cbn; repeat split; try reflexivity; unfold upd; destruct (N.eqb t o) eqn:E;
      try reflexivity; apply N.eqb_eq in E; subst; reflexivity.
Qed.

Lemma fold_apply_same_ctl o m acts : forall s, same_ctl s (fold_left (apply_act o m) acts s).
Proof.
  induction acts as [|a acts IH]; intros s; cbn [fold_left]; [apply same_ctl_refl|].
  eapply same_ctl_trans; [apply apply_act_same_ctl|apply IH].
Qed.
