(** Proofs for the cache-aside model (Model/Aside.v). *)
From Coq Require Import List Arith NArith ZArith Bool Lia.
Require Import RV.Model.Base RV.Proofs.BytesProofs RV.Model.ListUpd RV.Proofs.ListUpdProofs RV.Model.Aside.
Import ListNotations.
Open Scope nat_scope.

(** ---- the store ---- *)

Lemma sget_In st k v : sget st k = Some v -> exists e, In (k, (v, e)) st.
Proof.
  induction st as [|[k' [v' e']] st IH]; cbn [sget]; [discriminate|].
  destruct (bytes_eqb k' k) eqn:E.
  - intros H. injection H as ->. apply bytes_eqb_eq in E. subst. exists e'. left. reflexivity.
  - intros H. destruct (IH H) as (e & He). exists e. right. exact He.
Qed.

Lemma In_sdel st k x : In x (sdel st k) -> In x st.
Proof.
  induction st as [|[k' y] st IH]; cbn [sdel]; [tauto|].
  destruct (bytes_eqb k' k); cbn [In]; intuition.
Qed.

Lemma In_sset st k v e x : In x (sset st k v e) -> x = (k, (v, e)) \/ In x st.
Proof. unfold sset. cbn [In]. intros [H|H]; [left; auto|right; eapply In_sdel; eauto]. Qed.

Lemma In_expire now st x : In x (expire now st) -> In x st.
Proof. unfold expire. intros H. apply filter_In in H. tauto. Qed.

Lemma sget_sdel_same st k : sget (sdel st k) k = None.
Proof.
  induction st as [|[k' [v e]] st IH]; cbn [sdel sget]; [reflexivity|].
  destruct (bytes_eqb k' k) eqn:E; [exact IH|]. cbn [sget]. rewrite E. exact IH.
Qed.

Lemma sget_sdel_other st k k2 : k <> k2 -> sget (sdel st k) k2 = sget st k2.
Proof.
  intros N. induction st as [|[k' [v e]] st IH]; cbn [sdel sget]; [reflexivity|].
  destruct (bytes_eqb k' k) eqn:E.
  - apply bytes_eqb_eq in E. subst k'. apply bytes_eqb_neq in N. rewrite N. exact IH.
  - cbn [sget]. rewrite IH. reflexivity.
Qed.

Lemma sget_sset_same st k v e : sget (sset st k v e) k = Some v.
Proof. unfold sset. cbn [sget]. rewrite bytes_eqb_refl. reflexivity. Qed.

Lemma sget_sset_other st k v e k2 : k <> k2 -> sget (sset st k v e) k2 = sget st k2.
Proof.
  intros N. unfold sset. cbn [sget]. pose proof N as N'. apply bytes_eqb_neq in N'. rewrite N'.
  apply sget_sdel_other, N.
Qed.

(** keys are unique *)
Definition uniq (st : store) : Prop := NoDup (map fst st).

Lemma In_map_fst_sdel st k x : In x (map fst (sdel st k)) -> In x (map fst st) /\ x <> k.
Proof.
  induction st as [|[k' y] st IH]; cbn [sdel map fst In]; [tauto|].
  destruct (bytes_eqb k' k) eqn:E.
  - intros H. destruct (IH H). split; auto.
  - cbn [map fst In]. intros [H|H].
    + subst. split; [auto|]. apply bytes_eqb_neq in E. exact E.
    + destruct (IH H). split; auto.
Qed.

Lemma uniq_sdel st k : uniq st -> uniq (sdel st k).
Proof.
  unfold uniq. induction st as [|[k' y] st IH]; cbn [sdel map fst]; intros H; [constructor|].
  inversion H as [|? ? Hn Hr]; subst.
  destruct (bytes_eqb k' k); [apply IH, Hr|].
  cbn [map fst]. constructor; [|apply IH, Hr].
  intros Hin. apply In_map_fst_sdel in Hin. tauto.
Qed.

Lemma uniq_sset st k v e : uniq st -> uniq (sset st k v e).
Proof.
  intros H. unfold uniq, sset. cbn [map fst]. constructor; [|apply uniq_sdel, H].
  intros Hin. apply In_map_fst_sdel in Hin. destruct Hin as [_ N]. congruence.
Qed.

Lemma uniq_filter (f : bytes * (bytes * Z) -> bool) st : uniq st -> uniq (filter f st).
Proof.
  unfold uniq. induction st as [|x st IH]; cbn [filter map]; intros H; [constructor|].
  inversion H as [|? ? Hn Hr]; subst.
  destruct (f x); [|apply IH, Hr]. cbn [map]. constructor; [|apply IH, Hr].
  intros Hin. apply Hn. apply in_map_iff in Hin. destruct Hin as (y & Hy & Hin). apply filter_In in Hin.
  apply in_map_iff. exists y. tauto.
Qed.

Lemma sget_uniq_In st k v e : uniq st -> In (k, (v, e)) st -> sget st k = Some v.
Proof.
  unfold uniq. induction st as [|[k' [v' e']] st IH]; cbn [map fst sget In]; intros H HI; [destruct HI|].
  inversion H as [|? ? Hn Hr]; subst.
  destruct HI as [E|HI].
  - injection E as -> -> ->. rewrite bytes_eqb_refl. reflexivity.
  - destruct (bytes_eqb k' k) eqn:E.
    + apply bytes_eqb_eq in E. subst. exfalso. apply Hn. apply (in_map fst) in HI. exact HI.
    + apply IH; assumption.
Qed.

(** with unique keys, a filter only removes: what is still found was found before, unchanged *)
Lemma sget_filter f st k v : uniq st -> sget (filter f st) k = Some v -> sget st k = Some v.
Proof.
  intros U H. destruct (sget_In _ _ _ H) as (e & He). apply filter_In in He.
  eapply sget_uniq_In; [exact U|apply He].
Qed.

Lemma sget_filter_none f st k v : uniq st -> sget st k = Some v -> sget (filter f st) k = None \/ sget (filter f st) k = Some v.
Proof.
  intros U H. destruct (sget (filter f st) k) eqn:E; [|left; reflexivity].
  right. apply (sget_filter f st k b U) in E. congruence.
Qed.

Lemma is_ph_nil : is_ph [] = false.
Proof. reflexivity. Qed.

(** ---- lists ---- *)

Lemma Forall_upd {A} (P : A -> Prop) n x l : Forall P l -> P x -> Forall P (upd n x l).
Proof.
  revert n. induction l as [|y l IH]; intros [|n] H Hx; cbn [upd]; auto; inversion H; subst; constructor; auto.
Qed.

Lemma Forall_nth {A} (P : A -> Prop) l n x : Forall P l -> nth_error l n = Some x -> P x.
Proof. intros H Hn. eapply Forall_forall; [exact H|]. eapply nth_error_In; eauto. Qed.

Lemma In_cremove {B} (l : list (bytes * B)) ks x : In x (cremove l ks) -> In x l.
Proof. unfold cremove. intros H. apply filter_In in H. tauto. Qed.

Lemma In_ckeep {B} (l : list (bytes * B)) ks x : In x (ckeep l ks) -> In x l.
Proof. unfold ckeep. intros H. apply filter_In in H. tauto. Qed.

(** ---- where returned values come from ---- *)

Definition origin (ld ext : list (bytes * bytes)) (k v : bytes) : Prop := In (k, v) ld \/ In (k, v) ext.

Definition get_ok (ld ext : list (bytes * bytes)) (g : get) : Prop :=
  is_ph (g_key g) = false /\
  match g_st g with
  | GSLock id | GSLoad id | GSInstall id => is_ph id = true
  | GSStore id v => is_ph id = true /\ is_ph v = false /\ In (g_key g, v) ld
  | GSUnlock id v _ => is_ph id = true /\ is_ph v = false
  | GSDone (ROk v) => is_ph v = false /\ origin ld ext (g_key g) v
  | GSDone (RErr v _) => is_ph v = false
  | _ => True
  end.

Definition cl_ok (ld ext : list (bytes * bytes)) (cl : client) : Prop :=
  (forall id, cl_id cl = Some id -> is_ph id = true) /\
  (forall k v, In (k, Some v) (cl_cache cl) \/ In (k, Some v) (cl_prev cl) ->
               is_ph k = false -> is_ph v = false -> origin ld ext k v).

Definition store_ok (ld ext : list (bytes * bytes)) (st : store) : Prop :=
  forall k v e, In (k, (v, e)) st -> is_ph k = false -> is_ph v = false -> origin ld ext k v.

Record vinv (s : astate) : Prop := {
  v_store : store_ok (a_loaded s) (a_ext s) (a_store s);
  v_cls : Forall (cl_ok (a_loaded s) (a_ext s)) (a_cls s);
  v_gets : Forall (get_ok (a_loaded s) (a_ext s)) (a_gets s) }.

Lemma origin_mono ld ext ld' ext' k v : incl ld ld' -> incl ext ext' -> origin ld ext k v -> origin ld' ext' k v.
Proof. intros H1 H2 [H|H]; [left; apply H1, H|right; apply H2, H]. Qed.

Lemma get_ok_mono ld ext ld' ext' g : incl ld ld' -> incl ext ext' -> get_ok ld ext g -> get_ok ld' ext' g.
Proof.
  intros H1 H2 [Hk H]. split; [exact Hk|].
  destruct (g_st g) as [| | | | | | | | |[v|v e]|]; auto.
  - destruct H as (A & B & C). auto.
  - destruct H as (A & B). split; [exact A|]. eapply origin_mono; eauto.
Qed.

Lemma cl_ok_mono ld ext ld' ext' cl : incl ld ld' -> incl ext ext' -> cl_ok ld ext cl -> cl_ok ld' ext' cl.
Proof. intros H1 H2 [A B]. split; [exact A|]. intros k v Hin Hk Hv. eapply origin_mono; eauto. Qed.

Lemma store_ok_mono ld ext ld' ext' st : incl ld ld' -> incl ext ext' -> store_ok ld ext st -> store_ok ld' ext' st.
Proof. intros H1 H2 H k v e Hin Hk Hv. eapply origin_mono; eauto. Qed.

Lemma store_ok_sset ld ext st k v e : store_ok ld ext st ->
  (is_ph k = false -> is_ph v = false -> origin ld ext k v) -> store_ok ld ext (sset st k v e).
Proof.
  intros H Hn k' v' e' Hin Hk Hv. apply In_sset in Hin. destruct Hin as [E|Hin].
  - injection E as -> -> ->. auto.
  - eapply H; eauto.
Qed.

Lemma store_ok_sdel ld ext st k : store_ok ld ext st -> store_ok ld ext (sdel st k).
Proof. intros H k' v' e' Hin. apply In_sdel in Hin. eapply H; eauto. Qed.

Lemma store_ok_expire ld ext st now : store_ok ld ext st -> store_ok ld ext (expire now st).
Proof. intros H k' v' e' Hin. apply In_expire in Hin. eapply H; eauto. Qed.

Lemma store_ok_sget ld ext st k v : store_ok ld ext st -> sget st k = Some v ->
  is_ph k = false -> is_ph v = false -> origin ld ext k v.
Proof. intros H Hg. destruct (sget_In _ _ _ Hg) as (e & He). eapply H; eauto. Qed.

(** the fields [write] and [with_get] leave alone *)
Lemma write_fields s st' k u :
  a_store (write s st' k u) = st' /\ a_cls (write s st' k u) = a_cls s /\ a_gets (write s st' k u) = a_gets s /\
  a_loaded (write s st' k u) = a_loaded s /\ a_ext (write s st' k u) = a_ext s /\ a_now (write s st' k u) = a_now s.
Proof. unfold write. destruct (touch (a_track s) (a_infl s) k). cbn. repeat split; reflexivity. Qed.

Lemma vinv_write s st' k u : vinv s -> store_ok (a_loaded s) (a_ext s) st' -> vinv (write s st' k u).
Proof.
  intros [H1 H2 H3] Hs. destruct (write_fields s st' k u) as (F1 & F2 & F3 & F4 & F5 & _).
  constructor; rewrite ?F1, ?F2, ?F3, ?F4, ?F5; assumption.
Qed.

Lemma vinv_with_get s gi g : vinv s -> get_ok (a_loaded s) (a_ext s) g -> vinv (with_get s gi g).
Proof.
  intros [H1 H2 H3] Hg. constructor; cbn [with_get a_store a_cls a_gets a_loaded a_ext]; auto.
  apply Forall_upd; assumption.
Qed.

Lemma clookup_In {B} (l : list (bytes * B)) k b : clookup l k = Some b -> In (k, b) l.
Proof.
  induction l as [|[k' b'] l IH]; cbn [clookup]; [discriminate|].
  destruct (bytes_eqb k' k) eqn:E.
  - intros H. injection H as ->. apply bytes_eqb_eq in E. subst. left. reflexivity.
  - intros H. right. apply IH, H.
Qed.

Lemma enter_fields g st : g_key (enter g st) = g_key g /\ g_st (enter g st) = st /\ g_cl (enter g st) = g_cl g.
Proof. unfold enter. destruct st; cbn; auto. Qed.

Lemma get_ok_state ld ext g g' : g_key g' = g_key g -> get_ok ld ext g ->
  (match g_st g' with
   | GSLock id | GSLoad id | GSInstall id => is_ph id = true
   | GSStore id v => is_ph id = true /\ is_ph v = false /\ In (g_key g, v) ld
   | GSUnlock id v _ => is_ph id = true /\ is_ph v = false
   | GSDone (ROk v) => is_ph v = false /\ origin ld ext (g_key g) v
   | GSDone (RErr v _) => is_ph v = false
   | _ => True
   end) -> get_ok ld ext g'.
Proof. intros Ek [Hk _] H. split; rewrite Ek; assumption. Qed.

Lemma cached_read_vinv s c cl k hit v s1 stale :
  vinv s -> nth_error (a_cls s) c = Some cl -> cached_read s c cl k hit = Some (v, s1, stale) ->
  vinv s1 /\ a_gets s1 = a_gets s /\ a_loaded s1 = a_loaded s /\ a_ext s1 = a_ext s /\
  (forall x, v = Some x -> is_ph k = false -> is_ph x = false -> origin (a_loaded s) (a_ext s) k x).
Proof.
  intros HV Hc H. unfold cached_read in H.
  pose proof (Forall_nth _ _ _ _ (v_cls _ HV) Hc) as [Hid Hcache].
  destruct hit.
  - destruct (clookup (cl_cache cl) k) as [b|] eqn:E1.
    + inversion H; subst. split; [exact HV|]. split; [reflexivity|]. split; [reflexivity|]. split; [reflexivity|].
      intros x -> Hk Hx. apply (Hcache k x); auto. left. apply clookup_In, E1.
    + destruct (clookup (cl_prev cl) k) as [b|] eqn:E2; [|discriminate].
      inversion H; subst. split; [exact HV|]. split; [reflexivity|]. split; [reflexivity|]. split; [reflexivity|].
      intros x -> Hk Hx. apply (Hcache k x); auto. right. apply clookup_In, E2.
  - inversion H; subst. cbn [a_gets a_loaded a_ext].
    split; [|split; [reflexivity|split; [reflexivity|split; [reflexivity|]]]].
    + destruct HV as [H1 H2 H3]. constructor; cbn [a_store a_cls a_gets a_loaded a_ext]; auto.
      apply Forall_upd; [exact H2|]. split; cbn [cl_id cl_cache cl_prev]; [exact Hid|].
      intros k' x [Hin|Hin] Hk Hx.
      * destruct Hin as [E|Hin].
        -- injection E as -> E. eapply store_ok_sget; eauto.
        -- apply In_cremove in Hin. apply (Hcache k' x); auto.
      * apply In_cremove in Hin. apply (Hcache k' x); auto.
    + intros x E Hk Hx. eapply store_ok_sget; [apply HV|exact E|exact Hk|exact Hx].
Qed.

Lemma get_ok_after_value ld ext g x : get_ok ld ext g ->
  (is_ph x = false -> origin ld ext (g_key g) x) -> get_ok ld ext (enter g (after_value x)).
Proof.
  intros Hg Ho. destruct (enter_fields g (after_value x)) as (Ek & Es & _).
  eapply (get_ok_state ld ext g); [exact Ek|exact Hg|]. rewrite Es. unfold after_value.
  destruct (is_ph x) eqn:E; [exact I|]. auto.
Qed.

Lemma get_ok_set ld ext g st : get_ok ld ext g ->
  (match st with
   | GSLock id | GSLoad id | GSInstall id => is_ph id = true
   | GSStore id v => is_ph id = true /\ is_ph v = false /\ In (g_key g, v) ld
   | GSUnlock id v _ => is_ph id = true /\ is_ph v = false
   | GSDone (ROk v) => is_ph v = false /\ origin ld ext (g_key g) v
   | GSDone (RErr v _) => is_ph v = false
   | _ => True
   end) -> get_ok ld ext (set_st g st).
Proof. intros Hg H. eapply (get_ok_state ld ext g); [reflexivity|exact Hg|exact H]. Qed.

Lemma get_ok_enter ld ext g st : get_ok ld ext g ->
  (match st with
   | GSLock id | GSLoad id | GSInstall id => is_ph id = true
   | GSStore id v => is_ph id = true /\ is_ph v = false /\ In (g_key g, v) ld
   | GSUnlock id v _ => is_ph id = true /\ is_ph v = false
   | GSDone (ROk v) => is_ph v = false /\ origin ld ext (g_key g) v
   | GSDone (RErr v _) => is_ph v = false
   | _ => True
   end) -> get_ok ld ext (enter g st).
Proof.
  intros Hg H. destruct (enter_fields g st) as (Ek & Es & _).
  eapply (get_ok_state ld ext g); [exact Ek|exact Hg|rewrite Es; exact H].
Qed.

Lemma get_ok_flags ld ext g w p : get_ok ld ext g -> get_ok ld ext (set_flags g w p).
Proof. intros H. exact H. Qed.

Lemma get_ok_close_waits ld ext c ks g : get_ok ld ext g -> get_ok ld ext (close_waits c ks g).
Proof. intros H. unfold close_waits. destruct (Nat.eqb (g_cl g) c); exact H. Qed.

Lemma get_ok_close_all ld ext c g : get_ok ld ext g -> get_ok ld ext (close_all_waits c g).
Proof. intros H. unfold close_all_waits. destruct (Nat.eqb (g_cl g) c); exact H. Qed.

Lemma Forall_map_same {A} (P : A -> Prop) (f : A -> A) l : (forall x, P x -> P (f x)) -> Forall P l -> Forall P (map f l).
Proof. intros Hf H. induction H; cbn; constructor; auto. Qed.

(** a state that differs from a good one only in bookkeeping the value invariant does not look at *)
Lemma vinv_same s s' : vinv s -> a_store s' = a_store s -> a_cls s' = a_cls s -> a_gets s' = a_gets s ->
  a_loaded s' = a_loaded s -> a_ext s' = a_ext s -> vinv s'.
Proof. intros [H1 H2 H3] E1 E2 E3 E4 E5. constructor; rewrite ?E1, ?E2, ?E3, ?E4, ?E5; assumption. Qed.

Lemma vinv_init now : vinv (ainit now).
Proof. constructor; cbn; [intros k v e []|constructor|constructor]. Qed.

Lemma vinv_step cttl s l s' : vinv s -> label_ok l -> astep cttl s l = Some s' -> vinv s'.
Proof.
  intros HV HL HS. unfold astep in HS.
  destruct (astep_r cttl s l) as [[s1 ob]|] eqn:HR; [|discriminate]. injection HS as ->.
  pose proof HV as [V1 V2 V3].
  destruct l; cbn [astep_r label_ok] in HR, HL.
  - (* ANewClient *)
    injection HR as <- _. constructor; cbn [a_store a_cls a_gets a_loaded a_ext]; auto.
    apply Forall_app. split; [exact V2|]. constructor; [|constructor].
    split; cbn; [discriminate|]. intros k v [[]|[]].
  - (* AStartGet *)
    destruct (nth_error (a_cls s) c); [|discriminate]. injection HR as <- _.
    constructor; cbn [a_store a_cls a_gets a_loaded a_ext]; auto.
    apply Forall_app. split; [exact V3|]. constructor; [|constructor]. split; cbn; [exact HL|exact I].
  - (* ARead *)
    destruct (nth_error (a_gets s) g) as [gg|] eqn:Hg; [|discriminate].
    pose proof (Forall_nth _ _ _ _ V3 Hg) as Gok.
    destruct (g_st gg) eqn:Est; try discriminate.
    destruct (nth_error (a_cls s) (g_cl gg)) as [cl|] eqn:Hc; [|discriminate].
    destruct fail.
    + injection HR as <- _. apply vinv_with_get; [exact HV|]. apply get_ok_set; [exact Gok|reflexivity].
    + destruct (cached_read s (g_cl gg) cl (g_key gg) hit) as [[[v s2] stale]|] eqn:Ecr; [|discriminate].
      injection HR as <- _.
      destruct (cached_read_vinv _ _ _ _ _ _ _ _ HV Hc Ecr) as (HV2 & E1 & E2 & E3 & Hor).
      apply vinv_with_get; [exact HV2|]. rewrite E2, E3.
      destruct v as [x|].
      * apply get_ok_after_value; [apply get_ok_flags, Gok|].
        intros Hx. apply (Hor x eq_refl); [apply Gok|exact Hx].
      * apply get_ok_enter; [apply get_ok_flags, Gok|]. destruct (g_fn gg); [exact I|reflexivity].
  - (* AKeep *)
    destruct (nth_error (a_gets s) g) as [gg|] eqn:Hg; [|discriminate].
    pose proof (Forall_nth _ _ _ _ V3 Hg) as Gok.
    destruct (g_st gg) eqn:Est; try discriminate.
    destruct fail.
    + injection HR as <- _. apply vinv_with_get; [exact HV|]. apply get_ok_set; [exact Gok|reflexivity].
    + assert (HV2 : vinv (write s (sset (a_store s) newid [] (a_now s + cttl)) newid false)).
      { apply vinv_write; [exact HV|]. apply store_ok_sset; [exact V1|]. intros Hk. congruence. }
      pose proof (write_fields s (sset (a_store s) newid [] (a_now s + cttl)) newid false) as F.
      remember (write s (sset (a_store s) newid [] (a_now s + cttl)) newid false) as s2 eqn:Es2. clear Es2.
      destruct F as (F1 & F2 & F3 & F4 & F5 & _).
      injection HR as <- _. apply vinv_with_get; [exact HV2|]. rewrite F4, F5. apply get_ok_set; [exact Gok|exact HL].
  - (* ALock *)
    destruct (nth_error (a_gets s) g) as [gg|] eqn:Hg; [|discriminate].
    pose proof (Forall_nth _ _ _ _ V3 Hg) as Gok.
    destruct (g_st gg) eqn:Est; try discriminate.
    assert (Hid : is_ph id = true) by (destruct Gok as [_ H]; rewrite Est in H; exact H).
    destruct fail.
    + injection HR as <- _. apply vinv_with_get; [exact HV|]. apply get_ok_set; [exact Gok|reflexivity].
    + unfold srv_lock in HR. destruct (sget (a_store s) (g_key gg)) as [x|] eqn:Ex.
      * injection HR as <- _. apply vinv_with_get; [exact HV|].
        apply get_ok_after_value; [exact Gok|]. intros Hx.
        eapply store_ok_sget; [exact V1|exact Ex|apply Gok|exact Hx].
      * remember (sset (a_store s) (g_key gg) id (a_now s + g_ttl gg)) as st' eqn:Est'.
        assert (HV2 : vinv (write s st' (g_key gg) false)).
        { apply vinv_write; [exact HV|]. subst st'. apply store_ok_sset; [exact V1|]. intros _ Hv. congruence. }
        pose proof (write_fields s st' (g_key gg) false) as F.
        remember (write s st' (g_key gg) false) as s2 eqn:Es2. clear Es2.
        destruct F as (F1 & F2 & F3 & F4 & F5 & _).
        injection HR as <- _.
        destruct HV2 as [W1 W2 W3].
        constructor; cbn [with_get a_store a_cls a_gets a_loaded a_ext]; auto.
        apply Forall_upd; [exact W3|]. rewrite F4, F5. apply get_ok_set; [exact Gok|exact Hid].
  - (* ALoad *)
    destruct (nth_error (a_gets s) g) as [gg|] eqn:Hg; [|discriminate].
    pose proof (Forall_nth _ _ _ _ V3 Hg) as Gok.
    destruct (g_st gg) eqn:Est; try discriminate.
    assert (Hid : is_ph id = true) by (destruct Gok as [_ H]; rewrite Est in H; exact H).
    destruct res as [v|].
    + injection HR as <- _. constructor; cbn [a_store a_cls a_gets a_loaded a_ext].
      * eapply store_ok_mono; [apply incl_tl, incl_refl|apply incl_refl|exact V1].
      * eapply Forall_impl; [|exact V2]. intros cl. apply cl_ok_mono; [apply incl_tl, incl_refl|apply incl_refl].
      * apply Forall_upd.
        -- eapply Forall_impl; [|exact V3]. intros g0. apply get_ok_mono; [apply incl_tl, incl_refl|apply incl_refl].
        -- apply get_ok_set; [eapply get_ok_mono; [apply incl_tl, incl_refl|apply incl_refl|exact Gok]|].
           split; [exact Hid|]. split; [exact HL|]. left. reflexivity.
    + injection HR as <- _. apply vinv_with_get; [exact HV|]. apply get_ok_set; [exact Gok|]. split; [exact Hid|reflexivity].
  - (* AStore *)
    destruct (nth_error (a_gets s) g) as [gg|] eqn:Hg; [|discriminate].
    pose proof (Forall_nth _ _ _ _ V3 Hg) as Gok.
    destruct (g_st gg) eqn:Est; try discriminate.
    assert (Hst : is_ph id = true /\ is_ph v = false /\ In (g_key gg, v) (a_loaded s)) by (destruct Gok as [_ H]; rewrite Est in H; exact H).
    destruct Hst as (Hid & Hv & Hld).
    destruct (if executed then srv_setkey (a_now s) (a_store s) (g_key gg) id v (g_ttl gg) else (a_store s, false)) as [st' ok] eqn:Esk.
    assert (Hst' : store_ok (a_loaded s) (a_ext s) st').
    { destruct executed; [|injection Esk as <- _; exact V1].
      unfold srv_setkey in Esk. destruct (sget (a_store s) (g_key gg)) as [x|]; [|injection Esk as <- _; exact V1].
      destruct (bytes_eqb x id); injection Esk as <- _; [|exact V1].
      apply store_ok_sset; [exact V1|]. intros _ _. left. exact Hld. }
    assert (HV1 : vinv (if ok then write s st' (g_key gg) true else s)).
    { destruct ok; [apply vinv_write; assumption|exact HV]. }
    assert (Fld : a_loaded (if ok then write s st' (g_key gg) true else s) = a_loaded s /\
                  a_ext (if ok then write s st' (g_key gg) true else s) = a_ext s).
    { destruct ok; [|auto]. destruct (write_fields s st' (g_key gg) true) as (_ & _ & _ & F4 & F5 & _). auto. }
    destruct Fld as [F4 F5].
    destruct (executed && replied); injection HR as <- _.
    + apply vinv_with_get.
      * eapply vinv_same; [exact HV1|reflexivity..].
      * cbn [a_loaded a_ext]. rewrite F4, F5. apply get_ok_after_value; [exact Gok|]. intros _. left. exact Hld.
    + apply vinv_with_get; [exact HV1|]. rewrite F4, F5. apply get_ok_set; [exact Gok|]. auto.
  - (* AUnlock *)
    destruct (nth_error (a_gets s) g) as [gg|] eqn:Hg; [|discriminate].
    pose proof (Forall_nth _ _ _ _ V3 Hg) as Gok.
    destruct (g_st gg) eqn:Est; try discriminate.
    assert (Hst : is_ph id = true /\ is_ph v = false) by (destruct Gok as [_ H]; rewrite Est in H; exact H).
    destruct (if executed then srv_delkey (a_store s) (g_key gg) id else (a_store s, false)) as [st' ok] eqn:Esk.
    assert (Hst' : store_ok (a_loaded s) (a_ext s) st').
    { destruct executed; [|injection Esk as <- _; exact V1].
      unfold srv_delkey in Esk. destruct (sget (a_store s) (g_key gg)) as [x|]; [|injection Esk as <- _; exact V1].
      destruct (bytes_eqb x id); injection Esk as <- _; [|exact V1]. apply store_ok_sdel, V1. }
    assert (HV1 : vinv (if ok then write s st' (g_key gg) true else s)).
    { destruct ok; [apply vinv_write; assumption|exact HV]. }
    assert (Fld : a_loaded (if ok then write s st' (g_key gg) true else s) = a_loaded s /\
                  a_ext (if ok then write s st' (g_key gg) true else s) = a_ext s).
    { destruct ok; [|auto]. destruct (write_fields s st' (g_key gg) true) as (_ & _ & _ & F4 & F5 & _). auto. }
    destruct Fld as [F4 F5]. injection HR as <- _.
    apply vinv_with_get.
    + eapply vinv_same; [exact HV1|reflexivity..].
    + cbn [a_loaded a_ext]. rewrite F4, F5. apply get_ok_set; [exact Gok|]. apply Hst.
  - (* AProbe *)
    destruct (nth_error (a_gets s) g) as [gg|] eqn:Hg; [|discriminate].
    pose proof (Forall_nth _ _ _ _ V3 Hg) as Gok.
    destruct (g_st gg) eqn:Est; try discriminate.
    destruct (nth_error (a_cls s) (g_cl gg)) as [cl|] eqn:Hc; [|discriminate].
    destruct fail.
    + injection HR as <- _. apply vinv_with_get; [exact HV|]. apply get_ok_set; [exact Gok|reflexivity].
    + destruct (cached_read s (g_cl gg) cl ph hit) as [[[v s2] stale]|] eqn:Ecr; [|discriminate].
      injection HR as <- _.
      destruct (cached_read_vinv _ _ _ _ _ _ _ _ HV Hc Ecr) as (HV2 & E1 & E2 & E3 & _).
      apply vinv_with_get; [exact HV2|]. rewrite E2, E3.
      apply get_ok_set; [apply get_ok_flags, Gok|]. destruct v; exact I.
  - (* ARelease *)
    destruct (nth_error (a_gets s) g) as [gg|] eqn:Hg; [|discriminate].
    pose proof (Forall_nth _ _ _ _ V3 Hg) as Gok.
    destruct (g_st gg) eqn:Est; try discriminate.
    destruct (if executed then srv_delkey (a_store s) (g_key gg) ph else (a_store s, false)) as [st' ok] eqn:Esk.
    assert (Hst' : store_ok (a_loaded s) (a_ext s) st').
    { destruct executed; [|injection Esk as <- _; exact V1].
      unfold srv_delkey in Esk. destruct (sget (a_store s) (g_key gg)) as [x|]; [|injection Esk as <- _; exact V1].
      destruct (bytes_eqb x ph); injection Esk as <- _; [|exact V1]. apply store_ok_sdel, V1. }
    injection HR as <- _. destruct ok.
    + destruct (write_fields s st' (g_key gg) true) as (_ & _ & _ & F4 & F5 & _).
      apply vinv_with_get; [apply vinv_write; assumption|]. rewrite F4, F5. apply get_ok_set; [apply get_ok_flags, Gok|exact I].
    + apply vinv_with_get; [exact HV|]. apply get_ok_set; [apply get_ok_flags, Gok|exact I].
  - (* AWake *)
    destruct (nth_error (a_gets s) g) as [gg|] eqn:Hg; [|discriminate].
    pose proof (Forall_nth _ _ _ _ V3 Hg) as Gok.
    destruct (g_st gg) eqn:Est; try discriminate.
    destruct (g_wait_closed gg || g_ph_closed gg); [|discriminate]. injection HR as <- _.
    apply vinv_with_get; [exact HV|]. apply get_ok_set; [apply get_ok_flags, Gok|exact I].
  - (* ACtx *)
    destruct (nth_error (a_gets s) g) as [gg|] eqn:Hg; [|discriminate].
    pose proof (Forall_nth _ _ _ _ V3 Hg) as Gok.
    destruct (g_st gg) eqn:Est; try discriminate. injection HR as <- _.
    apply vinv_with_get; [exact HV|]. apply get_ok_set; [exact Gok|reflexivity].
  - (* AInval *)
    destruct (nth_error (a_cls s) c) as [cl|] eqn:Hc; [|discriminate].
    destruct (forallb (fun k => mem_pair (c, k) (a_infl s)) ks); [|discriminate]. injection HR as <- _.
    pose proof (Forall_nth _ _ _ _ V2 Hc) as [Hid Hcache].
    constructor; cbn [a_store a_cls a_gets a_loaded a_ext]; auto.
    + apply Forall_upd; [exact V2|]. split; cbn [cl_id cl_cache cl_prev]; [exact Hid|].
      intros k v [Hin|Hin] Hk Hv.
      * apply In_cremove in Hin. apply (Hcache k v); auto.
      * apply in_app_or in Hin. destruct Hin as [Hin|Hin]; [apply In_ckeep in Hin|]; apply (Hcache k v); auto.
    + apply Forall_map_same; [|exact V3]. intros x. apply get_ok_close_waits.
  - (* ADel *)
    destruct (sget (a_store s) key); injection HR as <- _; [|exact HV].
    apply vinv_write; [exact HV|apply store_ok_sdel, V1].
  - (* ASet *)
    destruct HL as [Hk Hv]. injection HR as <- _.
    set (st' := sset (a_store s) key v (if (ttl =? 0)%Z then 0%Z else (a_now s + ttl)%Z)).
    destruct (write_fields s st' key true) as (F1 & F2 & F3 & F4 & F5 & _).
    constructor; cbn [a_store a_cls a_gets a_loaded a_ext]; rewrite ?F1, ?F2, ?F3, ?F4, ?F5.
    + apply store_ok_sset.
      * eapply store_ok_mono; [apply incl_refl|apply incl_tl, incl_refl|exact V1].
      * intros _ _. right. left. reflexivity.
    + eapply Forall_impl; [|exact V2]. intros cl. apply cl_ok_mono; [apply incl_refl|apply incl_tl, incl_refl].
    + eapply Forall_impl; [|exact V3]. intros g0. apply get_ok_mono; [apply incl_refl|apply incl_tl, incl_refl].
  - (* ATick *)
    destruct (dt <? 0)%Z; [discriminate|].
    destruct (touch_all (a_track s) (a_infl s) (gone_keys (a_store s) (expire (a_now s + dt) (a_store s)))) as [tr infl].
    injection HR as <- _. constructor; cbn [a_store a_cls a_gets a_loaded a_ext]; auto.
    apply store_ok_expire, V1.
  - (* AClose *)
    destruct (nth_error (a_cls s) c) as [cl|] eqn:Hc; [|discriminate]. injection HR as <- _.
    pose proof (Forall_nth _ _ _ _ V2 Hc) as [Hid Hcache].
    constructor; cbn [a_store a_cls a_gets a_loaded a_ext]; auto.
    apply Forall_upd; [exact V2|]. split; cbn [cl_id cl_cache cl_prev]; assumption.
  - (* ALost *)
    destruct (nth_error (a_cls s) c) as [cl|] eqn:Hc; [|discriminate]. injection HR as <- _.
    constructor; cbn [a_store a_cls a_gets a_loaded a_ext]; auto.
    + apply Forall_upd; [exact V2|]. split; cbn [cl_id cl_cache cl_prev]; [discriminate|]. intros k v [[]|[]].
    + apply Forall_map_same; [|exact V3]. intros x. apply get_ok_close_all.
  - (* ARefresh *)
    destruct (nth_error (a_cls s) c) as [cl|] eqn:Hc; [|discriminate].
    destruct (cl_id cl) as [id|] eqn:Eid; [|discriminate]. injection HR as <- _.
    pose proof (Forall_nth _ _ _ _ V2 Hc) as [Hid Hcache].
    apply vinv_write; [exact HV|]. apply store_ok_sset; [exact V1|]. intros Hk. rewrite (Hid id Eid) in Hk. discriminate.
  - (* AKeepReuse *)
    destruct (nth_error (a_gets s) g) as [gg|] eqn:Hg; [|discriminate].
    pose proof (Forall_nth _ _ _ _ V3 Hg) as Gok.
    destruct (g_st gg) eqn:Est; try discriminate.
    destruct (nth_error (a_cls s) (g_cl gg)) as [cl|] eqn:Hc; [|discriminate].
    pose proof (Forall_nth _ _ _ _ V2 Hc) as [Hid Hcache].
    destruct (cl_id cl) as [id|] eqn:Eid; [|discriminate].
    injection HR as <- _. apply vinv_with_get; [exact HV|]. apply get_ok_set; [exact Gok|]. apply Hid. reflexivity.
  - (* AInstall *)
    destruct (nth_error (a_gets s) g) as [gg|] eqn:Hg; [|discriminate].
    pose proof (Forall_nth _ _ _ _ V3 Hg) as Gok.
    destruct (g_st gg) eqn:Est; try discriminate.
    destruct (nth_error (a_cls s) (g_cl gg)) as [cl|] eqn:Hc; [|discriminate].
    pose proof (Forall_nth _ _ _ _ V2 Hc) as [Hid Hcache].
    assert (Hnew : is_ph newid = true) by (destruct Gok as [_ G]; rewrite Est in G; exact G).
    destruct (cl_id cl) as [id|] eqn:Eid.
    + injection HR as <- _. apply vinv_with_get; [exact HV|]. apply get_ok_set; [exact Gok|]. apply Hid. reflexivity.
    + injection HR as <- _.
      constructor; cbn [with_get a_store a_cls a_gets a_loaded a_ext].
      * exact V1.
      * apply Forall_upd; [exact V2|]. split; cbn [cl_id cl_cache cl_prev].
        -- intros id E. injection E as <-. exact Hnew.
        -- exact Hcache.
      * apply Forall_upd; [exact V3|]. apply get_ok_set; [exact Gok|exact Hnew].
Qed.

Lemma vinv_run cttl : forall ls s s', vinv s -> Forall label_ok ls -> arun cttl s ls = Some s' -> vinv s'.
Proof.
  induction ls as [|l ls IH]; intros s s' HV HL HR; cbn [arun] in HR.
  - injection HR as <-. exact HV.
  - inversion HL; subst. destruct (astep cttl s l) as [s1|] eqn:E; [|discriminate].
    eapply IH; [eapply vinv_step; eauto|assumption|exact HR].
Qed.

(** a Get never returns the lock placeholder, with or without an error *)
Theorem no_placeholder_returned cttl now ls s gi g r :
  Forall label_ok ls -> arun cttl (ainit now) ls = Some s ->
  nth_error (a_gets s) gi = Some g -> g_st g = GSDone r ->
  match r with ROk v | RErr v _ => is_ph v = false end.
Proof.
  intros HL HR Hg Hs. pose proof (vinv_run cttl ls _ _ (vinv_init now) HL HR) as HV.
  pose proof (Forall_nth _ _ _ _ (v_gets _ HV) Hg) as [_ H]. rewrite Hs in H. destruct r; tauto.
Qed.

(** a value returned without error was produced by a loader for that key, or written by the other application *)
Theorem value_origin cttl now ls s gi g v :
  Forall label_ok ls -> arun cttl (ainit now) ls = Some s ->
  nth_error (a_gets s) gi = Some g -> g_st g = GSDone (ROk v) ->
  In (g_key g, v) (a_loaded s) \/ In (g_key g, v) (a_ext s).
Proof.
  intros HL HR Hg Hs. pose proof (vinv_run cttl ls _ _ (vinv_init now) HL HR) as HV.
  pose proof (Forall_nth _ _ _ _ (v_gets _ HV) Hg) as [_ H]. rewrite Hs in H. apply H.
Qed.

(** ---- one loader per key while its lock is undisturbed ---- *)

Definition holding (st : gstate) (id : bytes) : Prop :=
  st = GSLoad id \/ (exists v, st = GSStore id v) \/ (exists v e, st = GSUnlock id v e).

Record linv (s : astate) : Prop := {
  l_uniq : uniq (a_store s);
  l_entries : forall k gi, In (k, gi) (a_lock s) ->
              exists g id, nth_error (a_gets s) gi = Some g /\ g_key g = k /\ holding (g_st g) id /\ sget (a_store s) k = Some id;
  l_nodup : NoDup (map fst (a_lock s)) }.

Lemma linv_init now : linv (ainit now).
Proof. constructor; cbn; [constructor|intros k gi []|constructor]. Qed.

Lemma NoDup_map_filter {A B} (f : A -> B) (p : A -> bool) l : NoDup (map f l) -> NoDup (map f (filter p l)).
Proof.
  induction l as [|x l IH]; cbn [filter map]; intros H; [constructor|].
  inversion H as [|? ? Hn Hr]; subst. destruct (p x); [|apply IH, Hr].
  cbn [map]. constructor; [|apply IH, Hr]. intros Hin. apply Hn.
  apply in_map_iff in Hin. destruct Hin as (y & Hy & Hin). apply filter_In in Hin. apply in_map_iff. exists y. tauto.
Qed.

Lemma mem_key_true x l : mem_key x l = true <-> In x l.
Proof.
  induction l as [|y l IH]; cbn [mem_key In]; [split; [discriminate|tauto]|].
  rewrite orb_true_iff, IH, bytes_eqb_eq. split; intros [H|H]; auto.
Qed.

Lemma gone_spec now st k v : sget st k = Some v -> sget (expire now st) k = None ->
  mem_key k (gone_keys st (expire now st)) = true.
Proof.
  intros H1 H2. apply mem_key_true. unfold gone_keys. apply in_map_iff.
  destruct (sget_In _ _ _ H1) as (e & He). exists (k, (v, e)). split; [reflexivity|].
  apply filter_In. split; [exact He|]. cbn [fst]. rewrite H2. reflexivity.
Qed.

Lemma not_holding_states st id : holding st id ->
  st <> GSRead /\ st <> GSKeep /\ (forall x, st <> GSLock x) /\ (forall x, st <> GSProbe x) /\
  (forall x, st <> GSRelease x) /\ (forall x, st <> GSWait x) /\ (forall r, st <> GSDone r) /\ (forall x, st <> GSInstall x).
Proof. intros [->|[[v ->]|[v [e ->]]]]; repeat split; intros; discriminate. Qed.

(** a step that changes neither the store, nor the lock ghost, nor the key/state of any Get that holds *)
Lemma linv_frame s s' : linv s -> a_store s' = a_store s -> a_lock s' = a_lock s ->
  (forall gi g id, nth_error (a_gets s) gi = Some g -> holding (g_st g) id ->
                   exists g', nth_error (a_gets s') gi = Some g' /\ g_key g' = g_key g /\ g_st g' = g_st g) ->
  linv s'.
Proof.
  intros [H1 H2 H3] E1 E2 Hg. constructor; rewrite ?E1, ?E2; auto.
  intros k gi Hin. destruct (H2 k gi Hin) as (g & id & Hn & Hk & Hh & Hs).
  destruct (Hg gi g id Hn Hh) as (g' & Hn' & Hk' & Hs').
  exists g', id. rewrite Hk', Hs'. auto.
Qed.

Lemma nth_error_with_get_other s gi g gj : gi <> gj -> nth_error (a_gets (with_get s gi g)) gj = nth_error (a_gets s) gj.
Proof. intros N. cbn [with_get a_gets]. apply nth_error_upd_other, N. Qed.

(** changing the state of a Get that does not hold *)
Lemma linv_with_get_nonholder s gi g g' : linv s -> nth_error (a_gets s) gi = Some g ->
  (forall id, ~ holding (g_st g) id) -> linv (with_get s gi g').
Proof.
  intros HL Hn Hnh. apply (linv_frame s); [exact HL|reflexivity|reflexivity|].
  intros gj gg id Hj Hh. destruct (Nat.eq_dec gi gj) as [->|N].
  - rewrite Hn in Hj. injection Hj as <-. exfalso. eapply Hnh; eauto.
  - exists gg. rewrite nth_error_with_get_other by exact N. auto.
Qed.

Lemma linv_change s s' :
  linv s -> uniq (a_store s') -> NoDup (map fst (a_lock s')) ->
  (forall k gi, In (k, gi) (a_lock s') ->
     In (k, gi) (a_lock s) /\ sget (a_store s') k = sget (a_store s) k /\
     forall g, nth_error (a_gets s) gi = Some g ->
       exists g', nth_error (a_gets s') gi = Some g' /\ g_key g' = g_key g /\
                  (forall id, holding (g_st g) id -> holding (g_st g') id)) ->
  linv s'.
Proof.
  intros [H1 H2 H3] U N H. constructor; auto.
  intros k gi Hin. destruct (H k gi Hin) as (Hin0 & Hs & Hg).
  destruct (H2 k gi Hin0) as (g & id & Hn & Hk & Hh & Hst).
  destruct (Hg g Hn) as (g' & Hn' & Hk' & Hh').
  exists g', id. rewrite Hk', Hs. auto.
Qed.

Lemma write_lock s st' k u :
  a_lock (write s st' k u) = if u then filter (fun e => negb (bytes_eqb (fst e) k)) (a_lock s) else a_lock s.
Proof. unfold write. destruct (touch (a_track s) (a_infl s) k). reflexivity. Qed.

Lemma In_filter_key (l : list (bytes * nat)) k k' gi :
  In (k', gi) (filter (fun e => negb (bytes_eqb (fst e) k)) l) -> In (k', gi) l /\ k' <> k.
Proof.
  intros H. apply filter_In in H. destruct H as [H1 H2]. split; [exact H1|].
  cbn [fst] in H2. apply negb_true_iff in H2. apply bytes_eqb_neq in H2. exact H2.
Qed.

Lemma is_ph_neq a b : is_ph a = true -> is_ph b = false -> a <> b.
Proof. intros Ha Hb E. subst. congruence. Qed.

(** the keys under the lock ghost are cached keys (not placeholder-shaped) *)
Lemma lock_key_not_ph s k gi : vinv s -> linv s -> In (k, gi) (a_lock s) -> is_ph k = false.
Proof.
  intros HV HL Hin. destruct (l_entries _ HL k gi Hin) as (g & id & Hn & Hk & _).
  pose proof (Forall_nth _ _ _ _ (v_gets _ HV) Hn) as [H _]. congruence.
Qed.

Lemma holder_in_lock_state s k gi g : linv s -> In (k, gi) (a_lock s) -> nth_error (a_gets s) gi = Some g ->
  exists id, holding (g_st g) id.
Proof.
  intros HL Hin Hn. destruct (l_entries _ HL k gi Hin) as (g0 & id & Hn0 & _ & Hh & _).
  rewrite Hn in Hn0. injection Hn0 as <-. eauto.
Qed.

Lemma cached_read_frame s c cl k hit v s1 stale : cached_read s c cl k hit = Some (v, s1, stale) ->
  a_store s1 = a_store s /\ a_lock s1 = a_lock s /\ a_gets s1 = a_gets s /\ a_now s1 = a_now s.
Proof.
  unfold cached_read. destruct hit.
  - destruct (clookup (cl_cache cl) k); [intros H; inversion H; subst; auto|].
    destruct (clookup (cl_prev cl) k); [intros H; inversion H; subst; auto|discriminate].
  - intros H; inversion H; subst; auto.
Qed.

Lemma close_waits_fields c ks g : g_key (close_waits c ks g) = g_key g /\ g_st (close_waits c ks g) = g_st g /\ g_cl (close_waits c ks g) = g_cl g.
Proof. unfold close_waits. destruct (Nat.eqb (g_cl g) c); cbn; auto. Qed.

Lemma close_all_fields c g : g_key (close_all_waits c g) = g_key g /\ g_st (close_all_waits c g) = g_st g /\ g_cl (close_all_waits c g) = g_cl g.
Proof. unfold close_all_waits. destruct (Nat.eqb (g_cl g) c); cbn; auto. Qed.

Lemma holding_inj st id id' : holding st id -> holding st id' -> id = id'.
Proof.
  intros [->|[[v ->]|[v [e ->]]]] [H|[[v' H]|[v' [e' H]]]]; try discriminate; injection H; auto.
Qed.

Lemma srv_setkey_false now st k id v ttl st' : srv_setkey now st k id v ttl = (st', false) -> st' = st.
Proof. unfold srv_setkey. destruct (sget st k) as [x|]; [destruct (bytes_eqb x id)|]; intros H; inversion H; reflexivity. Qed.

Lemma srv_setkey_true now st k id v ttl st' : srv_setkey now st k id v ttl = (st', true) -> st' = sset st k v (now + ttl).
Proof. unfold srv_setkey. destruct (sget st k) as [x|]; [destruct (bytes_eqb x id)|]; intros H; inversion H; reflexivity. Qed.

Lemma srv_delkey_false st k id st' : srv_delkey st k id = (st', false) -> st' = st.
Proof. unfold srv_delkey. destruct (sget st k) as [x|]; [destruct (bytes_eqb x id)|]; intros H; inversion H; reflexivity. Qed.

Lemma srv_delkey_true st k id st' : srv_delkey st k id = (st', true) -> st' = sdel st k.
Proof. unfold srv_delkey. destruct (sget st k) as [x|]; [destruct (bytes_eqb x id)|]; intros H; inversion H; reflexivity. Qed.

Lemma In_filter_snd (l : list (bytes * nat)) gi k gj :
  In (k, gj) (filter (fun e => negb (Nat.eqb (snd e) gi)) l) -> In (k, gj) l /\ gj <> gi.
Proof.
  intros H. apply filter_In in H. destruct H as [H1 H2]. split; [exact H1|].
  cbn [snd] in H2. apply negb_true_iff in H2. apply Nat.eqb_neq in H2. exact H2.
Qed.

Lemma linv_step cttl s l s' : vinv s -> linv s -> label_ok l -> astep cttl s l = Some s' -> linv s'.
Proof.
  intros HV HI HL HS. unfold astep in HS.
  destruct (astep_r cttl s l) as [[s1 ob]|] eqn:HR; [|discriminate]. injection HS as ->.
  pose proof HI as [U LE ND].
  (* a Get in a state that does not hold a lock *)
  assert (NH : forall gi g, nth_error (a_gets s) gi = Some g ->
               (g_st g = GSRead \/ g_st g = GSKeep \/ (exists x, g_st g = GSLock x) \/ (exists x, g_st g = GSProbe x) \/
                (exists x, g_st g = GSRelease x) \/ (exists x, g_st g = GSWait x) \/ (exists x, g_st g = GSInstall x)) -> forall id, ~ holding (g_st g) id).
  { intros gi g _ H id Hh. destruct (not_holding_states _ _ Hh) as (A & B & C & D & E & F & G & G2).
    destruct H as [H|[H|[[x H]|[[x H]|[[x H]|[[x H]|[x H]]]]]]]; rewrite H in *; congruence. }
  destruct l; cbn [astep_r label_ok] in HR, HL.
  - (* ANewClient *)
    injection HR as <- _. apply (linv_frame s); auto. intros gi g id Hn _. exists g. auto.
  - (* AStartGet *)
    destruct (nth_error (a_cls s) c); [|discriminate]. injection HR as <- _.
    apply (linv_frame s); auto. intros gi g id Hn _. exists g. cbn [a_gets].
    rewrite nth_error_app1 by (eapply nth_error_lt; eauto). auto.
  - (* ARead *)
    destruct (nth_error (a_gets s) g) as [gg|] eqn:Hg; [|discriminate].
    destruct (g_st gg) eqn:Est; try discriminate.
    destruct (nth_error (a_cls s) (g_cl gg)) as [cl|] eqn:Hc; [|discriminate].
    destruct fail.
    + injection HR as <- _. eapply linv_with_get_nonholder; [exact HI|exact Hg|]. eapply NH; eauto.
    + destruct (cached_read s (g_cl gg) cl (g_key gg) hit) as [[[v s2] stale]|] eqn:Ecr; [|discriminate].
      injection HR as <- _. destruct (cached_read_frame _ _ _ _ _ _ _ _ Ecr) as (F1 & F2 & F3 & _).
      assert (HI2 : linv s2).
      { apply (linv_frame s); auto. intros gi g0 id Hn _. exists g0. rewrite F3. auto. }
      eapply linv_with_get_nonholder; [exact HI2|rewrite F3; exact Hg|]. eapply NH; eauto.
  - (* AKeep *)
    destruct (nth_error (a_gets s) g) as [gg|] eqn:Hg; [|discriminate].
    destruct (g_st gg) eqn:Est; try discriminate.
    destruct fail.
    + injection HR as <- _. eapply linv_with_get_nonholder; [exact HI|exact Hg|]. eapply NH; eauto.
    + pose proof (write_fields s (sset (a_store s) newid [] (a_now s + cttl)) newid false) as F.
      pose proof (write_lock s (sset (a_store s) newid [] (a_now s + cttl)) newid false) as FL.
      remember (write s (sset (a_store s) newid [] (a_now s + cttl)) newid false) as s2 eqn:Es2. clear Es2.
      destruct F as (F1 & F2 & F3 & F4 & F5 & _). injection HR as <- _.
      apply (linv_change s _ HI); cbn [with_get a_store a_lock a_gets].
      * rewrite F1. apply uniq_sset, U.
      * rewrite FL. exact ND.
      * rewrite FL, F1, F3. intros k gj Hin. split; [exact Hin|]. split.
        -- apply sget_sset_other. apply is_ph_neq; [exact HL|]. eapply lock_key_not_ph; eauto.
        -- intros g0 Hn. exists g0. split; [|auto].
           rewrite nth_error_upd_other; [exact Hn|]. intros ->.
           rewrite Hg in Hn. injection Hn as <-.
           destruct (holder_in_lock_state s k gj gg HI Hin Hg) as (id & Hh).
           eapply NH; eauto.
  - (* ALock *)
    destruct (nth_error (a_gets s) g) as [gg|] eqn:Hg; [|discriminate].
    destruct (g_st gg) eqn:Est; try discriminate.
    destruct fail.
    + injection HR as <- _. eapply linv_with_get_nonholder; [exact HI|exact Hg|]. eapply NH; eauto.
    + unfold srv_lock in HR. destruct (sget (a_store s) (g_key gg)) as [x|] eqn:Ex.
      * injection HR as <- _. eapply linv_with_get_nonholder; [exact HI|exact Hg|]. eapply NH; eauto.
      * pose proof (write_fields s (sset (a_store s) (g_key gg) id (a_now s + g_ttl gg)) (g_key gg) false) as F.
        pose proof (write_lock s (sset (a_store s) (g_key gg) id (a_now s + g_ttl gg)) (g_key gg) false) as FL.
        remember (write s (sset (a_store s) (g_key gg) id (a_now s + g_ttl gg)) (g_key gg) false) as s2 eqn:Es2. clear Es2.
        destruct F as (F1 & F2 & F3 & F4 & F5 & _). injection HR as <- _.
        assert (Hfresh : forall gj, ~ In (g_key gg, gj) (a_lock s)).
        { intros gj Hin. destruct (LE _ _ Hin) as (g0 & id0 & _ & _ & _ & Hs). congruence. }
        constructor; cbn [with_get a_store a_lock a_gets].
        -- rewrite F1. apply uniq_sset, U.
        -- rewrite FL, F1, F3. intros k gj [E|Hin].
           ++ injection E as <- <-. exists (set_st gg (GSLoad id)), id.
              split; [apply nth_error_upd_same; eapply nth_error_lt; eauto|].
              split; [reflexivity|]. split; [left; reflexivity|apply sget_sset_same].
           ++ destruct (LE _ _ Hin) as (g0 & id0 & Hn & Hk & Hh & Hs).
              assert (Nk : g_key gg <> k) by (intros E; rewrite <- E in Hin; eapply Hfresh; eauto).
              exists g0, id0. split.
              { rewrite nth_error_upd_other; [exact Hn|]. intros ->. rewrite Hg in Hn. injection Hn as <-.
                eapply NH; eauto. }
              split; [exact Hk|]. split; [exact Hh|]. rewrite sget_sset_other by exact Nk. exact Hs.
        -- rewrite FL. cbn [map fst]. constructor; [|exact ND].
           intros Hin. apply in_map_iff in Hin. destruct Hin as ([k gj] & Ek & Hin). cbn in Ek. subst k.
           eapply Hfresh; eauto.
  - (* ALoad *)
    destruct (nth_error (a_gets s) g) as [gg|] eqn:Hg; [|discriminate].
    destruct (g_st gg) eqn:Est; try discriminate.
    destruct res as [v|]; injection HR as <- _.
    + apply (linv_change s _ HI); cbn [a_store a_lock a_gets]; auto.
      intros k gj Hin. split; [exact Hin|]. split; [reflexivity|]. intros g0 Hn.
      destruct (Nat.eq_dec g gj) as [->|N].
      * rewrite Hg in Hn. injection Hn as <-. exists (set_st gg (GSStore id v)).
        split; [apply nth_error_upd_same; eapply nth_error_lt; eauto|]. split; [reflexivity|].
        intros id' Hh. rewrite Est in Hh. assert (id' = id) by (eapply holding_inj; [exact Hh|left; reflexivity]). subst.
        right. left. eexists. reflexivity.
      * exists g0. rewrite nth_error_upd_other by exact N. auto.
    + apply (linv_change s _ HI); cbn [with_get a_store a_lock a_gets]; auto.
      intros k gj Hin. split; [exact Hin|]. split; [reflexivity|]. intros g0 Hn.
      destruct (Nat.eq_dec g gj) as [->|N].
      * rewrite Hg in Hn. injection Hn as <-. exists (set_st gg (GSUnlock id [] ELoader)).
        split; [apply nth_error_upd_same; eapply nth_error_lt; eauto|]. split; [reflexivity|].
        intros id' Hh. rewrite Est in Hh. assert (id' = id) by (eapply holding_inj; [exact Hh|left; reflexivity]). subst.
        right. right. eexists. eexists. reflexivity.
      * exists g0. rewrite nth_error_upd_other by exact N. auto.
  - (* AStore *)
    destruct (nth_error (a_gets s) g) as [gg|] eqn:Hg; [|discriminate].
    destruct (g_st gg) eqn:Est; try discriminate.
    destruct (if executed then srv_setkey (a_now s) (a_store s) (g_key gg) id v (g_ttl gg) else (a_store s, false)) as [st' ok] eqn:Esk.
    assert (Hst : (ok = false /\ st' = a_store s) \/ (ok = true /\ st' = sset (a_store s) (g_key gg) v (a_now s + g_ttl gg))).
    { destruct executed; [|injection Esk as <- <-; auto].
      destruct ok; [right; split; [reflexivity|eapply srv_setkey_true; eauto]|left; split; [reflexivity|eapply srv_setkey_false; eauto]]. }
    pose proof (write_fields s st' (g_key gg) true) as F. pose proof (write_lock s st' (g_key gg) true) as FL.
    remember (write s st' (g_key gg) true) as sw eqn:Esw. clear Esw.
    destruct F as (F1 & F2 & F3 & F4 & F5 & _).
    destruct (executed && replied); injection HR as <- _.
    + apply (linv_change s _ HI); cbn [with_get a_store a_lock a_gets].
      * destruct Hst as [[-> ->]|[-> ->]]; [exact U|rewrite F1; apply uniq_sset, U].
      * apply NoDup_map_filter. destruct ok; [rewrite FL; apply NoDup_map_filter|]; exact ND.
      * intros k gj Hin. apply In_filter_snd in Hin. destruct Hin as [Hin Ngj].
        destruct Hst as [[-> ->]|[-> ->]].
        -- split; [exact Hin|]. split; [reflexivity|]. intros g0 Hn. exists g0.
           rewrite nth_error_upd_other by (intros E; apply Ngj; auto). auto.
        -- rewrite FL in Hin. apply In_filter_key in Hin. destruct Hin as [Hin Nk].
           split; [exact Hin|]. split; [rewrite F1; apply sget_sset_other; congruence|].
           intros g0 Hn. exists g0. rewrite F3. rewrite nth_error_upd_other by (intros E; apply Ngj; auto). auto.
    + apply (linv_change s _ HI); cbn [with_get a_store a_lock a_gets].
      * destruct Hst as [[-> ->]|[-> ->]]; [exact U|rewrite F1; apply uniq_sset, U].
      * destruct ok; [rewrite FL; apply NoDup_map_filter|]; exact ND.
      * intros k gj Hin.
        assert (Hin0 : In (k, gj) (a_lock s) /\ sget (a_store (if ok then sw else s)) k = sget (a_store s) k).
        { destruct Hst as [[-> ->]|[-> ->]]; [auto|].
          rewrite FL in Hin. apply In_filter_key in Hin. destruct Hin as [Hin Nk].
          split; [exact Hin|]. rewrite F1. apply sget_sset_other. congruence. }
        destruct Hin0 as [Hin0 Hs]. split; [exact Hin0|]. split; [exact Hs|].
        intros g0 Hn. assert (Eg : a_gets (if ok then sw else s) = a_gets s) by (destruct ok; auto). rewrite Eg.
        destruct (Nat.eq_dec g gj) as [->|N].
        -- rewrite Hg in Hn. injection Hn as <-. exists (set_st gg (GSUnlock id v ENet)).
           split; [apply nth_error_upd_same; eapply nth_error_lt; eauto|]. split; [reflexivity|].
           intros id' Hh. rewrite Est in Hh.
           assert (id' = id) by (eapply holding_inj; [exact Hh|right; left; eexists; reflexivity]). subst.
           right. right. eexists. eexists. reflexivity.
        -- exists g0. rewrite nth_error_upd_other by exact N. auto.
  - (* AUnlock *)
    destruct (nth_error (a_gets s) g) as [gg|] eqn:Hg; [|discriminate].
    destruct (g_st gg) eqn:Est; try discriminate.
    destruct (if executed then srv_delkey (a_store s) (g_key gg) id else (a_store s, false)) as [st' ok] eqn:Esk.
    assert (Hst : (ok = false /\ st' = a_store s) \/ (ok = true /\ st' = sdel (a_store s) (g_key gg))).
    { destruct executed; [|injection Esk as <- <-; auto].
      destruct ok; [right; split; [reflexivity|eapply srv_delkey_true; eauto]|left; split; [reflexivity|eapply srv_delkey_false; eauto]]. }
    pose proof (write_fields s st' (g_key gg) true) as F. pose proof (write_lock s st' (g_key gg) true) as FL.
    remember (write s st' (g_key gg) true) as sw eqn:Esw. clear Esw.
    destruct F as (F1 & F2 & F3 & F4 & F5 & _). injection HR as <- _.
    apply (linv_change s _ HI); cbn [with_get a_store a_lock a_gets].
    + destruct Hst as [[-> ->]|[-> ->]]; [exact U|rewrite F1; apply uniq_sdel, U].
    + apply NoDup_map_filter. destruct ok; [rewrite FL; apply NoDup_map_filter|]; exact ND.
    + intros k gj Hin. apply In_filter_snd in Hin. destruct Hin as [Hin Ngj].
      destruct Hst as [[-> ->]|[-> ->]].
      * split; [exact Hin|]. split; [reflexivity|]. intros g0 Hn. exists g0.
        rewrite nth_error_upd_other by (intros E; apply Ngj; auto). auto.
      * rewrite FL in Hin. apply In_filter_key in Hin. destruct Hin as [Hin Nk].
        split; [exact Hin|]. split; [rewrite F1; apply sget_sdel_other; congruence|].
        intros g0 Hn. exists g0. rewrite F3. rewrite nth_error_upd_other by (intros E; apply Ngj; auto). auto.
  - (* AProbe *)
    destruct (nth_error (a_gets s) g) as [gg|] eqn:Hg; [|discriminate].
    destruct (g_st gg) eqn:Est; try discriminate.
    destruct (nth_error (a_cls s) (g_cl gg)) as [cl|] eqn:Hc; [|discriminate].
    destruct fail.
    + injection HR as <- _. eapply linv_with_get_nonholder; [exact HI|exact Hg|]. eapply NH; eauto 10.
    + destruct (cached_read s (g_cl gg) cl ph hit) as [[[v s2] stale]|] eqn:Ecr; [|discriminate].
      injection HR as <- _. destruct (cached_read_frame _ _ _ _ _ _ _ _ Ecr) as (F1 & F2 & F3 & _).
      assert (HI2 : linv s2).
      { apply (linv_frame s); auto. intros gi g0 id Hn _. exists g0. rewrite F3. auto. }
      eapply linv_with_get_nonholder; [exact HI2|rewrite F3; exact Hg|]. eapply NH; eauto 10.
  - (* ARelease *)
    destruct (nth_error (a_gets s) g) as [gg|] eqn:Hg; [|discriminate].
    destruct (g_st gg) eqn:Est; try discriminate.
    destruct (if executed then srv_delkey (a_store s) (g_key gg) ph else (a_store s, false)) as [st' ok] eqn:Esk.
    assert (Hst : (ok = false /\ st' = a_store s) \/ (ok = true /\ st' = sdel (a_store s) (g_key gg))).
    { destruct executed; [|injection Esk as <- <-; auto].
      destruct ok; [right; split; [reflexivity|eapply srv_delkey_true; eauto]|left; split; [reflexivity|eapply srv_delkey_false; eauto]]. }
    injection HR as <- _.
    destruct Hst as [[-> ->]|[-> ->]].
    + eapply linv_with_get_nonholder; [exact HI|exact Hg|]. eapply NH; eauto 10.
    + pose proof (write_fields s (sdel (a_store s) (g_key gg)) (g_key gg) true) as F.
      pose proof (write_lock s (sdel (a_store s) (g_key gg)) (g_key gg) true) as FL.
      remember (write s (sdel (a_store s) (g_key gg)) (g_key gg) true) as sw eqn:Esw. clear Esw.
      destruct F as (F1 & F2 & F3 & F4 & F5 & _).
      apply (linv_change s _ HI); cbn [with_get a_store a_lock a_gets].
      * rewrite F1. apply uniq_sdel, U.
      * rewrite FL. apply NoDup_map_filter, ND.
      * intros k gj Hin. rewrite FL in Hin. apply In_filter_key in Hin. destruct Hin as [Hin Nk].
        split; [exact Hin|]. split; [rewrite F1; apply sget_sdel_other; congruence|].
        intros g0 Hn. exists g0. rewrite F3. split; [|auto].
        rewrite nth_error_upd_other; [exact Hn|]. intros ->. rewrite Hg in Hn. injection Hn as <-.
        destruct (holder_in_lock_state s k gj gg HI Hin Hg) as (id & Hh). eapply NH; eauto 10.
  - (* AWake *)
    destruct (nth_error (a_gets s) g) as [gg|] eqn:Hg; [|discriminate].
    destruct (g_st gg) eqn:Est; try discriminate.
    destruct (g_wait_closed gg || g_ph_closed gg); [|discriminate]. injection HR as <- _.
    eapply linv_with_get_nonholder; [exact HI|exact Hg|]. eapply NH; eauto 10.
  - (* ACtx *)
    destruct (nth_error (a_gets s) g) as [gg|] eqn:Hg; [|discriminate].
    destruct (g_st gg) eqn:Est; try discriminate. injection HR as <- _.
    eapply linv_with_get_nonholder; [exact HI|exact Hg|]. eapply NH; eauto 10.
  - (* AInval *)
    destruct (nth_error (a_cls s) c) as [cl|] eqn:Hc; [|discriminate].
    destruct (forallb (fun k => mem_pair (c, k) (a_infl s)) ks); [|discriminate]. injection HR as <- _.
    apply (linv_frame s); auto. intros gi g0 id Hn _. exists (close_waits c ks g0). cbn [a_gets].
    rewrite nth_error_map, Hn. destruct (close_waits_fields c ks g0) as (A & B & _). auto.
  - (* ADel *)
    destruct (sget (a_store s) key) eqn:Ek; injection HR as <- _; [|exact HI].
    pose proof (write_fields s (sdel (a_store s) key) key true) as F.
    pose proof (write_lock s (sdel (a_store s) key) key true) as FL.
    remember (write s (sdel (a_store s) key) key true) as sw eqn:Esw. clear Esw.
    destruct F as (F1 & F2 & F3 & F4 & F5 & _).
    apply (linv_change s _ HI).
    + rewrite F1. apply uniq_sdel, U.
    + rewrite FL. apply NoDup_map_filter, ND.
    + intros k gj Hin. rewrite FL in Hin. apply In_filter_key in Hin. destruct Hin as [Hin Nk].
      split; [exact Hin|]. split; [rewrite F1; apply sget_sdel_other; congruence|].
      intros g0 Hn. exists g0. rewrite F3. auto.
  - (* ASet *)
    remember (sset (a_store s) key v (if (ttl =? 0)%Z then 0%Z else (a_now s + ttl)%Z)) as st' eqn:Est'.
    pose proof (write_fields s st' key true) as F. pose proof (write_lock s st' key true) as FL.
    remember (write s st' key true) as sw eqn:Esw. clear Esw.
    destruct F as (F1 & F2 & F3 & F4 & F5 & _). injection HR as <- _.
    apply (linv_change s _ HI); cbn [a_store a_lock a_gets].
    + rewrite F1, Est'. apply uniq_sset, U.
    + rewrite FL. apply NoDup_map_filter, ND.
    + intros k gj Hin. rewrite FL in Hin. apply In_filter_key in Hin. destruct Hin as [Hin Nk].
      split; [exact Hin|]. split; [rewrite F1, Est'; apply sget_sset_other; congruence|].
      intros g0 Hn. exists g0. rewrite F3. auto.
  - (* ATick *)
    destruct (dt <? 0)%Z; [discriminate|].
    destruct (touch_all (a_track s) (a_infl s) (gone_keys (a_store s) (expire (a_now s + dt) (a_store s)))) as [tr infl].
    injection HR as <- _.
    apply (linv_change s _ HI); cbn [a_store a_lock a_gets].
    + apply uniq_filter, U.
    + apply NoDup_map_filter, ND.
    + intros k gj Hin. apply filter_In in Hin. destruct Hin as [Hin Hg]. cbn [fst] in Hg. apply negb_true_iff in Hg.
      split; [exact Hin|]. split; [|intros g0 Hn; exists g0; auto].
      destruct (LE _ _ Hin) as (g0 & id & _ & _ & _ & Hs). rewrite Hs.
      destruct (sget_filter_none (fun e => let '(_, (_, exp)) := e in ((exp =? 0)%Z || (a_now s + dt <? exp)%Z)%bool) _ _ _ U Hs) as [Hn|Hn].
      * exfalso. pose proof (gone_spec (a_now s + dt) _ _ _ Hs Hn) as Hm. congruence.
      * exact Hn.
  - (* AClose *)
    destruct (nth_error (a_cls s) c) as [cl|] eqn:Hc; [|discriminate]. injection HR as <- _.
    apply (linv_frame s); auto. intros gi g0 id Hn _. exists g0. auto.
  - (* ALost *)
    destruct (nth_error (a_cls s) c) as [cl|] eqn:Hc; [|discriminate]. injection HR as <- _.
    apply (linv_frame s); auto. intros gi g0 id Hn _. exists (close_all_waits c g0). cbn [a_gets].
    rewrite nth_error_map, Hn. destruct (close_all_fields c g0) as (A & B & _). auto.
  - (* ARefresh *)
    destruct (nth_error (a_cls s) c) as [cl|] eqn:Hc; [|discriminate].
    destruct (cl_id cl) as [id|] eqn:Eid; [|discriminate]. injection HR as <- _.
    pose proof (Forall_nth _ _ _ _ (v_cls _ HV) Hc) as [Hid _].
    pose proof (write_fields s (sset (a_store s) id [] (a_now s + cttl)) id false) as F.
    pose proof (write_lock s (sset (a_store s) id [] (a_now s + cttl)) id false) as FL.
    remember (write s (sset (a_store s) id [] (a_now s + cttl)) id false) as sw eqn:Esw. clear Esw.
    destruct F as (F1 & F2 & F3 & F4 & F5 & _).
    apply (linv_change s _ HI).
    + rewrite F1. apply uniq_sset, U.
    + rewrite FL. exact ND.
    + intros k gj Hin. rewrite FL in Hin. split; [exact Hin|]. split.
      * rewrite F1. apply sget_sset_other. apply is_ph_neq; [apply Hid, Eid|]. eapply lock_key_not_ph; eauto.
      * intros g0 Hn. exists g0. rewrite F3. auto.
  - (* AKeepReuse *)
    destruct (nth_error (a_gets s) g) as [gg|] eqn:Hg; [|discriminate].
    destruct (g_st gg) eqn:Est; try discriminate.
    destruct (nth_error (a_cls s) (g_cl gg)) as [cl|] eqn:Hc; [|discriminate].
    destruct (cl_id cl) as [id|] eqn:Eid; [|discriminate].
    injection HR as <- _. eapply linv_with_get_nonholder; [exact HI|exact Hg|]. eapply NH; eauto.
  - (* AInstall *)
    destruct (nth_error (a_gets s) g) as [gg|] eqn:Hg; [|discriminate].
    destruct (g_st gg) eqn:Est; try discriminate.
    destruct (nth_error (a_cls s) (g_cl gg)) as [cl|] eqn:Hc; [|discriminate].
    destruct (cl_id cl) as [id|] eqn:Eid.
    + injection HR as <- _. eapply linv_with_get_nonholder; [exact HI|exact Hg|]. eapply NH; eauto 10.
    + injection HR as <- _.
      match goal with |- linv (with_get ?S _ _) => assert (HI2 : linv S) end.
      { apply (linv_frame s); auto. intros gi g0 id Hn _. exists g0. auto. }
      eapply linv_with_get_nonholder; [exact HI2|exact Hg|]. eapply NH; eauto 10.
Qed.

Lemma both_run cttl : forall ls s s', vinv s -> linv s -> Forall label_ok ls -> arun cttl s ls = Some s' -> vinv s' /\ linv s'.
Proof.
  induction ls as [|l ls IH]; intros s s' HV HI HL HR; cbn [arun] in HR.
  - injection HR as <-. auto.
  - inversion HL; subst. destruct (astep cttl s l) as [s1|] eqn:E; [|discriminate].
    eapply IH; [eapply vinv_step; eauto|eapply linv_step; eauto|assumption|exact HR].
Qed.

Lemma NoDup_map_fst_inj {A B} (l : list (A * B)) k a b : NoDup (map fst l) -> In (k, a) l -> In (k, b) l -> a = b.
Proof.
  induction l as [|[k' x] l IH]; cbn [map fst In]; intros H Ha Hb; [destruct Ha|].
  inversion H as [|? ? Hn Hr]; subst.
  destruct Ha as [Ea|Ha], Hb as [Eb|Hb].
  - congruence.
  - injection Ea as -> ->. exfalso. apply Hn. apply (in_map fst) in Hb. exact Hb.
  - injection Eb as -> ->. exfalso. apply Hn. apply (in_map fst) in Ha. exact Ha.
  - eapply IH; eauto.
Qed.

(** SINGLE LOADER.  [a_lock] lists, per key, the Get whose loader was started (its SET NX succeeded) and whose
    lock nothing has removed since.  In every reachable state there is at most one such Get per key, it is
    still between its loader call and its setkey / delkey script, and the key still carries its client's id. *)
Theorem single_loader cttl now ls s k g1 g2 :
  Forall label_ok ls -> arun cttl (ainit now) ls = Some s ->
  In (k, g1) (a_lock s) -> In (k, g2) (a_lock s) -> g1 = g2.
Proof.
  intros HL HR H1 H2. destruct (both_run cttl ls _ _ (vinv_init now) (linv_init now) HL HR) as [_ HI].
  eapply NoDup_map_fst_inj; [apply (l_nodup _ HI)|exact H1|exact H2].
Qed.

Theorem lock_entry_meaning cttl now ls s k gi :
  Forall label_ok ls -> arun cttl (ainit now) ls = Some s -> In (k, gi) (a_lock s) ->
  exists g id, nth_error (a_gets s) gi = Some g /\ g_key g = k /\ holding (g_st g) id /\ sget (a_store s) k = Some id.
Proof.
  intros HL HR H. destruct (both_run cttl ls _ _ (vinv_init now) (linv_init now) HL HR) as [_ HI].
  apply (l_entries _ HI), H.
Qed.

(** a loader starts only on an absent key, and is then the registered loader of the key *)
Theorem loader_start cttl s gi s' g id :
  nth_error (a_gets s) gi = Some g -> g_st g = GSLock id ->
  astep_r cttl s (ALock gi false) = Some (s', OVal None) ->
  sget (a_store s) (g_key g) = None /\ In (g_key g, gi) (a_lock s') /\
  exists g', nth_error (a_gets s') gi = Some g' /\ g_st g' = GSLoad id.
Proof.
  intros Hg Hs HR. cbn [astep_r] in HR. rewrite Hg, Hs in HR. unfold srv_lock in HR.
  destruct (sget (a_store s) (g_key g)) as [x|] eqn:E; [inversion HR|].
  injection HR as <-. split; [reflexivity|]. cbn [with_get a_lock a_gets]. split; [left; reflexivity|].
  exists (set_st g (GSLoad id)). split; [|reflexivity].
  apply nth_error_upd_same. eapply nth_error_lt; eauto.
Qed.

(** the registered loader of a key stays registered across every step that is not: its own setkey / delkey,
    a script of anybody that changes that key (setkey, delkey by the owner's client, delkey by a Get that found
    the owner dead), a DEL or a foreign write of the key, a clock advance (expiry) *)
Definition key_of (s : astate) (g : nat) : option bytes :=
  match nth_error (a_gets s) g with Some x => Some (g_key x) | None => None end.

Definition disturbs (s : astate) (l : alabel) (k : bytes) (gi : nat) : Prop :=
  match l with
  | AStore g _ _ | AUnlock g _ => g = gi \/ key_of s g = Some k
  | ARelease g _ => key_of s g = Some k
  | ADel k' | ASet k' _ _ => k' = k
  | ATick _ => True
  | _ => False
  end.

Theorem lock_persists cttl s l s' k gi :
  astep cttl s l = Some s' -> ~ disturbs s l k gi -> In (k, gi) (a_lock s) -> In (k, gi) (a_lock s').
Proof.
  intros HS HD Hin. unfold astep in HS.
  destruct (astep_r cttl s l) as [[s1 ob]|] eqn:HR; [|discriminate]. injection HS as ->.
  assert (Keep : forall (ll : list (bytes * nat)) k', k' <> k -> In (k, gi) ll -> In (k, gi) (filter (fun e => negb (bytes_eqb (fst e) k')) ll)).
  { intros ll k' N H. apply filter_In. split; [exact H|]. cbn [fst]. apply negb_true_iff. apply bytes_eqb_neq. congruence. }
  assert (Keep2 : forall (ll : list (bytes * nat)) g', g' <> gi -> In (k, gi) ll -> In (k, gi) (filter (fun e => negb (Nat.eqb (snd e) g')) ll)).
  { intros ll g' N H. apply filter_In. split; [exact H|]. cbn [snd]. apply negb_true_iff. apply Nat.eqb_neq. congruence. }
  destruct l; cbn [astep_r disturbs] in HR, HD.
  - injection HR as <- _. exact Hin.
  - destruct (nth_error (a_cls s) c); [|discriminate]. injection HR as <- _. exact Hin.
  - destruct (nth_error (a_gets s) g) as [gg|]; [|discriminate]. destruct (g_st gg); try discriminate.
    destruct (nth_error (a_cls s) (g_cl gg)) as [cl|]; [|discriminate].
    destruct fail; [injection HR as <- _; exact Hin|].
    destruct (cached_read s (g_cl gg) cl (g_key gg) hit) as [[[v s2] stale]|] eqn:Ecr; [|discriminate].
    injection HR as <- _. destruct (cached_read_frame _ _ _ _ _ _ _ _ Ecr) as (_ & F2 & _). cbn [with_get a_lock]. rewrite F2. exact Hin.
  - destruct (nth_error (a_gets s) g) as [gg|]; [|discriminate]. destruct (g_st gg); try discriminate.
    destruct fail; injection HR as <- _; [exact Hin|]. cbn [with_get a_lock]. rewrite ?write_lock. exact Hin.
  - destruct (nth_error (a_gets s) g) as [gg|]; [|discriminate]. destruct (g_st gg); try discriminate.
    destruct fail; [injection HR as <- _; exact Hin|]. unfold srv_lock in HR.
    destruct (sget (a_store s) (g_key gg)); injection HR as <- _; [exact Hin|].
    cbn [with_get a_lock]. right. rewrite ?write_lock. exact Hin.
  - destruct (nth_error (a_gets s) g) as [gg|]; [|discriminate]. destruct (g_st gg); try discriminate.
    destruct res; injection HR as <- _; exact Hin.
  - destruct (nth_error (a_gets s) g) as [gg|] eqn:Hg; [|discriminate]. destruct (g_st gg); try discriminate.
    assert (Ng : g <> gi) by tauto.
    assert (Nk : g_key gg <> k) by (intros E; apply HD; right; unfold key_of; rewrite Hg, E; reflexivity).
    destruct (if executed then srv_setkey (a_now s) (a_store s) (g_key gg) id v (g_ttl gg) else (a_store s, false)) as [st' ok].
    destruct (executed && replied); injection HR as <- _; cbn [with_get a_lock].
    + apply Keep2; [exact Ng|]. destruct ok; [rewrite ?write_lock; apply Keep; assumption|exact Hin].
    + destruct ok; [rewrite ?write_lock; apply Keep; assumption|exact Hin].
  - destruct (nth_error (a_gets s) g) as [gg|] eqn:Hg; [|discriminate]. destruct (g_st gg); try discriminate.
    assert (Ng : g <> gi) by tauto.
    assert (Nk : g_key gg <> k) by (intros E; apply HD; right; unfold key_of; rewrite Hg, E; reflexivity).
    destruct (if executed then srv_delkey (a_store s) (g_key gg) id else (a_store s, false)) as [st' ok].
    injection HR as <- _; cbn [with_get a_lock].
    apply Keep2; [exact Ng|]. destruct ok; [rewrite ?write_lock; apply Keep; assumption|exact Hin].
  - destruct (nth_error (a_gets s) g) as [gg|]; [|discriminate]. destruct (g_st gg); try discriminate.
    destruct (nth_error (a_cls s) (g_cl gg)) as [cl|]; [|discriminate].
    destruct fail; [injection HR as <- _; exact Hin|].
    destruct (cached_read s (g_cl gg) cl ph hit) as [[[v s2] stale]|] eqn:Ecr; [|discriminate].
    injection HR as <- _. destruct (cached_read_frame _ _ _ _ _ _ _ _ Ecr) as (_ & F2 & _). cbn [with_get a_lock]. rewrite F2. exact Hin.
  - destruct (nth_error (a_gets s) g) as [gg|] eqn:Hg; [|discriminate]. destruct (g_st gg); try discriminate.
    assert (Nk : g_key gg <> k) by (intros E; apply HD; unfold key_of; rewrite Hg, E; reflexivity).
    destruct (if executed then srv_delkey (a_store s) (g_key gg) ph else (a_store s, false)) as [st' ok].
    injection HR as <- _; cbn [with_get a_lock].
    destruct ok; [rewrite ?write_lock; apply Keep; assumption|exact Hin].
  - destruct (nth_error (a_gets s) g) as [gg|]; [|discriminate]. destruct (g_st gg); try discriminate.
    destruct (g_wait_closed gg || g_ph_closed gg); [|discriminate]. injection HR as <- _. exact Hin.
  - destruct (nth_error (a_gets s) g) as [gg|]; [|discriminate]. destruct (g_st gg); try discriminate.
    injection HR as <- _. exact Hin.
  - destruct (nth_error (a_cls s) c); [|discriminate].
    destruct (forallb (fun k0 => mem_pair (c, k0) (a_infl s)) ks); [|discriminate]. injection HR as <- _. exact Hin.
  - destruct (sget (a_store s) key); injection HR as <- _; [|exact Hin]. rewrite ?write_lock. apply Keep; assumption.
  - injection HR as <- _. cbn [a_lock]. rewrite ?write_lock. apply Keep; assumption.
  - exfalso. apply HD. exact I.
  - destruct (nth_error (a_cls s) c); [|discriminate]. injection HR as <- _. exact Hin.
  - destruct (nth_error (a_cls s) c); [|discriminate]. injection HR as <- _. exact Hin.
  - destruct (nth_error (a_cls s) c) as [cl|]; [|discriminate]. destruct (cl_id cl); [|discriminate].
    injection HR as <- _. rewrite ?write_lock. exact Hin.
  - destruct (nth_error (a_gets s) g) as [gg|]; [|discriminate]. destruct (g_st gg); try discriminate.
    destruct (nth_error (a_cls s) (g_cl gg)) as [cl|]; [|discriminate].
    destruct (cl_id cl); [|discriminate]. injection HR as <- _. exact Hin.
  - destruct (nth_error (a_gets s) g) as [gg|]; [|discriminate]. destruct (g_st gg); try discriminate.
    destruct (nth_error (a_cls s) (g_cl gg)) as [cl|]; [|discriminate].
    destruct (cl_id cl); injection HR as <- _; exact Hin.
Qed.

(** ---- a lock left by a dead client is released ---- *)

(** the state of the world one Get acts on: its record, its client, the store *)
Definition focus (s : astate) (gi : nat) (g : get) (cl : client) : Prop :=
  nth_error (a_gets s) gi = Some g /\ nth_error (a_cls s) (g_cl g) = Some cl.

Lemma step_read_miss cttl s gi g cl : focus s gi g cl -> g_st g = GSRead ->
  exists s1 g1 cl1, astep cttl s (ARead gi false false) = Some s1 /\ focus s1 gi g1 cl1 /\
    a_store s1 = a_store s /\ a_now s1 = a_now s /\ cl_id cl1 = cl_id cl /\
    g_key g1 = g_key g /\ g_cl g1 = g_cl g /\ g_fn g1 = g_fn g /\ g_ttl g1 = g_ttl g /\
    g_st g1 = match sget (a_store s) (g_key g) with
              | Some x => after_value x
              | None => if g_fn g then GSKeep else GSDone (RErr [] ENil)
              end.
Proof.
  intros [Hg Hc] Hs. unfold astep. cbn [astep_r]. rewrite Hg, Hs, Hc. cbn [cached_read].
  assert (Lg : gi < length (a_gets s)) by (eapply nth_error_lt; eauto).
  assert (Lc : g_cl g < length (a_cls s)) by (eapply nth_error_lt; eauto).
  eexists; eexists; eexists. split; [reflexivity|].
  split.
  { split; cbn [with_get a_gets a_cls]; [apply nth_error_upd_same; exact Lg|].
    destruct (enter_fields (set_flags g (g_wait_closed g || false) (g_ph_closed g))
                (match sget (a_store s) (g_key g) with Some x => after_value x | None => if g_fn g then GSKeep else GSDone (RErr [] ENil) end))
      as (_ & _ & Ec). rewrite Ec. cbn [set_flags g_cl]. apply nth_error_upd_same. exact Lc. }
  cbn [with_get a_store a_now cl_id].
  destruct (enter_fields (set_flags g (g_wait_closed g || false) (g_ph_closed g))
              (match sget (a_store s) (g_key g) with Some x => after_value x | None => if g_fn g then GSKeep else GSDone (RErr [] ENil) end))
    as (Ek & Es & Ec).
  repeat split; auto.
  - unfold enter. destruct (match sget (a_store s) (g_key g) with Some x => after_value x | None => if g_fn g then GSKeep else GSDone (RErr [] ENil) end); reflexivity.
  - unfold enter. destruct (match sget (a_store s) (g_key g) with Some x => after_value x | None => if g_fn g then GSKeep else GSDone (RErr [] ENil) end); reflexivity.
Qed.

Lemma step_probe_miss cttl s gi g cl ph : focus s gi g cl -> g_st g = GSProbe ph ->
  exists s1 g1 cl1, astep cttl s (AProbe gi false false) = Some s1 /\ focus s1 gi g1 cl1 /\
    a_store s1 = a_store s /\ a_now s1 = a_now s /\ cl_id cl1 = cl_id cl /\
    g_key g1 = g_key g /\ g_cl g1 = g_cl g /\ g_fn g1 = g_fn g /\ g_ttl g1 = g_ttl g /\
    g_st g1 = match sget (a_store s) ph with Some _ => GSWait ph | None => GSRelease ph end.
Proof.
  intros [Hg Hc] Hs. unfold astep. cbn [astep_r]. rewrite Hg, Hs, Hc. cbn [cached_read].
  assert (Lg : gi < length (a_gets s)) by (eapply nth_error_lt; eauto).
  assert (Lc : g_cl g < length (a_cls s)) by (eapply nth_error_lt; eauto).
  eexists; eexists; eexists. split; [reflexivity|].
  split.
  { split; cbn [with_get a_gets a_cls set_st set_flags g_cl]; apply nth_error_upd_same; assumption. }
  cbn [with_get a_store a_now cl_id set_st set_flags g_key g_cl g_fn g_ttl g_st]. repeat split; auto.
Qed.

Lemma step_release cttl s gi g cl ph : focus s gi g cl -> g_st g = GSRelease ph ->
  exists s1 g1 cl1, astep cttl s (ARelease gi true) = Some s1 /\ focus s1 gi g1 cl1 /\
    a_store s1 = (if match sget (a_store s) (g_key g) with Some x => bytes_eqb x ph | None => false end
                  then sdel (a_store s) (g_key g) else a_store s) /\
    a_now s1 = a_now s /\ cl_id cl1 = cl_id cl /\
    g_key g1 = g_key g /\ g_cl g1 = g_cl g /\ g_fn g1 = g_fn g /\ g_ttl g1 = g_ttl g /\ g_st g1 = GSRead.
Proof.
  intros [Hg Hc] Hs. unfold astep. cbn [astep_r]. rewrite Hg, Hs. unfold srv_delkey.
  assert (Lg : gi < length (a_gets s)) by (eapply nth_error_lt; eauto).
  destruct (sget (a_store s) (g_key g)) as [x|] eqn:Ex; [destruct (bytes_eqb x ph) eqn:Eb|].
  - pose proof (write_fields s (sdel (a_store s) (g_key g)) (g_key g) true) as (F1 & F2 & F3 & _ & _ & F6).
    eexists; eexists; eexists. split; [reflexivity|]. split.
    { split; cbn [with_get a_gets a_cls enter set_st set_flags g_cl]; [apply nth_error_upd_same; rewrite F3; exact Lg|rewrite F2; exact Hc]. }
    cbn [with_get a_store a_now enter set_st set_flags g_key g_cl g_fn g_ttl g_st]. repeat split; auto.
  - eexists; eexists; eexists. split; [reflexivity|]. split.
    { split; cbn [with_get a_gets a_cls enter set_st set_flags g_cl]; [apply nth_error_upd_same; exact Lg|exact Hc]. }
    cbn [with_get a_store a_now enter set_st set_flags g_key g_cl g_fn g_ttl g_st]. repeat split; auto.
  - eexists; eexists; eexists. split; [reflexivity|]. split.
    { split; cbn [with_get a_gets a_cls enter set_st set_flags g_cl]; [apply nth_error_upd_same; exact Lg|exact Hc]. }
    cbn [with_get a_store a_now enter set_st set_flags g_key g_cl g_fn g_ttl g_st]. repeat split; auto.
Qed.

Lemma step_keep cttl s gi g cl newid : focus s gi g cl -> g_st g = GSKeep ->
  exists s1 g1, astep cttl s (AKeep gi newid false) = Some s1 /\ focus s1 gi g1 cl /\
    a_store s1 = sset (a_store s) newid [] (a_now s + cttl) /\ a_now s1 = a_now s /\
    g_key g1 = g_key g /\ g_cl g1 = g_cl g /\ g_fn g1 = g_fn g /\ g_ttl g1 = g_ttl g /\ g_st g1 = GSInstall newid.
Proof.
  intros [Hg Hc] Hs. unfold astep. cbn [astep_r]. rewrite Hg, Hs.
  assert (Lg : gi < length (a_gets s)) by (eapply nth_error_lt; eauto).
  pose proof (write_fields s (sset (a_store s) newid [] (a_now s + cttl)) newid false) as (F1 & F2 & F3 & _ & _ & F6).
  eexists; eexists. split; [reflexivity|]. split.
  { split; cbn [with_get a_gets a_cls set_st g_cl]; [apply nth_error_upd_same; rewrite F3; exact Lg|rewrite F2; exact Hc]. }
  cbn [with_get a_store a_now set_st g_key g_cl g_fn g_ttl g_st]. repeat split; auto.
Qed.

(** the second critical section of keepalive: the id the Get goes on with is the one installed in the client *)
Lemma step_install cttl s gi g cl newid : focus s gi g cl -> g_st g = GSInstall newid ->
  exists s1 g1 cl1 id, astep cttl s (AInstall gi) = Some s1 /\ focus s1 gi g1 cl1 /\
    a_store s1 = a_store s /\ a_now s1 = a_now s /\
    id = (match cl_id cl with Some x => x | None => newid end) /\ cl_id cl1 = Some id /\
    g_key g1 = g_key g /\ g_cl g1 = g_cl g /\ g_fn g1 = g_fn g /\ g_ttl g1 = g_ttl g /\ g_st g1 = GSLock id.
Proof.
  intros [Hg Hc] Hs. unfold astep. cbn [astep_r]. rewrite Hg, Hs, Hc.
  assert (Lg : gi < length (a_gets s)) by (eapply nth_error_lt; eauto).
  assert (Lc : g_cl g < length (a_cls s)) by (eapply nth_error_lt; eauto).
  destruct (cl_id cl) as [id|] eqn:Eid.
  - eexists; eexists; exists cl; exists id. split; [reflexivity|]. split.
    { split; cbn [with_get a_gets a_cls set_st g_cl]; [apply nth_error_upd_same; exact Lg|exact Hc]. }
    cbn [with_get a_store a_now set_st g_key g_cl g_fn g_ttl g_st]. repeat split; auto.
  - eexists; eexists; eexists; exists newid. split; [reflexivity|]. split.
    { split; cbn [with_get a_gets a_cls set_st g_cl]; apply nth_error_upd_same; [exact Lg|exact Lc]. }
    cbn [with_get a_store a_now set_st g_key g_cl g_fn g_ttl g_st cl_id]. repeat split; auto.
Qed.

Lemma step_lock_free cttl s gi g cl id : focus s gi g cl -> g_st g = GSLock id -> sget (a_store s) (g_key g) = None ->
  exists s1 g1, astep cttl s (ALock gi false) = Some s1 /\ nth_error (a_gets s1) gi = Some g1 /\
    g_st g1 = GSLoad id /\ sget (a_store s1) (g_key g) = Some id /\ In (g_key g, gi) (a_lock s1).
Proof.
  intros [Hg Hc] Hs Hn. unfold astep. cbn [astep_r]. rewrite Hg, Hs. unfold srv_lock. rewrite Hn.
  assert (Lg : gi < length (a_gets s)) by (eapply nth_error_lt; eauto).
  pose proof (write_fields s (sset (a_store s) (g_key g) id (a_now s + g_ttl g)) (g_key g) false) as (F1 & F2 & F3 & _).
  eexists; eexists. split; [reflexivity|]. cbn [with_get a_gets a_store a_lock].
  split; [apply nth_error_upd_same; rewrite F3; exact Lg|]. split; [reflexivity|].
  split; [rewrite F1; apply sget_sset_same|left; reflexivity].
Qed.

(** DEAD LOCK RELEASED.  From ANY state in which the key carries the placeholder of a client whose liveness
    key is gone, a Get of another client that is about to read — with a loader, and nothing of that client
    cached for the two keys — gets through on its own seven steps: it sees the placeholder, finds the holder
    dead, deletes the placeholder, misses, goes through keepalive, takes the lock and starts its loader. *)
Theorem dead_lock_released cttl s gi g cl ph newid :
  focus s gi g cl -> g_st g = GSRead -> g_fn g = true ->
  sget (a_store s) (g_key g) = Some ph -> is_ph ph = true -> sget (a_store s) ph = None ->
  is_ph (g_key g) = false -> is_ph newid = true ->
  exists s' g' id,
    arun cttl s [ARead gi false false; AProbe gi false false; ARelease gi true; ARead gi false false;
                 AKeep gi newid false; AInstall gi; ALock gi false] = Some s' /\
    nth_error (a_gets s') gi = Some g' /\ g_st g' = GSLoad id /\
    sget (a_store s') (g_key g) = Some id /\ In (g_key g, gi) (a_lock s').
Proof.
  intros F0 Hs Hfn Hk Hph Hdead Hkey Hnew.
  destruct (step_read_miss cttl s gi g cl F0 Hs) as (s1 & g1 & cl1 & R1 & F1 & S1 & N1 & I1 & K1 & C1 & Fn1 & T1 & St1).
  rewrite Hk in St1. unfold after_value in St1. rewrite Hph in St1.
  destruct (step_probe_miss cttl s1 gi g1 cl1 ph F1 St1) as (s2 & g2 & cl2 & R2 & F2 & S2 & N2 & I2 & K2 & C2 & Fn2 & T2 & St2).
  rewrite S1, Hdead in St2.
  destruct (step_release cttl s2 gi g2 cl2 ph F2 St2) as (s3 & g3 & cl3 & R3 & F3 & S3 & N3 & I3 & K3 & C3 & Fn3 & T3 & St3).
  rewrite K2, K1, S2, S1, Hk, bytes_eqb_refl in S3.
  destruct (step_read_miss cttl s3 gi g3 cl3 F3 St3) as (s4 & g4 & cl4 & R4 & F4 & S4 & N4 & I4 & K4 & C4 & Fn4 & T4 & St4).
  rewrite K3, K2, K1, S3, sget_sdel_same, Fn3, Fn2, Fn1, Hfn in St4.
  destruct (step_keep cttl s4 gi g4 cl4 newid F4 St4) as (s5 & g5 & R5 & F5 & S5 & N5 & K5 & C5 & Fn5 & T5 & St5).
  destruct (step_install cttl s5 gi g5 cl4 newid F5 St5) as (s5' & g5' & cl5 & id & R5' & F5' & S5' & N5' & Eid & I5 & K5' & C5' & Fn5' & T5' & St5').
  assert (Hfree : sget (a_store s5') (g_key g5') = None).
  { rewrite K5', K5, K4, K3, K2, K1, S5', S5, S4, S3.
    rewrite sget_sset_other; [apply sget_sdel_same|]. apply is_ph_neq; assumption. }
  destruct (step_lock_free cttl s5' gi g5' cl5 id F5' St5' Hfree) as (s6 & g6 & R6 & G6 & St6 & S6 & L6).
  exists s6, g6, id. cbn [arun]. rewrite R1, R2, R3, R4, R5, R5', R6.
  rewrite K5', K5, K4, K3, K2, K1 in S6, L6. auto.
Qed.

(** ---- no lost wake-up: a waiting Get is always told ---- *)

Lemma pair_eqb_eq a b : pair_eqb a b = true <-> a = b.
Proof.
  destruct a as [c k], b as [c' k']. unfold pair_eqb. cbn [fst snd]. rewrite andb_true_iff, Nat.eqb_eq, bytes_eqb_eq.
  split; [intros [-> ->]; reflexivity|intros E; injection E; auto].
Qed.

Lemma mem_pair_In x l : mem_pair x l = true <-> In x l.
Proof.
  induction l as [|y l IH]; cbn [mem_pair In]; [split; [discriminate|tauto]|].
  rewrite orb_true_iff, IH, pair_eqb_eq. split; intros [H|H]; auto.
Qed.

Definition pend (tr infl : list (nat * bytes)) (c : nat) (k : bytes) : Prop := In (c, k) tr \/ In (c, k) infl.
Definition pending (s : astate) (c : nat) (k : bytes) : Prop := pend (a_track s) (a_infl s) c k.

Lemma pend_touch tr infl k' c k : pend tr infl c k -> pend (fst (touch tr infl k')) (snd (touch tr infl k')) c k.
Proof.
  unfold pend, touch. cbn [fst snd]. intros [H|H].
  - destruct (bytes_eqb k k') eqn:E.
    + right. apply in_or_app. right. apply filter_In. split; [exact H|]. cbn [snd]. exact E.
    + left. apply filter_In. split; [exact H|]. cbn [snd]. rewrite E. reflexivity.
  - right. apply in_or_app. left. exact H.
Qed.

Lemma pend_touch_all ks : forall tr infl c k, pend tr infl c k ->
  pend (fst (touch_all tr infl ks)) (snd (touch_all tr infl ks)) c k.
Proof.
  induction ks as [|k' ks IH]; intros tr infl c k H; cbn [touch_all]; [exact H|].
  pose proof (pend_touch tr infl k' c k H) as H'. destruct (touch tr infl k') as [tr' infl']. cbn [fst snd] in H'.
  apply IH, H'.
Qed.

Lemma pend_track tr infl c0 k0 c k : pend tr infl c k -> pend (track tr c0 k0) infl c k.
Proof. unfold pend, track. intros [H|H]; [left|right; exact H]. destruct (mem_pair (c0, k0) tr); [exact H|right; exact H]. Qed.

Lemma pend_track_new tr infl c k : pend (track tr c k) infl c k.
Proof.
  unfold pend, track. left. destruct (mem_pair (c, k) tr) eqn:E; [apply mem_pair_In, E|left; reflexivity].
Qed.

Lemma write_pending s st' k' u c k : pending s c k -> pending (write s st' k' u) c k.
Proof.
  unfold pending, write. intros H. pose proof (pend_touch _ _ k' c k H) as H'.
  destruct (touch (a_track s) (a_infl s) k') as [tr infl]. cbn [a_track a_infl fst snd] in *. exact H'.
Qed.

Definition after_read (st : gstate) : bool := match st with GSRead | GSDone _ => false | _ => true end.

Record winv (s : astate) : Prop := {
  w_cache : forall c cl k x, nth_error (a_cls s) c = Some cl -> In (k, x) (cl_cache cl) -> pending s c k;
  w_key : forall gi g, nth_error (a_gets s) gi = Some g -> after_read (g_st g) = true ->
          g_wait_closed g = true \/ pending s (g_cl g) (g_key g);
  w_ph : forall gi g ph, nth_error (a_gets s) gi = Some g -> (g_st g = GSRelease ph \/ g_st g = GSWait ph) ->
         g_ph_closed g = true \/ pending s (g_cl g) ph }.

Lemma winv_init now : winv (ainit now).
Proof. constructor; cbn; intros; destruct c || destruct gi; discriminate. Qed.

(** a step that only enlarges what is pending and keeps clients and gets *)
Lemma winv_mono s s' : winv s -> a_cls s' = a_cls s -> a_gets s' = a_gets s ->
  (forall c k, pending s c k -> pending s' c k) -> winv s'.
Proof.
  intros [H1 H2 H3] Ec Eg Hp. constructor; rewrite ?Ec, ?Eg.
  - intros c cl k x Hc Hin. apply Hp. eapply H1; eauto.
  - intros gi g Hg Ha. destruct (H2 gi g Hg Ha); auto.
  - intros gi g ph Hg Ha. destruct (H3 gi g ph Hg Ha); auto.
Qed.

(** replacing one Get by one that keeps client and key and satisfies the two clauses *)
Lemma winv_with_get s gi g g' : winv s -> nth_error (a_gets s) gi = Some g ->
  g_cl g' = g_cl g -> g_key g' = g_key g ->
  (after_read (g_st g') = true -> g_wait_closed g' = true \/ pending s (g_cl g) (g_key g)) ->
  (forall ph, g_st g' = GSRelease ph \/ g_st g' = GSWait ph -> g_ph_closed g' = true \/ pending s (g_cl g) ph) ->
  winv (with_get s gi g').
Proof.
  intros [H1 H2 H3] Hg Ec Ek Hk Hp. constructor; cbn [with_get a_cls a_gets]; unfold pending in *; cbn [with_get a_track a_infl].
  - exact H1.
  - intros gj g0 Hj Ha. rewrite nth_error_upd in Hj. destruct (Nat.eqb_spec gi gj) as [->|N].
    + destruct (Nat.ltb gj (length (a_gets s))); [|discriminate]. injection Hj as <-. rewrite Ec, Ek. auto.
    + eapply H2; eauto.
  - intros gj g0 ph Hj Ha. rewrite nth_error_upd in Hj. destruct (Nat.eqb_spec gi gj) as [->|N].
    + destruct (Nat.ltb gj (length (a_gets s))); [|discriminate]. injection Hj as <-. rewrite Ec. auto.
    + eapply H3; eauto.
Qed.

Lemma cached_read_winv s c cl k hit v s1 stale :
  winv s -> nth_error (a_cls s) c = Some cl -> cached_read s c cl k hit = Some (v, s1, stale) ->
  winv s1 /\ a_gets s1 = a_gets s /\ (stale = true \/ pending s1 c k) /\ (forall c' k', pending s c' k' -> pending s1 c' k').
Proof.
  intros HW Hc H. unfold cached_read in H. destruct hit.
  - destruct (clookup (cl_cache cl) k) as [b|] eqn:E1.
    + inversion H; subst. split; [exact HW|]. split; [reflexivity|]. split; [|auto].
      right. eapply (w_cache _ HW); [exact Hc|apply clookup_In, E1].
    + destruct (clookup (cl_prev cl) k) as [b|] eqn:E2; [|discriminate].
      inversion H; subst. split; [exact HW|]. split; [reflexivity|]. split; [left; reflexivity|auto].
  - inversion H; subst. clear H.
    assert (Hp : forall c' k', pending s c' k' ->
                 pend (track (a_track s) c k) (a_infl s) c' k') by (intros c' k' Hq; apply pend_track, Hq).
    split; [|split; [reflexivity|split; [right; apply pend_track_new|exact Hp]]].
    destruct HW as [H1 H2 H3]. constructor; unfold pending; cbn [a_cls a_gets a_track a_infl].
    + intros c' cl' k' x Hc' Hin. rewrite nth_error_upd in Hc'. destruct (Nat.eqb_spec c c') as [->|N].
      * destruct (Nat.ltb c' (length (a_cls s))); [|discriminate]. injection Hc' as <-. cbn [cl_cache] in Hin.
        destruct Hin as [E|Hin].
        -- injection E as <- _. apply pend_track_new.
        -- apply In_cremove in Hin. apply Hp. eapply H1; eauto.
      * apply Hp. eapply H1; eauto.
    + intros gi g Hg Ha. destruct (H2 gi g Hg Ha); [left; assumption|right; apply Hp; assumption].
    + intros gi g ph Hg Ha. destruct (H3 gi g ph Hg Ha); [left; assumption|right; apply Hp; assumption].
Qed.

Lemma after_value_after_read x : after_read (after_value x) = true -> exists p, after_value x = GSProbe p.
Proof. unfold after_value. destruct (is_ph x); [eauto|discriminate]. Qed.

Lemma enter_flags g st :
  g_wait_closed (enter g st) = (match st with GSRead => false | _ => g_wait_closed g end) /\
  g_ph_closed (enter g st) = (match st with GSProbe _ => false | _ => g_ph_closed g end).
Proof. unfold enter. destruct st; cbn; auto. Qed.

Lemma In_rm1 x y l : x <> y -> In x l -> In x (rm1 y l).
Proof.
  intros N. induction l as [|z l IH]; cbn [rm1 In]; [tauto|].
  destruct (pair_eqb y z) eqn:E.
  - apply pair_eqb_eq in E. subst z. intros [H|H]; [congruence|exact H].
  - intros [H|H]; [left; exact H|right; apply IH, H].
Qed.

Lemma In_rm_keys c ks : forall l c' k', In (c', k') l -> (c' <> c \/ mem_key k' ks = false) -> In (c', k') (rm_keys c ks l).
Proof.
  induction ks as [|k ks IH]; intros l c' k' H Hn; cbn [rm_keys]; [exact H|].
  apply IH.
  - apply In_rm1; [|exact H]. destruct Hn as [N|N]; [congruence|].
    cbn [mem_key] in N. apply orb_false_iff in N. destruct N as [N _]. apply bytes_eqb_neq in N. congruence.
  - destruct Hn as [N|N]; [left; exact N|right]. cbn [mem_key] in N. apply orb_false_iff in N. tauto.
Qed.

Lemma winv_step cttl s l s' : winv s -> astep cttl s l = Some s' -> winv s'.
Proof.
  intros HW HS. unfold astep in HS.
  destruct (astep_r cttl s l) as [[s1 ob]|] eqn:HR; [|discriminate]. injection HS as ->.
  pose proof HW as [W1 W2 W3].
  destruct l; cbn [astep_r] in HR.
  - (* ANewClient *)
    injection HR as <- _. constructor; unfold pending; cbn [a_cls a_gets a_track a_infl]; auto.
    intros c cl k x Hc Hin. destruct (Nat.ltb_spec c (length (a_cls s))) as [L|L].
    + rewrite nth_error_app1 in Hc by exact L. eapply W1; eauto.
    + rewrite nth_error_app2 in Hc by exact L. destruct (c - length (a_cls s)) as [|n]; cbn in Hc; [|destruct n; discriminate].
      injection Hc as <-. destruct Hin.
  - (* AStartGet *)
    destruct (nth_error (a_cls s) c); [|discriminate]. injection HR as <- _.
    constructor; unfold pending; cbn [a_cls a_gets a_track a_infl]; auto.
    + intros gi g Hg Ha. destruct (Nat.ltb_spec gi (length (a_gets s))) as [L|L].
      * rewrite nth_error_app1 in Hg by exact L. eapply W2; eauto.
      * rewrite nth_error_app2 in Hg by exact L. destruct (gi - length (a_gets s)) as [|n]; cbn in Hg; [|destruct n; discriminate].
        injection Hg as <-. discriminate.
    + intros gi g ph Hg Ha. destruct (Nat.ltb_spec gi (length (a_gets s))) as [L|L].
      * rewrite nth_error_app1 in Hg by exact L. eapply W3; eauto.
      * rewrite nth_error_app2 in Hg by exact L. destruct (gi - length (a_gets s)) as [|n]; cbn in Hg; [|destruct n; discriminate].
        injection Hg as <-. destruct Ha; discriminate.
  - (* ARead *)
    destruct (nth_error (a_gets s) g) as [gg|] eqn:Hg; [|discriminate].
    destruct (g_st gg) eqn:Est; try discriminate.
    destruct (nth_error (a_cls s) (g_cl gg)) as [cl|] eqn:Hc; [|discriminate].
    destruct fail.
    + injection HR as <- _. eapply winv_with_get; [exact HW|exact Hg|reflexivity|reflexivity|discriminate|intros ph [H|H]; discriminate].
    + destruct (cached_read s (g_cl gg) cl (g_key gg) hit) as [[[v s2] stale]|] eqn:Ecr; [|discriminate].
      injection HR as <- _.
      destruct (cached_read_winv _ _ _ _ _ _ _ _ HW Hc Ecr) as (HW2 & Eg & Hst & Hmono).
      set (st' := match v with Some x => after_value x | None => if g_fn gg then GSKeep else GSDone (RErr [] ENil) end).
      destruct (enter_fields (set_flags gg (g_wait_closed gg || stale) (g_ph_closed gg)) st') as (Ek & Es & Ec).
      destruct (enter_flags (set_flags gg (g_wait_closed gg || stale) (g_ph_closed gg)) st') as (Ew & Ep).
      eapply winv_with_get; [exact HW2|rewrite Eg; exact Hg|exact Ec|exact Ek| |].
      * rewrite Es, Ew. intros Ha. cbn [set_flags g_wait_closed].
        assert (Hnr : st' <> GSRead) by (subst st'; destruct v as [x|]; [unfold after_value; destruct (is_ph x)|destruct (g_fn gg)]; discriminate).
        destruct st'; try congruence; (destruct Hst as [->|Hp]; [left; apply orb_true_r|right; exact Hp]).
      * rewrite Es. intros ph [H|H]; subst st'; destruct v as [x|]; try (unfold after_value in H; destruct (is_ph x)); try destruct (g_fn gg); discriminate.
  - (* AKeep *)
    destruct (nth_error (a_gets s) g) as [gg|] eqn:Hg; [|discriminate].
    destruct (g_st gg) eqn:Est; try discriminate.
    assert (Hkey : g_wait_closed gg = true \/ pending s (g_cl gg) (g_key gg)) by (eapply W2; [exact Hg|rewrite Est; reflexivity]).
    destruct fail.
    + injection HR as <- _. eapply winv_with_get; [exact HW|exact Hg|reflexivity|reflexivity|discriminate|intros ph [H|H]; discriminate].
    + pose proof (write_fields s (sset (a_store s) newid [] (a_now s + cttl)) newid false) as F.
      pose proof (fun c k => write_pending s (sset (a_store s) newid [] (a_now s + cttl)) newid false c k) as FP.
      remember (write s (sset (a_store s) newid [] (a_now s + cttl)) newid false) as s2 eqn:Es2. clear Es2.
      destruct F as (F1 & F2 & F3 & F4 & F5 & _). injection HR as <- _.
      assert (HW2 : winv s2) by (apply (winv_mono s); [exact HW|exact F2|exact F3|exact FP]).
      eapply winv_with_get; [exact HW2|rewrite F3; exact Hg|reflexivity|reflexivity| |intros ph [H|H]; discriminate].
      intros _. cbn [set_st g_wait_closed]. destruct Hkey; [left; assumption|right; apply FP; assumption].
  - (* ALock *)
    destruct (nth_error (a_gets s) g) as [gg|] eqn:Hg; [|discriminate].
    destruct (g_st gg) eqn:Est; try discriminate.
    assert (Hkey : g_wait_closed gg = true \/ pending s (g_cl gg) (g_key gg)) by (eapply W2; [exact Hg|rewrite Est; reflexivity]).
    destruct fail.
    + injection HR as <- _. eapply winv_with_get; [exact HW|exact Hg|reflexivity|reflexivity|discriminate|intros ph [H|H]; discriminate].
    + unfold srv_lock in HR. destruct (sget (a_store s) (g_key gg)) as [x|] eqn:Ex.
      * injection HR as <- _.
        destruct (enter_fields gg (after_value x)) as (Ek & Es & Ec). destruct (enter_flags gg (after_value x)) as (Ew & Ep).
        eapply winv_with_get; [exact HW|exact Hg|exact Ec|exact Ek| |].
        -- rewrite Es, Ew. intros Ha. destruct (after_value_after_read x Ha) as (p & ->). exact Hkey.
        -- rewrite Es. intros ph [H|H]; unfold after_value in H; destruct (is_ph x); discriminate.
      * pose proof (write_fields s (sset (a_store s) (g_key gg) id (a_now s + g_ttl gg)) (g_key gg) false) as F.
        pose proof (fun c k => write_pending s (sset (a_store s) (g_key gg) id (a_now s + g_ttl gg)) (g_key gg) false c k) as FP.
        remember (write s (sset (a_store s) (g_key gg) id (a_now s + g_ttl gg)) (g_key gg) false) as s2 eqn:Es2. clear Es2.
        destruct F as (F1 & F2 & F3 & F4 & F5 & _). injection HR as <- _.
        constructor; unfold pending in *; cbn [with_get a_cls a_gets a_track a_infl].
        -- intros c cl0 k x Hc0 Hin. apply FP. rewrite F2 in Hc0. eapply W1; eauto.
        -- intros gi g0 Hg0 Ha. rewrite F3 in Hg0. rewrite nth_error_upd in Hg0. destruct (Nat.eqb_spec g gi) as [<-|N].
           ++ destruct (Nat.ltb g (length (a_gets s))); [|discriminate]. injection Hg0 as <-. cbn [set_st g_wait_closed g_cl g_key].
              destruct Hkey; [left; assumption|right; apply FP; assumption].
           ++ destruct (W2 gi g0 Hg0 Ha); [left; assumption|right; apply FP; assumption].
        -- intros gi g0 ph Hg0 Ha. rewrite F3 in Hg0. rewrite nth_error_upd in Hg0. destruct (Nat.eqb_spec g gi) as [<-|N].
           ++ destruct (Nat.ltb g (length (a_gets s))); [|discriminate]. injection Hg0 as <-. destruct Ha; discriminate.
           ++ destruct (W3 gi g0 ph Hg0 Ha); [left; assumption|right; apply FP; assumption].
  - (* ALoad *)
    destruct (nth_error (a_gets s) g) as [gg|] eqn:Hg; [|discriminate].
    destruct (g_st gg) eqn:Est; try discriminate.
    assert (Hkey : g_wait_closed gg = true \/ pending s (g_cl gg) (g_key gg)) by (eapply W2; [exact Hg|rewrite Est; reflexivity]).
    destruct res as [v|]; injection HR as <- _.
    + change (winv (with_get {| a_now := a_now s; a_store := a_store s; a_track := a_track s; a_infl := a_infl s; a_cls := a_cls s;
                               a_gets := a_gets s; a_loaded := (g_key gg, v) :: a_loaded s; a_ext := a_ext s; a_lock := a_lock s |}
                         g (set_st gg (GSStore id v)))).
      eapply winv_with_get; [|exact Hg|reflexivity|reflexivity|intros _; exact Hkey|intros ph [H|H]; discriminate].
      apply (winv_mono s); auto.
    + eapply winv_with_get; [exact HW|exact Hg|reflexivity|reflexivity|intros _; exact Hkey|intros ph [H|H]; discriminate].
  - (* AStore *)
    destruct (nth_error (a_gets s) g) as [gg|] eqn:Hg; [|discriminate].
    destruct (g_st gg) eqn:Est; try discriminate.
    assert (Hkey : g_wait_closed gg = true \/ pending s (g_cl gg) (g_key gg)) by (eapply W2; [exact Hg|rewrite Est; reflexivity]).
    destruct (if executed then srv_setkey (a_now s) (a_store s) (g_key gg) id v (g_ttl gg) else (a_store s, false)) as [st' ok].
    assert (HW1 : winv (if ok then write s st' (g_key gg) true else s) /\
                  (forall c k, pending s c k -> pending (if ok then write s st' (g_key gg) true else s) c k) /\
                  a_gets (if ok then write s st' (g_key gg) true else s) = a_gets s).
    { destruct ok; [|auto]. destruct (write_fields s st' (g_key gg) true) as (_ & F2 & F3 & _).
      split; [apply (winv_mono s); auto; intros; apply write_pending; assumption|].
      split; [intros; apply write_pending; assumption|exact F3]. }
    destruct HW1 as (HW1 & Hm & Eg).
    destruct (executed && replied); injection HR as <- _.
    + destruct (enter_fields gg (after_value v)) as (Ek & Es & Ec). destruct (enter_flags gg (after_value v)) as (Ew & Ep).
      eapply winv_with_get; [|rewrite Eg; exact Hg|exact Ec|exact Ek| |].
      * apply (winv_mono (if ok then write s st' (g_key gg) true else s)); auto.
      * rewrite Es, Ew. intros Ha. destruct (after_value_after_read v Ha) as (p & ->).
        destruct Hkey; [left; assumption|right; apply Hm; assumption].
      * rewrite Es. intros ph [H|H]; unfold after_value in H; destruct (is_ph v); discriminate.
    + eapply winv_with_get; [exact HW1|rewrite Eg; exact Hg|reflexivity|reflexivity| |intros ph [H|H]; discriminate].
      intros _. destruct Hkey; [left; assumption|right; apply Hm; assumption].
  - (* AUnlock *)
    destruct (nth_error (a_gets s) g) as [gg|] eqn:Hg; [|discriminate].
    destruct (g_st gg) eqn:Est; try discriminate.
    destruct (if executed then srv_delkey (a_store s) (g_key gg) id else (a_store s, false)) as [st' ok].
    assert (HW1 : winv (if ok then write s st' (g_key gg) true else s) /\
                  a_gets (if ok then write s st' (g_key gg) true else s) = a_gets s).
    { destruct ok; [|auto]. destruct (write_fields s st' (g_key gg) true) as (_ & F2 & F3 & _).
      split; [apply (winv_mono s); auto; intros; apply write_pending; assumption|exact F3]. }
    destruct HW1 as (HW1 & Eg). injection HR as <- _.
    eapply winv_with_get; [|rewrite Eg; exact Hg|reflexivity|reflexivity|discriminate|intros ph [H|H]; discriminate].
    apply (winv_mono (if ok then write s st' (g_key gg) true else s)); auto.
  - (* AProbe *)
    destruct (nth_error (a_gets s) g) as [gg|] eqn:Hg; [|discriminate].
    destruct (g_st gg) eqn:Est; try discriminate.
    destruct (nth_error (a_cls s) (g_cl gg)) as [cl|] eqn:Hc; [|discriminate].
    assert (Hkey : g_wait_closed gg = true \/ pending s (g_cl gg) (g_key gg)) by (eapply W2; [exact Hg|rewrite Est; reflexivity]).
    destruct fail.
    + injection HR as <- _. eapply winv_with_get; [exact HW|exact Hg|reflexivity|reflexivity|discriminate|intros p [H|H]; discriminate].
    + destruct (cached_read s (g_cl gg) cl ph hit) as [[[v s2] stale]|] eqn:Ecr; [|discriminate].
      injection HR as <- _.
      destruct (cached_read_winv _ _ _ _ _ _ _ _ HW Hc Ecr) as (HW2 & Eg & Hst & Hmono).
      eapply winv_with_get; [exact HW2|rewrite Eg; exact Hg|reflexivity|reflexivity| |].
      * intros _. cbn [set_st set_flags g_wait_closed]. destruct Hkey; [left; assumption|right; apply Hmono; assumption].
      * intros p Hp. cbn [set_st set_flags g_ph_closed g_st] in *.
        assert (p = ph) by (destruct v; destruct Hp as [E|E]; congruence). subst p.
        destruct Hst as [->|Hq]; [left; apply orb_true_r|right; exact Hq].
  - (* ARelease *)
    destruct (nth_error (a_gets s) g) as [gg|] eqn:Hg; [|discriminate].
    destruct (g_st gg) eqn:Est; try discriminate.
    destruct (if executed then srv_delkey (a_store s) (g_key gg) ph else (a_store s, false)) as [st' ok].
    injection HR as <- _.
    assert (HW1 : winv (if ok then write s st' (g_key gg) true else s) /\
                  a_gets (if ok then write s st' (g_key gg) true else s) = a_gets s).
    { destruct ok; [|auto]. destruct (write_fields s st' (g_key gg) true) as (_ & F2 & F3 & _).
      split; [apply (winv_mono s); auto; intros; apply write_pending; assumption|exact F3]. }
    destruct HW1 as (HW1 & Eg).
    eapply winv_with_get; [exact HW1|rewrite Eg; exact Hg|reflexivity|reflexivity|discriminate|intros p [H|H]; discriminate].
  - (* AWake *)
    destruct (nth_error (a_gets s) g) as [gg|] eqn:Hg; [|discriminate].
    destruct (g_st gg) eqn:Est; try discriminate.
    destruct (g_wait_closed gg || g_ph_closed gg); [|discriminate]. injection HR as <- _.
    eapply winv_with_get; [exact HW|exact Hg|reflexivity|reflexivity|discriminate|intros p [H|H]; discriminate].
  - (* ACtx *)
    destruct (nth_error (a_gets s) g) as [gg|] eqn:Hg; [|discriminate].
    destruct (g_st gg) eqn:Est; try discriminate. injection HR as <- _.
    eapply winv_with_get; [exact HW|exact Hg|reflexivity|reflexivity|discriminate|intros p [H|H]; discriminate].
  - (* AInval *)
    destruct (nth_error (a_cls s) c) as [cl|] eqn:Hc; [|discriminate].
    destruct (forallb (fun k => mem_pair (c, k) (a_infl s)) ks); [|discriminate]. injection HR as <- _.
    assert (Hkeep : forall c' k', pending s c' k' -> (c' <> c \/ mem_key k' ks = false) ->
              pend (a_track s) (rm_keys c ks (a_infl s)) c' k').
    { intros c' k' [H|H] Hn; [left; exact H|right]. apply In_rm_keys; assumption. }
    constructor; unfold pending; cbn [a_cls a_gets a_track a_infl].
    + intros c' cl' k x Hc' Hin. rewrite nth_error_upd in Hc'. destruct (Nat.eqb_spec c c') as [<-|N].
      * destruct (Nat.ltb c (length (a_cls s))); [|discriminate]. injection Hc' as <-. cbn [cl_cache] in Hin.
        unfold cremove in Hin. apply filter_In in Hin. destruct Hin as [Hin Hm]. cbn [fst] in Hm. apply negb_true_iff in Hm.
        apply Hkeep; [eapply W1; eauto|right; exact Hm].
      * apply Hkeep; [eapply W1; eauto|left; congruence].
    + intros gi g0 Hg0 Ha. rewrite nth_error_map in Hg0. destruct (nth_error (a_gets s) gi) as [g1|] eqn:Hg1; [|discriminate].
      injection Hg0 as <-. destruct (close_waits_fields c ks g1) as (Ek & Es & Ec). rewrite Es in Ha. rewrite Ec, Ek.
      unfold close_waits. destruct (Nat.eqb_spec (g_cl g1) c) as [E|N]; cbn [set_flags g_wait_closed].
      * destruct (mem_key (g_key g1) ks) eqn:M; [left; apply orb_true_r|].
        destruct (W2 gi g1 Hg1 Ha) as [H|H]; [left; rewrite H; reflexivity|right; apply Hkeep; [exact H|right; exact M]].
      * destruct (W2 gi g1 Hg1 Ha) as [H|H]; [left; exact H|right; apply Hkeep; [exact H|left; exact N]].
    + intros gi g0 ph Hg0 Ha. rewrite nth_error_map in Hg0. destruct (nth_error (a_gets s) gi) as [g1|] eqn:Hg1; [|discriminate].
      injection Hg0 as <-. destruct (close_waits_fields c ks g1) as (Ek & Es & Ec). rewrite Es in Ha. rewrite Ec.
      unfold close_waits. destruct (Nat.eqb_spec (g_cl g1) c) as [E|N]; cbn [set_flags g_ph_closed].
      * assert (Hph : ph_of_state (g_st g1) = Some ph) by (destruct Ha as [H|H]; rewrite H; reflexivity). rewrite Hph.
        destruct (mem_key ph ks) eqn:M; [left; apply orb_true_r|].
        destruct (W3 gi g1 ph Hg1 Ha) as [H|H]; [left; rewrite H; reflexivity|right; apply Hkeep; [exact H|right; exact M]].
      * destruct (W3 gi g1 ph Hg1 Ha) as [H|H]; [left; exact H|right; apply Hkeep; [exact H|left; exact N]].
  - (* ADel *)
    destruct (sget (a_store s) key); injection HR as <- _; [|exact HW].
    destruct (write_fields s (sdel (a_store s) key) key true) as (_ & F2 & F3 & _).
    apply (winv_mono s); auto. intros; apply write_pending; assumption.
  - (* ASet *)
    injection HR as <- _.
    destruct (write_fields s (sset (a_store s) key v (if (ttl =? 0)%Z then 0%Z else (a_now s + ttl)%Z)) key true) as (_ & F2 & F3 & _).
    apply (winv_mono s); auto. intros c k H.
    exact (write_pending s (sset (a_store s) key v (if (ttl =? 0)%Z then 0%Z else (a_now s + ttl)%Z)) key true c k H).
  - (* ATick *)
    destruct (dt <? 0)%Z; [discriminate|].
    pose proof (fun c k => pend_touch_all (gone_keys (a_store s) (expire (a_now s + dt) (a_store s))) (a_track s) (a_infl s) c k) as HP.
    destruct (touch_all (a_track s) (a_infl s) (gone_keys (a_store s) (expire (a_now s + dt) (a_store s)))) as [tr infl].
    injection HR as <- _. apply (winv_mono s); auto.
  - (* AClose *)
    destruct (nth_error (a_cls s) c) as [cl|] eqn:Hc; [|discriminate]. injection HR as <- _.
    constructor; unfold pending; cbn [a_cls a_gets a_track a_infl]; auto.
    intros c' cl' k x Hc' Hin. rewrite nth_error_upd in Hc'. destruct (Nat.eqb_spec c c') as [<-|N].
    + destruct (Nat.ltb c (length (a_cls s))); [|discriminate]. injection Hc' as <-. cbn [cl_cache] in Hin. eapply W1; eauto.
    + eapply W1; eauto.
  - (* ALost *)
    destruct (nth_error (a_cls s) c) as [cl|] eqn:Hc; [|discriminate]. injection HR as <- _.
    constructor; unfold pending; cbn [a_cls a_gets a_track a_infl].
    + intros c' cl' k x Hc' Hin. rewrite nth_error_upd in Hc'. destruct (Nat.eqb_spec c c') as [<-|N].
      * destruct (Nat.ltb c (length (a_cls s))); [|discriminate]. injection Hc' as <-. destruct Hin.
      * eapply W1; eauto.
    + intros gi g0 Hg0 Ha. rewrite nth_error_map in Hg0. destruct (nth_error (a_gets s) gi) as [g1|] eqn:Hg1; [|discriminate].
      injection Hg0 as <-. destruct (close_all_fields c g1) as (Ek & Es & Ec). rewrite Es in Ha. rewrite Ec, Ek.
      unfold close_all_waits. destruct (Nat.eqb_spec (g_cl g1) c) as [E|N]; cbn [set_flags g_wait_closed]; [left; reflexivity|].
      eapply W2; eauto.
    + intros gi g0 ph Hg0 Ha. rewrite nth_error_map in Hg0. destruct (nth_error (a_gets s) gi) as [g1|] eqn:Hg1; [|discriminate].
      injection Hg0 as <-. destruct (close_all_fields c g1) as (Ek & Es & Ec). rewrite Es in Ha. rewrite Ec.
      unfold close_all_waits. destruct (Nat.eqb_spec (g_cl g1) c) as [E|N]; cbn [set_flags g_ph_closed]; [left; reflexivity|].
      eapply W3; eauto.
  - (* ARefresh *)
    destruct (nth_error (a_cls s) c) as [cl|] eqn:Hc; [|discriminate].
    destruct (cl_id cl) as [id|]; [|discriminate]. injection HR as <- _.
    destruct (write_fields s (sset (a_store s) id [] (a_now s + cttl)) id false) as (_ & F2 & F3 & _).
    apply (winv_mono s); auto. intros; apply write_pending; assumption.
  - (* AKeepReuse *)
    destruct (nth_error (a_gets s) g) as [gg|] eqn:Hg; [|discriminate].
    destruct (g_st gg) eqn:Est; try discriminate.
    destruct (nth_error (a_cls s) (g_cl gg)) as [cl|] eqn:Hc; [|discriminate].
    assert (Hkey : g_wait_closed gg = true \/ pending s (g_cl gg) (g_key gg)) by (eapply W2; [exact Hg|rewrite Est; reflexivity]).
    destruct (cl_id cl) as [id|] eqn:Eid; [|discriminate].
    injection HR as <- _. eapply winv_with_get; [exact HW|exact Hg|reflexivity|reflexivity|intros _; exact Hkey|intros ph [H|H]; discriminate].
  - (* AInstall *)
    destruct (nth_error (a_gets s) g) as [gg|] eqn:Hg; [|discriminate].
    destruct (g_st gg) eqn:Est; try discriminate.
    destruct (nth_error (a_cls s) (g_cl gg)) as [cl|] eqn:Hc; [|discriminate].
    assert (Hkey : g_wait_closed gg = true \/ pending s (g_cl gg) (g_key gg)) by (eapply W2; [exact Hg|rewrite Est; reflexivity]).
    destruct (cl_id cl) as [id|] eqn:Eid.
    + injection HR as <- _. eapply winv_with_get; [exact HW|exact Hg|reflexivity|reflexivity|intros _; exact Hkey|intros ph [H|H]; discriminate].
    + injection HR as <- _.
      match goal with |- winv (with_get ?S _ _) => assert (HW2 : winv S) end.
      { constructor; unfold pending; cbn [a_cls a_gets a_track a_infl]; auto.
        intros c' cl' k x Hc' Hin. rewrite nth_error_upd in Hc'. destruct (Nat.eqb_spec (g_cl gg) c') as [<-|N].
        - destruct (Nat.ltb (g_cl gg) (length (a_cls s))); [|discriminate]. injection Hc' as <-. cbn [cl_cache] in Hin. eapply W1; eauto.
        - eapply W1; eauto. }
      eapply winv_with_get; [exact HW2|exact Hg|reflexivity|reflexivity|intros _; exact Hkey|intros ph [H|H]; discriminate].
Qed.

Lemma winv_run cttl : forall ls s s', winv s -> arun cttl s ls = Some s' -> winv s'.
Proof.
  induction ls as [|l ls IH]; intros s s' HW HR; cbn [arun] in HR.
  - injection HR as <-. exact HW.
  - destruct (astep cttl s l) as [s1|] eqn:E; [|discriminate]. eapply IH; [eapply winv_step; eauto|exact HR].
Qed.

(** NO LOST WAKE-UP (1).  In every reachable state, a Get that waits (for the key to be filled or for the lock
    holder to die) and whose two channels are still open is known to the server as a reader of both keys: each
    is tracked for its client, or its invalidation is already on its way. *)
Theorem waiter_not_forgotten cttl now ls s gi g ph :
  arun cttl (ainit now) ls = Some s -> nth_error (a_gets s) gi = Some g -> g_st g = GSWait ph ->
  g_wait_closed g = false -> g_ph_closed g = false ->
  pending s (g_cl g) (g_key g) /\ pending s (g_cl g) ph.
Proof.
  intros HR Hg Hs Hw Hp. pose proof (winv_run cttl ls _ _ (winv_init now) HR) as HW. split.
  - destruct (w_key _ HW gi g Hg) as [H|H]; [rewrite Hs; reflexivity|congruence|exact H].
  - destruct (w_ph _ HW gi g ph Hg (or_intror Hs)) as [H|H]; [congruence|exact H].
Qed.

(** (2) a write to a tracked key puts its invalidation on the way *)
Theorem write_notifies s st' k u c : In (c, k) (a_track s) -> In (c, k) (a_infl (write s st' k u)).
Proof.
  intros H. unfold write, touch. cbn [a_infl]. apply in_or_app. right. apply filter_In. split; [exact H|].
  cbn [snd]. apply bytes_eqb_refl.
Qed.

(** (3) the delivery of that invalidation closes the channel, and the waiting Get goes back to reading *)
Theorem inval_wakes cttl s gi g cl ph k :
  nth_error (a_gets s) gi = Some g -> g_st g = GSWait ph -> nth_error (a_cls s) (g_cl g) = Some cl ->
  In (g_cl g, k) (a_infl s) -> k = g_key g \/ k = ph ->
  exists s1 s2 g2, astep cttl s (AInval (g_cl g) [k]) = Some s1 /\ astep cttl s1 (AWake gi) = Some s2 /\
                   nth_error (a_gets s2) gi = Some g2 /\ g_st g2 = GSRead.
Proof.
  intros Hg Hs Hc Hin Hk.
  assert (Hm : mem_pair (g_cl g, k) (a_infl s) = true) by (apply mem_pair_In, Hin).
  destruct (close_waits_fields (g_cl g) [k] g) as (Ek & Es & Ec).
  assert (Hfl : (g_wait_closed (close_waits (g_cl g) [k] g) || g_ph_closed (close_waits (g_cl g) [k] g))%bool = true).
  { unfold close_waits. rewrite Nat.eqb_refl. cbn [set_flags g_wait_closed g_ph_closed]. rewrite Hs. cbn [ph_of_state mem_key].
    destruct Hk as [->| ->]; rewrite bytes_eqb_refl; cbn [orb]; rewrite ?orb_true_r; reflexivity. }
  assert (H1 : exists s1, astep cttl s (AInval (g_cl g) [k]) = Some s1 /\
                          nth_error (a_gets s1) gi = Some (close_waits (g_cl g) [k] g)).
  { unfold astep. cbn [astep_r]. rewrite Hc. cbn [forallb]. rewrite Hm. cbn [andb].
    eexists. split; [reflexivity|]. cbn [a_gets]. rewrite nth_error_map, Hg. reflexivity. }
  destruct H1 as (s1 & R1 & G1). exists s1.
  unfold astep at 2. cbn [astep_r]. rewrite G1, Es, Hs, Hfl.
  eexists; eexists. split; [exact R1|]. split; [reflexivity|].
  cbn [with_get a_gets]. split; [apply nth_error_upd_same; eapply nth_error_lt; eauto|].
  apply enter_fields.
Qed.

(** ---- the id a Get locks with is the id installed in its client ----

    Several Gets of one client may race in keepalive: each sees c.id == "" and SETs a marker of its own; only the
    first one through the second critical section installs its marker as c.id (and starts the goroutine that
    refreshes it), the others go on with the installed one.  So, as long as the client does not lose its
    connection ([ALost]), every Get that locks, loads, stores or unlocks does it under the client's CURRENT id —
    the one [ARefresh] keeps alive — and never under a private marker nobody refreshes. *)

Definition uses (st : gstate) (id : bytes) : Prop := st = GSLock id \/ holding st id.

Definition idinv (c : nat) (s : astate) : Prop :=
  forall gi g id, nth_error (a_gets s) gi = Some g -> g_cl g = c -> uses (g_st g) id ->
    exists cl, nth_error (a_cls s) c = Some cl /\ cl_id cl = Some id.

Definition has_id (s : astate) (c : nat) (id : bytes) : Prop :=
  exists cl, nth_error (a_cls s) c = Some cl /\ cl_id cl = Some id.

Lemma idinv_gen c s s' :
  idinv c s ->
  (forall id, has_id s c id -> has_id s' c id) ->
  (forall gi g' id, nth_error (a_gets s') gi = Some g' -> g_cl g' = c -> uses (g_st g') id ->
     (exists g, nth_error (a_gets s) gi = Some g /\ g_cl g = c /\ uses (g_st g) id) \/ has_id s' c id) ->
  idinv c s'.
Proof.
  intros HI Hc Hg gi g' id Hn Hcl Hu.
  destruct (Hg gi g' id Hn Hcl Hu) as [(g & Hn0 & Hcl0 & Hu0)|H]; [|exact H].
  apply Hc. exact (HI gi g id Hn0 Hcl0 Hu0).
Qed.

Lemma idinv_same c s s' : idinv c s -> a_cls s' = a_cls s -> a_gets s' = a_gets s -> idinv c s'.
Proof. intros HI Ec Eg gi g id Hn. unfold idinv in HI. rewrite Ec. rewrite Eg in Hn. exact (HI gi g id Hn). Qed.

Lemma idinv_with_get c s gi g g' :
  idinv c s -> nth_error (a_gets s) gi = Some g -> g_cl g' = g_cl g ->
  (forall id, uses (g_st g') id -> uses (g_st g) id \/ (g_cl g = c -> has_id s c id)) ->
  idinv c (with_get s gi g').
Proof.
  intros HI Hg Ec Hu. apply (idinv_gen c s); [exact HI|intros id H; exact H|].
  intros gj g0 id Hn Hcl Hus. cbn [with_get a_gets] in Hn. rewrite nth_error_upd in Hn.
  destruct (Nat.eqb_spec gi gj) as [->|N].
  - destruct (Nat.ltb gj (length (a_gets s))); [|discriminate]. injection Hn as <-.
    destruct (Hu id Hus) as [H|H].
    + left. exists g. rewrite <- Ec. auto.
    + right. apply H. rewrite <- Ec. exact Hcl.
  - left. exists g0. auto.
Qed.

Lemma idinv_with_get_nouse c s gi g g' :
  idinv c s -> nth_error (a_gets s) gi = Some g -> g_cl g' = g_cl g -> (forall id, ~ uses (g_st g') id) ->
  idinv c (with_get s gi g').
Proof. intros HI Hg Ec Hn. eapply idinv_with_get; eauto. intros id H. exfalso. eapply Hn; eauto. Qed.

Ltac nouse := let U := fresh "U" in
  intros ? U; destruct U as [U|[U|[[? U]|[? [? U]]]]]; cbn in U; discriminate.

Lemma nouse_after_value x : forall id, ~ uses (after_value x) id.
Proof. unfold after_value. destruct (is_ph x); nouse. Qed.

Lemma has_id_upd_other s c c' cl' id cls' :
  cls' = upd c' cl' (a_cls s) -> c' <> c ->
  (exists cl, nth_error (a_cls s) c = Some cl /\ cl_id cl = Some id) ->
  exists cl, nth_error cls' c = Some cl /\ cl_id cl = Some id.
Proof. intros -> N (cl & H1 & H2). exists cl. rewrite nth_error_upd_other by exact N. auto. Qed.

Lemma has_id_upd_keep (cls : list client) c c' cl0 cl' id :
  nth_error cls c' = Some cl0 -> cl_id cl' = cl_id cl0 ->
  (exists cl, nth_error cls c = Some cl /\ cl_id cl = Some id) ->
  exists cl, nth_error (upd c' cl' cls) c = Some cl /\ cl_id cl = Some id.
Proof.
  intros H0 E (cl & H1 & H2). destruct (Nat.eq_dec c' c) as [->|N].
  - exists cl'. rewrite nth_error_upd_same by (eapply nth_error_lt; eauto). split; [reflexivity|]. congruence.
  - exists cl. rewrite nth_error_upd_other by exact N. auto.
Qed.

Lemma cached_read_id s c0 cl k hit v s1 stale c :
  nth_error (a_cls s) c0 = Some cl -> cached_read s c0 cl k hit = Some (v, s1, stale) -> idinv c s -> idinv c s1.
Proof.
  intros Hc H HI. unfold cached_read in H. destruct hit.
  - destruct (clookup (cl_cache cl) k); [inversion H; subst; exact HI|].
    destruct (clookup (cl_prev cl) k); [inversion H; subst; exact HI|discriminate].
  - inversion H; subst. clear H. apply (idinv_gen c s); [exact HI| |].
    + intros id Hid. unfold has_id. cbn [a_cls]. eapply has_id_upd_keep; [exact Hc|reflexivity|exact Hid].
    + intros gi g' id Hn Hcl Hu. left. exists g'. auto.
Qed.

Lemma idinv_step cttl c s l s' : idinv c s -> l <> ALost c -> astep cttl s l = Some s' -> idinv c s'.
Proof.
  intros HI HL HS. unfold astep in HS.
  destruct (astep_r cttl s l) as [[s1 ob]|] eqn:HR; [|discriminate]. injection HS as ->.
  destruct l; cbn [astep_r] in HR.
  - (* ANewClient *)
    injection HR as <- _. apply (idinv_gen c s); [exact HI| |].
    + intros id (cl & H1 & H2). exists cl. cbn [a_cls]. rewrite nth_error_app1 by (eapply nth_error_lt; eauto). auto.
    + intros gi g' id Hn Hcl Hu. left. exists g'. auto.
  - (* AStartGet *)
    destruct (nth_error (a_cls s) c0); [|discriminate]. injection HR as <- _.
    apply (idinv_gen c s); [exact HI|intros id H; exact H|].
    intros gi g' id Hn Hcl Hu. cbn [a_gets] in Hn. destruct (Nat.ltb_spec gi (length (a_gets s))) as [L|L].
    + rewrite nth_error_app1 in Hn by exact L. left. exists g'. auto.
    + rewrite nth_error_app2 in Hn by exact L. destruct (gi - length (a_gets s)) as [|n]; cbn in Hn; [|destruct n; discriminate].
      injection Hn as <-. exfalso. revert Hu. cbn [g_st]. generalize id. nouse.
  - (* ARead *)
    destruct (nth_error (a_gets s) g) as [gg|] eqn:Hg; [|discriminate].
    destruct (g_st gg) eqn:Est; try discriminate.
    destruct (nth_error (a_cls s) (g_cl gg)) as [cl|] eqn:Hc; [|discriminate].
    destruct fail.
    + injection HR as <- _. eapply idinv_with_get_nouse; [exact HI|exact Hg|reflexivity|]. cbn [set_st g_st]. nouse.
    + destruct (cached_read s (g_cl gg) cl (g_key gg) hit) as [[[v s2] stale]|] eqn:Ecr; [|discriminate].
      injection HR as <- _.
      pose proof (cached_read_id _ _ _ _ _ _ _ _ c Hc Ecr HI) as HI2.
      destruct (cached_read_frame _ _ _ _ _ _ _ _ Ecr) as (_ & _ & F3 & _).
      match goal with |- idinv c (with_get s2 g (enter ?G ?ST)) =>
        destruct (enter_fields G ST) as (_ & Es & Ec) end.
      eapply idinv_with_get_nouse; [exact HI2|rewrite F3; exact Hg|exact Ec|]. rewrite Es.
      destruct v as [x|]; [apply nouse_after_value|]. destruct (g_fn gg); nouse.
  - (* AKeep *)
    destruct (nth_error (a_gets s) g) as [gg|] eqn:Hg; [|discriminate].
    destruct (g_st gg) eqn:Est; try discriminate.
    destruct fail.
    + injection HR as <- _. eapply idinv_with_get_nouse; [exact HI|exact Hg|reflexivity|]. cbn [set_st g_st]. nouse.
    + pose proof (write_fields s (sset (a_store s) newid [] (a_now s + cttl)) newid false) as F.
      remember (write s (sset (a_store s) newid [] (a_now s + cttl)) newid false) as s2 eqn:Es2. clear Es2.
      destruct F as (F1 & F2 & F3 & _). injection HR as <- _.
      eapply idinv_with_get_nouse; [apply (idinv_same c s); [exact HI|exact F2|exact F3]|rewrite F3; exact Hg|reflexivity|].
      cbn [set_st g_st]. nouse.
  - (* ALock *)
    destruct (nth_error (a_gets s) g) as [gg|] eqn:Hg; [|discriminate].
    destruct (g_st gg) eqn:Est; try discriminate.
    destruct fail.
    + injection HR as <- _. eapply idinv_with_get_nouse; [exact HI|exact Hg|reflexivity|]. cbn [set_st g_st]. nouse.
    + unfold srv_lock in HR. destruct (sget (a_store s) (g_key gg)) as [x|] eqn:Ex.
      * injection HR as <- _. destruct (enter_fields gg (after_value x)) as (_ & Es & Ec).
        eapply idinv_with_get_nouse; [exact HI|exact Hg|exact Ec|]. rewrite Es. apply nouse_after_value.
      * pose proof (write_fields s (sset (a_store s) (g_key gg) id (a_now s + g_ttl gg)) (g_key gg) false) as F.
        remember (write s (sset (a_store s) (g_key gg) id (a_now s + g_ttl gg)) (g_key gg) false) as s2 eqn:Es2. clear Es2.
        destruct F as (F1 & F2 & F3 & _). injection HR as <- _.
        eapply idinv_with_get; [apply (idinv_same c s); [exact HI|exact F2|exact F3]|cbn [a_gets]; rewrite F3; exact Hg|reflexivity|].
        cbn [set_st g_st]. intros id0 U. left. rewrite Est.
        destruct U as [U|[U|[[? U]|[? [? U]]]]]; try discriminate. injection U as <-. left. reflexivity.
  - (* ALoad *)
    destruct (nth_error (a_gets s) g) as [gg|] eqn:Hg; [|discriminate].
    destruct (g_st gg) eqn:Est; try discriminate.
    destruct res as [v|]; injection HR as <- _.
    + apply (idinv_same c (with_get s g (set_st gg (GSStore id v)))); [|reflexivity|reflexivity].
      eapply idinv_with_get; [exact HI|exact Hg|reflexivity|]. cbn [set_st g_st]. intros id0 U. left. rewrite Est.
      destruct U as [U|[U|[[? U]|[? [? U]]]]]; try discriminate. injection U as <- _. right. left. reflexivity.
    + eapply idinv_with_get; [exact HI|exact Hg|reflexivity|]. cbn [set_st g_st]. intros id0 U. left. rewrite Est.
      destruct U as [U|[U|[[? U]|[? [? U]]]]]; try discriminate. injection U as <- _ _. right. left. reflexivity.
  - (* AStore *)
    destruct (nth_error (a_gets s) g) as [gg|] eqn:Hg; [|discriminate].
    destruct (g_st gg) eqn:Est; try discriminate.
    destruct (if executed then srv_setkey (a_now s) (a_store s) (g_key gg) id v (g_ttl gg) else (a_store s, false)) as [st' ok].
    assert (HI1 : idinv c (if ok then write s st' (g_key gg) true else s)).
    { destruct ok; [|exact HI]. destruct (write_fields s st' (g_key gg) true) as (_ & F2 & F3 & _). apply (idinv_same c s); assumption. }
    assert (Hg1 : nth_error (a_gets (if ok then write s st' (g_key gg) true else s)) g = Some gg).
    { destruct ok; [|exact Hg]. destruct (write_fields s st' (g_key gg) true) as (_ & F2 & F3 & _). rewrite F3. exact Hg. }
    remember (if ok then write s st' (g_key gg) true else s) as s2 eqn:Es2. clear Es2.
    destruct (executed && replied); injection HR as <- _.
    + destruct (enter_fields gg (after_value v)) as (_ & Es & Ec).
      eapply idinv_with_get_nouse; [apply (idinv_same c s2); [exact HI1|reflexivity|reflexivity]|exact Hg1|exact Ec|].
      rewrite Es. apply nouse_after_value.
    + eapply idinv_with_get; [exact HI1|exact Hg1|reflexivity|]. cbn [set_st g_st]. intros id0 U. left. rewrite Est.
      destruct U as [U|[U|[[? U]|[? [? U]]]]]; try discriminate. injection U as <- _ _. right. right. left. eauto.
  - (* AUnlock *)
    destruct (nth_error (a_gets s) g) as [gg|] eqn:Hg; [|discriminate].
    destruct (g_st gg) eqn:Est; try discriminate.
    destruct (if executed then srv_delkey (a_store s) (g_key gg) id else (a_store s, false)) as [st' ok].
    assert (HI1 : idinv c (if ok then write s st' (g_key gg) true else s)).
    { destruct ok; [|exact HI]. destruct (write_fields s st' (g_key gg) true) as (_ & F2 & F3 & _). apply (idinv_same c s); assumption. }
    assert (Hg1 : nth_error (a_gets (if ok then write s st' (g_key gg) true else s)) g = Some gg).
    { destruct ok; [|exact Hg]. destruct (write_fields s st' (g_key gg) true) as (_ & F2 & F3 & _). rewrite F3. exact Hg. }
    remember (if ok then write s st' (g_key gg) true else s) as s2 eqn:Es2. clear Es2.
    injection HR as <- _.
    eapply idinv_with_get_nouse; [apply (idinv_same c s2); [exact HI1|reflexivity|reflexivity]|exact Hg1|reflexivity|].
    cbn [set_st g_st]. nouse.
  - (* AProbe *)
    destruct (nth_error (a_gets s) g) as [gg|] eqn:Hg; [|discriminate].
    destruct (g_st gg) eqn:Est; try discriminate.
    destruct (nth_error (a_cls s) (g_cl gg)) as [cl|] eqn:Hc; [|discriminate].
    destruct fail.
    + injection HR as <- _. eapply idinv_with_get_nouse; [exact HI|exact Hg|reflexivity|]. cbn [set_st g_st]. nouse.
    + destruct (cached_read s (g_cl gg) cl ph hit) as [[[v s2] stale]|] eqn:Ecr; [|discriminate].
      injection HR as <- _.
      pose proof (cached_read_id _ _ _ _ _ _ _ _ c Hc Ecr HI) as HI2.
      destruct (cached_read_frame _ _ _ _ _ _ _ _ Ecr) as (_ & _ & F3 & _).
      eapply idinv_with_get_nouse; [exact HI2|rewrite F3; exact Hg|reflexivity|]. cbn [set_st g_st]. destruct v; nouse.
  - (* ARelease *)
    destruct (nth_error (a_gets s) g) as [gg|] eqn:Hg; [|discriminate].
    destruct (g_st gg) eqn:Est; try discriminate.
    destruct (if executed then srv_delkey (a_store s) (g_key gg) ph else (a_store s, false)) as [st' ok].
    assert (HI1 : idinv c (if ok then write s st' (g_key gg) true else s)).
    { destruct ok; [|exact HI]. destruct (write_fields s st' (g_key gg) true) as (_ & F2 & F3 & _). apply (idinv_same c s); assumption. }
    assert (Hg1 : nth_error (a_gets (if ok then write s st' (g_key gg) true else s)) g = Some gg).
    { destruct ok; [|exact Hg]. destruct (write_fields s st' (g_key gg) true) as (_ & F2 & F3 & _). rewrite F3. exact Hg. }
    remember (if ok then write s st' (g_key gg) true else s) as s2 eqn:Es2. clear Es2.
    injection HR as <- _. destruct (enter_fields gg GSRead) as (_ & Es & Ec).
    eapply idinv_with_get_nouse; [exact HI1|exact Hg1|exact Ec|]. cbn [enter set_st set_flags g_st]. nouse.
  - (* AWake *)
    destruct (nth_error (a_gets s) g) as [gg|] eqn:Hg; [|discriminate].
    destruct (g_st gg) eqn:Est; try discriminate.
    destruct (g_wait_closed gg || g_ph_closed gg); [|discriminate]. injection HR as <- _.
    destruct (enter_fields gg GSRead) as (_ & Es & Ec).
    eapply idinv_with_get_nouse; [exact HI|exact Hg|exact Ec|]. cbn [enter set_st set_flags g_st]. nouse.
  - (* ACtx *)
    destruct (nth_error (a_gets s) g) as [gg|] eqn:Hg; [|discriminate].
    destruct (g_st gg) eqn:Est; try discriminate. injection HR as <- _.
    eapply idinv_with_get_nouse; [exact HI|exact Hg|reflexivity|]. cbn [set_st g_st]. nouse.
  - (* AInval *)
    destruct (nth_error (a_cls s) c0) as [cl|] eqn:Hc; [|discriminate].
    destruct (forallb (fun k => mem_pair (c0, k) (a_infl s)) ks); [|discriminate]. injection HR as <- _.
    apply (idinv_gen c s); [exact HI| |].
    + intros id Hid. unfold has_id. cbn [a_cls]. eapply has_id_upd_keep; [exact Hc|reflexivity|exact Hid].
    + intros gi g' id Hn Hcl Hu. cbn [a_gets] in Hn. rewrite nth_error_map in Hn.
      destruct (nth_error (a_gets s) gi) as [g1|] eqn:Hg1; [|discriminate]. injection Hn as <-.
      destruct (close_waits_fields c0 ks g1) as (_ & Es & Ec). rewrite Es in Hu. rewrite Ec in Hcl. left. exists g1. auto.
  - (* ADel *)
    destruct (sget (a_store s) key); injection HR as <- _; [|exact HI].
    destruct (write_fields s (sdel (a_store s) key) key true) as (_ & F2 & F3 & _). apply (idinv_same c s); assumption.
  - (* ASet *)
    injection HR as <- _.
    destruct (write_fields s (sset (a_store s) key v (if (ttl =? 0)%Z then 0%Z else (a_now s + ttl)%Z)) key true) as (_ & F2 & F3 & _).
    apply (idinv_same c s); assumption.
  - (* ATick *)
    destruct (dt <? 0)%Z; [discriminate|].
    destruct (touch_all (a_track s) (a_infl s) (gone_keys (a_store s) (expire (a_now s + dt) (a_store s)))) as [tr infl].
    injection HR as <- _. apply (idinv_same c s); [exact HI|reflexivity|reflexivity].
  - (* AClose *)
    destruct (nth_error (a_cls s) c0) as [cl|] eqn:Hc; [|discriminate]. injection HR as <- _.
    apply (idinv_gen c s); [exact HI| |].
    + intros id Hid. unfold has_id. cbn [a_cls]. eapply has_id_upd_keep; [exact Hc|reflexivity|exact Hid].
    + intros gi g' id Hn Hcl Hu. left. exists g'. auto.
  - (* ALost *)
    assert (N : c0 <> c) by congruence.
    destruct (nth_error (a_cls s) c0) as [cl|] eqn:Hc; [|discriminate]. injection HR as <- _.
    apply (idinv_gen c s); [exact HI| |].
    + intros id (cl0 & H1 & H2). exists cl0. cbn [a_cls]. rewrite nth_error_upd_other by exact N. auto.
    + intros gi g' id Hn Hcl Hu. cbn [a_gets] in Hn. rewrite nth_error_map in Hn.
      destruct (nth_error (a_gets s) gi) as [g1|] eqn:Hg1; [|discriminate]. injection Hn as <-.
      destruct (close_all_fields c0 g1) as (_ & Es & Ec). rewrite Es in Hu. rewrite Ec in Hcl. left. exists g1. auto.
  - (* ARefresh *)
    destruct (nth_error (a_cls s) c0) as [cl|] eqn:Hc; [|discriminate].
    destruct (cl_id cl) as [id|]; [|discriminate]. injection HR as <- _.
    destruct (write_fields s (sset (a_store s) id [] (a_now s + cttl)) id false) as (_ & F2 & F3 & _).
    apply (idinv_same c s); assumption.
  - (* AKeepReuse *)
    destruct (nth_error (a_gets s) g) as [gg|] eqn:Hg; [|discriminate].
    destruct (g_st gg) eqn:Est; try discriminate.
    destruct (nth_error (a_cls s) (g_cl gg)) as [cl|] eqn:Hc; [|discriminate].
    destruct (cl_id cl) as [id|] eqn:Eid; [|discriminate]. injection HR as <- _.
    eapply idinv_with_get; [exact HI|exact Hg|reflexivity|]. cbn [set_st g_st]. intros id0 U. right. intros <-.
    destruct U as [U|[U|[[? U]|[? [? U]]]]]; try discriminate. injection U as <-. exists cl. auto.
  - (* AInstall *)
    destruct (nth_error (a_gets s) g) as [gg|] eqn:Hg; [|discriminate].
    destruct (g_st gg) eqn:Est; try discriminate.
    destruct (nth_error (a_cls s) (g_cl gg)) as [cl|] eqn:Hc; [|discriminate].
    destruct (cl_id cl) as [id|] eqn:Eid; injection HR as <- _.
    + eapply idinv_with_get; [exact HI|exact Hg|reflexivity|]. cbn [set_st g_st]. intros id0 U. right. intros <-.
      destruct U as [U|[U|[[? U]|[? [? U]]]]]; try discriminate. injection U as <-. exists cl. auto.
    + match goal with |- idinv c (with_get ?S _ _) => assert (HI2 : idinv c S) end.
      { apply (idinv_gen c s); [exact HI| |].
        - intros id (cl0 & H1 & H2). unfold has_id. cbn [a_cls]. destruct (Nat.eq_dec (g_cl gg) c) as [E|N].
          + subst c. rewrite Hc in H1. injection H1 as <-. congruence.
          + exists cl0. rewrite nth_error_upd_other by exact N. auto.
        - intros gi g' id Hn Hcl Hu. left. exists g'. auto. }
      eapply idinv_with_get; [exact HI2|exact Hg|reflexivity|]. cbn [set_st g_st]. intros id0 U. right. intros <-.
      destruct U as [U|[U|[[? U]|[? [? U]]]]]; try discriminate. injection U as <-.
      unfold has_id. cbn [a_cls]. eexists. split; [apply nth_error_upd_same; eapply nth_error_lt; eauto|reflexivity].
Qed.

Lemma idinv_init c now : idinv c (ainit now).
Proof. intros gi g id Hn. destruct gi; discriminate. Qed.

Lemma idinv_run cttl c : forall ls s s', idinv c s -> ~ In (ALost c) ls -> arun cttl s ls = Some s' -> idinv c s'.
Proof.
  induction ls as [|l ls IH]; intros s s' HI HN HR; cbn [arun] in HR.
  - injection HR as <-. exact HI.
  - destruct (astep cttl s l) as [s1|] eqn:E; [|discriminate].
    eapply IH; [eapply idinv_step; [exact HI| |exact E]| |exact HR].
    + intros ->. apply HN. left. reflexivity.
    + intros H. apply HN. right. exact H.
Qed.

(** THE LOCK ID IS THE INSTALLED ID.  In every reachable state, a Get that is about to lock, or whose loader
    runs, or that stores / unlocks, does so under the id that is installed in its client at that moment —
    whatever raced in keepalive — provided the client has not lost its connection. *)
Theorem lock_id_is_installed_id cttl now ls s gi g id :
  arun cttl (ainit now) ls = Some s -> ~ In (ALost (g_cl g)) ls ->
  nth_error (a_gets s) gi = Some g -> uses (g_st g) id ->
  exists cl, nth_error (a_cls s) (g_cl g) = Some cl /\ cl_id cl = Some id.
Proof.
  intros HR HN Hg Hu.
  exact (idinv_run cttl (g_cl g) ls _ _ (idinv_init _ now) HN HR gi g id Hg eq_refl Hu).
Qed.

(** … hence the refresh goroutine of that client extends exactly the marker the lock value points to *)
Theorem refresh_extends_lock_id cttl now ls s gi g id :
  arun cttl (ainit now) ls = Some s -> ~ In (ALost (g_cl g)) ls ->
  nth_error (a_gets s) gi = Some g -> uses (g_st g) id ->
  exists s', astep cttl s (ARefresh (g_cl g)) = Some s' /\ In (id, ([], a_now s + cttl)%Z) (a_store s').
Proof.
  intros HR HN Hg Hu.
  destruct (lock_id_is_installed_id cttl now ls s gi g id HR HN Hg Hu) as (cl & Hc & Hid).
  unfold astep. cbn [astep_r]. rewrite Hc, Hid. eexists. split; [reflexivity|].
  destruct (write_fields s (sset (a_store s) id [] (a_now s + cttl)) id false) as (F1 & _). rewrite F1.
  left. reflexivity.
Qed.
