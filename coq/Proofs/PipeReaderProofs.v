(** Lemmas about the reader transcription ([Model/Pipe.v]). *)
From Coq Require Import List NArith ZArith Bool Lia Arith.
Require Import RV.Model.Base RV.Model.PipeQueue RV.Model.Pipe.
Import ListNotations.
Open Scope N_scope.

Lemma sync_multi_length n : forall fs ms r, sync_multi n fs = Some (ms, r) -> List.length ms = n.
Proof.
  induction n as [|n IH]; intros fs ms r H; cbn [sync_multi] in H.
  - now inversion H.
  - destruct (sync_read fs) as [[m r0]|]; [|discriminate].
    destruct (sync_multi n r0) as [[ms' r']|] eqn:E; [|discriminate].
    inversion H; subst. cbn. f_equal. eapply IH; eauto.
Qed.
