(** Lemmas about the reader transcription ([Model/Pipe.v]): closed forms of [reader_step] on the four
    kinds of frame a ServerProto server can send. *)
From Coq Require Import List NArith ZArith Bool Lia Arith String.
Require Import RV.Model.Base RV.Model.PipeQueue RV.Model.Pipe RV.Model.PipeLts.
Import ListNotations.
Open Scope N_scope.

Lemma sync_multi_length n : forall fs ms r, sync_multi n fs = Some (ms, r) -> List.length ms = n.
Proof.
  induction n as [|n IH]; intros fs ms r H; cbn [sync_multi] in H.
  - now inversion H.
  - destruct (sync_read fs) as [[m r0]|]; [|discriminate].
    destruct (sync_multi n r0) as [[ms' r']|] eqn:E; [|discriminate].
    inversion H; subst. cbn. f_equal. eapply IH; eauto.
Qed.

Definition is_apush (a : action) : bool := match a with APush _ _ => true | _ => false end.

(** handlePush only produces [APush] effects, and never answers (false, true) *)
Lemma handle_push_spec vs :
  forallb is_apush (snd (handle_push vs)) = true /\
  (fst (fst (handle_push vs)) = false -> snd (fst (handle_push vs)) = false).
Proof.
  unfold handle_push. destruct vs as [|v0 [|v1 r]]; [cbn; auto|cbn; auto|].
  repeat match goal with
         | |- context [if ?b then _ else _] => destruct b
         end; cbn; auto; split; auto; discriminate.
Qed.

Lemma handle_push_acts vs : forallb is_apush (snd (handle_push vs)) = true.
Proof. apply handle_push_spec. Qed.

Definition flags_clear (st : rstate) : Prop := r_prply st = false /\ r_unsub st = false /\ r_sur st = false.

Lemma set_flags_id st : r_prply st = false -> r_unsub st = false -> set_flags st false false = st.
Proof. destruct st; cbn; intros -> ->; reflexivity. Qed.

Section Reader.
  Variables (r2ps : bool) (ver : Z).
  Hypothesis Hver : ver <> 6%Z.

  Lemma ver_test m : (Z.eqb ver 6 && negb (match m_vals m with [] => true | _ => false end)) = false.
  Proof. destruct (Z.eqb ver 6) eqn:E; [apply Z.eqb_eq in E; contradiction|reflexivity]. Qed.

  (** an out-of-band push leaves the loop state alone *)
  Lemma rd_pushed_free st f :
    free_push r2ps f = true -> flags_clear st -> (r_skip st <= 0)%Z ->
    exists pa, rd_pushed r2ps ver st f = inl (st, pa) /\ forallb is_apush pa = true.
  Proof.
    intros Hf (F1&F2&F3) Hs. unfold free_push in Hf. apply andb_true_iff in Hf as [Hp Hc].
    unfold push_class in Hc.
    pose proof (handle_push_spec (m_vals f)) as [Ha Hb].
    unfold rd_pushed. rewrite Hp.
    destruct (handle_push (m_vals f)) as [[prply unsub] pa] eqn:E. cbn in Hc, Ha, Hb.
    exists pa. split; [|assumption].
    destruct prply; cbn [negb].
    - cbn in Hc. subst unsub.
      assert ((0 <? r_skip (set_flags st true true))%Z = false) as -> by (cbn; apply Z.ltb_ge; assumption).
      cbn [set_flags r_prply r_unsub r_skip]. do 2 f_equal. destruct st; cbn in *; subst; reflexivity.
    - rewrite (Hb eq_refl). do 2 f_equal. now apply set_flags_id.
  Qed.

  Lemma reader_step_free next st f :
    free_push r2ps f = true -> flags_clear st -> (r_skip st <= 0)%Z ->
    exists pa, reader_step r2ps ver next st f = (st, pa) /\ forallb is_apush pa = true.
  Proof.
    intros Hf Hc Hs. destruct (rd_pushed_free st f Hf Hc Hs) as (pa&E&Hp).
    exists pa. split; [|assumption]. unfold reader_step. now rewrite E.
  Qed.

  (** a further confirmation of a multi-channel subscribe is skipped *)
  Lemma reader_step_conf next st f :
    sub_confirm r2ps f = true -> flags_clear st -> (0 < r_skip st)%Z ->
    exists pa, reader_step r2ps ver next st f = (set_skip st (r_skip st - 1)%Z, pa) /\ forallb is_apush pa = true.
  Proof.
    intros Hf (F1&F2&F3) Hs. unfold sub_confirm in Hf. apply andb_true_iff in Hf as [Hf Hc2]. apply andb_true_iff in Hf as [Hp Hc1].
    unfold push_class in Hc1, Hc2.
    pose proof (handle_push_acts (m_vals f)) as Ha.
    unfold reader_step, rd_pushed. rewrite Hp.
    destruct (handle_push (m_vals f)) as [[prply unsub] pa] eqn:E. cbn in Hc1, Hc2, Ha. subst prply.
    exists pa. split; [|assumption]. cbn [negb].
    assert ((0 <? r_skip (set_flags st true unsub))%Z = true) as -> by (cbn; apply Z.ltb_lt; assumption).
    f_equal. destruct st; cbn in *; subst; reflexivity.
  Qed.

  (** ** reply-bearing frames *)

  (** actions without effect on calls and queue *)
  Definition inert (a : action) : bool :=
    match a with APush _ _ | ACacheStatic _ _ | ACacheOptIn _ _ => true | _ => false end.

  Lemma apush_inert pa : forallb is_apush pa = true -> forallb inert pa = true.
  Proof.
    induction pa as [|a pa IH]; cbn; [reflexivity|]. intros H. apply andb_true_iff in H as [H1 H2].
    rewrite (IH H2). destruct a; try discriminate; reflexivity.
  Qed.

  (** phase 1 on a frame that bears a reply: a first subscribe confirmation, or a non-push frame *)
  Lemma rd_pushed_sub st f :
    sub_confirm r2ps f = true -> flags_clear st -> (r_skip st <= 0)%Z ->
    exists pa, rd_pushed r2ps ver st f = inr (set_flags st true false, pa) /\ forallb inert pa = true.
  Proof.
    intros Hf (F1&F2&F3) Hs. unfold sub_confirm in Hf. apply andb_true_iff in Hf as [Hf Hc2]. apply andb_true_iff in Hf as [Hp Hc1].
    unfold push_class in Hc1, Hc2.
    pose proof (handle_push_acts (m_vals f)) as Ha.
    unfold rd_pushed. rewrite Hp.
    destruct (handle_push (m_vals f)) as [[prply unsub] pa] eqn:E. cbn in Hc1, Hc2, Ha. subst prply.
    apply negb_true_iff in Hc2. subst unsub.
    exists pa. split; [|now apply apush_inert]. cbn [negb].
    assert ((0 <? r_skip (set_flags st true false))%Z = false) as -> by (cbn; apply Z.ltb_ge; assumption).
    reflexivity.
  Qed.

  Lemma rd_pushed_plain st f :
    is_push_frame r2ps f = false -> rd_pushed r2ps ver st f = inr (st, []).
  Proof. intros Hp. unfold rd_pushed. rewrite Hp, ver_test. reflexivity. Qed.

  (** phase 2 *)
  Lemma rd_taken_cur next st1 a1 m c :
    (r_ff st1 < List.length (r_multi st1))%nat -> nth_error (r_multi st1) (r_ff st1) = Some c ->
    exists pre, rd_taken next st1 a1 m = inr (st1, a1 ++ pre) /\ forallb inert pre = true.
  Proof.
    intros Hlt Hn. unfold rd_taken.
    assert (Nat.eqb (r_ff st1) (List.length (r_multi st1)) = false) as -> by (apply Nat.eqb_neq; lia).
    rewrite Hn.
    destruct (Nat.ltb 0 (r_ff st1) && c_static c).
    { eexists. split; [reflexivity|reflexivity]. }
    destruct (Nat.leb 4 (r_ff st1) && Nat.leb 2 (List.length (m_vals m)) && match r_multi st1 with c0 :: _ => c_optin c0 | [] => false end) eqn:G.
    - destruct (nth_error (r_multi st1) (r_ff st1 - 1)) eqn:E1.
      + eexists. split; [reflexivity|reflexivity].
      + exfalso. apply nth_error_None in E1. lia.
    - exists []. split; [now rewrite app_nil_r|reflexivity].
  Qed.

  Lemma rd_taken_next st1 a1 m sl :
    r_ff st1 = List.length (r_multi st1) ->
    rd_taken (Some sl) st1 a1 m = inr (set_slot st1 (Some sl), a1 ++ [ATakeNext true]).
  Proof. intros E. unfold rd_taken. rewrite E, Nat.eqb_refl. reflexivity. Qed.

  (** phase 3 *)
  Lemma rd_classify_normal st st2 a2 c m :
    r_prply st2 = false -> r_sur st2 = false -> c_noreply c = false -> c_unsub c = false ->
    rd_classify st st2 a2 c m = inr (st2, m).
  Proof. intros H1 H2 H3 H4. unfold rd_classify. rewrite H1, H2, H3, H4. reflexivity. Qed.

  Lemma rd_classify_sub st st2 a2 c m :
    r_prply st2 = true -> r_unsub st2 = false -> c_noreply c = true ->
    rd_classify st st2 a2 c m = inr (set_skip (set_flags st2 false false) (Z.of_nat (c_argc c) - 2)%Z, empty_msg).
  Proof. intros H1 H2 H3. unfold rd_classify. rewrite H1, H2, H3. reflexivity. Qed.

  Lemma rd_classify_pong st st2 a2 c m :
    r_prply st2 = false -> r_sur st2 = false -> c_unsub c = true -> fst (is_unsub_reply m) = true ->
    bytes_eqb (m_str m) (b "QUEUED"%string) = false ->
    rd_classify st st2 a2 c m = inr (st2, snd (is_unsub_reply m)).
  Proof.
    intros H1 H2 H3 H4 H5. unfold rd_classify. rewrite H1, H2, H3, H4, H5. rewrite andb_false_r. reflexivity.
  Qed.

  (** where the reply-bearing frame lands: in the slot being filled, or in the next written slot *)
  Inductive lands (next : option slot) (st : rstate) (c : cmd) : rstate -> list action -> Prop :=
  | LandCur : (r_ff st < List.length (r_multi st))%nat -> nth_error (r_multi st) (r_ff st) = Some c ->
              lands next st c st []
  | LandNext sl rest : r_ff st = List.length (r_multi st) -> next = Some sl -> s_cmds sl = c :: rest ->
              lands next st c (set_slot st (Some sl)) [ATakeNext true].

  Lemma lands_nth next st c st2 tk : lands next st c st2 tk -> nth_error (r_multi st2) (r_ff st2) = Some c.
  Proof. intros [H1 H2|sl rest H1 H2 H3]; [assumption|]. cbn. now rewrite H3. Qed.

  Lemma lands_flags next st c st2 tk : lands next st c st2 tk ->
    r_prply st2 = r_prply st /\ r_unsub st2 = r_unsub st /\ r_sur st2 = r_sur st /\ r_skip st2 = r_skip st.
  Proof. intros [H1 H2|sl rest H1 H2 H3]; cbn; auto. Qed.

  Lemma rd_taken_lands next st1 a1 m c st2 tk :
    lands next st1 c st2 tk ->
    exists pre, rd_taken next st1 a1 m = inr (st2, a1 ++ tk ++ pre) /\ forallb inert pre = true.
  Proof.
    intros [H1 H2|sl rest H1 H2 H3].
    - destruct (rd_taken_cur next st1 a1 m c H1 H2) as (pre&E&Hp). exists pre. split; [exact E|exact Hp].
    - subst next. exists []. split; [|reflexivity]. rewrite (rd_taken_next st1 a1 m sl H1). now rewrite app_nil_r.
  Qed.

  (** the reply of an ordinary command *)
  Lemma reader_step_normal next st f c st2 tk :
    flags_clear st -> is_push_frame r2ps f = false -> c_noreply c = false -> c_unsub c = false ->
    lands next st c st2 tk ->
    exists pre, reader_step r2ps ver next st f = rd_store st2 (tk ++ pre) f /\ forallb inert pre = true.
  Proof.
    intros (F1&F2&F3) Hp Hn Hu Hl.
    destruct (rd_taken_lands next st [] f c st2 tk Hl) as (pre&E&Hi). cbn [app] in E.
    destruct (lands_flags _ _ _ _ _ Hl) as (G1&G2&G3&G4).
    exists pre. split; [|assumption].
    unfold reader_step. rewrite (rd_pushed_plain st f Hp), E, (lands_nth _ _ _ _ _ Hl).
    rewrite rd_classify_normal; auto; congruence.
  Qed.

  (** the PONG that answers the PING written after an unsubscribe command *)
  Lemma reader_step_pong next st f c st2 tk :
    flags_clear st -> is_push_frame r2ps f = false -> c_unsub c = true ->
    fst (is_unsub_reply f) = true -> bytes_eqb (m_str f) (b "QUEUED"%string) = false ->
    lands next st c st2 tk ->
    exists pre, reader_step r2ps ver next st f = rd_store st2 (tk ++ pre) (snd (is_unsub_reply f)) /\ forallb inert pre = true.
  Proof.
    intros (F1&F2&F3) Hp Hu Hr Hq Hl.
    destruct (rd_taken_lands next st [] f c st2 tk Hl) as (pre&E&Hi). cbn [app] in E.
    destruct (lands_flags _ _ _ _ _ Hl) as (G1&G2&G3&G4).
    exists pre. split; [|assumption].
    unfold reader_step. rewrite (rd_pushed_plain st f Hp), E, (lands_nth _ _ _ _ _ Hl).
    rewrite rd_classify_pong; auto; congruence.
  Qed.

  (** the first confirmation of a subscribe command *)
  Lemma reader_step_sub next st f c st2 tk :
    flags_clear st -> (r_skip st <= 0)%Z -> sub_confirm r2ps f = true -> c_noreply c = true ->
    lands next st c st2 tk ->
    exists pre1 pre2, reader_step r2ps ver next st f =
                      rd_store (set_skip st2 (Z.of_nat (c_argc c) - 2)%Z) (pre1 ++ tk ++ pre2) empty_msg /\
                      forallb inert pre1 = true /\ forallb inert pre2 = true.
  Proof.
    intros (F1&F2&F3) Hs Hf Hn Hl.
    destruct (rd_pushed_sub st f Hf (conj F1 (conj F2 F3)) Hs) as (pa&E1&Hpa).
    assert (Hl' : exists st2', lands next (set_flags st true false) c st2' tk /\
                               set_flags st2' false false = st2).
    { destruct Hl as [H1 H2|sl rest H1 H2 H3].
      - exists (set_flags st true false). split; [constructor; assumption|].
        destruct st; cbn in *; subst; reflexivity.
      - exists (set_slot (set_flags st true false) (Some sl)). split; [econstructor; eauto|].
        destruct st; cbn in *; subst; reflexivity. }
    destruct Hl' as (st2'&Hl'&Est).
    destruct (rd_taken_lands next (set_flags st true false) pa f c st2' tk Hl') as (pre&E&Hi).
    destruct (lands_flags _ _ _ _ _ Hl') as (G1&G2&G3&G4). cbn in G1, G2.
    exists pa, pre. split; [|split; assumption].
    unfold reader_step. rewrite E1, E, (lands_nth _ _ _ _ _ Hl').
    rewrite rd_classify_sub; auto. now rewrite Est.
  Qed.
End Reader.
