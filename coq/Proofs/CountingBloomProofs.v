(** Proofs about Model/CountingBloom.v (C36). *)
From Coq Require Import List NArith ZArith Bool Lia ZifyN ZifyNat ZifyBool.
Require Import RV.Model.Base RV.Model.Bloom RV.Model.CountingBloom RV.Proofs.BloomProofs.
Import ListNotations.
Open Scope Z_scope.

(** ---- counters as functions ---- *)

Definition ceq (a b : counters) : Prop := forall j, getc a j = getc b j.
Definition nonneg (a : counters) : Prop := forall j, 0 <= getc a j.

Definition ind (j x : N) : Z := if N.eqb j x then 1 else 0.

Fixpoint occ (j : N) (c : list N) : Z :=
  match c with
  | [] => 0
  | x :: r => ind j x + occ j r
  end.

Lemma ind_range : forall j x, 0 <= ind j x <= 1.
Proof. intros. unfold ind. destruct (N.eqb j x); lia. Qed.

Lemma occ_nonneg : forall j c, 0 <= occ j c.
Proof. induction c as [|x r IH]; cbn [occ]; [lia|]. pose proof (ind_range j x). lia. Qed.

Lemma occ_app : forall j a b, occ j (a ++ b) = occ j a + occ j b.
Proof. induction a as [|x r IH]; intros b; cbn [app occ]; [lia|]. rewrite IH. lia. Qed.

Lemma occ_In : forall j c, In j c -> 1 <= occ j c.
Proof.
  induction c as [|x r IH]; intros H; [contradiction|]. cbn [occ].
  pose proof (occ_nonneg j r). destruct H as [->|H].
  - unfold ind. rewrite N.eqb_refl. lia.
  - specialize (IH H). pose proof (ind_range j x). lia.
Qed.

Lemma getc_hincrby : forall cs i d j, getc (hincrby cs i d) j = getc cs j + d * ind j i.
Proof.
  intros. unfold hincrby, ind. cbn [getc]. destruct (N.eqb j i) eqn:E.
  - apply N.eqb_eq in E. subst. lia.
  - lia.
Qed.

Lemma getc_fold_incr : forall d l cs j,
  getc (fold_left (fun a ix => hincrby a ix d) l cs) j = getc cs j + d * occ j l.
Proof.
  intros d l. induction l as [|x r IH]; intros cs j; cbn [fold_left occ]; [lia|].
  rewrite IH, getc_hincrby. lia.
Qed.

Lemma ceq_refl : forall a, ceq a a.
Proof. intros a j. reflexivity. Qed.

Lemma ceq_trans : forall a b c, ceq a b -> ceq b c -> ceq a c.
Proof. intros a b c H1 H2 j. rewrite H1. apply H2. Qed.

Lemma ceq_sym : forall a b, ceq a b -> ceq b a.
Proof. intros a b H j. symmetry. apply H. Qed.

Lemma ceq_hincrby : forall a b i d, ceq a b -> ceq (hincrby a i d) (hincrby b i d).
Proof. intros a b i d H j. rewrite !getc_hincrby, H. reflexivity. Qed.

Lemma ceq_fold : forall d l a b, ceq a b ->
  ceq (fold_left (fun x ix => hincrby x ix d) l a) (fold_left (fun x ix => hincrby x ix d) l b).
Proof. intros d l a b H j. rewrite !getc_fold_incr, H. reflexivity. Qed.

Lemma nonneg_ceq : forall a b, ceq a b -> nonneg a -> nonneg b.
Proof. intros a b H Hn j. rewrite <- H. apply Hn. Qed.

(** ---- one item of the remove script ---- *)

(** the script's test, as a specification: every decrement in sequence finds a counter >= 1 *)
Fixpoint can_remove (ic : counters) (c : list N) : bool :=
  match c with
  | [] => true
  | ix :: r => (1 <=? getc ic ix) && can_remove (hincrby ic ix (-1)) r
  end.

Definition dec_all (ic : counters) (c : list N) : counters := fold_left (fun a ix => hincrby a ix (-1)) c ic.

(** what one outer iteration does to the simulated counters *)
Definition item_spec (ic : counters) (c : list N) : counters :=
  if can_remove ic c then dec_all ic c else ic.

Lemma can_remove_ceq : forall c a b, ceq a b -> can_remove a c = can_remove b c.
Proof.
  induction c as [|x r IH]; intros a b H; cbn [can_remove]; [reflexivity|].
  rewrite (H x). f_equal. apply IH. apply ceq_hincrby. exact H.
Qed.

Lemma item_spec_ceq : forall c a b, ceq a b -> ceq (item_spec a c) (item_spec b c).
Proof.
  intros c a b H. unfold item_spec. rewrite (can_remove_ceq c a b H).
  destruct (can_remove b c); [apply ceq_fold; exact H|exact H].
Qed.

Lemma try_dec_spec : forall c ic v ic1 able n,
  try_dec ic c v = (ic1, able, n) ->
  able = can_remove ic c /\
  exists p rest, c = p ++ rest /\ n = (v + length p)%nat /\
    (forall j, getc ic1 j = getc ic j - occ j p) /\ (able = true -> rest = []).
Proof.
  induction c as [|x r IH]; intros ic v ic1 able n H; cbn [try_dec can_remove] in *.
  - inversion H; subst. split; [reflexivity|]. exists [], [].
    split; [reflexivity|]. split; [cbn [length]; lia|]. split; [intros j; cbn [occ]; lia|reflexivity].
  - pose proof (getc_hincrby ic x (-1) x) as Hx. unfold ind in Hx. rewrite N.eqb_refl in Hx.
    destruct (getc (hincrby ic x (-1)) x <? 0) eqn:E.
    + inversion H; subst. split.
      * assert (1 <=? getc ic x = false) as -> by lia. reflexivity.
      * exists [x], r. split; [reflexivity|]. split; [cbn [length]; lia|]. split.
        -- intros j. rewrite getc_hincrby. cbn [occ]. lia.
        -- discriminate.
    + apply IH in H. destruct H as [Hable [p [rest [Hc [Hn [Hg Hr]]]]]]. split.
      * assert (1 <=? getc ic x = true) as -> by lia. exact Hable.
      * exists (x :: p), rest. split; [cbn [app]; f_equal; exact Hc|].
        split; [cbn [length]; lia|]. split.
        -- intros j. rewrite Hg, getc_hincrby. cbn [occ]. lia.
        -- exact Hr.
Qed.

Lemma firstn_app_exact : forall (A : Type) (p rest : list A), firstn (length p) (p ++ rest) = p.
Proof. intros A p rest. induction p as [|x p IH]; cbn [length firstn app]; [destruct rest; reflexivity|f_equal; exact IH]. Qed.

(** one outer iteration: the new simulated counters are [item_spec], whether it succeeded is
    [can_remove], and a failed attempt is completely rolled back *)
Lemma outer_iteration : forall c ic ic1 able visited,
  try_dec ic c 0 = (ic1, able, visited) ->
  able = can_remove ic c /\
  (able = true -> ceq ic1 (dec_all ic c)) /\
  (able = false -> ceq (rollback ic1 c visited) ic).
Proof.
  intros c ic ic1 able visited H. apply try_dec_spec in H.
  destruct H as [Hable [p [rest [Hc [Hn [Hg Hr]]]]]]. split; [exact Hable|]. split.
  - intros Ht. specialize (Hr Ht). subst rest. rewrite app_nil_r in Hc. subst p.
    intros j. unfold dec_all. rewrite getc_fold_incr, Hg. lia.
  - intros _. intros j. unfold rollback. cbn [Nat.add] in Hn. subst visited c.
    rewrite firstn_app_exact, getc_fold_incr, Hg. lia.
Qed.

(** ---- the whole remove script ---- *)

Definition spec_loop (chunks : list (list N)) (ic : counters) : counters := fold_left item_spec chunks ic.

Fixpoint spec_removed (chunks : list (list N)) (ic : counters) : Z :=
  match chunks with
  | [] => 0
  | c :: r => (if can_remove ic c then 1 else 0) + spec_removed r (item_spec ic c)
  end.

Lemma spec_loop_ceq : forall chunks a b, ceq a b -> ceq (spec_loop chunks a) (spec_loop chunks b).
Proof.
  induction chunks as [|c r IH]; intros a b H; cbn [spec_loop fold_left]; [exact H|].
  apply IH. apply item_spec_ceq. exact H.
Qed.

Lemma spec_removed_ceq : forall chunks a b, ceq a b -> spec_removed chunks a = spec_removed chunks b.
Proof.
  induction chunks as [|c r IH]; intros a b H; cbn [spec_removed]; [reflexivity|].
  rewrite (can_remove_ceq c a b H). f_equal. apply IH. apply item_spec_ceq. exact H.
Qed.

Lemma remove_loop_spec : forall chunks ic dec n ic' dec' n',
  remove_loop chunks ic dec n = (ic', dec', n') ->
  ceq ic' (spec_loop chunks ic) /\
  (forall j, occ j dec' - occ j dec = getc ic j - getc ic' j) /\
  n' = n + spec_removed chunks ic.
Proof.
  induction chunks as [|c r IH]; intros ic dec n ic' dec' n' H; cbn [remove_loop spec_loop fold_left spec_removed] in *.
  - inversion H; subst. split; [apply ceq_refl|]. split; [intros; lia|lia].
  - destruct (try_dec ic c 0) as [[ic1 able] visited] eqn:E.
    apply outer_iteration in E. destruct E as [Hable [Hok Hfail]].
    unfold item_spec. rewrite <- Hable. destruct able.
    + specialize (Hok eq_refl). apply IH in H. destruct H as [H1 [H2 H3]]. split; [|split].
      * eapply ceq_trans; [exact H1|]. apply spec_loop_ceq. exact Hok.
      * intros j. specialize (H2 j). rewrite occ_app in H2.
        rewrite (Hok j) in H2. unfold dec_all in H2. rewrite getc_fold_incr in H2. lia.
      * rewrite H3. rewrite (spec_removed_ceq r ic1 (dec_all ic c) Hok). lia.
    + specialize (Hfail eq_refl). apply IH in H. destruct H as [H1 [H2 H3]]. split; [|split].
      * eapply ceq_trans; [exact H1|]. apply spec_loop_ceq. exact Hfail.
      * intros j. specialize (H2 j). rewrite (Hfail j) in H2. lia.
      * rewrite H3. rewrite (spec_removed_ceq r _ ic Hfail). lia.
Qed.

(** the script = per item, in order: remove it if [can_remove], otherwise leave everything as it is *)
Theorem cremove_script_spec : forall chunks f,
  ceq (ctrs (cremove_script chunks f)) (spec_loop chunks (ctrs f)) /\
  total (cremove_script chunks f) = total f - spec_removed chunks (ctrs f).
Proof.
  intros chunks f. unfold cremove_script.
  destruct (remove_loop chunks (ctrs f) [] 0) as [[ic' dec'] n'] eqn:E.
  apply remove_loop_spec in E. destruct E as [H1 [H2 H3]]. cbn [ctrs total]. split.
  - intros j. rewrite getc_fold_incr. specialize (H2 j). cbn [occ] in H2. rewrite <- (H1 j). lia.
  - lia.
Qed.

(** ---- no negative counter ---- *)

Lemma can_remove_nonneg : forall c ic, nonneg ic -> can_remove ic c = true -> nonneg (dec_all ic c).
Proof.
  induction c as [|x r IH]; intros ic Hn Hc; cbn [can_remove] in Hc; unfold dec_all; cbn [fold_left].
  - exact Hn.
  - apply andb_prop in Hc. destruct Hc as [H1 H2]. apply IH; [|exact H2].
    intros j. rewrite getc_hincrby. specialize (Hn j). unfold ind.
    destruct (N.eqb j x) eqn:E; [apply N.eqb_eq in E; subst; lia|lia].
Qed.

Lemma item_spec_nonneg : forall c ic, nonneg ic -> nonneg (item_spec ic c).
Proof.
  intros c ic Hn. unfold item_spec. destruct (can_remove ic c) eqn:E; [apply can_remove_nonneg; assumption|exact Hn].
Qed.

Lemma spec_loop_nonneg : forall chunks ic, nonneg ic -> nonneg (spec_loop chunks ic).
Proof.
  induction chunks as [|c r IH]; intros ic Hn; cbn [spec_loop fold_left]; [exact Hn|].
  apply IH. apply item_spec_nonneg. exact Hn.
Qed.

Lemma cremove_nonneg : forall chunks f, nonneg (ctrs f) -> nonneg (ctrs (cremove_script chunks f)).
Proof.
  intros chunks f Hn. eapply nonneg_ceq; [apply ceq_sym; apply (proj1 (cremove_script_spec chunks f))|].
  apply spec_loop_nonneg. exact Hn.
Qed.

Lemma cadd_nonneg : forall n idxs f, nonneg (ctrs f) -> nonneg (ctrs (cadd_script n idxs f)).
Proof.
  intros n idxs f Hn j. unfold cadd_script. cbn [ctrs]. rewrite getc_fold_incr.
  specialize (Hn j). pose proof (occ_nonneg j idxs). lia.
Qed.

(** [can_remove] in terms of multiplicities *)
Lemma can_remove_occ : forall c ic, nonneg ic ->
  (can_remove ic c = true <-> forall j, occ j c <= getc ic j).
Proof.
  induction c as [|x r IH]; intros ic Hn; cbn [can_remove occ].
  - split; [intros _ j; apply Hn|reflexivity].
  - assert (Hn' : 1 <= getc ic x -> nonneg (hincrby ic x (-1))).
    { intros H1 j. rewrite getc_hincrby. specialize (Hn j). unfold ind.
      destruct (N.eqb j x) eqn:E; [apply N.eqb_eq in E; subst; lia|lia]. }
    split.
    + intros H. apply andb_prop in H. destruct H as [H1 H2]. apply Z.leb_le in H1.
      pose proof (proj1 (IH _ (Hn' H1)) H2) as H3. intros j. specialize (H3 j). rewrite getc_hincrby in H3. lia.
    + intros H. assert (H1 : 1 <= getc ic x).
      { specialize (H x). pose proof (occ_nonneg x r). unfold ind in H. rewrite N.eqb_refl in H. lia. }
      apply andb_true_intro. split; [apply Z.leb_le; exact H1|].
      apply (proj2 (IH _ (Hn' H1))). intros j. rewrite getc_hincrby. specialize (H j). lia.
Qed.

(** ---- the Go-side aggregation loops ---- *)

Lemma agg_exists_chunk : forall kk chunk rest q j ok,
  kk <> 0%N -> (1 <= j)%N -> (j <= kk)%N -> (N.of_nat (length chunk) + j = kk + 1)%N ->
  Forall (fun v => 0 <= v) chunk ->
  agg_exists kk (q * kk + j) ok (chunk ++ rest) =
  match agg_exists kk ((q + 1) * kk + 1) true rest with
  | Ok l => Ok ((ok && forallb (fun v => negb (v =? 0)) chunk) :: l)
  | e => e
  end.
Proof.
  intros kk chunk. induction chunk as [|x t IH]; intros rest q j ok Hk H1 H2 Hlen Hnn.
  - cbn [length] in Hlen. lia.
  - pose proof (Forall_inv Hnn) as Hx. pose proof (Forall_inv_tail Hnn) as Ht. cbn beta in Hx.
    cbn [app agg_exists forallb]. assert (x <? 0 = false) as -> by lia.
    rewrite boundary_pos by assumption.
    destruct (N.eq_dec j kk) as [->|Hne].
    + rewrite N.eqb_refl. cbn [length] in Hlen.
      assert (t = []) by (destruct t; [reflexivity|cbn [length] in Hlen; lia]). subst t.
      cbn [app forallb]. rewrite andb_true_r.
      replace (q * kk + kk + 1)%N with ((q + 1) * kk + 1)%N by lia. reflexivity.
    + destruct (j =? kk)%N eqn:E; [apply N.eqb_eq in E; contradiction|].
      replace (q * kk + j + 1)%N with (q * kk + (j + 1))%N by lia.
      cbn [length] in Hlen. rewrite IH by (try assumption; lia).
      rewrite andb_assoc. reflexivity.
Qed.

Lemma agg_exists_chunks : forall kk chunks q,
  kk <> 0%N -> Forall (fun c => N.of_nat (length c) = kk) chunks ->
  Forall (Forall (fun v => 0 <= v)) chunks ->
  agg_exists kk (q * kk + 1) true (concat chunks) =
  Ok (map (forallb (fun v => negb (v =? 0))) chunks).
Proof.
  intros kk chunks. induction chunks as [|c cs IH]; intros q Hk Hlen Hnn.
  - reflexivity.
  - pose proof (Forall_inv Hlen) as Hc. pose proof (Forall_inv_tail Hlen) as Hcs. cbn beta in Hc.
    pose proof (Forall_inv Hnn) as Hn1. pose proof (Forall_inv_tail Hnn) as Hn2.
    cbn [concat map]. rewrite agg_exists_chunk by (try assumption; lia).
    rewrite IH by assumption. cbn [andb]. reflexivity.
Qed.

Definition min_list (m : Z) (l : list Z) : Z := fold_left (fun a v => Z.min v a) l m.

Lemma agg_min_chunk : forall kk chunk rest q j m,
  kk <> 0%N -> (1 <= j)%N -> (j <= kk)%N -> (N.of_nat (length chunk) + j = kk + 1)%N ->
  Forall (fun v => 0 <= v) chunk ->
  agg_min kk (q * kk + j) m (chunk ++ rest) =
  match agg_min kk ((q + 1) * kk + 1) max_uint64 rest with
  | Ok l => Ok (min_list m chunk :: l)
  | e => e
  end.
Proof.
  intros kk chunk. induction chunk as [|x t IH]; intros rest q j m Hk H1 H2 Hlen Hnn.
  - cbn [length] in Hlen. lia.
  - pose proof (Forall_inv Hnn) as Hx. pose proof (Forall_inv_tail Hnn) as Ht. cbn beta in Hx.
    cbn [app agg_min]. assert (x <? 0 = false) as -> by lia.
    assert (Hm : (if x <? m then x else m) = Z.min x m) by (destruct (x <? m) eqn:E; lia).
    rewrite Hm. rewrite boundary_pos by assumption.
    destruct (N.eq_dec j kk) as [->|Hne].
    + rewrite N.eqb_refl. cbn [length] in Hlen.
      assert (t = []) by (destruct t; [reflexivity|cbn [length] in Hlen; lia]). subst t.
      cbn [app]. unfold min_list. cbn [fold_left].
      replace (q * kk + kk + 1)%N with ((q + 1) * kk + 1)%N by lia. reflexivity.
    + destruct (j =? kk)%N eqn:E; [apply N.eqb_eq in E; contradiction|].
      replace (q * kk + j + 1)%N with (q * kk + (j + 1))%N by lia.
      cbn [length] in Hlen. rewrite IH by (try assumption; lia).
      unfold min_list. cbn [fold_left]. reflexivity.
Qed.

Lemma agg_min_chunks : forall kk chunks q,
  kk <> 0%N -> Forall (fun c => N.of_nat (length c) = kk) chunks ->
  Forall (Forall (fun v => 0 <= v)) chunks ->
  agg_min kk (q * kk + 1) max_uint64 (concat chunks) = Ok (map (min_list max_uint64) chunks).
Proof.
  intros kk chunks. induction chunks as [|c cs IH]; intros q Hk Hlen Hnn.
  - reflexivity.
  - pose proof (Forall_inv Hlen) as Hc. pose proof (Forall_inv_tail Hlen) as Hcs. cbn beta in Hc.
    pose proof (Forall_inv Hnn) as Hn1. pose proof (Forall_inv_tail Hnn) as Hn2.
    cbn [concat map]. rewrite agg_min_chunk by (try assumption; lia).
    rewrite IH by assumption. reflexivity.
Qed.

Lemma min_list_lower : forall l m b, b <= m -> Forall (fun v => b <= v) l -> b <= min_list m l.
Proof.
  induction l as [|x r IH]; intros m b Hm Hl; unfold min_list; cbn [fold_left]; [exact Hm|].
  pose proof (Forall_inv Hl) as Hx. pose proof (Forall_inv_tail Hl) as Hr. cbn beta in Hx.
  apply IH; [lia|exact Hr].
Qed.

Lemma min_list_le_init : forall l m, min_list m l <= m.
Proof.
  induction l as [|x r IH]; intros m; unfold min_list; cbn [fold_left]; [lia|].
  specialize (IH (Z.min x m)). unfold min_list in IH. lia.
Qed.

Lemma min_list_le_elem : forall l m v, In v l -> min_list m l <= v.
Proof.
  induction l as [|x r IH]; intros m v Hin; [contradiction|]. unfold min_list. cbn [fold_left].
  destruct Hin as [->|Hin].
  - pose proof (min_list_le_init r (Z.min v m)). unfold min_list in H. lia.
  - apply (IH (Z.min x m) v Hin).
Qed.

Lemma min_list_pos : forall l m, 0 < m -> Forall (fun v => 0 <= v) l ->
  (0 <? min_list m l) = forallb (fun v => negb (v =? 0)) l.
Proof.
  induction l as [|x r IH]; intros m Hm Hl; unfold min_list; cbn [fold_left forallb]; [lia|].
  pose proof (Forall_inv Hl) as Hx. pose proof (Forall_inv_tail Hl) as Hr. cbn beta in Hx.
  destruct (x =? 0) eqn:E; cbn [negb andb].
  - assert (x = 0) by lia. subst x.
    pose proof (min_list_le_init r (Z.min 0 m)). unfold min_list in H. lia.
  - apply IH; [lia|exact Hr].
Qed.

(** ---- client, multiset invariant ---- *)

Section Client.
  Variable K : Type.
  Variable hash : K -> N * N.
  Variable size k : N.
  Hypothesis Hk : (1 <= k)%N.
  Hypothesis Hsize : (0 < size)%N.

  Notation idx := (cindexes_of K hash size k).
  Notation cstep := (cstep K hash size k).
  Notation crun := (crun K hash size k).
  Notation min_of := (min_of K hash size k).

  Lemma sane_true : sane size k = true.
  Proof. unfold sane. apply andb_true_intro. split; apply negb_true_iff, N.eqb_neq; lia. Qed.

  Lemma idx_length : forall x, N.of_nat (length (idx x)) = k.
  Proof.
    intros x. unfold cindexes_of, Bloom.indexes_of. destruct (hash x) as [h1 h2].
    rewrite map_length, seq_length. lia.
  Qed.

  Lemma idx_nonempty : forall x, exists i r, idx x = i :: r.
  Proof.
    intros x. pose proof (idx_length x) as H. destruct (idx x) as [|i r]; [cbn [length] in H; lia|].
    exists i, r. reflexivity.
  Qed.

  (** no counter ever becomes negative, whatever the history *)
  Lemma cstep_nonneg : forall f o, nonneg (ctrs f) -> nonneg (ctrs (fst (cstep f o))).
  Proof.
    intros f o Hn. destruct o as [keys|keys|keys|keys| |]; cbn [CountingBloom.cstep].
    - destruct keys; [exact Hn|]. rewrite sane_true. cbn [fst]. apply cadd_nonneg. exact Hn.
    - destruct keys; [exact Hn|]. rewrite sane_true. cbn [fst]. apply cremove_nonneg. exact Hn.
    - destruct keys; [exact Hn|]. rewrite sane_true. exact Hn.
    - destruct keys; [exact Hn|]. rewrite sane_true. exact Hn.
    - exact Hn.
    - cbn [fst cdelete_script empty_cfilter ctrs]. intros j. cbn. lia.
  Qed.

  Theorem crun_nonneg : forall ops f, nonneg (ctrs f) -> nonneg (ctrs (crun f ops)).
  Proof.
    induction ops as [|o r IH]; intros f Hn; cbn [CountingBloom.crun]; [exact Hn|].
    apply IH. apply cstep_nonneg. exact Hn.
  Qed.

  Lemma hmget_concat : forall f keys,
    hmget K hash size k f keys = concat (map (fun x => map (getc (ctrs f)) (idx x)) keys).
  Proof.
    intros f keys. unfold hmget. induction keys as [|x r IH]; [reflexivity|].
    cbn [flat_map map concat]. rewrite map_app, IH. reflexivity.
  Qed.

  Lemma min_of_eq : forall f x, min_of f x = min_list max_uint64 (map (getc (ctrs f)) (idx x)).
  Proof.
    intros f x. unfold CountingBloom.min_of, min_list.
    generalize max_uint64. induction (idx x) as [|i r IH]; intros m; cbn [fold_left map]; [reflexivity|].
    apply IH.
  Qed.

  Lemma chunks_shape : forall f keys,
    Forall (fun c => N.of_nat (length c) = k) (map (fun x => map (getc (ctrs f)) (idx x)) keys).
  Proof.
    intros f keys. apply Forall_forall. intros c Hc. apply in_map_iff in Hc. destruct Hc as [x [<- _]].
    rewrite map_length. apply idx_length.
  Qed.

  Lemma chunks_nonneg : forall f keys, nonneg (ctrs f) ->
    Forall (Forall (fun v => 0 <= v)) (map (fun x => map (getc (ctrs f)) (idx x)) keys).
  Proof.
    intros f keys Hn. apply Forall_forall. intros c Hc. apply in_map_iff in Hc. destruct Hc as [x [<- _]].
    apply Forall_forall. intros v Hv. apply in_map_iff in Hv. destruct Hv as [i [<- _]]. apply Hn.
  Qed.

  (** ItemMinCountMulti = per key, in order, the smallest of the key's counters *)
  Lemma mincount_positional : forall f qs, nonneg (ctrs f) ->
    snd (cstep f (CMinCount qs)) = WCounts (Ok (map (min_of f) qs)).
  Proof.
    intros f qs Hn. destruct qs as [|q qs']; [reflexivity|].
    cbn [CountingBloom.cstep]. rewrite sane_true. cbn [snd]. rewrite hmget_concat.
    pose proof (agg_min_chunks k (map (fun x => map (getc (ctrs f)) (idx x)) (q :: qs')) 0) as H.
    rewrite N.mul_0_l, N.add_0_l in H. rewrite H; [|lia|apply chunks_shape|apply chunks_nonneg; exact Hn].
    rewrite map_map. f_equal. f_equal. apply map_ext. intros x. symmetry. apply min_of_eq.
  Qed.

  (** ExistsMulti = per key, in order, "the smallest counter is positive" *)
  Lemma cexists_positional : forall f qs, nonneg (ctrs f) ->
    snd (cstep f (CExists qs)) = WBools (Ok (map (fun q => 0 <? min_of f q) qs)).
  Proof.
    intros f qs Hn. destruct qs as [|q qs']; [reflexivity|].
    cbn [CountingBloom.cstep]. rewrite sane_true. cbn [snd]. rewrite hmget_concat.
    pose proof (agg_exists_chunks k (map (fun x => map (getc (ctrs f)) (idx x)) (q :: qs')) 0) as H.
    rewrite N.mul_0_l, N.add_0_l in H. rewrite H; [|lia|apply chunks_shape|apply chunks_nonneg; exact Hn].
    rewrite map_map. f_equal. f_equal. apply map_ext. intros x. rewrite min_of_eq.
    symmetry. apply min_list_pos; [unfold max_uint64; lia|].
    apply Forall_forall. intros v Hv. apply in_map_iff in Hv. destruct Hv as [i [<- _]]. apply Hn.
  Qed.

  (** a removal whose item lacks a unit somewhere changes nothing (single key) *)
  Lemma failed_removal : forall f x, nonneg (ctrs f) ->
    (exists j, getc (ctrs f) j < occ j (idx x)) ->
    ceq (ctrs (fst (cstep f (CRemove [x])))) (ctrs f) /\ total (fst (cstep f (CRemove [x]))) = total f.
  Proof.
    intros f x Hn [j Hj]. cbn [CountingBloom.cstep]. rewrite sane_true. cbn [fst map].
    destruct (cremove_script_spec [idx x] f) as [Hs Ht].
    assert (Hcan : can_remove (ctrs f) (idx x) = false).
    { destruct (can_remove (ctrs f) (idx x)) eqn:E; [|reflexivity].
      pose proof (proj1 (can_remove_occ _ _ Hn) E j). lia. }
    cbn [spec_loop fold_left spec_removed] in Hs, Ht. unfold item_spec in Hs, Ht. rewrite Hcan in Hs, Ht.
    split; [exact Hs|lia].
  Qed.

  Lemma successful_removal : forall f x, nonneg (ctrs f) ->
    (forall j, occ j (idx x) <= getc (ctrs f) j) ->
    (forall j, getc (ctrs (fst (cstep f (CRemove [x])))) j = getc (ctrs f) j - occ j (idx x)) /\
    total (fst (cstep f (CRemove [x]))) = total f - 1.
  Proof.
    intros f x Hn Hall. cbn [CountingBloom.cstep]. rewrite sane_true. cbn [fst map].
    destruct (cremove_script_spec [idx x] f) as [Hs Ht].
    assert (Hcan : can_remove (ctrs f) (idx x) = true) by (apply (proj2 (can_remove_occ _ _ Hn)); exact Hall).
    cbn [spec_loop fold_left spec_removed] in Hs, Ht. unfold item_spec in Hs, Ht. rewrite Hcan in Hs, Ht.
    split; [|lia]. intros j. rewrite Hs. unfold dec_all. rewrite getc_fold_incr. lia.
  Qed.
End Client.

Section Bag.
  Variable K : Type.
  Variable K_eqb : K -> K -> bool.
  Hypothesis K_eqb_spec : forall a b, K_eqb a b = true <-> a = b.
  Variable hash : K -> N * N.
  Variable size k : N.
  Hypothesis Hk : (1 <= k)%N.
  Hypothesis Hsize : (0 < size)%N.

  Notation idx := (cindexes_of K hash size k).
  Notation cstep := (cstep K hash size k).
  Notation crun := (crun K hash size k).
  Notation min_of := (min_of K hash size k).

  Lemma sane_true_b : sane size k = true.
  Proof. apply sane_true; assumption. Qed.

  (** ---- the multiset of items ---- *)

  Fixpoint remove_one (x : K) (bag : list K) : list K :=
    match bag with
    | [] => []
    | y :: r => if K_eqb x y then r else y :: remove_one x r
    end.

  Fixpoint mult (bag : list K) (x : K) : Z :=
    match bag with
    | [] => 0
    | y :: r => (if K_eqb x y then 1 else 0) + mult r x
    end.

  Fixpoint bagsum (bag : list K) (j : N) : Z :=
    match bag with
    | [] => 0
    | y :: r => occ j (idx y) + bagsum r j
    end.

  Lemma bagsum_nonneg : forall bag j, 0 <= bagsum bag j.
  Proof. induction bag as [|y r IH]; intros j; cbn [bagsum]; [lia|]. pose proof (occ_nonneg j (idx y)). specialize (IH j). lia. Qed.

  Lemma bagsum_app : forall a b j, bagsum (a ++ b) j = bagsum a j + bagsum b j.
  Proof. induction a as [|y r IH]; intros b j; cbn [app bagsum]; [lia|]. rewrite IH. lia. Qed.

  Lemma bagsum_remove_one : forall bag x j, In x bag -> bagsum (remove_one x bag) j = bagsum bag j - occ j (idx x).
  Proof.
    induction bag as [|y r IH]; intros x j Hin; [contradiction|]. cbn [remove_one bagsum].
    destruct (K_eqb x y) eqn:E.
    - apply K_eqb_spec in E. subst. lia.
    - destruct Hin as [->|Hin].
      + assert (K_eqb x x = true) by (apply K_eqb_spec; reflexivity). congruence.
      + cbn [bagsum]. rewrite IH by exact Hin. lia.
  Qed.

  Lemma bagsum_mult : forall bag x j, mult bag x * occ j (idx x) <= bagsum bag j.
  Proof.
    induction bag as [|y r IH]; intros x j; cbn [mult bagsum]; [lia|].
    specialize (IH x j). pose proof (occ_nonneg j (idx y)).
    destruct (K_eqb x y) eqn:E; [apply K_eqb_spec in E; subst; lia|lia].
  Qed.

  Lemma mult_nonneg : forall bag x, 0 <= mult bag x.
  Proof. induction bag as [|y r IH]; intros x; cbn [mult]; [lia|]. specialize (IH x). destruct (K_eqb x y); lia. Qed.

  Lemma mult_In : forall bag x, 1 <= mult bag x <-> In x bag.
  Proof.
    induction bag as [|y r IH]; intros x; cbn [mult In]; [split; [lia|contradiction]|].
    pose proof (mult_nonneg r x). destruct (K_eqb x y) eqn:E.
    - apply K_eqb_spec in E. subst. split; [left; reflexivity|lia].
    - split.
      + intros H1. right. apply IH. lia.
      + intros [->|Hin]; [assert (K_eqb x x = true) by (apply K_eqb_spec; reflexivity); congruence|].
        apply IH in Hin. lia.
  Qed.

  Lemma mult_remove_one : forall bag x y, In x bag -> mult (remove_one x bag) y = mult bag y - (if K_eqb y x then 1 else 0).
  Proof.
    induction bag as [|z r IH]; intros x y Hin; [contradiction|]. cbn [remove_one mult].
    destruct (K_eqb x z) eqn:E.
    - apply K_eqb_spec in E. subst. lia.
    - destruct Hin as [->|Hin]; [assert (K_eqb x x = true) by (apply K_eqb_spec; reflexivity); congruence|].
      cbn [mult]. rewrite IH by exact Hin. lia.
  Qed.

  (** the invariant: every counter is the number of (item, position) pairs hashing to it, the total
      is the number of items *)
  Definition Inv (f : cfilter) (bag : list K) : Prop :=
    (forall j, getc (ctrs f) j = bagsum bag j) /\ total f = Z.of_nat (length bag).

  (** removals of items that are present, processed in order *)
  Fixpoint wf_remove (bag : list K) (keys : list K) : Prop :=
    match keys with
    | [] => True
    | x :: r => In x bag /\ wf_remove (remove_one x bag) r
    end.

  Definition bag_remove (bag : list K) (keys : list K) : list K := fold_left (fun b x => remove_one x b) keys bag.

  Lemma length_remove_one : forall bag x, In x bag -> length bag = S (length (remove_one x bag)).
  Proof.
    induction bag as [|y r IH]; intros x Hin; [contradiction|]. cbn [remove_one].
    destruct (K_eqb x y) eqn:E; [reflexivity|].
    destruct Hin as [->|Hin]; [assert (K_eqb x x = true) by (apply K_eqb_spec; reflexivity); congruence|].
    cbn [length]. f_equal. apply IH. exact Hin.
  Qed.

  Lemma spec_loop_bag : forall keys cs bag,
    (forall j, getc cs j = bagsum bag j) -> wf_remove bag keys ->
    (forall j, getc (spec_loop (map idx keys) cs) j = bagsum (bag_remove bag keys) j) /\
    spec_removed (map idx keys) cs = Z.of_nat (length keys) /\
    length bag = (length keys + length (bag_remove bag keys))%nat.
  Proof.
    induction keys as [|x r IH]; intros cs bag Hinv Hwf; cbn [map spec_loop fold_left spec_removed bag_remove length].
    - split; [exact Hinv|]. split; lia.
    - destruct Hwf as [Hin Hwf].
      assert (Hnn : nonneg cs) by (intros j; rewrite Hinv; apply bagsum_nonneg).
      assert (Hcan : can_remove cs (idx x) = true).
      { apply (proj2 (can_remove_occ _ _ Hnn)). intros j. rewrite Hinv.
        pose proof (bagsum_mult bag x j) as Hm. apply mult_In in Hin.
        pose proof (occ_nonneg j (idx x)). nia. }
      unfold item_spec. rewrite Hcan.
      assert (Hinv' : forall j, getc (dec_all cs (idx x)) j = bagsum (remove_one x bag) j).
      { intros j. unfold dec_all. rewrite getc_fold_incr, Hinv, bagsum_remove_one by exact Hin. lia. }
      destruct (IH _ _ Hinv' Hwf) as [H1 [H2 H3]]. split; [exact H1|]. split.
      + fold (spec_removed (map idx r)). unfold item_spec in H2. rewrite H2. lia.
      + fold (bag_remove (remove_one x bag) r). rewrite (length_remove_one bag x Hin). lia.
  Qed.

  (** abstract effect of an operation on the multiset, and when a history only removes present items *)
  Definition bag_step (bag : list K) (o : cop K) : list K :=
    match o with
    | CAdd keys => keys ++ bag
    | CRemove keys => bag_remove bag keys
    | CDelete => []
    | _ => bag
    end.

  Definition wf_op (bag : list K) (o : cop K) : Prop :=
    match o with
    | CRemove keys => wf_remove bag keys
    | _ => True
    end.

  Fixpoint wf_hist (bag : list K) (ops : list (cop K)) : Prop :=
    match ops with
    | [] => True
    | o :: r => wf_op bag o /\ wf_hist (bag_step bag o) r
    end.

  Definition bag_run (bag : list K) (ops : list (cop K)) : list K := fold_left bag_step ops bag.

  Lemma bagsum_flat : forall keys j, occ j (flat_map idx keys) = bagsum keys j.
  Proof. induction keys as [|x r IH]; intros j; cbn [flat_map bagsum occ]; [reflexivity|]. rewrite occ_app, IH. reflexivity. Qed.

  Lemma Inv_step : forall f bag o, Inv f bag -> wf_op bag o -> Inv (fst (cstep f o)) (bag_step bag o).
  Proof.
    intros f bag o [Hc Ht] Hwf. destruct o as [keys|keys|keys|keys| |]; cbn [CountingBloom.cstep bag_step].
    - destruct keys as [|x r]; [split; assumption|]. rewrite sane_true_b. cbn [fst]. split.
      + intros j. unfold cadd_script. cbn [ctrs]. rewrite getc_fold_incr, Hc, bagsum_app, bagsum_flat. lia.
      + unfold cadd_script. cbn [total]. rewrite Ht, app_length. lia.
    - destruct keys as [|x r]; [split; assumption|]. rewrite sane_true_b. cbn [fst].
      cbn [wf_op] in Hwf. destruct (spec_loop_bag (x :: r) (ctrs f) bag Hc Hwf) as [H1 [H2 H3]].
      destruct (cremove_script_spec (map idx (x :: r)) f) as [Hs Htot]. split.
      + intros j. rewrite Hs. apply H1.
      + rewrite Htot, H2, Ht. lia.
    - destruct keys; [split; assumption|]. rewrite sane_true_b. split; assumption.
    - destruct keys; [split; assumption|]. rewrite sane_true_b. split; assumption.
    - split; assumption.
    - split; [intros j; reflexivity|reflexivity].
  Qed.

  Theorem Inv_run : forall ops f bag, Inv f bag -> wf_hist bag ops -> Inv (crun f ops) (bag_run bag ops).
  Proof.
    induction ops as [|o r IH]; intros f bag HI Hwf; cbn [CountingBloom.crun bag_run fold_left]; [exact HI|].
    destruct Hwf as [Hw Hr]. apply IH; [apply Inv_step; assumption|exact Hr].
  Qed.

  Lemma Inv_empty : Inv empty_cfilter [].
  Proof. split; [intros j; reflexivity|reflexivity]. Qed.

  (** under the invariant, every counter of an item is at least its multiplicity *)
  Lemma Inv_min : forall f bag x, Inv f bag -> Z.min (mult bag x) max_uint64 <= min_of f x.
  Proof.
    intros f bag x [Hc _]. rewrite min_of_eq. apply min_list_lower; [lia|].
    apply Forall_forall. intros v Hv. apply in_map_iff in Hv. destruct Hv as [i [<- Hi]].
    rewrite Hc. pose proof (bagsum_mult bag x i). pose proof (occ_In i (idx x) Hi).
    pose proof (mult_nonneg bag x). nia.
  Qed.

  Lemma Inv_nonneg : forall f bag, Inv f bag -> nonneg (ctrs f).
  Proof. intros f bag [Hc _] j. rewrite Hc. apply bagsum_nonneg. Qed.

End Bag.
