(** Arithmetic of the uint32 tickets and list lemmas for the ring proofs. *)
From Coq Require Import List NArith ZArith Bool Arith Lia.
Require Import RV.Model.Base RV.Model.Ring.
Import ListNotations.
Local Open Scope nat_scope.

(** slot of position j (the j-th value the counters take after [start]) *)
Definition sof (k : nat) (start : N) (j : nat) : nat := idx k (u32 (start + N.of_nat j)).

Lemma u32_succ : forall start a, u32 (u32 (start + N.of_nat a) + 1) = u32 (start + N.of_nat (S a)).
Proof.
  intros start a. unfold u32. rewrite Nat2N.inj_succ.
  rewrite N.add_mod_idemp_l by (apply N.pow_nonzero; discriminate).
  f_equal. lia.
Qed.

Lemma u32_idem : forall x, u32 (u32 x) = u32 x.
Proof. intro x. unfold u32. apply N.mod_mod. apply N.pow_nonzero. discriminate. Qed.

(** the uint32 wrap of a counter does not change the slot it selects *)
Lemma idx_u32 : forall k x, k <= 32 -> idx k (u32 x) = N.to_nat (x mod 2 ^ N.of_nat k)%N.
Proof.
  intros k x Hk. unfold idx, u32. rewrite N.land_ones. f_equal.
  assert (E : (2 ^ 32 = 2 ^ N.of_nat k * 2 ^ (32 - N.of_nat k))%N).
  { rewrite <- N.pow_add_r. f_equal. lia. }
  rewrite E. set (a := (2 ^ N.of_nat k)%N). set (b := (2 ^ (32 - N.of_nat k))%N).
  assert (Ha : a <> 0%N) by (apply N.pow_nonzero; discriminate).
  assert (Hb : b <> 0%N) by (apply N.pow_nonzero; discriminate).
  rewrite (N.mod_mul_r x a b Ha Hb). rewrite (N.mul_comm a). rewrite N.mod_add by exact Ha.
  apply N.mod_mod. exact Ha.
Qed.

Lemma idx_lt : forall k c, idx k c < 2 ^ k.
Proof.
  intros k c. unfold idx. rewrite N.land_ones.
  assert (H : (c mod 2 ^ N.of_nat k < 2 ^ N.of_nat k)%N) by (apply N.mod_lt; apply N.pow_nonzero; discriminate).
  assert (E : 2 ^ k = N.to_nat (2 ^ N.of_nat k)%N).
  { clear. induction k as [|k IH]; [reflexivity|]. rewrite Nat2N.inj_succ, N.pow_succ_r', N2Nat.inj_mul, <- IH. cbn [Nat.pow]. reflexivity. }
  rewrite E. lia.
Qed.

Lemma sof_lt : forall k start j, sof k start j < 2 ^ k.
Proof. intros. apply idx_lt. Qed.

(** number of positions 1..n on slot s *)
Fixpoint cntpos (k : nat) (start : N) (n s : nat) : nat :=
  match n with
  | O => 0
  | S m => cntpos k start m s + (if Nat.eqb (sof k start (S m)) s then 1 else 0)
  end.

Lemma cntpos_mono : forall k start n m s, n <= m -> cntpos k start n s <= cntpos k start m s.
Proof.
  intros k start n m s H. induction H as [|m H IH]; [lia|]. cbn [cntpos]. lia.
Qed.

Lemma cntpos_succ_same : forall k start n, cntpos k start (S n) (sof k start (S n)) = S (cntpos k start n (sof k start (S n))).
Proof. intros. cbn [cntpos]. rewrite Nat.eqb_refl. lia. Qed.

Lemma cntpos_succ_other : forall k start n s, s <> sof k start (S n) -> cntpos k start (S n) s = cntpos k start n s.
Proof.
  intros k start n s H. cbn [cntpos]. destruct (Nat.eqb (sof k start (S n)) s) eqn:E; [apply Nat.eqb_eq in E; congruence|lia].
Qed.

Lemma cntpos_lt_at : forall k start j n, 1 <= j -> j <= n ->
  cntpos k start (j - 1) (sof k start j) < cntpos k start n (sof k start j).
Proof.
  intros k start j n H1 H2. destruct j as [|j]; [lia|]. replace (S j - 1) with j by lia.
  pose proof (cntpos_mono k start (S j) n (sof k start (S j)) H2) as Hm.
  rewrite cntpos_succ_same in Hm. lia.
Qed.

(** list lemmas *)
Lemma memb_In : forall x l, memb x l = true <-> In x l.
Proof.
  intros x l. induction l as [|y r IH]; cbn [memb In].
  - split; [discriminate|tauto].
  - rewrite orb_true_iff, IH, Nat.eqb_eq. split; intros [H|H]; auto.
Qed.

Lemma remove1_length : forall x l, memb x l = true -> S (length (remove1 x l)) = length l.
Proof.
  intros x l. induction l as [|y r IH]; cbn [memb remove1 length]; [discriminate|].
  intro H. destruct (Nat.eqb x y) eqn:E; [reflexivity|].
  cbn [orb] in H. cbn [length]. rewrite (IH H). reflexivity.
Qed.

Lemma remove1_In : forall x y l, In y (remove1 x l) -> In y l.
Proof.
  intros x y l. induction l as [|z r IH]; cbn [remove1 In]; [tauto|].
  destruct (Nat.eqb x z); cbn [In]; intros H; [right; exact H|].
  destruct H as [H|H]; [left; exact H|right; apply IH; exact H].
Qed.

Lemma is_nil_true : forall (A : Type) (l : list A), is_nil l = true <-> l = [].
Proof. intros A l. destruct l; cbn; split; intro H; congruence. Qed.

Lemma memb_head : forall x l, memb x (x :: l) = true.
Proof. intros. cbn [memb]. rewrite Nat.eqb_refl. reflexivity. Qed.

Lemma app_single_inv : forall (a b : list nat) i, a ++ b = [i] -> (a = [i] /\ b = []) \/ (a = [] /\ b = [i]).
Proof.
  intros a b i H. destruct a as [|x a]; cbn [app] in H.
  - right. split; [reflexivity|exact H].
  - inversion H; subst. destruct a; [|discriminate]. cbn [app] in *. subst. left. split; reflexivity.
Qed.

Lemma seq_S_app : forall a n, seq a (S n) = seq a n ++ [a + n].
Proof. intros. rewrite seq_S. reflexivity. Qed.

(** slots after an update *)
Lemma upd_same : forall f i v, upd f i v i = v.
Proof. intros. unfold upd. rewrite Nat.eqb_refl. reflexivity. Qed.

Lemma upd_other : forall f i v j, j <> i -> upd f i v j = f j.
Proof. intros f i v j H. unfold upd. destruct (Nat.eqb j i) eqn:E; [apply Nat.eqb_eq in E; congruence|reflexivity]. Qed.

(** counting occurrences *)
Notation cnt := (count_occ Nat.eq_dec).

Definition ind (a x : nat) : nat := if Nat.eq_dec a x then 1 else 0.

Lemma cnt_cons : forall a l x, cnt (a :: l) x = ind a x + cnt l x.
Proof. intros a l x. unfold ind. cbn [count_occ]. destruct (Nat.eq_dec a x); reflexivity. Qed.

Lemma cnt_app1 : forall l a x, cnt (l ++ [a]) x = cnt l x + ind a x.
Proof. intros l a x. rewrite count_occ_app, cnt_cons. cbn [count_occ]. lia. Qed.

Lemma cnt_remove1 : forall a l x, cnt (remove1 a l) x = cnt l x - ind a x.
Proof.
  intros a l x. unfold ind. induction l as [|y r IH]; cbn [remove1 count_occ].
  - destruct (Nat.eq_dec a x); reflexivity.
  - destruct (Nat.eqb a y) eqn:E.
    + apply Nat.eqb_eq in E. subst y. destruct (Nat.eq_dec a x); lia.
    + apply Nat.eqb_neq in E. cbn [count_occ]. destruct (Nat.eq_dec y x) as [Y|Y]; destruct (Nat.eq_dec a x) as [A|A]; try lia; congruence.
Qed.

Lemma memb_cnt : forall a l, memb a l = true -> 1 <= cnt l a.
Proof. intros a l H. apply memb_In in H. apply (count_occ_In Nat.eq_dec) in H. lia. Qed.

Lemma In_cnt : forall a l, In a l <-> 1 <= cnt l a.
Proof. intros a l. rewrite (count_occ_In Nat.eq_dec). lia. Qed.

Lemma notIn_cnt : forall a l, ~ In a l -> cnt l a = 0.
Proof. intros a l H. apply (count_occ_not_In Nat.eq_dec) in H. exact H. Qed.

Lemma ind_refl : forall a, ind a a = 1.
Proof. intro a. unfold ind. destruct (Nat.eq_dec a a); [reflexivity|congruence]. Qed.

Lemma ind_neq : forall a x, a <> x -> ind a x = 0.
Proof. intros a x H. unfold ind. destruct (Nat.eq_dec a x); [congruence|reflexivity]. Qed.

Ltac case_ind a x := destruct (Nat.eq_dec a x) as [?E|?E]; [subst x; rewrite ?ind_refl in *|rewrite ?(ind_neq a x) in * by assumption].
