(** C13, part 4: the induction over the recursion of readNextMessage / readA / readE, and the
    statements about [decode]. *)
From Coq Require Import List Arith NArith ZArith Bool Lia ZifyN ZifyNat ZifyBool.
Require Import RV.Model.Base RV.Model.RespWrite RV.Model.Resp.
Require Import RV.Proofs.RespIOProofs RV.Proofs.RespBaseProofs RV.Proofs.RespSafetyBase RV.Proofs.RespSafetyScalars
               RV.Proofs.RespSafetyScalars2 RV.Proofs.RespSafetyCodes RV.Proofs.RespRoundtrip RV.Proofs.RespSafety.
Import ListNotations.
Open Scope N_scope.

Section Main.
Variable B : nat.

Lemma out_of_fuel_mspec s al : mspec s al (Err eOutOfFuel) s al.
Proof. unfold mspec. split; [split; discriminate|]. repeat split; try lia. all: intros; discriminate. Qed.

Lemma invG_bank L n cap G : invG L n cap G -> (0 <= 160 * n - G)%Z.
Proof. unfold invG. lia. Qed.

Theorem safety_all : forall fuel,
  rn_ok B (read_next fuel) /\ ral_ok B (read_a_loop fuel) /\ rel_ok B (read_e_loop fuel).
Proof.
  induction fuel as [|f (IHn & IHa & IHe)].
  - split; [|split].
    + intros attrs s al r s' al' _. cbn. intros Heq; fin Heq. apply out_of_fuel_mspec.
    + intros L n cap acc s al r s' al' G HG _. cbn. intros Heq; fin Heq.
      pose proof (invG_bank _ _ _ _ HG). split; [split; discriminate|]. repeat split; try lia. all: intros; discriminate.
    + intros acc s al r s' al' _. cbn. intros Heq; fin Heq.
      split; [split; discriminate|]. repeat split; try lia. all: intros; discriminate.
  - split; [|split].
    + (* readNextMessage *)
      intros attrs s al r s' al' Hb. rewrite read_next_S. unfold read_next_body, bindr. rewrite run_bind.
      destruct (run B (do_op OReadByte) s al) as [[r0 s0] al0] eqn:E0.
      pose proof E0 as E0'. apply run_op_inv in E0 as [E0 ->]. cbn [meter].
      pose proof (step_shrink B OReadByte s) as Hs0. rewrite E0 in Hs0. cbn [snd] in Hs0.
      pose proof (step_no_panic B OReadByte s) as Hp0. rewrite E0 in Hp0. cbn [fst] in Hp0.
      destruct r0 as [tb|e|]; [| |congruence].
      * apply step_read_byte_ok in E0. intros Hrun. eapply dispatch_spec; eauto.
      * cbn [run]. intros Heq; fin Heq. unfold mspec. split; [split; [discriminate|]|].
        -- intros Hx. inversion Hx; subst. now apply run_op_not_oldnull in E0'.
        -- repeat split; try lia. all: intros; discriminate.
    + (* the loop of readA *)
      intros L n cap acc s al r s' al' G HG Hbn. rewrite read_a_loop_S.
      pose proof (invG_bank _ _ _ _ HG) as Hbank. pose proof HG as HG0. unfold invG in HG0.
      destruct (Z.eqb_spec n L) as [->|Hne].
      { cbn [run]. intros Heq; fin Heq. split; [split; discriminate|]. repeat split; try lia. }
      cbv zeta.
      (* one element, with capacity cap' and G' spent on growth *)
      assert (Hnext : forall cap' G' al1, invG L n cap' G' -> (n < cap')%Z -> (G <= G')%Z -> al1 = al + Z.to_N (G' - G) ->
                forall r s' al', run B (bind (read_next f None) (fun r0 =>
                            if (n <? cap')%Z then match r0 with
                                                   | Ok m => read_a_loop f L (n + 1) cap' (acc ++ [m])
                                                   | Err e => Ret (Err e)
                                                   | Panic => Ret Panic
                                                   end else Ret Panic)) s al1 = (r, s', al') ->
                (r <> Panic /\ r <> Err eOldNull) /\ blen s' <= blen s /\
                al' + K * blen s' <= al + K * blen s + Z.to_N (160 * n - G) + K0m /\
                (forall l, r = Ok l -> al' + K * blen s' <= al + K * blen s + Z.to_N (160 * n - G))).
      { intros cap' G' al1 HG' Hlt HGG -> r0 s0' al0'. rewrite run_bind.
        destruct (run B (read_next f None) s (al + Z.to_N (G' - G))) as [[rm sm] alm] eqn:Em.
        apply IHn in Em; [|unfold input_bound in *; lia]. destruct Em as ((M1 & M1') & M2 & M3 & M4).
        pose proof (invG_bank _ _ _ _ HG') as Hbank'. pose proof HG' as HG0'. unfold invG in HG0'.
        destruct (Z.ltb_spec n cap') as [_|Hx]; [|lia].
        destruct rm as [m|e|]; [| |congruence].
        - destruct (M4 m eq_refl) as [Mc Ma].
          intros Hrun. apply (IHa L (n + 1)%Z cap' (acc ++ [m]) sm alm r0 s0' al0' G') in Hrun.
          + destruct Hrun as (R1 & R2 & R3 & R4). split; [assumption|]. split; [lia|]. split; [lia|].
            intros l Hl. specialize (R4 l Hl). lia.
          + unfold invG in *. lia.
          + lia.
        - cbn [run]. intros Heq; fin Heq. split; [split; [discriminate|congruence]|]. repeat split; try lia. all: intros; discriminate. }
      destruct (Z.eqb_spec n cap) as [Hc|Hc].
      * unfold bindr. rewrite run_bind.
        destruct (run B (alloc_make msg_size (Z.min L (n * 2))) s al) as [[r1 s1] al1] eqn:E1.
        apply alloc_make_spec in E1 as [-> [(-> & Hm & ->)|(-> & Hm & ->)]].
        -- exfalso. unfold make_ok, msg_size, max_alloc, input_bound, invG in *. lia.
        -- apply (Hnext (Z.min L (n * 2)) (G + Z.min L (n * 2) * msg_size)%Z).
           ++ unfold invG, msg_size in *. lia.
           ++ unfold invG in *. lia.
           ++ unfold invG, msg_size in *. lia.
           ++ f_equal. f_equal. lia.
      * apply (Hnext cap G).
        -- exact HG.
        -- unfold invG in *. lia.
        -- lia.
        -- replace (G - G)%Z with 0%Z by lia. cbn. lia.
    + (* the loop of readE *)
      intros acc s al r s' al' Hb. rewrite read_e_loop_S. unfold bindr. rewrite run_bind.
      destruct (run B (read_next f None) s al) as [[rm sm] alm] eqn:Em.
      apply IHn in Em; [|assumption]. destruct Em as ((M1 & M1') & M2 & M3 & M4).
      destruct rm as [m|e|]; [| |congruence].
      * destruct (M4 m eq_refl) as [Mc Ma].
        destruct (m_typ m =? tEnd).
        -- cbn [run]. intros Heq; fin Heq. split; [split; discriminate|]. repeat split; try lia.
        -- rewrite run_bind, run_alloc. intros Hrun. apply IHe in Hrun; [|lia].
           destruct Hrun as (R1 & R2 & R3 & R4). unfold msg_size in *. split; [assumption|]. split; [lia|]. split; [lia|].
           intros l Hl. specialize (R4 l Hl). lia.
      * cbn [run]. intros Heq; fin Heq. split; [split; [discriminate|congruence]|]. repeat split; try lia. all: intros; discriminate.
Qed.

(** the statements of C13 *)
Theorem decode_no_panic input : blen input < input_bound -> fst (fst (decode B input)) <> Panic.
Proof.
  intros Hb. unfold decode.
  destruct (run B (read_next (fuel_for (length input)) None) input 0) as [[r s'] al'] eqn:E.
  destruct (safety_all (fuel_for (length input))) as (Hn & _ & _).
  apply Hn in E; [|assumption]. destruct E as ((H1 & _) & _). exact H1.
Qed.

Theorem decode_alloc_bounded input : blen input < input_bound ->
  let '(r, rest, al) := decode B input in
  blen rest <= blen input /\ al <= K * (blen input - blen rest) + K0m.
Proof.
  intros Hb. unfold decode.
  destruct (run B (read_next (fuel_for (length input)) None) input 0) as [[r s'] al'] eqn:E.
  destruct (safety_all (fuel_for (length input))) as (Hn & _ & _).
  apply Hn in E; [|assumption]. destruct E as (_ & H2 & H3 & _). split; [assumption|]. lia.
Qed.

Theorem decode_alloc_success input m rest al : blen input < input_bound ->
  decode B input = (Ok m, rest, al) -> blen rest + 1 <= blen input /\ al + 160 <= K * (blen input - blen rest).
Proof.
  intros Hb. unfold decode. intros E.
  destruct (safety_all (fuel_for (length input))) as (Hn & _ & _).
  apply Hn in E; [|assumption]. destruct E as (_ & H2 & H3 & H4). specialize (H4 m eq_refl). lia.
Qed.

End Main.
