(** streamTo never panics either (C13 for the streaming reader): for every byte string and every writer. *)
From Coq Require Import List Arith NArith ZArith Bool Lia ZifyN ZifyNat ZifyBool.
Require Import RV.Model.Base RV.Model.RespWrite RV.Model.RespStream.
Require Import RV.Proofs.RespIOProofs RV.Proofs.RespBaseProofs RV.Proofs.RespSafetyBase RV.Proofs.RespSafetyScalars
               RV.Proofs.RespSafety RV.Proofs.RespSafetyMain RV.Proofs.RespRoundtrip RV.Proofs.RespStreamProofs.
Import ListNotations.
Open Scope N_scope.

Definition no_spanic (o : sout) : Prop := snd (fst o) <> SPanic.

Lemma flatw_shrink B o s w : blen (snd (fst (flatw_step B o s w))) <= blen s.
Proof.
  destruct o; cbn [flatw_step].
  all: try match goal with |- context [flat_step ?b ?o ?x] =>
         pose proof (step_shrink b o x); destruct (flat_step b o x); cbn [fst snd] in *; assumption end.
  - (* CopyOut *)
    destruct (if n <=? blen s then firstn (N.to_nat n) s else s) as [|b l]; [cbn; lia|].
    destruct (w_write w (b :: l)) as [d w']. cbn [fst snd]. apply blen_skipn_le.
  - destruct (w_write w d) as [d' w']. cbn. lia.
  - cbn. lia.
Qed.

Lemma flatw_no_panic B o s w : fst (fst (flatw_step B o s w)) <> Panic.
Proof.
  destruct o; cbn [flatw_step].
  all: try match goal with |- context [flat_step ?b ?o ?x] =>
         pose proof (step_no_panic b o x); destruct (flat_step b o x); cbn [fst snd] in *; assumption end.
  - destruct (if n <=? blen s then firstn (N.to_nat n) s else s) as [|b l]; [discriminate|].
    destruct (w_write w (b :: l)) as [d w']. discriminate.
  - destruct (w_write w d) as [d' w']. discriminate.
  - destruct (w_failed w); discriminate.
Qed.

Lemma runw_do_op B o s w : runw B (do_op o) s w = flatw_step B o s w.
Proof. unfold do_op. cbn [runw]. destruct (flatw_step B o s w) as [[r s'] w']. reflexivity. Qed.

(** a reader-only program under [runw]: same result and stream as under [run] *)
Lemma runw_reader_run {A} B (p : prog A) s w r s' w' : reader_only p ->
  runw B p s w = (r, s', w') -> exists al', run B p s 0 = (r, s', al') /\ w' = w.
Proof.
  intros Hp H. rewrite (runw_reader B p Hp s w 0) in H.
  destruct (run B p s 0) as [[r0 s0] al0]. cbn [fst snd] in H. inversion H; subst. eauto.
Qed.

(** the stream only shrinks, for every program *)
Lemma runw_shrink {A} B (p : prog A) : forall s w, blen (snd (fst (runw B p s w))) <= blen s.
Proof.
  induction p as [a|o k IH]; intros s w; cbn [runw]; [cbn; lia|].
  pose proof (flatw_shrink B o s w) as Hs. destruct (flatw_step B o s w) as [[r s1] w1]. cbn [fst snd] in Hs.
  specialize (IH r s1 w1). lia.
Qed.

Lemma write_out_no_panic B d s w : no_spanic (fst (fst (runw B (write_out d) s w))).
Proof. rewrite runw_write_out. unfold no_spanic. cbn [fst snd]. destruct (w_failed _); discriminate. Qed.

Lemma stream_blob_no_panic B typ n s w : no_spanic (fst (fst (runw B (stream_blob typ n) s w))).
Proof.
  unfold stream_blob, no_spanic.
  assert (Hfin : forall written e left s1 w1, e <> SPanic ->
     snd (fst (fst (fst (runw B (bind (do_op (ODiscard left)) (fun r : result bytes =>
        match r return prog sout with
        | Ok _ => Ret (written, e, true)
        | Err e2 => Ret (written, match e with SNone => SErr e2 | _ => e end, false)
        | Panic => Ret (written, SPanic, false)
        end)) s1 w1)))) <> SPanic).
  { intros written e left s1 w1 He. rewrite runw_bind, runw_do_op.
    pose proof (flatw_no_panic B (ODiscard left) s1 w1) as Hp.
    destruct (flatw_step B (ODiscard left) s1 w1) as [[r s2] w2]. cbn [fst snd] in *.
    destruct r as [d|e2|]; [| |congruence]; cbn [runw fst snd]; try assumption.
    destruct e; try assumption; discriminate. }
  destruct (n =? -1)%Z; [cbn; discriminate|].
  destruct (negb (n =? 0)%Z).
  - rewrite runw_bind, runw_do_op.
    destruct (flatw_step B (OCopyOut (Z.to_N n)) s w) as [[r1 s1] w1].
    rewrite runw_bind, runw_do_op. cbn [flatw_step].
    destruct (w_failed w1); cbn [werr]; apply Hfin; discriminate.
  - destruct (typ =? tChunk); [cbn; discriminate|]. apply Hfin. discriminate.
Qed.

Lemma runw_read_i_no_panic B s w : fst (fst (runw B read_i s w)) <> Panic.
Proof.
  destruct (runw B read_i s w) as [[r s'] w'] eqn:E.
  apply (runw_reader_run B read_i s w r s' w' ro_read_i) in E as (al' & E & _).
  apply read_i_spec in E. cbn [fst]. tauto.
Qed.

Lemma runw_dispatch_no_panic B f t s s1 w : blen s < input_bound -> blen s1 + 1 = blen s ->
  fst (fst (runw B (dispatch t (read_next f) (read_a_loop f) (read_e_loop f) f None) s1 w)) <> Panic.
Proof.
  intros Hb Hs1.
  destruct (runw B (dispatch t (read_next f) (read_a_loop f) (read_e_loop f) f None) s1 w) as [[r s'] w'] eqn:E.
  apply (runw_reader_run B _ s1 w r s' w' (ro_dispatch_f t f None)) in E as (al' & E & _).
  destruct (safety_all B f) as (Hn & Ha & He).
  apply (dispatch_spec B t _ _ _ f None s 0 s1 r s' al' Hn Ha He Hb Hs1) in E.
  destruct E as ((E1 & _) & _). exact E1.
Qed.

Theorem stream_no_panic B : forall fuel,
  (forall s w, blen s < input_bound -> no_spanic (fst (fst (runw B (stream_to fuel) s w)))) /\
  (forall n nn err clean s w, err <> SPanic -> blen s < input_bound ->
     no_spanic (fst (fst (runw B (stream_chunks fuel n nn err clean) s w)))).
Proof.
  induction fuel as [|f [IH1 IH2]]; [split; intros; cbn; unfold no_spanic; cbn; try discriminate; assumption|].
  split.
  - intros s w Hb. rewrite stream_to_S. rewrite runw_bind, runw_do_op.
    pose proof (flatw_no_panic B OReadByte s w) as Hp.
    destruct (flatw_step B OReadByte s w) as [[tb s1] w1] eqn:Eb. cbn [fst snd] in Hp.
    destruct tb as [tb|e|]; [|cbn; unfold no_spanic; cbn; discriminate|congruence].
    assert (Hs1 : blen s1 + 1 = blen s).
    { cbn [flatw_step] in Eb. destruct (flat_step B OReadByte s) as [r0 s0] eqn:E0. inversion Eb; subst.
      now apply step_read_byte_ok in E0. }
    cbv zeta. destruct (k_stream_blob (hd 0 tb)).
    + rewrite runw_bind.
      pose proof (runw_read_i_no_panic B s1 w1) as Hri. pose proof (runw_shrink B read_i s1 w1) as Hsh.
      destruct (runw B read_i s1 w1) as [[r s2] w2]. cbn [fst snd] in Hri, Hsh.
      destruct r as [n|e|]; [apply stream_blob_no_panic| |congruence].
      destruct (e =? eChunked); [|cbn; unfold no_spanic; cbn; discriminate].
      rewrite runw_bind.
      pose proof (IH1 s2 w2 ltac:(lia)) as H1. pose proof (runw_shrink B (stream_to f) s2 w2) as Hsh2.
      destruct (runw B (stream_to f) s2 w2) as [[[[nn err] clean] s3] w3]. cbn [fst snd] in H1, Hsh2.
      apply IH2; [exact H1|lia].
    + rewrite runw_bind.
      pose proof (runw_dispatch_no_panic B f (hd 0 tb) s s1 w1 Hb Hs1) as Hd.
      pose proof (runw_shrink B (dispatch (hd 0 tb) (read_next f) (read_a_loop f) (read_e_loop f) f None) s1 w1) as Hsh.
      destruct (runw B (dispatch (hd 0 tb) (read_next f) (read_a_loop f) (read_e_loop f) f None) s1 w1) as [[r s2] w2].
      cbn [fst snd] in Hd, Hsh.
      unfold stream_msg. destruct r as [m|e|]; [|cbn; unfold no_spanic; cbn; discriminate|congruence].
      destruct ((m_typ m =? tSimpleString) || (m_typ m =? tFloat) || (m_typ m =? tBigNumber)); [apply write_out_no_panic|].
      destruct (m_typ m =? tNull); [cbn; unfold no_spanic; cbn; discriminate|].
      destruct ((m_typ m =? tSimpleErr) || (m_typ m =? tBlobErr)); [cbn; unfold no_spanic; cbn; discriminate|].
      destruct ((m_typ m =? tInteger) || (m_typ m =? tBool)); [apply write_out_no_panic|].
      destruct (m_typ m =? tPush); [apply IH1; lia|cbn; unfold no_spanic; cbn; discriminate].
  - intros n nn err clean s w He Hb. rewrite stream_chunks_S. cbv zeta.
    destruct (negb (nn =? 0)%Z && clean && match err with SNone => true | _ => false end).
    + rewrite runw_bind.
      pose proof (IH1 s w Hb) as H1. pose proof (runw_shrink B (stream_to f) s w) as Hsh.
      destruct (runw B (stream_to f) s w) as [[[[nn' err'] clean'] s3] w3]. cbn [fst snd] in H1, Hsh.
      apply IH2; [exact H1|lia].
    + cbn. unfold no_spanic. cbn. exact He.
Qed.
