(** Statements of Props/C31.v in their final form. *)
From Coq Require Import String Ascii.
From Coq Require Import List Arith NArith ZArith Bool Lia.
Require Import RV.Model.Base RV.Model.CacheBatch RV.Model.Helpers.
Require Import RV.Proofs.CacheBatchBase RV.Proofs.CacheBatchHelper RV.Proofs.HelpersProofs.
Import ListNotations.
Open Scope nat_scope.

(** a Go map given as an association list: exactly the keys [ks], each bound by [f] *)
Definition maps_exactly {B} (m : list (key * B)) (ks : list key) (f : key -> B) : Prop :=
  (forall k, In k ks -> kv_get k m = Some (f k)) /\ (forall k, ~ In k ks -> kv_get k m = None).

Lemma maps_exactly_set_keys {B} (f : key -> B) ks : maps_exactly (set_keys f ks []) ks f.
Proof.
  split; intros k Hk; rewrite set_keys_get; destruct (in_dec key_dec k ks); try reflexivity; contradiction.
Qed.

Lemma maps_exactly_set_all {B} ks (v : B) : maps_exactly (set_all ks v) ks (fun _ => v).
Proof.
  split; intros k Hk; rewrite set_all_get; destruct (in_dec key_dec k ks); try reflexivity; contradiction.
Qed.

Lemma match_nonempty' {A B} (l : list A) (p x : B) : l <> [] -> match l with [] => p | _ :: _ => x end = x.
Proof. destruct l; [contradiction|reflexivity]. Qed.

Section Top.
  Variable srv : argv -> msg.
  Variable slot_of : key -> N.
  Variable get : key -> msg.

  Theorem mget_top (cluster : bool) (keys : list key) :
    (forall ks, srv (bs "MGET" :: ks) = arr (map get ks)) ->
    exists m, mget srv cluster slot_of keys = Ok (inl m) /\ maps_exactly m keys get.
  Proof.
    intro Hs. unfold mget. destruct keys as [|k0 ks0] eqn:Ek.
    - exists []. split; [reflexivity|]. split; [intros k []|reflexivity].
    - rewrite <- Ek. destruct cluster.
      + destruct (cluster_mget_spec srv slot_of get keys Hs) as (m & Hm & H1 & H2). exists m. split; [assumption|split; assumption].
      + unfold mget_cmd. rewrite (client_mget_spec srv get) by apply Hs. eexists. split; [reflexivity|apply maps_exactly_set_keys].
  Qed.

  Theorem json_mget_top (cluster : bool) (keys : list key) (path : bytes) :
    (forall ks, srv ((bs "JSON.MGET" :: ks) ++ [path]) = arr (map get ks)) ->
    exists m, json_mget srv cluster slot_of keys path = Ok (inl m) /\ maps_exactly m keys get.
  Proof.
    intro Hs. unfold json_mget. destruct keys as [|k0 ks0] eqn:Ek.
    - exists []. split; [reflexivity|]. split; [intros k []|reflexivity].
    - rewrite <- Ek. destruct cluster.
      + destruct (cluster_json_mget_spec srv slot_of get keys path Hs) as (m & Hm & H1 & H2). exists m. split; [assumption|split; assumption].
      + unfold json_mget_cmd. rewrite (client_mget_spec srv get) by apply Hs. eexists. split; [reflexivity|apply maps_exactly_set_keys].
  Qed.

  (** a failing multi-key command yields the error and no map (single client) *)
  Theorem mget_error_top (keys : list key) e :
    keys <> [] -> msg_error (srv (bs "MGET" :: keys)) = Some e -> m_typ (srv (bs "MGET" :: keys)) <> tArr ->
    m_typ (srv (bs "MGET" :: keys)) <> tSet ->
    mget srv false slot_of keys = Ok (inr e).
  Proof.
    intros Hne He Ht1 Ht2. unfold mget. rewrite match_nonempty' by assumption.
    unfold client_mget, mget_cmd, do_cmd, to_array. cbn [r_err new_result r_val].
    destruct (N.eqb_spec (m_typ (srv (bs "MGET" :: keys))) tArr); [contradiction|].
    destruct (N.eqb_spec (m_typ (srv (bs "MGET" :: keys))) tSet); [contradiction|].
    cbn [orb]. now rewrite He.
  Qed.

  (** the error every key of a single-command MSET / MSETNX / JSON.MSET / DEL is bound to *)
  Definition mset_err (nx : bool) (kvs : list (key * bytes)) : option err :=
    match as_bool (srv ((if nx then bs "MSETNX" else bs "MSET") :: flat_map (fun kv => [fst kv; snd kv]) kvs)) with
    | inr e => Some e
    | inl true => None
    | inl false => Some e_msetnx_not_set
    end.

  Definition set_cmd (nx : bool) (kv : key * bytes) : argv := [bs "SET"; fst kv; snd kv] ++ (if nx then [bs "NX"] else []).

  Lemma keyed_cmds_ok {A} (mk : A -> argv) (keyf : A -> key) (l : list A) :
    (forall x, nth_error (mk x) 1 = Some (keyf x)) ->
    (forall x y, In x l -> In y l -> keyf x = keyf y -> mk x = mk y) ->
    exists m, do_multi_set srv (map mk l) = Ok m /\
      (forall x, In x l -> kv_get (keyf x) m = Some (msg_error (srv (mk x)))) /\
      (forall k, ~ In k (map keyf l) -> kv_get k m = None).
  Proof.
    intros Hk Hsame.
    assert (Hnth : forall x, nth 1 (mk x) [] = keyf x) by (intro x; apply nth_error_nth, Hk).
    destruct (do_multi_set_spec srv (fun c => nth 1 c []) (map mk l)) as (m & Hm & Hv & Hn).
    - intros c Hc. apply in_map_iff in Hc as [x [<- _]]. now rewrite Hk, Hnth.
    - intros c c' Hc Hc' E. apply in_map_iff in Hc as [x [<- Hx]]. apply in_map_iff in Hc' as [y [<- Hy]].
      apply Hsame; auto. now rewrite <- !Hnth.
    - exists m. split; [assumption|]. split.
      + intros x Hx. rewrite <- (Hnth x). apply Hv. now apply in_map.
      + intros k Hnk. apply Hn. intros c Hc E. apply in_map_iff in Hc as [x [<- Hx]]. apply Hnk. apply in_map_iff.
        exists x. split; [|assumption]. now rewrite <- Hnth.
  Qed.

  Theorem mset_top (cluster nx : bool) (kvs : list (key * bytes)) :
    NoDup (map fst kvs) ->
    exists m, mset srv cluster nx kvs = Ok m /\
      (forall kv, In kv kvs ->
         kv_get (fst kv) m = Some (if cluster then msg_error (srv (set_cmd nx kv)) else mset_err nx kvs)) /\
      (forall k, ~ In k (map fst kvs) -> kv_get k m = None).
  Proof.
    intro Hnd. unfold mset. destruct kvs as [|kv0 kvs0] eqn:Ek.
    - exists []. split; [reflexivity|]. split; [intros kv []|reflexivity].
    - rewrite <- Ek in *. destruct cluster.
      + destruct (keyed_cmds_ok (set_cmd nx) fst kvs) as (m & Hm & Hv & Hn).
        * intro x. reflexivity.
        * intros x y Hx Hy E. f_equal. destruct x as [k v], y as [k' v']. cbn in E. subst k'.
          assert (v = v'); [|now subst].
          clear -Hnd Hx Hy. induction kvs as [|[a b] l IH]; [destruct Hx|]. cbn in Hnd. inversion Hnd as [|? ? Hna Hnd']; subst.
          destruct Hx as [Ex|Hx]; destruct Hy as [Ey|Hy].
          -- congruence.
          -- inversion Ex; subst. exfalso. apply Hna. apply in_map_iff. exists (k, v'). auto.
          -- inversion Ey; subst. exfalso. apply Hna. apply in_map_iff. exists (k, v). auto.
          -- auto.
        * exists m. split; [exact Hm|]. split; [intros kv Hkv; now apply Hv|assumption].
      + eexists. split; [reflexivity|]. unfold client_mset. fold (mset_err nx kvs).
        destruct (maps_exactly_set_all (map fst kvs) (mset_err nx kvs)) as [H1 H2].
        split; [intros kv Hkv; apply H1; now apply in_map|assumption].
  Qed.

  Theorem mdel_top (cluster : bool) (keys : list key) :
    exists m, mdel srv cluster keys = Ok m /\
      (forall k, In k keys ->
         kv_get k m = Some (msg_error (srv (if cluster then [bs "DEL"; k] else bs "DEL" :: keys)))) /\
      (forall k, ~ In k keys -> kv_get k m = None).
  Proof.
    unfold mdel. destruct keys as [|k0 ks0] eqn:Ek.
    - exists []. split; [reflexivity|]. split; [intros k []|reflexivity].
    - rewrite <- Ek in *. destruct cluster.
      + destruct (keyed_cmds_ok (fun k => [bs "DEL"; k]) (fun k => k) keys) as (m & Hm & Hv & Hn).
        * intro x. reflexivity.
        * intros x y _ _ ->. reflexivity.
        * exists m. split; [exact Hm|]. split; [assumption|]. intros k Hk. apply Hn. now rewrite map_id.
      + eexists. split; [reflexivity|]. unfold client_mdel.
        destruct (maps_exactly_set_all keys (msg_error (srv (bs "DEL" :: keys)))) as [H1 H2]. split; assumption.
  Qed.

  Theorem json_mset_top (cluster : bool) (kvs : list (key * bytes)) (path : bytes) :
    NoDup (map fst kvs) ->
    exists m, json_mset srv cluster kvs path = Ok m /\
      (forall kv, In kv kvs ->
         kv_get (fst kv) m = Some (msg_error (srv (if cluster then [bs "JSON.SET"; fst kv; path; snd kv]
                                                   else bs "JSON.MSET" :: flat_map (fun kv => [fst kv; path; snd kv]) kvs)))) /\
      (forall k, ~ In k (map fst kvs) -> kv_get k m = None).
  Proof.
    intro Hnd. unfold json_mset. destruct kvs as [|kv0 kvs0] eqn:Ek.
    - exists []. split; [reflexivity|]. split; [intros kv []|reflexivity].
    - rewrite <- Ek in *. destruct cluster.
      + destruct (keyed_cmds_ok (fun kv => [bs "JSON.SET"; fst kv; path; snd kv]) fst kvs) as (m & Hm & Hv & Hn).
        * intro x. reflexivity.
        * intros x y Hx Hy E. destruct x as [k v], y as [k' v']. cbn in E. subst k'.
          assert (v = v'); [|now subst].
          clear -Hnd Hx Hy. induction kvs as [|[a b] l IH]; [destruct Hx|]. cbn in Hnd. inversion Hnd as [|? ? Hna Hnd']; subst.
          destruct Hx as [Ex|Hx]; destruct Hy as [Ey|Hy].
          -- congruence.
          -- inversion Ex; subst. exfalso. apply Hna. apply in_map_iff. exists (k, v'). auto.
          -- inversion Ey; subst. exfalso. apply Hna. apply in_map_iff. exists (k, v). auto.
          -- auto.
        * exists m. split; [exact Hm|]. split; [intros kv Hkv; now apply Hv|assumption].
      + eexists. split; [reflexivity|]. unfold client_json_mset.
        destruct (maps_exactly_set_all (map fst kvs) (msg_error (srv (bs "JSON.MSET" :: flat_map (fun kv => [fst kv; path; snd kv]) kvs)))) as [H1 H2].
        split; [intros kv Hkv; apply H1; now apply in_map|assumption].
  Qed.
End Top.

(** the slot-grouping builders *)
Theorem slot_mcmds_top slot_of head keys :
  NoDup (map fst (slot_mcmds slot_of head keys)) /\
  forall s, assoc_N s (slot_mcmds slot_of head keys)
            = if existsb (in_slot slot_of s) keys then Some (head :: filter (in_slot slot_of s) keys) else None.
Proof. split; [apply slot_mcmds_nodup|intro; apply slot_mcmds_spec]. Qed.

Theorem slot_msets_top slot_of head kvs s :
  assoc_N s (slot_msets slot_of head kvs)
  = if existsb (pair_in_slot slot_of s) kvs
    then Some (head :: flat_map (fun kv => [fst kv; snd kv]) (filter (pair_in_slot slot_of s) kvs)) else None.
Proof. unfold slot_msets. now rewrite (slot_pairs_gen slot_of head (fun kv => [fst kv; snd kv])). Qed.

Theorem json_msets_top slot_of kvs path s :
  assoc_N s (json_msets slot_of kvs path)
  = if existsb (pair_in_slot slot_of s) kvs
    then Some (bs "JSON.MSET" :: flat_map (fun kv => [fst kv; path; snd kv]) (filter (pair_in_slot slot_of s) kvs)) else None.
Proof. unfold json_msets. now rewrite (slot_pairs_gen slot_of (bs "JSON.MSET") (fun kv => [fst kv; path; snd kv])). Qed.

Lemma assoc_N_map_snd {B C} (f : B -> C) s (m : list (N * B)) :
  assoc_N s (map (fun sc => (fst sc, f (snd sc))) m) = option_map f (assoc_N s m).
Proof. induction m as [|[t c] m IH]; cbn; [reflexivity|]. destruct (N.eqb s t); [reflexivity|exact IH]. Qed.

Theorem json_mgets_top slot_of keys path s :
  assoc_N s (json_mgets slot_of keys path)
  = if existsb (in_slot slot_of s) keys then Some ((bs "JSON.MGET" :: filter (in_slot slot_of s) keys) ++ [path]) else None.
Proof.
  unfold json_mgets. rewrite (assoc_N_map_snd (fun c => c ++ [path])), slot_mcmds_spec.
  destruct (existsb (in_slot slot_of s) keys); reflexivity.
Qed.

Theorem group_same_slot_top slot_of head keys cmds :
  group_by_slot slot_of head keys = Ok cmds ->
  forall c, In c cmds -> exists s, forall k, In k (tl c) -> slot_of k = s.
Proof.
  rewrite group_by_slot_spec. intros E c Hc. injection E as <-. eapply groups_same_slot; eauto.
Qed.

Theorem array_to_kv_top (f : key -> msg) keys :
  exists m, array_to_kv [] (map f keys) keys = Ok m /\ maps_exactly m keys f.
Proof. eexists. split; [apply array_to_kv_spec|apply maps_exactly_set_keys]. Qed.
