(** C13, part 3: readNextMessage on ARBITRARY input never panics and its allocations are bounded by
    K * (bytes consumed) + K0m.  A successful message also leaves 160 units of slack, which is what pays
    for the doubling of its parent's element buffer (amortised analysis with the ghost variable G =
    bytes spent on growth so far). *)
From Coq Require Import List Arith NArith ZArith Bool Lia ZifyN ZifyNat ZifyBool.
Require Import RV.Model.Base RV.Model.RespWrite RV.Model.Resp.
Require Import RV.Proofs.RespIOProofs RV.Proofs.RespBaseProofs RV.Proofs.RespSafetyBase RV.Proofs.RespSafetyScalars
               RV.Proofs.RespSafetyScalars2 RV.Proofs.RespSafetyCodes RV.Proofs.RespRoundtrip.
Import ListNotations.
Open Scope N_scope.

Notation K := 200%N (only parsing).
Notation K0m := 393216%N (only parsing).    (* 2 * K0 = 6 * maxPreallocBytes *)

Section Safety.
Variable B : nat.

Definition mspec (s : bytes) (al : N) (r : result msg) (s' : bytes) (al' : N) : Prop :=
  (r <> Panic /\ r <> Err eOldNull) /\ blen s' <= blen s /\ al' + K * blen s' <= al + K * blen s + K0m /\
  (forall m, r = Ok m -> blen s' + 1 <= blen s /\ al' + K * blen s' + 160 <= al + K * blen s).

Definition rn_ok (rn : option msg -> prog (result msg)) : Prop :=
  forall attrs s al r s' al', blen s < input_bound -> run B (rn attrs) s al = (r, s', al') -> mspec s al r s' al'.

(** the element buffer of readA: n elements read, capacity cap, G bytes spent on growth so far *)
Definition invG (L n cap G : Z) : Prop :=
  (0 <= n <= cap /\ cap <= L /\ (n < L -> 1 <= cap) /\ 0 <= G /\
   ((G = 0 /\ cap <= 16) \/ (G <= 80 * cap /\ cap <= 2 * n) \/ (cap = L /\ G <= 160 * n)))%Z.

Definition ral_ok (ral : Z -> Z -> Z -> list msg -> prog (result (list msg))) : Prop :=
  forall L n cap acc s al r s' al' G,
    invG L n cap G -> (Z.of_N (blen s) + n < Z.of_N input_bound)%Z ->
    run B (ral L n cap acc) s al = (r, s', al') ->
    (r <> Panic /\ r <> Err eOldNull) /\ blen s' <= blen s /\
    al' + K * blen s' <= al + K * blen s + Z.to_N (160 * n - G) + K0m /\
    (forall l, r = Ok l -> al' + K * blen s' <= al + K * blen s + Z.to_N (160 * n - G)).

Definition rel_ok (rel : list msg -> prog (result (list msg))) : Prop :=
  forall acc s al r s' al', blen s < input_bound -> run B (rel acc) s al = (r, s', al') ->
    (r <> Panic /\ r <> Err eOldNull) /\ blen s' <= blen s /\ al' + K * blen s' <= al + K * blen s + K0m /\
    (forall l, r = Ok l -> al' + K * blen s' <= al + K * blen s).

(** what is known when a reader has returned r in state (s2, al2), relative to the state (s, al) before the type byte *)
Definition after_reader (s : bytes) (al : N) (r : result msg) (s2 : bytes) (al2 : N) : Prop :=
  blen s2 + 1 <= blen s /\
  match r with
  | Ok _ => al2 + K * blen s2 + 160 <= al + K * blen s
  | Err e => if e =? eOldNull then al2 + K * blen s2 + 160 <= al + K * blen s
             else al2 + K * blen s2 <= al + K * blen s + K0m
  | Panic => False
  end.

Lemma fin_msg_spec rn typ attrs r s al s2 al2 r' s' al' :
  rn_ok rn -> blen s < input_bound -> after_reader s al r s2 al2 ->
  run B (fin_msg typ rn attrs r) s2 al2 = (r', s', al') -> mspec s al r' s' al'.
Proof.
  intros Hrn Hb [Hlen Hr]. unfold fin_msg. unfold mspec in *. destruct r as [m|e|]; [| |contradiction].
  - destruct (typ =? tAttribute).
    + intros Hrun. apply Hrn in Hrun; [|lia]. destruct Hrun as (H1 & H2 & H3 & H4).
      split; [assumption|]. split; [lia|]. split; [lia|]. intros m' Hm. specialize (H4 m' Hm). lia.
    + cbn [run]. intros Heq; fin Heq. split; [split; discriminate|]. repeat split; try lia.
  - destruct (N.eqb_spec e eOldNull) as [->|Hne]; cbn [run]; intros Heq; fin Heq.
    + split; [split; discriminate|]. repeat split; try lia.
    + split; [split; [discriminate|congruence]|]. repeat split; try lia. all: intros; discriminate.
Qed.

(** readA *)
Lemma read_a_spec ral L s al r s' al' :
  ral_ok ral -> blen s < input_bound -> run B (read_a ral L) s al = (r, s', al') ->
  (r <> Panic /\ r <> Err eOldNull) /\ blen s' <= blen s /\ al' + K * blen s' <= al + K * blen s + 640 + K0m /\
  (forall x, r = Ok x -> al' + K * blen s' <= al + K * blen s + 640).
Proof.
  intros Hral Hb. unfold read_a in *. destruct (Z.ltb_spec L 0).
  - cbn [run]. intros Heq; fin Heq. split; [split; discriminate|]. repeat split; try discriminate; lia.
  - unfold bindr. rewrite run_bind.
    destruct (run B (alloc_make msg_size (Z.min L max_prealloc_msgs)) s al) as [[r1 s1] al1] eqn:E1.
    apply alloc_make_spec in E1 as [-> [(-> & Hm & ->)|(-> & Hm & ->)]].
    + exfalso. unfold make_ok, msg_size, max_prealloc_msgs, max_alloc in *. lia.
    + rewrite run_bind.
      destruct (run B (ral L 0%Z (Z.min L max_prealloc_msgs) []) s (al + Z.to_N (Z.min L max_prealloc_msgs * msg_size))) as [[r2 s2] al2] eqn:E2.
      apply (Hral L 0%Z (Z.min L max_prealloc_msgs) [] s _ r2 s2 al2 0%Z) in E2.
      * destruct E2 as ((H1 & H1') & H2 & H3 & H4). unfold msg_size, max_prealloc_msgs in *.
        destruct r2 as [l|e|]; [| |congruence].
        -- cbn [run]. intros Heq; fin Heq. specialize (H4 l eq_refl). split; [split; discriminate|]. repeat split; try discriminate; lia.
        -- cbn [run]. intros Heq; fin Heq. split; [split; [discriminate|congruence]|]. repeat split; try discriminate; lia.
      * unfold invG, max_prealloc_msgs. lia.
      * unfold input_bound in *. lia.
Qed.

(** readE *)
Lemma read_e_spec rel s al r s' al' :
  rel_ok rel -> blen s < input_bound -> run B (read_e rel) s al = (r, s', al') ->
  (r <> Panic /\ r <> Err eOldNull) /\ blen s' <= blen s /\ al' + K * blen s' <= al + K * blen s + K0m /\
  (forall x, r = Ok x -> al' + K * blen s' <= al + K * blen s).
Proof.
  intros Hrel Hb. unfold read_e, bindr. rewrite run_bind.
  destruct (run B (rel []) s al) as [[r2 s2] al2] eqn:E2.
  apply Hrel in E2; [|assumption]. destruct E2 as ((H1 & H1') & H2 & H3 & H4).
  destruct r2 as [l|e|]; [| |congruence].
  - cbn [run]. intros Heq; fin Heq. specialize (H4 l eq_refl). split; [split; discriminate|]. repeat split; try discriminate; lia.
  - cbn [run]. intros Heq; fin Heq. split; [split; [discriminate|congruence]|]. repeat split; try discriminate; lia.
Qed.

(** the dispatch on the type byte: [s] is the stream before the type byte, [s1] after it *)
Lemma dispatch_spec typ rn ral rel cf attrs s al s1 r s' al' :
  rn_ok rn -> ral_ok ral -> rel_ok rel -> blen s < input_bound -> blen s1 + 1 = blen s ->
  run B (dispatch typ rn ral rel cf attrs) s1 al = (r, s', al') -> mspec s al r s' al'.
Proof.
  intros Hrn Hral Hrel Hb Hs1. unfold dispatch.
  assert (Hb1 : blen s1 < input_bound) by lia.
  (* an aggregate reader [p], started in (s2, al) after the header, allowed [extra] bytes of up-front allocation *)
  assert (Hagg : forall (p : prog (result (list msg * Z))) s2 (extra : N),
            blen s2 <= blen s1 -> K * blen s2 + extra + 160 <= K * blen s ->
            (forall r3 s3 al3, run B p s2 al = (r3, s3, al3) ->
               (r3 <> Panic /\ r3 <> Err eOldNull) /\ blen s3 <= blen s2 /\ al3 + K * blen s3 <= al + K * blen s2 + extra + K0m /\
               (forall x, r3 = Ok x -> al3 + K * blen s3 <= al + K * blen s2 + extra)) ->
            forall r' s'' al'', run B (bind p (fun r0 => fin_msg typ rn attrs (agg_msg typ r0))) s2 al = (r', s'', al'') ->
            mspec s al r' s'' al'').
  { intros p s2 extra Hc2 Hex Hp r' s'' al''. rewrite run_bind.
    destruct (run B p s2 al) as [[r3 s3] al3] eqn:E3. destruct (Hp _ _ _ eq_refl) as ((P1 & P1') & P2 & P3 & P4).
    intros Hrun. eapply fin_msg_spec; [exact Hrn|exact Hb| |exact Hrun].
    unfold after_reader, agg_msg, map_res.
    destruct r3 as [x|e|]; [|destruct (N.eqb_spec e eOldNull) as [->|_]|congruence].
    - specialize (P4 x eq_refl). split; lia.
    - congruence.
    - split; lia. }
  assert (Hsimple : forall (r0 : result msg) s0,
            blen s0 <= blen s1 -> r0 <> Panic ->
            forall r' s'' al'', run B (fin_msg typ rn attrs r0) s0 al = (r', s'', al'') -> mspec s al r' s'' al'').
  { intros r0 s0 H0 Hnp r' s'' al'' Hrun. eapply fin_msg_spec; [exact Hrn|exact Hb| |exact Hrun].
    unfold after_reader. destruct r0 as [x|e|]; [|destruct (e =? eOldNull)|congruence]; split; lia. }
  destruct (k_blob typ).
  { rewrite run_bind. destruct (run B (read_blob_string cf) s1 al) as [[r0 s0] al0] eqn:E0.
    pose proof E0 as E0'. apply read_blob_string_spec in E0; [|assumption]. destruct E0 as (P1 & P2 & P3).
    intros Hrun. eapply fin_msg_spec; [exact Hrn|exact Hb| |exact Hrun].
    unfold after_reader, str_msg, map_res, K0 in *.
    destruct r0 as [x|e|]; [|destruct (N.eqb_spec e eOldNull) as [->|_]|congruence].
    - apply read_blob_string_ok in E0'; [|assumption]. split; lia.
    - apply read_blob_string_oldnull in E0' as [-> Hc]. split; lia.
    - split; lia. }
  destruct (k_line typ).
  { rewrite run_bind. destruct (run B read_s s1 al) as [[r0 s0] al0] eqn:E0.
    apply read_s_spec in E0. destruct E0 as (P1 & P2 & P3 & P4).
    intros Hrun. eapply fin_msg_spec; [exact Hrn|exact Hb| |exact Hrun].
    unfold after_reader, str_msg, map_res.
    destruct r0 as [x|e|]; [|destruct (e =? eOldNull)|congruence]; split; lia. }
  destruct (typ =? tInteger).
  { rewrite run_bind. destruct (run B read_i s1 al) as [[r0 s0] al0] eqn:E0.
    apply read_i_spec in E0. destruct E0 as (P1 & -> & P3 & P4).
    apply Hsimple; [assumption|destruct r0; try discriminate; congruence]. }
  destruct (k_null typ).
  { rewrite run_bind. destruct (run B read_null s1 al) as [[r0 s0] al0] eqn:E0.
    apply read_null_spec in E0. destruct E0 as (P1 & P3 & ->).
    apply Hsimple; [assumption|destruct r0; try discriminate; congruence]. }
  destruct (typ =? tBool).
  { rewrite run_bind. destruct (run B read_boolean s1 al) as [[r0 s0] al0] eqn:E0.
    apply read_boolean_spec in E0. destruct E0 as (P1 & P3 & ->).
    apply Hsimple; [assumption|destruct r0; try discriminate; congruence]. }
  destruct (k_array typ).
  { rewrite run_bind. destruct (run B read_i s1 al) as [[r0 s0] al0] eqn:E0.
    apply read_i_spec in E0. destruct E0 as (P1 & -> & P3 & P4).
    destruct r0 as [L|e|]; [| |congruence].
    - destruct (P4 L eq_refl) as [Hc _].
      destruct (L =? -1)%Z.
      + apply Hsimple; [assumption|discriminate].
      + apply (Hagg (read_a ral L) s0 640); try lia.
        intros r3 s3 al3 E3. apply read_a_spec in E3; [exact E3|assumption|lia].
    - destruct (e =? eChunked).
      + apply (Hagg (read_e rel) s0 0); try lia.
        intros r3 s3 al3 E3. apply read_e_spec in E3; [|assumption|lia].
        destruct E3 as (Q1 & Q2 & Q3 & Q4). split; [assumption|]. repeat split; try assumption; try lia. intros x Hx. specialize (Q4 x Hx). lia.
      + apply Hsimple; [assumption|discriminate]. }
  destruct (k_map typ); [|cbn [run]; intros Heq; fin Heq; unfold mspec; split; [split; discriminate|]; repeat split; try discriminate; lia].
  rewrite run_bind. destruct (run B read_i s1 al) as [[r0 s0] al0] eqn:E0.
  apply read_i_spec in E0. destruct E0 as (P1 & -> & P3 & P4).
  destruct r0 as [L|e|]; [| |congruence].
  - destruct (P4 L eq_refl) as [Hc _].
    apply (Hagg (read_a ral (wrap64 (L * 2))) s0 640); try lia.
    intros r3 s3 al3 E3. apply read_a_spec in E3; [exact E3|assumption|lia].
  - destruct (e =? eChunked).
    + apply (Hagg (read_e rel) s0 0); try lia.
      intros r3 s3 al3 E3. apply read_e_spec in E3; [|assumption|lia].
      destruct E3 as (Q1 & Q2 & Q3 & Q4). split; [assumption|]. repeat split; try assumption; try lia. intros x Hx. specialize (Q4 x Hx). lia.
    + apply Hsimple; [assumption|discriminate].
Qed.

End Safety.
