(** Proofs about Model/Sentinel.v (C23). *)
From Coq Require Import List Arith NArith ZArith Bool Lia.
Require Import RV.Model.Base RV.Model.ClusterTopo RV.Model.Sentinel RV.Proofs.ClusterTopoProofs.
Import ListNotations.
Open Scope Z_scope.

Lemma saddr_eqb_spec a b : saddr_eqb a b = true <-> a = b.
Proof.
  destruct a as [h1 p1], b as [h2 p2]. unfold saddr_eqb. cbn [fst snd]. rewrite andb_true_iff, !list_eqb_N_spec.
  split; [intros [-> ->]; reflexivity|intro H; inversion H; auto].
Qed.

(** the invariant: an adopted address answered ROLE with the right role when it was adopted, and
    somebody announced it *)
Definition m_ok (st : sstate) : Prop := ss_m st = None \/ (ss_m_role st = s_master_b /\ ss_m_src st <> SrcNone).
Definition r_ok (st : sstate) : Prop := ss_r st = None \/ (ss_r_role st = s_slave_b /\ ss_r_src st <> SrcNone).
Definition inv (st : sstate) : Prop := m_ok st /\ r_ok st.

Lemma inv_init l : inv (sinit l).
Proof. split; left; reflexivity. Qed.

Lemma inv_set_list st l : inv st -> inv (set_list st l).
Proof. intros [A B]. split; [destruct A as [A|A]; [left|right]|destruct B as [B|B]; [left|right]]; exact A || exact B. Qed.
Lemma inv_set_saddr st a : inv st -> inv (set_saddr st a).
Proof. intros [A B]. split; [destruct A as [A|A]; [left|right]|destruct B as [B|B]; [left|right]]; exact A || exact B. Qed.

(** what a successful switch means *)
Lemma switch_target_ok w st a is_master src st' :
  switch_target w st a is_master src = Ok st' ->
  w_nup w a = true /\
  exists rest, w_role w a = RoleArr ((if is_master then s_master_b else s_slave_b) :: rest) /\
  (if is_master
   then ss_m st' = Some a /\ ss_m_role st' = s_master_b /\ ss_m_src st' = src /\
        ss_r st' = ss_r st /\ ss_r_role st' = ss_r_role st /\ ss_r_src st' = ss_r_src st
   else ss_r st' = Some a /\ ss_r_role st' = s_slave_b /\ ss_r_src st' = src /\
        ss_m st' = ss_m st /\ ss_m_role st' = ss_m_role st /\ ss_m_src st' = ss_m_src st) /\
  ss_list st' = ss_list st /\ ss_saddr st' = ss_saddr st.
Proof.
  unfold switch_target. destruct (w_nup w a); cbn [negb]; [|discriminate].
  destruct (w_role w a) as [|items]; [discriminate|]. destruct items as [|first rest]; [discriminate|].
  destruct is_master.
  - destruct (bytes_eqb first s_master_b) eqn:E; [|discriminate]. apply list_eqb_N_spec in E. subst first.
    intro H; inversion H; subst. cbn. split; [reflexivity|]. exists rest. repeat split.
  - destruct (bytes_eqb first s_slave_b) eqn:E; [|discriminate]. apply list_eqb_N_spec in E. subst first.
    intro H; inversion H; subst. cbn. split; [reflexivity|]. exists rest. repeat split.
Qed.

Lemma switch_target_inv w st a is_master src st' :
  src <> SrcNone -> inv st -> switch_target w st a is_master src = Ok st' -> inv st'.
Proof.
  intros Hs [A B] H. destruct (switch_target_ok _ _ _ _ _ _ H) as [_ [rest [_ [X _]]]]. destruct is_master.
  - destruct X as [X1 [X2 [X3 [X4 [X5 X6]]]]]. split; [right; rewrite X2, X3; auto|].
    destruct B as [B|[B1 B2]]; [left; congruence|right; rewrite X5, X6; auto].
  - destruct X as [X1 [X2 [X3 [X4 [X5 X6]]]]]. split; [|right; rewrite X2, X3; auto].
    destruct A as [A|[A1 A2]]; [left; congruence|right; rewrite X5, X6; auto].
Qed.

(** a node that does not answer "master" is never adopted as master, whatever else happens *)
Lemma switch_target_wrong_role w st a src first rest :
  w_role w a = RoleArr (first :: rest) -> first <> s_master_b ->
  forall st', switch_target w st a true src <> Ok st'.
Proof.
  intros Hr Hn st'. unfold switch_target. destruct (w_nup w a); cbn [negb]; [|discriminate]. rewrite Hr.
  destruct (bytes_eqb first s_master_b) eqn:E; [apply list_eqb_N_spec in E; contradiction|discriminate].
Qed.

Lemma switch_all_inv c w st s m r st' : inv st -> switch_all c w st s m r = Ok st' -> inv st'.
Proof.
  intros I. unfold switch_all. destruct (sc_replica_only c).
  - destruct r as [ra|]; [|discriminate]. apply switch_target_inv; [discriminate|exact I].
  - destruct (sc_has_str c).
    + destruct m as [ma|]; [|discriminate]. destruct r as [ra|]; [|discriminate].
      destruct (switch_target w st ma true (SrcSentinel s)) as [st1| |] eqn:E1.
      * destruct (switch_target w st1 ra false (SrcSentinel s)) as [st2| |] eqn:E2; try discriminate.
        intro H; inversion H; subst. eapply switch_target_inv; [|eapply switch_target_inv; [|exact I|exact E1]|exact E2]; discriminate.
      * destruct (switch_target w st ra false (SrcSentinel s)); discriminate.
      * discriminate.
    + destruct m as [ma|]; [|discriminate]. apply switch_target_inv; [discriminate|exact I].
Qed.

Lemma switch_all_partial_inv c w st s m r : inv st -> inv (switch_all_partial c w st s m r).
Proof.
  intros I. unfold switch_all_partial. destruct (sc_replica_only c); [exact I|]. destruct (sc_has_str c); [|exact I].
  destruct m as [ma|]; [|exact I]. destruct r as [ra|]; [|exact I].
  set (st1 := match switch_target w st ma true (SrcSentinel s) with Ok x => x | _ => st end).
  assert (I1 : inv st1).
  { unfold st1. destruct (switch_target w st ma true (SrcSentinel s)) eqn:E; try exact I.
    eapply switch_target_inv; [|exact I|exact E]. discriminate. }
  destruct (switch_target w st1 ra false (SrcSentinel s)) eqn:E; try exact I1.
  eapply switch_target_inv; [|exact I1|exact E]. discriminate.
Qed.

Lemma refresh_loop_inv c w head : forall fuel st last st' o,
  inv st -> refresh_loop fuel c w st head last = Ok (st', o) -> inv st'.
Proof.
  induction fuel as [|f IH]; intros st last st' o I H.
  - cbn in H. inversion H; subst. exact I.
  - cbn [refresh_loop] in H. destruct (ss_list st) as [|s l] eqn:El; [inversion H; subst; exact I|].
    assert (I1 : inv (set_saddr st s)) by now apply inv_set_saddr.
    assert (Hcont : forall st2 e, inv st2 ->
              (let l' := move_to_back (ss_list st2) s in
               let st3 := set_list st2 l' in
               match l' with
               | x :: _ => if saddr_eqb x head then Ok (st3, RFail e) else refresh_loop f c w st3 head e
               | [] => Ok (st3, RFail e)
               end) = Ok (st', o) -> inv st').
    { intros st2 e I2 E. cbv zeta in E.
      destruct (move_to_back (ss_list st2) s) as [|x r] eqn:Em.
      - inversion E; subst. now apply inv_set_list.
      - destruct (saddr_eqb x head).
        + inversion E; subst. now apply inv_set_list.
        + eapply IH; [|exact E]. now apply inv_set_list. }
    destruct (w_sup w s); cbn [negb] in H.
    + destruct (list_watch c w s) as [[[m r] others]| |] eqn:Lw; [|eapply Hcont; [exact I1|exact H]|discriminate].
      set (st2 := set_list (set_saddr st s) (fold_left add_sentinel others (ss_list (set_saddr st s)))) in *.
      assert (I2 : inv st2) by (apply inv_set_list; exact I1).
      destruct (switch_all c w st2 s m r) as [st3| |] eqn:Sw.
      * inversion H; subst. eapply switch_all_inv; eauto.
      * eapply Hcont; [|exact H]. now apply switch_all_partial_inv.
      * discriminate.
    + eapply Hcont; [exact I1|exact H].
Qed.

Lemma refresh_inv fuel c w st st' o : inv st -> refresh fuel c w st = Ok (st', o) -> inv st'.
Proof.
  intros I. unfold refresh. destruct (ss_list st) as [|h l]; [intro H; inversion H; subst; exact I|].
  now apply refresh_loop_inv.
Qed.

Lemma refresh_retry_inv fuel c w : forall n st st', inv st -> refresh_retry n fuel c w st = Ok st' -> inv st'.
Proof.
  induction n as [|n IH]; intros st st' I H; cbn [refresh_retry] in H; [inversion H; subst; exact I|].
  destruct (refresh fuel c w st) as [[st1 o]| |] eqn:R; try discriminate.
  pose proof (refresh_inv _ _ _ _ _ _ I R) as I1. destruct o; [inversion H; subst; exact I1| |]; eapply IH; eauto.
Qed.

Lemma bindr {A B} (r : result A) (f : A -> result B) y : bind r f = Ok y -> exists x, r = Ok x /\ f x = Ok y.
Proof. destruct r; cbn; [eauto|discriminate|discriminate]. Qed.

Lemma handle_event_inv n fuel c w st ev st' : inv st -> handle_event n fuel c w st ev = Ok st' -> inv st'.
Proof.
  intros I. destruct ev as [m|m|m|m]; cbn [handle_event].
  - intro H. apply bindr in H. destruct H as [h [_ H]]. apply bindr in H. destruct H as [p [_ H]].
    inversion H; subst. now apply inv_set_list.
  - intro H. apply bindr in H. destruct H as [m0 [_ H]]. destruct (bytes_eqb m0 (sc_set c)); [|inversion H; subst; exact I].
    apply bindr in H. destruct H as [h [_ H]]. apply bindr in H. destruct H as [p [_ H]].
    destruct (switch_target w st (h, p) true SrcEvent) eqn:E; [inversion H; subst| |discriminate].
    + eapply switch_target_inv; [|exact I|exact E]. discriminate.
    + eapply refresh_retry_inv; eauto.
  - intro H. apply bindr in H. destruct H as [m0 [_ H]].
    assert (Hrep : forall X, (if uses_replica c && bytes_eqb m0 s_slave_b
                              then do m5 <- part m 5; if bytes_eqb m5 (sc_set c) then refresh_retry n fuel c w st else Ok st
                              else Ok st) = Ok X -> inv X).
    { intros X E. destruct (uses_replica c && bytes_eqb m0 s_slave_b); [|inversion E; subst; exact I].
      apply bindr in E. destruct E as [m5 [_ E]]. destruct (bytes_eqb m5 (sc_set c)); [|inversion E; subst; exact I].
      eapply refresh_retry_inv; eauto. }
    destruct (bytes_eqb m0 s_master_b); [|now apply Hrep].
    apply bindr in H. destruct H as [m1 [_ H]]. destruct (bytes_eqb m1 (sc_set c)); [|now apply Hrep].
    apply bindr in H. destruct H as [h [_ H]]. apply bindr in H. destruct H as [p [_ H]].
    destruct (switch_target w st (h, p) true SrcEvent) eqn:E; [inversion H; subst| |discriminate].
    + eapply switch_target_inv; [|exact I|exact E]. discriminate.
    + eapply refresh_retry_inv; eauto.
  - destruct (uses_replica c); [|intro H; inversion H; subst; exact I].
    intro H. apply bindr in H. destruct H as [m0 [_ H]]. destruct (bytes_eqb m0 s_slave_b); [|inversion H; subst; exact I].
    apply bindr in H. destruct H as [m5 [_ H]]. destruct (bytes_eqb m5 (sc_set c)); [|inversion H; subst; exact I].
    eapply refresh_retry_inv; eauto.
Qed.

Theorem srun_inv n fuel c : forall ops st st', inv st -> srun n fuel c st ops = Ok st' -> inv st'.
Proof.
  induction ops as [|op r IH]; intros st st' I H; cbn [srun] in H; [inversion H; subst; exact I|].
  destruct (sstep n fuel c st op) as [st1| |] eqn:S; try discriminate.
  eapply IH; [|exact H]. destruct op as [w|w ev]; cbn [sstep] in S.
  - destruct (refresh fuel c w st) as [[x o]| |] eqn:R; try discriminate. inversion S; subst. eapply refresh_inv; eauto.
  - eapply handle_event_inv; eauto.
Qed.

(** a successful refresh leaves a master that the succeeding sentinel named and that answered "master" *)
Lemma switch_all_master c w st s m r st' :
  sc_replica_only c = false -> switch_all c w st s m r = Ok st' ->
  exists a rest, m = Some a /\ ss_m st' = Some a /\ w_nup w a = true /\ w_role w a = RoleArr (s_master_b :: rest) /\ ss_m_src st' = SrcSentinel s.
Proof.
  intros Hr. unfold switch_all. rewrite Hr. destruct (sc_has_str c).
  - destruct m as [ma|]; [|discriminate]. destruct r as [ra|]; [|discriminate].
    destruct (switch_target w st ma true (SrcSentinel s)) as [st1| |] eqn:E1.
    + destruct (switch_target w st1 ra false (SrcSentinel s)) as [st2| |] eqn:E2; try discriminate.
      intro H; inversion H; subst.
      destruct (switch_target_ok _ _ _ _ _ _ E1) as [U1 [rest [R1 [[X1 [X2 [X3 _]]] _]]]].
      destruct (switch_target_ok _ _ _ _ _ _ E2) as [_ [_ [_ [[_ [_ [_ [Y4 [Y5 Y6]]]]] _]]]].
      exists ma, rest. repeat split; auto; congruence.
    + destruct (switch_target w st ra false (SrcSentinel s)); discriminate.
    + discriminate.
  - destruct m as [ma|]; [|discriminate]. intro E1.
    destruct (switch_target_ok _ _ _ _ _ _ E1) as [U1 [rest [R1 [[X1 [X2 [X3 _]]] _]]]].
    exists ma, rest. repeat split; auto.
Qed.

Lemma list_watch_master c w s m r others :
  list_watch c w s = Ok (m, r, others) -> sc_replica_only c = false ->
  exists h p rest, m = Some (h, p) /\ w_master w s = MList (h :: p :: rest).
Proof.
  unfold list_watch. destruct (w_sentinels w s) as [|o]; [discriminate|]. intros H Hr. rewrite Hr in H.
  destruct (if sc_has_str c then _ else _) as [rr| |]; try discriminate.
  destruct (w_master w s) as [|items]; [discriminate|]. destruct items as [|h [|p rest]]; try discriminate.
  inversion H; subst. eauto.
Qed.

Lemma refresh_loop_master c w head : forall fuel st last st',
  sc_replica_only c = false -> refresh_loop fuel c w st head last = Ok (st', ROk) ->
  exists s h p rest1 rest2, w_sup w s = true /\ w_master w s = MList (h :: p :: rest1) /\ ss_m st' = Some (h, p) /\
    w_nup w (h, p) = true /\ w_role w (h, p) = RoleArr (s_master_b :: rest2) /\ ss_m_src st' = SrcSentinel s.
Proof.
  intros fuel. induction fuel as [|f IH]; intros st last st' Hr H.
  - cbn in H. discriminate.
  - cbn [refresh_loop] in H. destruct (ss_list st) as [|s l] eqn:El; [discriminate|].
    assert (Hcont : forall st2 e,
              (let l' := move_to_back (ss_list st2) s in
               let st3 := set_list st2 l' in
               match l' with
               | x :: _ => if saddr_eqb x head then Ok (st3, RFail e) else refresh_loop f c w st3 head e
               | [] => Ok (st3, RFail e)
               end) = Ok (st', ROk) ->
              exists s h p rest1 rest2, w_sup w s = true /\ w_master w s = MList (h :: p :: rest1) /\ ss_m st' = Some (h, p) /\
                w_nup w (h, p) = true /\ w_role w (h, p) = RoleArr (s_master_b :: rest2) /\ ss_m_src st' = SrcSentinel s).
    { intros st2 e E. cbv zeta in E. destruct (move_to_back (ss_list st2) s) as [|x r]; [discriminate|].
      destruct (saddr_eqb x head); [discriminate|]. eapply IH; eauto. }
    destruct (w_sup w s) eqn:Up; cbn [negb] in H; [|now apply (Hcont _ _ H)].
    destruct (list_watch c w s) as [[[m r] others]| |] eqn:Lw; [|now apply (Hcont _ _ H)|discriminate].
    destruct (switch_all c w _ s m r) as [st3| |] eqn:Sw; [|now apply (Hcont _ _ H)|discriminate].
    inversion H; subst st3.
    destruct (switch_all_master _ _ _ _ _ _ _ Hr Sw) as [a [rest [Em [Hm [Hu [Hro Hs]]]]]].
    destruct (list_watch_master _ _ _ _ _ _ Lw Hr) as [h [p [rest1 [Em' Hw]]]].
    rewrite Em in Em'. inversion Em'; subst a. exists s, h, p, rest1, rest. repeat split; auto.
Qed.

(** +switch-master for our set whose target is up and answers "master": the client follows *)
Lemma handle_switch_master n fuel c w st set old_h old_p h p tail rest :
  set = sc_set c -> w_nup w (h, p) = true -> w_role w (h, p) = RoleArr (s_master_b :: rest) ->
  exists st', handle_event n fuel c w st (EvSwitchMaster (set :: old_h :: old_p :: h :: p :: tail)) = Ok st' /\
              ss_m st' = Some (h, p) /\ ss_m_src st' = SrcEvent /\ ss_r st' = ss_r st /\ ss_list st' = ss_list st.
Proof.
  intros -> Hu Hr. cbn [handle_event part idx nth_error bind].
  assert (bytes_eqb (sc_set c) (sc_set c) = true) as -> by (now apply list_eqb_N_spec).
  unfold switch_target. rewrite Hu, Hr. cbn [negb].
  assert (bytes_eqb s_master_b s_master_b = true) as -> by reflexivity.
  eexists. split; [reflexivity|]. cbn. auto.
Qed.

(** an event for another master set is ignored *)
Lemma handle_switch_other_set n fuel c w st parts m0 :
  nth_error parts 0 = Some m0 -> m0 <> sc_set c -> handle_event n fuel c w st (EvSwitchMaster parts) = Ok st.
Proof.
  intros H N. destruct parts as [|x r]; [discriminate|]. cbn in H. inversion H; subst x.
  unfold handle_event, part, idx. cbn [nth_error bind].
  destruct (bytes_eqb m0 (sc_set c)) eqn:E; [apply list_eqb_N_spec in E; contradiction|reflexivity].
Qed.

(** S2: where the code indexes without a guard *)
Lemma switch_target_panic w st a is_master src :
  switch_target w st a is_master src = Panic <-> w_nup w a = true /\ w_role w a = RoleArr [].
Proof.
  unfold switch_target. destruct (w_nup w a); cbn [negb].
  - destruct (w_role w a) as [|[|first rest]].
    + split; [discriminate|intros [_ H]; discriminate].
    + split; auto.
    + split; [destruct is_master; [destruct (bytes_eqb first s_master_b)|destruct (bytes_eqb first s_slave_b)]; discriminate|intros [_ H]; discriminate].
  - split; [discriminate|intros [H _]; discriminate].
Qed.

Lemma list_watch_panic_short_master c w s others items :
  sc_replica_only c = false -> sc_has_str c = false -> w_sentinels w s = SnList others -> w_master w s = MList items ->
  (length items < 2)%nat -> list_watch c w s = Panic.
Proof.
  intros H1 H2 H3 H4 H5. unfold list_watch. rewrite H3, H1, H2, H4.
  destruct items as [|h [|p r]]; cbn in H5; try reflexivity; lia.
Qed.

Lemma handle_switch_master_short n fuel c w st parts :
  nth_error parts 0 = Some (sc_set c) -> (length parts < 5)%nat ->
  handle_event n fuel c w st (EvSwitchMaster parts) = Panic.
Proof.
  intros H L. destruct parts as [|x r]; [discriminate|]. cbn in H. inversion H; subst x.
  unfold handle_event, part, idx. cbn [nth_error bind].
  assert (bytes_eqb (sc_set c) (sc_set c) = true) as -> by (now apply list_eqb_N_spec).
  destruct r as [|a [|b [|d [|e r']]]]; cbn [nth_error bind]; try reflexivity. cbn in L. lia.
Qed.
