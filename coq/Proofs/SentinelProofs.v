(** Proofs about Model/Sentinel.v (C23). *)
From Coq Require Import List Arith NArith ZArith Bool Lia.
Require Import RV.Model.Base RV.Model.ClusterTopo RV.Model.Sentinel RV.Proofs.ClusterTopoProofs.
Import ListNotations.
Open Scope Z_scope.

Lemma saddr_eqb_spec a b : saddr_eqb a b = true <-> a = b.
Proof.
  destruct a as [h1 p1], b as [h2 p2]. unfold saddr_eqb. cbn [fst snd]. rewrite andb_true_iff, !list_eqb_N_spec.
  split; [intros [-> ->]; reflexivity|intro H; inversion H; auto].
Qed.

(** the invariant: an adopted address answered ROLE with the right role when it was adopted, and
    somebody announced it *)
Definition m_ok (st : sstate) : Prop := ss_m st = None \/ (ss_m_role st = s_master_b /\ ss_m_src st <> SrcNone).
Definition r_ok (st : sstate) : Prop := ss_r st = None \/ (ss_r_role st = s_slave_b /\ ss_r_src st <> SrcNone).
Definition inv (st : sstate) : Prop := m_ok st /\ r_ok st.

Lemma inv_init l : inv (sinit l).
Proof. split; left; reflexivity. Qed.

Lemma inv_set_list st l : inv st -> inv (set_list st l).
Proof. intros [A B]. split; [destruct A as [A|A]; [left|right]|destruct B as [B|B]; [left|right]]; exact A || exact B. Qed.
Lemma inv_set_saddr st a : inv st -> inv (set_saddr st a).
Proof. intros [A B]. split; [destruct A as [A|A]; [left|right]|destruct B as [B|B]; [left|right]]; exact A || exact B. Qed.

(** what a successful switch means *)
Lemma switch_target_ok w st a is_master src st' :
  switch_target w st a is_master src = Ok st' ->
  w_nup w a = true /\
  exists rest, w_role w a = RoleArr ((if is_master then s_master_b else s_slave_b) :: rest) /\
  (if is_master
   then ss_m st' = Some a /\ ss_m_role st' = s_master_b /\ ss_m_src st' = src /\
        ss_r st' = ss_r st /\ ss_r_role st' = ss_r_role st /\ ss_r_src st' = ss_r_src st
   else ss_r st' = Some a /\ ss_r_role st' = s_slave_b /\ ss_r_src st' = src /\
        ss_m st' = ss_m st /\ ss_m_role st' = ss_m_role st /\ ss_m_src st' = ss_m_src st) /\
  ss_list st' = ss_list st /\ ss_saddr st' = ss_saddr st.
Proof.
  unfold switch_target. destruct (w_nup w a); cbn [negb]; [|discriminate].
  destruct (w_role w a) as [|items]; [discriminate|]. destruct items as [|first rest]; [discriminate|].
  destruct is_master.
  - destruct (bytes_eqb first s_master_b) eqn:E; [|discriminate]. apply list_eqb_N_spec in E. subst first.
    intro H; inversion H; subst. cbn. split; [reflexivity|]. exists rest. repeat split.
  - destruct (bytes_eqb first s_slave_b) eqn:E; [|discriminate]. apply list_eqb_N_spec in E. subst first.
    intro H; inversion H; subst. cbn. split; [reflexivity|]. exists rest. repeat split.
Qed.

Lemma switch_target_inv w st a is_master src st' :
  src <> SrcNone -> inv st -> switch_target w st a is_master src = Ok st' -> inv st'.
Proof.
  intros Hs [A B] H. destruct (switch_target_ok _ _ _ _ _ _ H) as [_ [rest [_ [X _]]]]. destruct is_master.
  - destruct X as [X1 [X2 [X3 [X4 [X5 X6]]]]]. split; [right; rewrite X2, X3; auto|].
    destruct B as [B|[B1 B2]]; [left; congruence|right; rewrite X5, X6; auto].
  - destruct X as [X1 [X2 [X3 [X4 [X5 X6]]]]]. split; [|right; rewrite X2, X3; auto].
    destruct A as [A|[A1 A2]]; [left; congruence|right; rewrite X5, X6; auto].
Qed.

(** a node that does not answer "master" is never adopted as master, whatever else happens *)
Lemma switch_target_wrong_role w st a src first rest :
  w_role w a = RoleArr (first :: rest) -> first <> s_master_b ->
  forall st', switch_target w st a true src <> Ok st'.
Proof.
  intros Hr Hn st'. unfold switch_target. destruct (w_nup w a); cbn [negb]; [|discriminate]. rewrite Hr.
  destruct (bytes_eqb first s_master_b) eqn:E; [apply list_eqb_N_spec in E; contradiction|discriminate].
Qed.

Lemma bindr {A B} (r : result A) (f : A -> result B) y : bind r f = Ok y -> exists x, r = Ok x /\ f x = Ok y.
Proof. destruct r; cbn; [eauto|discriminate|discriminate]. Qed.

(** ---- predicates preserved by the whole machinery under one world ---- *)
Section Pres.
  Variable w : world.
  Variable P : sstate -> Prop.
  Hypothesis P_list : forall st l, P st -> P (set_list st l).
  Hypothesis P_saddr : forall st a, P st -> P (set_saddr st a).
  Hypothesis P_switch : forall st a im src st', src <> SrcNone -> P st -> switch_target w st a im src = Ok st' -> P st'.
  Hypothesis P_fail : forall st a im, P st -> P (switch_fail w st a im).

  Lemma switch_or_fail_pres st a im src : src <> SrcNone -> P st -> P (switch_or_fail w st a im src).
  Proof.
    intros Hs I. unfold switch_or_fail. destruct (switch_target w st a im src) eqn:E; [eapply P_switch; eauto| |]; now apply P_fail.
  Qed.

  Lemma switch_all_pres c st s m r st' : P st -> switch_all c w st s m r = Ok st' -> P st'.
  Proof.
    intros I. unfold switch_all. destruct (sc_replica_only c).
    - destruct r as [ra|]; [|discriminate]. apply P_switch; [discriminate|exact I].
    - destruct (sc_has_str c).
      + destruct m as [ma|]; [|discriminate]. destruct r as [ra|]; [|discriminate].
        destruct (switch_target w st ma true (SrcSentinel s)) as [st1| |] eqn:E1.
        * destruct (switch_target w st1 ra false (SrcSentinel s)) as [st2| |] eqn:E2; try discriminate.
          intro H; inversion H; subst. eapply P_switch; [|eapply P_switch; [|exact I|exact E1]|exact E2]; discriminate.
        * destruct (switch_target w st ra false (SrcSentinel s)); discriminate.
        * discriminate.
      + destruct m as [ma|]; [|discriminate]. apply P_switch; [discriminate|exact I].
  Qed.

  Lemma switch_all_partial_pres c st s m r : P st -> P (switch_all_partial c w st s m r).
  Proof.
    intros I. unfold switch_all_partial. destruct (sc_replica_only c).
    - destruct r as [ra|]; [|exact I]. apply switch_or_fail_pres; [discriminate|exact I].
    - destruct (sc_has_str c).
      + destruct m as [ma|]; [|exact I]. destruct r as [ra|]; [|exact I].
        apply switch_or_fail_pres; [discriminate|]. apply switch_or_fail_pres; [discriminate|exact I].
      + destruct m as [ma|]; [|exact I]. apply switch_or_fail_pres; [discriminate|exact I].
  Qed.

  Lemma refresh_loop_pres c head : forall fuel st last st' o,
    P st -> refresh_loop fuel c w st head last = Ok (st', o) -> P st'.
  Proof.
    induction fuel as [|f IH]; intros st last st' o I H.
    - cbn in H. inversion H; subst. exact I.
    - cbn [refresh_loop] in H. destruct (ss_list st) as [|s l] eqn:El; [inversion H; subst; exact I|].
      assert (I1 : P (set_saddr st s)) by now apply P_saddr.
      assert (Hcont : forall st2 e, P st2 ->
                (let l' := move_to_back (ss_list st2) s in
                 let st3 := set_list st2 l' in
                 match l' with
                 | x :: _ => if saddr_eqb x head then Ok (st3, RFail e) else refresh_loop f c w st3 head e
                 | [] => Ok (st3, RFail e)
                 end) = Ok (st', o) -> P st').
      { intros st2 e I2 E. cbv zeta in E.
        destruct (move_to_back (ss_list st2) s) as [|x r] eqn:Em.
        - inversion E; subst. now apply P_list.
        - destruct (saddr_eqb x head).
          + inversion E; subst. now apply P_list.
          + eapply IH; [|exact E]. now apply P_list. }
      destruct (w_sup w s); cbn [negb] in H.
      + destruct (list_watch c w s) as [[[m r] others]| |] eqn:Lw; [|eapply Hcont; [exact I1|exact H]|discriminate].
        set (st2 := set_list (set_saddr st s) (fold_left add_sentinel others (ss_list (set_saddr st s)))) in *.
        assert (I2 : P st2) by (apply P_list; exact I1).
        destruct (switch_all c w st2 s m r) as [st3| |] eqn:Sw.
        * inversion H; subst. eapply switch_all_pres; eauto.
        * eapply Hcont; [|exact H]. now apply switch_all_partial_pres.
        * discriminate.
      + eapply Hcont; [exact I1|exact H].
  Qed.

  Lemma refresh_pres fuel c st st' o : P st -> refresh fuel c w st = Ok (st', o) -> P st'.
  Proof.
    intros I. unfold refresh. destruct (ss_list st) as [|h l]; [intro H; inversion H; subst; exact I|].
    now apply refresh_loop_pres.
  Qed.

  Lemma refresh_retry_pres fuel c : forall n st st', P st -> refresh_retry n fuel c w st = Ok st' -> P st'.
  Proof.
    induction n as [|n IH]; intros st st' I H; cbn [refresh_retry] in H; [inversion H; subst; exact I|].
    destruct (refresh fuel c w st) as [[st1 o]| |] eqn:R; try discriminate.
    pose proof (refresh_pres _ _ _ _ _ I R) as I1. destruct o; [inversion H; subst; exact I1| |]; eapply IH; eauto.
  Qed.

  Lemma handle_event_pres n fuel c st ev st' : P st -> handle_event n fuel c w st ev = Ok st' -> P st'.
  Proof.
    intros I. destruct ev as [m|m|m|m]; cbn [handle_event].
    - intro H. apply bindr in H. destruct H as [h [_ H]]. apply bindr in H. destruct H as [p [_ H]].
      inversion H; subst. now apply P_list.
    - intro H. apply bindr in H. destruct H as [m0 [_ H]]. destruct (bytes_eqb m0 (sc_set c)); [|inversion H; subst; exact I].
      apply bindr in H. destruct H as [h [_ H]]. apply bindr in H. destruct H as [p [_ H]].
      destruct (switch_target w st (h, p) true SrcEvent) eqn:E; [inversion H; subst| |discriminate].
      + eapply P_switch; [|exact I|exact E]. discriminate.
      + eapply refresh_retry_pres; [|exact H]. now apply P_fail.
    - intro H. apply bindr in H. destruct H as [m0 [_ H]].
      assert (Hrep : forall X, (if uses_replica c && bytes_eqb m0 s_slave_b
                                then do m5 <- part m 5; if bytes_eqb m5 (sc_set c) then refresh_retry n fuel c w st else Ok st
                                else Ok st) = Ok X -> P X).
      { intros X E. destruct (uses_replica c && bytes_eqb m0 s_slave_b); [|inversion E; subst; exact I].
        apply bindr in E. destruct E as [m5 [_ E]]. destruct (bytes_eqb m5 (sc_set c)); [|inversion E; subst; exact I].
        eapply refresh_retry_pres; eauto. }
      destruct (bytes_eqb m0 s_master_b); [|now apply Hrep].
      apply bindr in H. destruct H as [m1 [_ H]]. destruct (bytes_eqb m1 (sc_set c)); [|now apply Hrep].
      apply bindr in H. destruct H as [h [_ H]]. apply bindr in H. destruct H as [p [_ H]].
      destruct (switch_target w st (h, p) true SrcEvent) eqn:E; [inversion H; subst| |discriminate].
      + eapply P_switch; [|exact I|exact E]. discriminate.
      + eapply refresh_retry_pres; [|exact H]. now apply P_fail.
    - destruct (uses_replica c); [|intro H; inversion H; subst; exact I].
      intro H. apply bindr in H. destruct H as [m0 [_ H]]. destruct (bytes_eqb m0 s_slave_b); [|inversion H; subst; exact I].
      apply bindr in H. destruct H as [m5 [_ H]]. destruct (bytes_eqb m5 (sc_set c)); [|inversion H; subst; exact I].
      eapply refresh_retry_pres; eauto.
  Qed.
End Pres.

(** [inv] is such a predicate, under every world *)
Lemma inv_switch_fail w st a im : inv st -> inv (switch_fail w st a im).
Proof.
  intros I. unfold switch_fail. destruct (target_of w st a im); [|exact I].
  unfold close_installed. destruct im; exact I.
Qed.

Lemma refresh_inv fuel c w st st' o : inv st -> refresh fuel c w st = Ok (st', o) -> inv st'.
Proof.
  apply (refresh_pres w inv inv_set_list inv_set_saddr).
  - intros. eapply switch_target_inv; eauto.
  - intros. now apply inv_switch_fail.
Qed.

Lemma handle_event_inv n fuel c w st ev st' : inv st -> handle_event n fuel c w st ev = Ok st' -> inv st'.
Proof.
  apply (handle_event_pres w inv inv_set_list inv_set_saddr).
  - intros. eapply switch_target_inv; eauto.
  - intros. now apply inv_switch_fail.
Qed.

Theorem srun_inv n fuel c : forall ops st st', inv st -> srun n fuel c st ops = Ok st' -> inv st'.
Proof.
  induction ops as [|op r IH]; intros st st' I H; cbn [srun] in H; [inversion H; subst; exact I|].
  destruct (sstep n fuel c st op) as [st1| |] eqn:S; try discriminate.
  eapply IH; [|exact H]. destruct op as [w|w ev]; cbn [sstep] in S.
  - destruct (refresh fuel c w st) as [[x o]| |] eqn:R; try discriminate. inversion S; subst. eapply refresh_inv; eauto.
  - eapply handle_event_inv; eauto.
Qed.

(** ---- reused vs fresh targets: what user traffic can reach ---- *)
Definition role_b (is_master : bool) : bytes := if is_master then s_master_b else s_slave_b.

(** whenever master (replica) traffic can arrive somewhere, that node is reachable and answers ROLE with
    "master" ("slave") in the world [w] *)
Definition live_m_ok (w : world) (st : sstate) : Prop :=
  live_m st = None \/ exists a rest, live_m st = Some a /\ w_nup w a = true /\ w_role w a = RoleArr (s_master_b :: rest).
Definition live_r_ok (w : world) (st : sstate) : Prop :=
  live_r st = None \/ exists a rest, live_r st = Some a /\ w_nup w a = true /\ w_role w a = RoleArr (s_slave_b :: rest).

Lemma switch_target_live w st a is_master src st' :
  switch_target w st a is_master src = Ok st' ->
  w_nup w a = true /\ exists rest, w_role w a = RoleArr (role_b is_master :: rest) /\
  if is_master then live_m st' = Some a /\ live_r st' = live_r st else live_r st' = Some a /\ live_m st' = live_m st.
Proof.
  unfold switch_target. destruct (w_nup w a); cbn [negb]; [|discriminate].
  destruct (w_role w a) as [|items]; [discriminate|]. destruct items as [|first rest]; [discriminate|].
  destruct is_master.
  - destruct (bytes_eqb first s_master_b) eqn:E; [|discriminate]. apply list_eqb_N_spec in E. subst first.
    intro H; inversion H; subst. split; [reflexivity|]. exists rest. split; [reflexivity|]. split; reflexivity.
  - destruct (bytes_eqb first s_slave_b) eqn:E; [|discriminate]. apply list_eqb_N_spec in E. subst first.
    intro H; inversion H; subst. split; [reflexivity|]. exists rest. split; [reflexivity|]. split; reflexivity.
Qed.

(** a failed switch: on the reuse path the installed connection is closed, on the fresh path nothing changes *)
Lemma switch_fail_reused w st a is_master :
  target_of w st a is_master = TReused ->
  (if is_master then live_m (switch_fail w st a true) = None /\ live_r (switch_fail w st a true) = live_r st
   else live_r (switch_fail w st a false) = None /\ live_m (switch_fail w st a false) = live_m st) /\
  ss_m (switch_fail w st a is_master) = ss_m st /\ ss_r (switch_fail w st a is_master) = ss_r st /\
  ss_list (switch_fail w st a is_master) = ss_list st.
Proof.
  intro T. destruct is_master; unfold switch_fail; rewrite T; cbn; repeat split.
Qed.

Lemma switch_fail_fresh w st a is_master : target_of w st a is_master = TFresh -> switch_fail w st a is_master = st.
Proof. intro T. unfold switch_fail. now rewrite T. Qed.

Lemma target_of_current_master w st a :
  ss_m st = Some a -> ss_m_open st = true -> w_nup w a = true -> target_of w st a true = TReused.
Proof.
  intros Hm Ho Hu. unfold target_of. rewrite Hm, Ho, Hu. cbn [osaddr_is].
  assert (saddr_eqb a a = true) as -> by (now apply saddr_eqb_spec). reflexivity.
Qed.
Lemma target_of_current_replica w st a :
  ss_r st = Some a -> ss_r_open st = true -> w_nup w a = true -> target_of w st a false = TReused.
Proof.
  intros Hm Ho Hu. unfold target_of. rewrite Hm, Ho, Hu. cbn [osaddr_is].
  assert (saddr_eqb a a = true) as -> by (now apply saddr_eqb_spec). reflexivity.
Qed.

(** after a failed switch to the address the master traffic currently uses, no master traffic flows *)
Lemma switch_fail_current_master w st a : ss_m st = Some a -> w_nup w a = true -> live_m (switch_fail w st a true) = None.
Proof.
  intros Hm Hu. destruct (ss_m_open st) eqn:Ho.
  - pose proof (switch_fail_reused w st a true (target_of_current_master _ _ _ Hm Ho Hu)) as [[X _] _]. exact X.
  - unfold switch_fail. destruct (target_of w st a true); unfold live_m; cbn; [reflexivity|now rewrite Ho].
Qed.
Lemma switch_fail_current_replica w st a : ss_r st = Some a -> w_nup w a = true -> live_r (switch_fail w st a false) = None.
Proof.
  intros Hm Hu. destruct (ss_r_open st) eqn:Ho.
  - pose proof (switch_fail_reused w st a false (target_of_current_replica _ _ _ Hm Ho Hu)) as [[X _] _]. exact X.
  - unfold switch_fail. destruct (target_of w st a false); unfold live_r; cbn; [reflexivity|now rewrite Ho].
Qed.

Lemma live_m_ok_list w st l : live_m_ok w st -> live_m_ok w (set_list st l).
Proof. exact (fun H => H). Qed.
Lemma live_m_ok_saddr w st a : live_m_ok w st -> live_m_ok w (set_saddr st a).
Proof. exact (fun H => H). Qed.
Lemma live_r_ok_list w st l : live_r_ok w st -> live_r_ok w (set_list st l).
Proof. exact (fun H => H). Qed.
Lemma live_r_ok_saddr w st a : live_r_ok w st -> live_r_ok w (set_saddr st a).
Proof. exact (fun H => H). Qed.

Lemma live_m_ok_switch w st a im src st' : live_m_ok w st -> switch_target w st a im src = Ok st' -> live_m_ok w st'.
Proof.
  intros I H. destruct (switch_target_live _ _ _ _ _ _ H) as [Hu [rest [Hr X]]]. destruct im.
  - destruct X as [X _]. right. exists a, rest. auto.
  - destruct X as [_ X]. unfold live_m_ok. rewrite X. exact I.
Qed.
Lemma live_r_ok_switch w st a im src st' : live_r_ok w st -> switch_target w st a im src = Ok st' -> live_r_ok w st'.
Proof.
  intros I H. destruct (switch_target_live _ _ _ _ _ _ H) as [Hu [rest [Hr X]]]. destruct im.
  - destruct X as [_ X]. unfold live_r_ok. rewrite X. exact I.
  - destruct X as [X _]. right. exists a, rest. auto.
Qed.

Lemma live_m_ok_fail w st a im : live_m_ok w st -> live_m_ok w (switch_fail w st a im).
Proof.
  intros I. destruct (target_of w st a im) eqn:T; [|now rewrite (switch_fail_fresh _ _ _ _ T)].
  destruct (switch_fail_reused _ _ _ _ T) as [X _]. destruct im.
  - left. exact (proj1 X).
  - unfold live_m_ok. rewrite (proj2 X). exact I.
Qed.
Lemma live_r_ok_fail w st a im : live_r_ok w st -> live_r_ok w (switch_fail w st a im).
Proof.
  intros I. destruct (target_of w st a im) eqn:T; [|now rewrite (switch_fail_fresh _ _ _ _ T)].
  destruct (switch_fail_reused _ _ _ _ T) as [X _]. destruct im.
  - unfold live_r_ok. rewrite (proj2 X). exact I.
  - left. exact (proj1 X).
Qed.

Lemma refresh_live_m fuel c w st st' o : live_m_ok w st -> refresh fuel c w st = Ok (st', o) -> live_m_ok w st'.
Proof.
  apply (refresh_pres w (live_m_ok w) (live_m_ok_list w) (live_m_ok_saddr w)).
  - intros. eapply live_m_ok_switch; eauto.
  - intros. now apply live_m_ok_fail.
Qed.
Lemma refresh_live_r fuel c w st st' o : live_r_ok w st -> refresh fuel c w st = Ok (st', o) -> live_r_ok w st'.
Proof.
  apply (refresh_pres w (live_r_ok w) (live_r_ok_list w) (live_r_ok_saddr w)).
  - intros. eapply live_r_ok_switch; eauto.
  - intros. now apply live_r_ok_fail.
Qed.
Lemma handle_event_live_m n fuel c w st ev st' : live_m_ok w st -> handle_event n fuel c w st ev = Ok st' -> live_m_ok w st'.
Proof.
  apply (handle_event_pres w (live_m_ok w) (live_m_ok_list w) (live_m_ok_saddr w)).
  - intros. eapply live_m_ok_switch; eauto.
  - intros. now apply live_m_ok_fail.
Qed.
Lemma handle_event_live_r n fuel c w st ev st' : live_r_ok w st -> handle_event n fuel c w st ev = Ok st' -> live_r_ok w st'.
Proof.
  apply (handle_event_pres w (live_r_ok w) (live_r_ok_list w) (live_r_ok_saddr w)).
  - intros. eapply live_r_ok_switch; eauto.
  - intros. now apply live_r_ok_fail.
Qed.
Lemma refresh_retry_live_m fuel c w n st st' : live_m_ok w st -> refresh_retry n fuel c w st = Ok st' -> live_m_ok w st'.
Proof.
  apply (refresh_retry_pres w (live_m_ok w) (live_m_ok_list w) (live_m_ok_saddr w)).
  - intros. eapply live_m_ok_switch; eauto.
  - intros. now apply live_m_ok_fail.
Qed.

(** a node that answers with the wrong role is not where master traffic can arrive *)
Lemma live_m_ok_wrong_role w st a first rest :
  live_m_ok w st -> w_role w a = RoleArr (first :: rest) -> first <> s_master_b -> live_m st <> Some a.
Proof.
  intros [H|[b [r [H [_ Hr]]]]] Hw Hn E; [congruence|]. rewrite H in E. inversion E; subst b. rewrite Hw in Hr. inversion Hr. contradiction.
Qed.

(** +switch-master / +reboot master naming the address master traffic currently uses, whose node now answers
    with another role: afterwards master traffic reaches that node no more; wherever it can arrive answered
    "master" in that world *)
Lemma handle_switch_master_same_demoted n fuel c w st old_h old_p h p tail first rest st' :
  ss_m st = Some (h, p) -> w_nup w (h, p) = true -> w_role w (h, p) = RoleArr (first :: rest) -> first <> s_master_b ->
  handle_event n fuel c w st (EvSwitchMaster (sc_set c :: old_h :: old_p :: h :: p :: tail)) = Ok st' ->
  live_m_ok w st' /\ live_m st' <> Some (h, p).
Proof.
  intros Hm Hu Hr Hn H. cbn [handle_event part idx nth_error bind] in H.
  assert (bytes_eqb (sc_set c) (sc_set c) = true) as E by (now apply list_eqb_N_spec). rewrite E in H.
  assert (S : switch_target w st (h, p) true SrcEvent = Err 3).
  { unfold switch_target. rewrite Hu, Hr. cbn [negb].
    destruct (bytes_eqb first s_master_b) eqn:B; [apply list_eqb_N_spec in B; contradiction|reflexivity]. }
  rewrite S in H.
  assert (L : live_m_ok w st').
  { eapply refresh_retry_live_m; [|exact H]. left. now apply switch_fail_current_master. }
  split; [exact L|]. eapply live_m_ok_wrong_role; eauto.
Qed.

Lemma handle_reboot_master_same_demoted n fuel c w st h p tail first rest st' :
  ss_m st = Some (h, p) -> w_nup w (h, p) = true -> w_role w (h, p) = RoleArr (first :: rest) -> first <> s_master_b ->
  handle_event n fuel c w st (EvReboot (s_master_b :: sc_set c :: h :: p :: tail)) = Ok st' ->
  live_m_ok w st' /\ live_m st' <> Some (h, p).
Proof.
  intros Hm Hu Hr Hn H. cbn [handle_event part idx nth_error bind] in H.
  assert (bytes_eqb s_master_b s_master_b = true) as E0 by reflexivity. rewrite E0 in H.
  assert (bytes_eqb (sc_set c) (sc_set c) = true) as E by (now apply list_eqb_N_spec). rewrite E in H.
  assert (S : switch_target w st (h, p) true SrcEvent = Err 3).
  { unfold switch_target. rewrite Hu, Hr. cbn [negb].
    destruct (bytes_eqb first s_master_b) eqn:B; [apply list_eqb_N_spec in B; contradiction|reflexivity]. }
  rewrite S in H.
  assert (L : live_m_ok w st').
  { eapply refresh_retry_live_m; [|exact H]. left. now apply switch_fail_current_master. }
  split; [exact L|]. eapply live_m_ok_wrong_role; eauto.
Qed.

(** the refresh after a dropped subscription: when the switch to the address the answering sentinel names fails
    and that address is the one in use, the loop goes on with the installed connection closed *)
Lemma switch_all_partial_current_master c w st s a r e :
  sc_replica_only c = false -> (sc_has_str c = true -> r <> None) -> ss_m st = Some a -> w_nup w a = true ->
  switch_target w st a true (SrcSentinel s) = Err e ->
  live_m (switch_all_partial c w st s (Some a) r) = None.
Proof.
  intros Hr Hs Hm Hu S. unfold switch_all_partial. rewrite Hr.
  assert (X : live_m (switch_or_fail w st a true (SrcSentinel s)) = None).
  { unfold switch_or_fail. rewrite S. now apply switch_fail_current_master. }
  destruct (sc_has_str c); [|exact X]. destruct r as [ra|]; [|exfalso; now apply Hs].
  set (st1 := switch_or_fail w st a true (SrcSentinel s)) in *.
  assert (F : live_m (switch_fail w st1 ra false) = None).
  { destruct (target_of w st1 ra false) eqn:T.
    - destruct (switch_fail_reused _ _ _ _ T) as [[_ Y] _]. now rewrite Y.
    - now rewrite (switch_fail_fresh _ _ _ _ T). }
  unfold switch_or_fail at 1. destruct (switch_target w st1 ra false (SrcSentinel s)) eqn:E2; try exact F.
  destruct (switch_target_live _ _ _ _ _ _ E2) as [_ [_ [_ [_ Y]]]]. now rewrite Y.
Qed.

(** a successful refresh leaves a master that the succeeding sentinel named and that answered "master" *)
Lemma switch_all_master c w st s m r st' :
  sc_replica_only c = false -> switch_all c w st s m r = Ok st' ->
  exists a rest, m = Some a /\ ss_m st' = Some a /\ w_nup w a = true /\ w_role w a = RoleArr (s_master_b :: rest) /\ ss_m_src st' = SrcSentinel s.
Proof.
  intros Hr. unfold switch_all. rewrite Hr. destruct (sc_has_str c).
  - destruct m as [ma|]; [|discriminate]. destruct r as [ra|]; [|discriminate].
    destruct (switch_target w st ma true (SrcSentinel s)) as [st1| |] eqn:E1.
    + destruct (switch_target w st1 ra false (SrcSentinel s)) as [st2| |] eqn:E2; try discriminate.
      intro H; inversion H; subst.
      destruct (switch_target_ok _ _ _ _ _ _ E1) as [U1 [rest [R1 [[X1 [X2 [X3 _]]] _]]]].
      destruct (switch_target_ok _ _ _ _ _ _ E2) as [_ [_ [_ [[_ [_ [_ [Y4 [Y5 Y6]]]]] _]]]].
      exists ma, rest. repeat split; auto; congruence.
    + destruct (switch_target w st ra false (SrcSentinel s)); discriminate.
    + discriminate.
  - destruct m as [ma|]; [|discriminate]. intro E1.
    destruct (switch_target_ok _ _ _ _ _ _ E1) as [U1 [rest [R1 [[X1 [X2 [X3 _]]] _]]]].
    exists ma, rest. repeat split; auto.
Qed.

Lemma list_watch_master c w s m r others :
  list_watch c w s = Ok (m, r, others) -> sc_replica_only c = false ->
  exists h p rest, m = Some (h, p) /\ w_master w s = MList (h :: p :: rest).
Proof.
  unfold list_watch. destruct (w_sentinels w s) as [|o]; [discriminate|]. intros H Hr. rewrite Hr in H.
  destruct (if sc_has_str c then _ else _) as [rr| |]; try discriminate.
  destruct (w_master w s) as [|items]; [discriminate|]. destruct items as [|h [|p rest]]; try discriminate.
  inversion H; subst. eauto.
Qed.

Lemma refresh_loop_master c w head : forall fuel st last st',
  sc_replica_only c = false -> refresh_loop fuel c w st head last = Ok (st', ROk) ->
  exists s h p rest1 rest2, w_sup w s = true /\ w_master w s = MList (h :: p :: rest1) /\ ss_m st' = Some (h, p) /\
    w_nup w (h, p) = true /\ w_role w (h, p) = RoleArr (s_master_b :: rest2) /\ ss_m_src st' = SrcSentinel s.
Proof.
  intros fuel. induction fuel as [|f IH]; intros st last st' Hr H.
  - cbn in H. discriminate.
  - cbn [refresh_loop] in H. destruct (ss_list st) as [|s l] eqn:El; [discriminate|].
    assert (Hcont : forall st2 e,
              (let l' := move_to_back (ss_list st2) s in
               let st3 := set_list st2 l' in
               match l' with
               | x :: _ => if saddr_eqb x head then Ok (st3, RFail e) else refresh_loop f c w st3 head e
               | [] => Ok (st3, RFail e)
               end) = Ok (st', ROk) ->
              exists s h p rest1 rest2, w_sup w s = true /\ w_master w s = MList (h :: p :: rest1) /\ ss_m st' = Some (h, p) /\
                w_nup w (h, p) = true /\ w_role w (h, p) = RoleArr (s_master_b :: rest2) /\ ss_m_src st' = SrcSentinel s).
    { intros st2 e E. cbv zeta in E. destruct (move_to_back (ss_list st2) s) as [|x r]; [discriminate|].
      destruct (saddr_eqb x head); [discriminate|]. eapply IH; eauto. }
    destruct (w_sup w s) eqn:Up; cbn [negb] in H; [|now apply (Hcont _ _ H)].
    destruct (list_watch c w s) as [[[m r] others]| |] eqn:Lw; [|now apply (Hcont _ _ H)|discriminate].
    destruct (switch_all c w _ s m r) as [st3| |] eqn:Sw; [|now apply (Hcont _ _ H)|discriminate].
    inversion H; subst st3.
    destruct (switch_all_master _ _ _ _ _ _ _ Hr Sw) as [a [rest [Em [Hm [Hu [Hro Hs]]]]]].
    destruct (list_watch_master _ _ _ _ _ _ Lw Hr) as [h [p [rest1 [Em' Hw]]]].
    rewrite Em in Em'. inversion Em'; subst a. exists s, h, p, rest1, rest. repeat split; auto.
Qed.

(** +switch-master for our set whose target is up and answers "master": the client follows *)
Lemma handle_switch_master n fuel c w st set old_h old_p h p tail rest :
  set = sc_set c -> w_nup w (h, p) = true -> w_role w (h, p) = RoleArr (s_master_b :: rest) ->
  exists st', handle_event n fuel c w st (EvSwitchMaster (set :: old_h :: old_p :: h :: p :: tail)) = Ok st' /\
              ss_m st' = Some (h, p) /\ ss_m_src st' = SrcEvent /\ ss_r st' = ss_r st /\ ss_list st' = ss_list st.
Proof.
  intros -> Hu Hr. cbn [handle_event part idx nth_error bind].
  assert (bytes_eqb (sc_set c) (sc_set c) = true) as -> by (now apply list_eqb_N_spec).
  unfold switch_target. rewrite Hu, Hr. cbn [negb].
  assert (bytes_eqb s_master_b s_master_b = true) as -> by reflexivity.
  eexists. split; [reflexivity|]. cbn. auto.
Qed.

(** an event for another master set is ignored *)
Lemma handle_switch_other_set n fuel c w st parts m0 :
  nth_error parts 0 = Some m0 -> m0 <> sc_set c -> handle_event n fuel c w st (EvSwitchMaster parts) = Ok st.
Proof.
  intros H N. destruct parts as [|x r]; [discriminate|]. cbn in H. inversion H; subst x.
  unfold handle_event, part, idx. cbn [nth_error bind].
  destruct (bytes_eqb m0 (sc_set c)) eqn:E; [apply list_eqb_N_spec in E; contradiction|reflexivity].
Qed.

(** S2: where the code indexes without a guard *)
Lemma switch_target_panic w st a is_master src :
  switch_target w st a is_master src = Panic <-> w_nup w a = true /\ w_role w a = RoleArr [].
Proof.
  unfold switch_target. destruct (w_nup w a); cbn [negb].
  - destruct (w_role w a) as [|[|first rest]].
    + split; [discriminate|intros [_ H]; discriminate].
    + split; auto.
    + split; [destruct is_master; [destruct (bytes_eqb first s_master_b)|destruct (bytes_eqb first s_slave_b)]; discriminate|intros [_ H]; discriminate].
  - split; [discriminate|intros [H _]; discriminate].
Qed.

Lemma list_watch_panic_short_master c w s others items :
  sc_replica_only c = false -> sc_has_str c = false -> w_sentinels w s = SnList others -> w_master w s = MList items ->
  (length items < 2)%nat -> list_watch c w s = Panic.
Proof.
  intros H1 H2 H3 H4 H5. unfold list_watch. rewrite H3, H1, H2, H4.
  destruct items as [|h [|p r]]; cbn in H5; try reflexivity; lia.
Qed.

Lemma handle_switch_master_short n fuel c w st parts :
  nth_error parts 0 = Some (sc_set c) -> (length parts < 5)%nat ->
  handle_event n fuel c w st (EvSwitchMaster parts) = Panic.
Proof.
  intros H L. destruct parts as [|x r]; [discriminate|]. cbn in H. inversion H; subst x.
  unfold handle_event, part, idx. cbn [nth_error bind].
  assert (bytes_eqb (sc_set c) (sc_set c) = true) as -> by (now apply list_eqb_N_spec).
  destruct r as [|a [|b [|d [|e r']]]]; cbn [nth_error bind]; try reflexivity. cbn in L. lia.
Qed.
