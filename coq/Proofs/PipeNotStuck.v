(** C04_not_stuck: while the clean-up loop of _background runs with waits > 0, some thread other than
    the loop's idle spin can take a step: every counted waiter is either about to move by itself or has
    its slot in the queue where the loop (or the still running writer) will reach it. *)
From Coq Require Import List NArith ZArith Bool Arith Lia Permutation.
Require Import RV.Model.Base RV.Model.PipeQueue RV.Model.Pipe RV.Model.PipeLts.
Require Import RV.Proofs.PipeLtsBasics RV.Proofs.PipeReaderProofs RV.Proofs.PipeExclusive RV.Proofs.PipeRouting RV.Proofs.PipeLifecycle.
Import ListNotations.
Open Scope N_scope.

Definition waiting (c : crec) : Prop := (k_pc c = PWait \/ k_drain c = DWait) /\ k_comp c = false.
Definition kw_ok (p : pc) : Prop := match p with PPut | PWait | PGot | PRet => True | _ => False end.

Record InvW (s : pstate) : Prop := mkInvW {
  w_slot : forall t, waiting (p_calls s t) ->
           In t (map s_owner (q_pend (p_q s) ++ q_wr (p_q s))) \/
           (exists r, p_b s = BRead r /\ r_owner r = t /\ (r_ff r < List.length (r_multi r))%nat);
  w_kwait : forall k t', p_closers s k = KWait t' -> kw_ok (k_pc (p_calls s t'));
  w_run : p_b s <> BOff -> p_w s <> WOff
}.

Lemma invw_init g : InvW (p_init g).
Proof.
  constructor; cbn.
  - intros t [[K|K] _]; discriminate.
  - intros k t' K; discriminate.
  - intros K; contradiction.
Qed.

Lemma invw_same s s' :
  InvW s -> p_q s' = p_q s -> p_b s' = p_b s -> p_w s' = p_w s -> p_closers s' = p_closers s ->
  (forall t, k_pc (p_calls s' t) = k_pc (p_calls s t) /\ k_drain (p_calls s' t) = k_drain (p_calls s t) /\
             k_comp (p_calls s' t) = k_comp (p_calls s t)) ->
  InvW s'.
Proof.
  intros [w1 w2 w3] e1 e2 e3 e4 e5. constructor; rewrite ?e1, ?e2, ?e3, ?e4; auto.
  - intros t Hw. apply w1. destruct (e5 t) as (a&b&c). unfold waiting in *. now rewrite <- a, <- b, <- c.
  - intros k t' K. destruct (e5 t') as (a&_). rewrite a. eauto.
Qed.

Lemma invw_call s s' t c' :
  InvW s -> p_q s' = p_q s -> p_b s' = p_b s -> p_w s' = p_w s -> p_closers s' = p_closers s ->
  (forall u, p_calls s' u = upd (p_calls s) t c' u) ->
  (waiting c' -> waiting (p_calls s t)) ->
  (kw_ok (k_pc (p_calls s t)) -> kw_ok (k_pc c')) ->
  InvW s'.
Proof.
  intros [w1 w2 w3] e1 e2 e3 e4 e5 Hw Hk. constructor; rewrite ?e1, ?e2, ?e3, ?e4; auto.
  - intros u Hu. rewrite e5 in Hu. unfold upd in Hu. destruct (N.eqb u t) eqn:E.
    + apply N.eqb_eq in E. subst u. apply w1. auto.
    + apply w1. exact Hu.
  - intros k t' K. rewrite e5. unfold upd. destruct (N.eqb t' t) eqn:E.
    + apply N.eqb_eq in E. subst t'. apply Hk. eauto.
    + eauto.
Qed.

Section NS.
  Variable g : config.
  Hypothesis Hsrv : forall c, cmd_served_ok (g_r2ps g) (g_srv g) c = true.
  Hypothesis Hver : g_ver g <> 6%Z.

  Ltac wcall s t :=
    eapply (invw_call s _ t); [eassumption|reflexivity|reflexivity|reflexivity|reflexivity|intros ?; reflexivity| |].

  Ltac nokw Epc := let K := fresh "K" in intros K; rewrite Epc in K; cbn in K; destruct K.

  Ltac nowait Epc Ed := intros [[K|K] Kc]; cbn in *; try discriminate; try congruence.

  Lemma invw_do_background s : InvW s -> (p_bg s = false -> p_b s = BOff) -> InvW (do_background s).
  Proof.
    intros [w1 w2 w3] Hb. unfold do_background. destruct (p_bg s).
    - constructor; cbn; auto.
    - constructor; cbn; auto.
      + intros t Hw. destruct (w1 t Hw) as [K|(r&K&_)]; [now left|]. rewrite (Hb eq_refl) in K. discriminate.
      + intros _; discriminate.
  Qed.

  Lemma invw_step s l s' : InvA s -> InvB g s -> InvW s -> pstep g s l = Some s' -> InvW s'.
  Proof.
    intros IA IB IW H.
    assert (Hbo : p_bg s = false -> p_b s = BOff) by (intros K; apply (a_bgw s IA K)).
    destruct l; cbn [pstep] in H.
    - (* LCall *) break_step H. inversion H; subst; clear H.
      destruct (fresh_notin s t) as [Hn _]; [apply andb_true_iff in E as [E _]; apply andb_true_iff in E as [E _]; apply andb_true_iff in E as [E _]; exact E|].
      destruct (a_idle s IA t Hn) as [Epc Ed].
      eapply (invw_call s _ t); [eassumption|reflexivity|reflexivity|reflexivity|reflexivity|intros ?; reflexivity| |].
      + intros [[K|K] _]; discriminate.
      + nokw Epc.
    - (* LIncr *) destruct (k_pc (p_calls s t)) eqn:Epc; try discriminate.
      assert (Ed : k_drain (p_calls s t) = DNone) by (apply drain_none; [assumption|congruence]).
      break_step H; inversion H; subst; clear H.
      all: wcall s t; [intros [[K|K] _]; cbn in K; congruence|nokw Epc].
    - (* LLoad *) destruct (k_pc (p_calls s t)) eqn:Epc; try discriminate.
      assert (Ed : k_drain (p_calls s t) = DNone) by (apply drain_none; [assumption|congruence]).
      break_step H; inversion H; subst; clear H.
      all: wcall s t; [intros [[K|K] _]; cbn in K; congruence|nokw Epc].
    - (* LBg *) destruct (k_pc (p_calls s t)) eqn:Epc; try discriminate. inversion H; subst; clear H.
      assert (Ed : k_drain (p_calls s t) = DNone) by (apply drain_none; [assumption|congruence]).
      pose proof (invw_do_background s IW Hbo) as I1.
      assert (Ec : p_calls (do_background s) = p_calls s) by (unfold do_background; destruct (p_bg s); reflexivity).
      eapply (invw_call (do_background s) _ t); [exact I1|reflexivity|reflexivity|reflexivity|reflexivity|intros ?; reflexivity| |].
      + intros [[K|K] _]; cbn in K; congruence.
      + rewrite Ec. nokw Epc.
    - (* LSyncW *) destruct (k_pc (p_calls s t)) eqn:Epc; try discriminate. break_step H. inversion H; subst; clear H.
      assert (Ed : k_drain (p_calls s t) = DNone) by (apply drain_none; [assumption|congruence]).
      (wcall s t; [intros [[K|K] _]; cbn in K; congruence|nokw Epc]).
    - (* LSyncR *) destruct (k_pc (p_calls s t)) as [| | | | |k| | | | | | |] eqn:Epc; try discriminate.
      assert (Ed : k_drain (p_calls s t) = DNone) by (apply drain_none; [assumption|congruence]).
      destruct k as [|k]; [discriminate|]. destruct (p_s2c s) as [|f rest]; [discriminate|].
      destruct (N.eqb (m_typ f) t_push).
      + inversion H; subst. apply (invw_same s); auto; intros; repeat split; reflexivity.
      + inversion H; subst; clear H. destruct k.
        * wcall s t; [intros [[K|K] _]; cbn in K; congruence|nokw Epc].
        * wcall s t; [intros [[K|K] _]; cbn in K; congruence|nokw Epc].
    - (* LSyncFail *)
      destruct ((match k_pc (p_calls s t) with PSyncW | PSyncR _ => true | _ => false end) &&
                (if ctxerr then match k_ctx (p_calls s t) with CtxDeadline => k_done (p_calls s t) | _ => false end else true)) eqn:G; [|discriminate].
      apply andb_true_iff in G as [G _]. inversion H; subst; clear H.
      assert (Hpc : k_pc (p_calls s t) <> PRet /\ ~ kw_ok (k_pc (p_calls s t))) by (destruct (k_pc (p_calls s t)); try discriminate; split; try discriminate; intros K; exact K).
      destruct Hpc as [Hpc Hkw].
      assert (Ed : k_drain (p_calls s t) = DNone) by (apply drain_none; assumption).
      set (e := if ctxerr then ECtx else EConn).
      assert (I0 : InvW (set_wire (latch s e true) [] [])) by (apply (invw_same s); auto).
      pose proof (invw_do_background _ I0 Hbo) as I1.
      eapply (invw_call _ _ t); [exact I1|reflexivity|reflexivity|reflexivity|reflexivity|intros ?; reflexivity| |].
      + intros [[K|K] _]; cbn in K; congruence.
      + intros K. exfalso. apply Hkw. revert K. unfold do_background. cbn. destruct (p_bg s); cbn; auto.
    - (* LErr *) destruct (k_pc (p_calls s t)) eqn:Epc; try discriminate. inversion H; subst; clear H.
      assert (Ed : k_drain (p_calls s t) = DNone) by (apply drain_none; [assumption|congruence]).
      (wcall s t; [intros [[K|K] _]; cbn in K; congruence|nokw Epc]).
    - (* LDecr *) destruct (k_pc (p_calls s t)) as [| | | | | | |st0| | | | |] eqn:Epc; try discriminate.
      assert (Ed : k_drain (p_calls s t) = DNone) by (apply drain_none; [assumption|congruence]).
      break_step H; inversion H; subst; clear H.
      all: wcall s t; [intros [[K|K] _]; cbn in K; congruence|nokw Epc].
    - (* LBgAfter *) destruct (k_pc (p_calls s t)) eqn:Epc; try discriminate. inversion H; subst; clear H.
      assert (Ed : k_drain (p_calls s t) = DNone) by (apply drain_none; [assumption|congruence]).
      pose proof (invw_do_background s IW Hbo) as I1.
      assert (Ec : p_calls (do_background s) = p_calls s) by (unfold do_background; destruct (p_bg s); reflexivity).
      eapply (invw_call (do_background s) _ t); [exact I1|reflexivity|reflexivity|reflexivity|reflexivity|intros ?; reflexivity| |].
      + intros [[K|K] _]; cbn in K; congruence.
      + rewrite Ec. nokw Epc.
    - (* LPut *) destruct (k_pc (p_calls s t)) eqn:Epc; try discriminate.
      destruct (q_put (p_q s) (slot_of t (p_calls s t))) as [q'|] eqn:Eq; [|discriminate]. inversion H; subst; clear H.
      unfold q_put in Eq. destruct (q_can_put (p_q s)); [|discriminate]. inversion Eq; subst; clear Eq.
      destruct IW as [w1 w2 w3]. constructor; cbn; auto.
      + intros u Hu. unfold upd in Hu. destruct (N.eqb u t) eqn:E.
        * apply N.eqb_eq in E. subst u. left. rewrite <- app_assoc, map_app. apply in_or_app. right. cbn. now left.
        * destruct (w1 u Hu) as [K|K]; [|now right]. left. rewrite <- app_assoc, map_app. rewrite map_app in K.
          apply in_app_or in K as [K|K]; apply in_or_app; [now left|right]. cbn. now right.
      + intros k t' K. unfold upd. destruct (N.eqb t' t) eqn:E; [exact I|eauto].
    - (* LPutFail *) destruct (k_pc (p_calls s t)) eqn:Epc; try discriminate. break_step H. inversion H; subst; clear H.
      assert (Ed : k_drain (p_calls s t) = DNone) by (apply drain_none; [assumption|congruence]).
      wcall s t; [intros [[K|K] _]; cbn in K; congruence|intros _; exact I].
    - (* LRecv *) destruct (k_pc (p_calls s t)) eqn:Epc; try discriminate. break_step H. inversion H; subst; clear H.
      assert (Ed : k_drain (p_calls s t) = DNone) by (apply drain_none; [assumption|congruence]).
      wcall s t; [intros [[K|K] _]; cbn in K; congruence|intros _; exact I].
    - (* LAbort *) destruct (k_pc (p_calls s t)) eqn:Epc; try discriminate. break_step H. inversion H; subst; clear H.
      wcall s t; [|intros _; exact I].
      intros [_ Kc]. cbn in Kc. split; [now left|exact Kc].
    - (* LFin *) destruct (k_pc (p_calls s t)) eqn:Epc; try discriminate. inversion H; subst; clear H.
      assert (Ed : k_drain (p_calls s t) = DNone) by (apply drain_none; [assumption|congruence]).
      wcall s t; [intros [[K|K] _]; cbn in K; congruence|intros _; exact I].
    - (* LDrainRecv *) destruct (k_drain (p_calls s t)) eqn:Ed; try discriminate. break_step H. inversion H; subst; clear H.
      assert (Epc : k_pc (p_calls s t) = PRet) by (apply (a_dr s IA); congruence).
      wcall s t; [intros [[K|K] _]; cbn in K; congruence|cbn; rewrite Epc; intros _; exact I].
    - (* LDrainFin *) destruct (k_drain (p_calls s t)) eqn:Ed; try discriminate. inversion H; subst; clear H.
      assert (Epc : k_pc (p_calls s t) = PRet) by (apply (a_dr s IA); congruence).
      wcall s t; [intros [[K|K] _]; cbn in K; congruence|cbn; rewrite Epc; intros _; exact I].
    - (* LCtxDone *)
      assert (K : (if k_done (p_calls s t) then None else Some (set_call s t (with_done (p_calls s t)))) = Some s' -> InvW s').
      { destruct (k_done (p_calls s t)); [discriminate|]. intros H1. inversion H1; subst.
        apply (invw_same s); auto; try (intros; repeat split; reflexivity). intros u. cbn. unfold upd. destruct (N.eqb u t) eqn:E; [apply N.eqb_eq in E; subst; auto|auto]. }
      destruct (k_ctx (p_calls s t)); [discriminate| |]; destruct (k_pc (p_calls s t)); try discriminate; auto.
    - (* LWNext *)
      destruct (p_w s) eqn:Ew; try discriminate. destruct (wnext_blocked g (p_q s)); [discriminate|].
      unfold q_next_write in H. destruct (q_pend (p_q s)) as [|x p] eqn:Ep; [discriminate|]. inversion H; subst; clear H.
      destruct IW as [w1 w2 w3]. constructor; cbn; auto.
      + intros u Hu. destruct (w1 u Hu) as [K|K]; [|now right]. left. rewrite Ep in K.
        eapply Permutation_in; [apply (Permutation_map s_owner (move_perm x p (q_wr (p_q s))))|exact K].
    - break_step H. inversion H; subst. apply (invw_same s); auto; try (intros; repeat split; reflexivity).
    - (* LWExit *) break_step H. inversion H; subst; clear H. destruct IW as [w1 w2 w3]. constructor; cbn; auto. intros _; discriminate.
    - break_step H. inversion H; subst. apply (invw_same s); auto; try (intros; repeat split; reflexivity).
    - break_step H. inversion H; subst. apply (invw_same s); auto; try (intros; repeat split; reflexivity).
    - (* LRStep *)
      change (pstep g s LRStep = Some s') in H.
      assert (IB' : InvB g s') by (eapply invb_step; eauto).
      destruct (rstep_effect g Hsrv Hver s s' IB H) as (r&r'&Eb&Eb'&Hpend&Hwlog&Hpc&Hcomp&Heff).
      assert (Ecl : p_closers s' = p_closers s /\ p_w s' = p_w s).
      { cbn [pstep] in H. rewrite Eb in H. destruct (p_s2c s) as [|f rest]; [discriminate|].
        destruct (reader_step (g_r2ps g) (g_ver g) (hd_error (q_wr (p_q s))) r f) as [rr acts].
        destruct (existsb is_bad acts); [discriminate|]. inversion H; subst.
        pose proof (fold_apply_same_ctl (r_owner rr) (r_resps rr) acts (set_wire s (p_c2s s) rest)) as K.
        destruct K as (a1&a2&a3&a4&a5&a6&a7&a8&a9&a10&a11&a12&a13&a14&a15&a16&a17&a18). cbn. split; auto. }
      destruct Ecl as [Ecl Ew].
      destruct IW as [w1 w2 w3]. constructor.
      + intros u [Hu1 Hu2].
        assert (Hw : waiting (p_calls s u)).
        { destruct (Hpc u) as [K1 K2]. split; [rewrite <- K1, <- K2; exact Hu1|apply Hcomp; exact Hu2]. }
        destruct Heff as [(D1&D2&D3&D4&D5)|(c&L&EL&Edl&EL'&Hland&Hfull)].
        * destruct (w1 u Hw) as [K|(r0&K1&K2&K3)].
          -- left. now rewrite Hpend, D2.
          -- right. rewrite Eb in K1. inversion K1; try subst r0. exists r'. rewrite D3, D4, D5. auto.
        * destruct (w1 u Hw) as [K|(r0&K1&K2&K3)].
          -- destruct Hland as [(W1&W2&W3&W4&W5)|(sl&W1&W2&W3&W4&W5)].
             ++ left. now rewrite Hpend, W1.
             ++ rewrite W1, map_app in K. cbn in K. apply in_app_or in K as [K|[K|K]].
                ** left. rewrite Hpend, map_app. apply in_or_app. now left.
                ** (* the slot just taken *)
                   destruct (Nat.eq_dec (r_ff r') (List.length (r_multi r'))) as [Ef|Nf].
                   --- exfalso. rewrite <- K, <- W2 in Hu2. rewrite (Hfull Ef) in Hu2. discriminate.
                   --- right. exists r'. split; [exact Eb'|split; [congruence|]].
                       destruct (b_cur g s' IB' r' Eb') as (_&_&K2&_). lia.
                ** left. rewrite Hpend, map_app. apply in_or_app. now right.
          -- rewrite Eb in K1. inversion K1; try subst r0.
             destruct Hland as [(W1&W2&W3&W4&W5)|(sl&W1&W2&W3&W4&W5)]; [|lia].
             destruct (Nat.eq_dec (r_ff r') (List.length (r_multi r'))) as [Ef|Nf].
             ++ exfalso. rewrite <- K2, <- W2 in Hu2. rewrite (Hfull Ef) in Hu2. discriminate.
             ++ right. exists r'. split; [exact Eb'|split; [congruence|]].
                destruct (b_cur g s' IB' r' Eb') as (_&_&K4&_). lia.
      + intros k t' K. rewrite Ecl in K. destruct (Hpc t') as [K1 _]. rewrite K1. eauto.
      + rewrite Ew, Eb'. intros _. apply w3. rewrite Eb. discriminate.
    - (* LRFail *)
      destruct (p_b s) as [|r| | | |] eqn:Eb; try discriminate.
      destruct (reader_exit r) as [idx complete] eqn:Ere. inversion H; subst; clear H.
      unfold reader_exit in Ere.
      destruct IW as [w1 w2 w3]. destruct complete.
      + destruct (Nat.ltb (r_ff r) (List.length (r_multi r))) eqn:El; [|inversion Ere].
        constructor; cbn; auto.
        * intros u [Hu1 Hu2]. unfold upd in Hu1, Hu2. destruct (N.eqb u (r_owner r)) eqn:E; [cbn in Hu2; discriminate|].
          destruct (w1 u (conj Hu1 Hu2)) as [K|(r0&K1&K2&K3)]; [now left|].
          rewrite Eb in K1; inversion K1; try subst r0. apply N.eqb_neq in E. exfalso. apply E. symmetry. exact K2.
        * intros k t' K. unfold upd. destruct (N.eqb t' (r_owner r)) eqn:E2; cbn; [apply N.eqb_eq in E2; subst t'; eauto|eauto].
        * intros _. apply w3. rewrite Eb. discriminate.
      + destruct (Nat.ltb (r_ff r) (List.length (r_multi r))) eqn:El; [inversion Ere|].
        constructor; cbn; auto.
        * intros u Hu. destruct (w1 u Hu) as [K|(r0&K1&K2&K3)]; [now left|].
          rewrite Eb in K1; inversion K1; try subst r0. apply Nat.ltb_ge in El. lia.
        * intros _. apply w3. rewrite Eb. discriminate.
    - (* LPostSkip *) break_step H. inversion H; subst; clear H. destruct IW as [w1 w2 w3]. constructor; cbn; auto.
      + intros u Hu. destruct (w1 u Hu) as [K|(r0&K1&_)]; [now left|rewrite E in K1; discriminate].
      + intros _. apply w3. rewrite E. discriminate.
    - (* LPostPing *) destruct (p_b s) eqn:Eb; try discriminate. break_step H. inversion H; subst; clear H.
      apply andb_true_iff in E as [_ E]. destruct (fresh_notin s t' E) as [Hn _]. destruct (a_idle s IA t' Hn) as [Epc Ed].
      destruct IW as [w1 w2 w3]. constructor; cbn; auto.
      + intros u Hu. unfold upd in Hu. destruct (N.eqb u t') eqn:E1; [destruct Hu as [[K|K] _]; discriminate|].
        destruct (w1 u Hu) as [K|(r0&K1&_)]; [now left|rewrite Eb in K1; discriminate].
      + intros k u K. unfold upd. destruct (N.eqb u t'); [exact I|eauto].
      + intros _. apply w3. rewrite Eb. discriminate.
    - (* LCleanNW *)
      destruct (p_b s) eqn:Eb; try discriminate. destruct (p_wclosed s && negb (Nat.eqb (p_waits s) 0)); [|discriminate].
      unfold q_next_write in H. destruct (q_pend (p_q s)) as [|x p] eqn:Ep; [discriminate|]. inversion H; subst; clear H.
      destruct IW as [w1 w2 w3]. constructor; cbn; auto.
      intros u Hu. destruct (w1 u Hu) as [K|K]; [|now right]. left. rewrite Ep in K.
      eapply Permutation_in; [apply (Permutation_map s_owner (move_perm x p (q_wr (p_q s))))|exact K].
    - (* LCleanNR *)
      destruct (p_b s) eqn:Eb; try discriminate. destruct (negb (Nat.eqb (p_waits s) 0)); [|discriminate].
      unfold q_next_result in H. destruct (q_wr (p_q s)) as [|sl wr'] eqn:Ew; [discriminate|]. inversion H; subst; clear H.
      destruct IW as [w1 w2 w3]. constructor; cbn; auto.
      + intros u [Hu1 Hu2]. unfold upd in Hu1, Hu2. destruct (N.eqb u (s_owner sl)) eqn:E; [cbn in Hu2; discriminate|].
        destruct (w1 u (conj Hu1 Hu2)) as [K|(r0&K1&_)]; [|rewrite Eb in K1; discriminate].
        left. rewrite Ew, map_app in K. cbn in K. rewrite map_app. apply in_app_or in K as [K|[K|K]]; apply in_or_app; auto.
        apply N.eqb_neq in E. congruence.
      + intros k t' K. unfold upd. destruct (N.eqb t' (s_owner sl)) eqn:E2; cbn; [apply N.eqb_eq in E2; subst t'; eauto|eauto].
    - break_step H. inversion H; subst. assumption.
    - (* LCleanExit *) break_step H. inversion H; subst; clear H. destruct IW as [w1 w2 w3]. constructor; cbn; auto.
      + intros u Hu. destruct (w1 u Hu) as [K|(r0&K1&_)]; [now left|rewrite E in K1; discriminate].
      + intros _. apply w3. rewrite E. discriminate.
    - (* LFinal *) break_step H. inversion H; subst; clear H. destruct IW as [w1 w2 w3]. constructor; cbn; auto.
      + intros u Hu. destruct (w1 u Hu) as [K|(r0&K1&_)]; [now left|rewrite E in K1; discriminate].
      + intros _. apply w3. rewrite E. discriminate.
    - break_step H. inversion H; subst. apply (invw_same s); auto; try (intros; repeat split; reflexivity).
    - inversion H; subst. apply (invw_same s); auto; try (intros; repeat split; reflexivity).
    - (* LClose1 *) break_step H. inversion H; subst; clear H. destruct IW as [w1 w2 w3]. constructor; cbn; auto.
      intros k t' K. unfold upd in K. destruct (N.eqb k t); [discriminate|eauto].
    - (* LClose2 *) destruct (p_closers s t) eqn:Ek; try discriminate. inversion H; subst; clear H.
      destruct IW as [w1 w2 w3]. constructor; cbn; auto.
      intros k t' K. unfold upd in K. destruct (N.eqb k t); [discriminate|eauto].
    - (* LClose3 *) destruct (p_closers s t) as [| |bg ping| | |] eqn:Ek; try discriminate. destruct bg.
      + inversion H; subst; clear H. pose proof (invw_do_background s IW Hbo) as [w1 w2 w3].
        assert (Ec : p_closers (do_background s) = p_closers s) by (unfold do_background; destruct (p_bg s); reflexivity).
        constructor; cbn; auto.
        intros k t' K. unfold upd in K. rewrite Ec in K. destruct (N.eqb k t); [discriminate|].
        apply (w2 k). now rewrite Ec.
      + destruct ping; [discriminate|]. inversion H; subst; clear H.
        destruct IW as [w1 w2 w3]. constructor; cbn; auto.
        intros k t' K. unfold upd in K. destruct (N.eqb k t); [discriminate|eauto].
    - (* LClose4 *) destruct (p_closers s t) as [| |bg ping| | |] eqn:Ek; try discriminate. break_step H. inversion H; subst; clear H.
      destruct (fresh_notin s t' E1) as [Hn _]. destruct (a_idle s IA t' Hn) as [Epc Ed].
      destruct IW as [w1 w2 w3]. constructor; cbn; auto.
      + intros u Hu. unfold upd in Hu. destruct (N.eqb u t') eqn:E2; [destruct Hu as [[K|K] _]; discriminate|]. auto.
      + intros k u K. unfold upd in *. destruct (N.eqb k t) eqn:E3.
        * inversion K; subst u. rewrite N.eqb_refl. exact I.
        * destruct (N.eqb u t') eqn:E4; [exact I|eauto].
    - (* LCloseJoin *) destruct (p_closers s t) eqn:Ek; try discriminate. break_step H. inversion H; subst; clear H.
      destruct IW as [w1 w2 w3]. constructor; cbn; auto.
      intros k u K. unfold upd in K. destruct (N.eqb k t); [discriminate|eauto].
    - (* LClose5 *) destruct (p_closers s t) eqn:Ek; try discriminate. inversion H; subst; clear H.
      destruct IW as [w1 w2 w3]. constructor; cbn; auto.
      intros k u K. unfold upd in K. destruct (N.eqb k t); [discriminate|eauto].
  Qed.
End NS.

(** the capacity of the queue never changes *)
Lemma apply_act_cap o m s a : q_cap (p_q (apply_act o m s a)) = q_cap (p_q s).
Proof.
  destruct a as [k v|got|i c|i mg|i x|x|w|]; cbn [apply_act]; try reflexivity.
  - destruct got; [|reflexivity]. unfold q_next_result. destruct (q_wr (p_q s)); reflexivity.
  - destruct m; reflexivity.
Qed.

Lemma fold_apply_cap o m acts : forall s, q_cap (p_q (fold_left (apply_act o m) acts s)) = q_cap (p_q s).
Proof.
  induction acts as [|a acts IH]; intros s; cbn [fold_left]; [reflexivity|]. rewrite IH. apply apply_act_cap.
Qed.

Lemma cap_step g s l s' : pstep g s l = Some s' -> q_cap (p_q s') = q_cap (p_q s).
Proof.
  intros H. destruct l; cbn [pstep] in H; break_step H;
    try (inversion H; subst; clear H; cbn; reflexivity);
    try (inversion H; subst; clear H; unfold do_background; cbn; destruct (p_bg s); reflexivity).
  all: try (inversion H; subst; clear H; cbn; unfold q_put, q_next_write, q_next_result in *;
            repeat match goal with E : context [match ?x with _ => _ end] |- _ => destruct x; try discriminate E end;
            repeat match goal with E : Some _ = Some _ |- _ => inversion E; subst; clear E end; reflexivity).
  all: try (inversion H; subst; clear H; cbn; rewrite fold_apply_cap; reflexivity).
  all: try (inversion H; subst; clear H; cbn; destruct b; reflexivity).
Qed.

Lemma cap_run g sched : forall s s', prun g sched s = Some s' -> q_cap (p_q s') = q_cap (p_q s).
Proof.
  induction sched as [|l r IH]; intros s s' H; cbn [prun] in H.
  - inversion H; subst; reflexivity.
  - destruct (pstep g s l) as [s1|] eqn:E; [|discriminate]. rewrite (IH _ _ H). eapply cap_step; eauto.
Qed.

(** steps that count as progress of the system: everything except the loop's idle spin and the
    environment's own initiatives (new calls, cancellations, failures, server activity, a new Close) *)
Definition progress_label (l : label) : bool :=
  match l with
  | LCleanSpin | LCall _ _ _ _ | LCtxDone _ | LFail | LExtExit | LSrv | LSrvPush _ | LClose1 _ => false
  | _ => true
  end.

Lemma sumf_pos {A} (f : A -> nat) l : (0 < sumf f l)%nat -> exists x, In x l /\ (0 < f x)%nat.
Proof.
  induction l as [|a l IH]; cbn; intros H; [lia|].
  destruct (f a) eqn:E.
  - destruct (IH H) as (x&Hx&Hf). exists x. split; [now right|exact Hf].
  - exists a. split; [now left|lia].
Qed.

Fixpoint list_max (l : list N) : N := match l with [] => 0 | x :: r => N.max x (list_max r) end.
Lemma list_max_ge l x : In x l -> x <= list_max l.
Proof. induction l as [|a l IH]; intros H; [destruct H|]. cbn. destruct H as [->|H]; [lia|]. specialize (IH H). lia. Qed.
Definition fresh_id (s : pstate) : N := N.succ (N.max (list_max (p_tids s)) (list_max (p_ktids s))).
Lemma fresh_id_ok s : fresh s (fresh_id s) = true.
Proof.
  unfold fresh. apply andb_true_iff. split; apply negb_true_iff; apply not_true_is_false; intros H;
    apply existsb_exists in H as (x&Hx&E); apply N.eqb_eq in E; subst x; apply list_max_ge in Hx; unfold fresh_id in Hx; lia.
Qed.

Section NotStuck.
  Variable g : config.
  Hypothesis Hsrv : forall c, cmd_served_ok (g_r2ps g) (g_srv g) c = true.
  Hypothesis Hver : g_ver g <> 6%Z.
  Hypothesis Hcap : (0 < g_cap g)%nat.

  Definition can_progress (s : pstate) : Prop := exists l s', progress_label l = true /\ pstep g s l = Some s'.

  Lemma queue_progress s :
    InvA s -> InvB g s -> InvC s -> InvW s -> p_b s = BClean -> (0 < p_waits s)%nat ->
    q_pend (p_q s) ++ q_wr (p_q s) <> [] -> can_progress s.
  Proof.
    intros IA IB IC IW Eb Hw Hne.
    assert (Hw0 : Nat.eqb (p_waits s) 0 = false) by (apply Nat.eqb_neq; lia).
    destruct (q_wr (p_q s)) as [|sl wr'] eqn:Ewr.
    - destruct (q_pend (p_q s)) as [|x p] eqn:Ep; [contradiction|].
      destruct (p_wclosed s) eqn:Ec.
      + exists LCleanNW. eexists. split; [reflexivity|]. cbn [pstep]. rewrite Eb, Ec, Hw0. cbn. unfold q_next_write. rewrite Ep. reflexivity.
      + assert (Hrun : p_w s = WRun).
        { destruct (p_w s) eqn:E.
          - exfalso. apply (w_run s IW); [rewrite Eb; discriminate|exact E].
          - reflexivity.
          - apply (c_wdone s IC) in E. congruence. }
        assert (Hh : q_held (p_q s) = false) by (apply (b_held g s IB); intros r; rewrite Eb; discriminate).
        exists LWNext. eexists. split; [reflexivity|]. cbn [pstep]. rewrite Hrun.
        assert (wnext_blocked g (p_q s) = false) as -> by (unfold wnext_blocked; destruct (g_kind g); [rewrite Hh|]; reflexivity).
        unfold q_next_write. rewrite Ep. reflexivity.
    - exists LCleanNR. eexists. split; [reflexivity|]. cbn [pstep]. rewrite Eb, Hw0. cbn. unfold q_next_result. rewrite Ewr. reflexivity.
  Qed.

  Lemma caller_progress s t :
    InvA s -> InvB g s -> InvC s -> InvW s -> p_b s = BClean -> (0 < p_waits s)%nat ->
    q_cap (p_q s) = g_cap g -> (0 < holds (p_calls s t))%nat -> can_progress s.
  Proof.
    intros IA IB IC IW Eb Hw Hcp Hh.
    assert (Hbg : p_bg s = true) by (apply bg_of_b; [assumption|rewrite Eb; discriminate]).
    assert (Hheld : q_held (p_q s) = false) by (apply (b_held g s IB); intros r; rewrite Eb; discriminate).
    assert (Hq : In t (map s_owner (q_pend (p_q s) ++ q_wr (p_q s))) -> can_progress s).
    { intros Hin. apply queue_progress; auto. intros E. rewrite E in Hin. destruct Hin. }
    unfold holds in Hh.
    destruct (k_pc (p_calls s t)) as [| |w| | |k| |b| | | | |] eqn:Epc.
    - (* PIdle *) destruct (k_drain (p_calls s t)) eqn:Ed; cbn in Hh; try lia;
        assert (k_pc (p_calls s t) = PRet) by (apply (a_dr s IA); congruence); congruence.
    - destruct (k_drain (p_calls s t)) eqn:Ed; cbn in Hh; try lia;
        assert (k_pc (p_calls s t) = PRet) by (apply (a_dr s IA); congruence); congruence.
    - exists (LLoad t). cbn [pstep]. rewrite Epc.
      destruct (N.eqb (p_st s) 1); [eexists; split; reflexivity|].
      destruct (N.eqb (p_st s) 0); [|eexists; split; reflexivity].
      destruct (negb (Nat.eqb w 1)); [eexists; split; reflexivity|].
      destruct (needs_bg (p_calls s t)); eexists; split; reflexivity.
    - exists (LBg t). cbn [pstep]. rewrite Epc. eexists; split; reflexivity.
    - exfalso. assert (K : sync_user (p_calls s t) = true) by (unfold sync_user; now rewrite Epc).
      rewrite (a_e2 s IA Hbg t) in K. discriminate.
    - exfalso. assert (K : sync_user (p_calls s t) = true) by (unfold sync_user; now rewrite Epc).
      rewrite (a_e2 s IA Hbg t) in K. discriminate.
    - exists (LErr t). cbn [pstep]. rewrite Epc. eexists; split; reflexivity.
    - exists (LDecr t). cbn [pstep]. rewrite Epc.
      destruct (b && negb (Nat.eqb (p_waits s) 1)); eexists; split; reflexivity.
    - exists (LBgAfter t). cbn [pstep]. rewrite Epc. eexists; split; reflexivity.
    - (* PPut *)
      destruct (q_can_put (p_q s)) eqn:Ecp.
      + exists (LPut t). cbn [pstep]. rewrite Epc. unfold q_put. rewrite Ecp. eexists; split; reflexivity.
      + apply queue_progress; auto. intros E. apply app_eq_nil in E as [E1 E2].
        unfold q_can_put, q_used in Ecp. rewrite E1, E2, Hheld, Hcp in Ecp. cbn in Ecp. destruct (g_cap g); [lia|discriminate].
    - (* PWait *)
      destruct (k_comp (p_calls s t)) eqn:Ec.
      + exists (LRecv t). cbn [pstep]. rewrite Epc, Ec. eexists; split; reflexivity.
      + destruct (w_slot s IW t) as [K|(r&K&_)]; [split; [now left|exact Ec]|auto|rewrite Eb in K; discriminate].
    - exists (LFin t). cbn [pstep]. rewrite Epc. eexists; split; reflexivity.
    - (* PRet: the drainer *)
      destruct (k_drain (p_calls s t)) eqn:Ed; cbn in Hh; try lia.
      + destruct (k_comp (p_calls s t)) eqn:Ec.
        * exists (LDrainRecv t). cbn [pstep]. rewrite Ed, Ec. eexists; split; reflexivity.
        * destruct (w_slot s IW t) as [K|(r&K&_)]; [split; [now right|exact Ec]|auto|rewrite Eb in K; discriminate].
      + exists (LDrainFin t). cbn [pstep]. rewrite Ed. eexists; split; reflexivity.
  Qed.

  (** C04_not_stuck *)
  Theorem not_stuck s :
    InvA s -> InvB g s -> InvC s -> InvW s -> q_cap (p_q s) = g_cap g ->
    p_b s = BClean -> (0 < p_waits s)%nat -> can_progress s.
  Proof.
    intros IA IB IC IW Hcp Eb Hw.
    pose proof (a_count s IA) as Hc. unfold hsum in Hc.
    destruct (Nat.eq_dec (sumf (fun t => holds (p_calls s t)) (p_tids s)) 0) as [E0|N0].
    - assert (Hk : (0 < sumf (fun t => kholds (p_closers s t)) (p_ktids s))%nat) by lia.
      destruct (sumf_pos _ _ Hk) as (k&_&Hkk).
      destruct (p_closers s k) as [|w|bg ping|t'| |] eqn:Ek; cbn in Hkk; try lia.
      + exists (LClose2 k false). cbn [pstep]. rewrite Ek. eexists; split; reflexivity.
      + destruct bg.
        * exists (LClose3 k). cbn [pstep]. rewrite Ek. eexists; split; reflexivity.
        * destruct ping.
          -- exists (LClose4 k (fresh_id s)). cbn [pstep]. rewrite Ek, fresh_id_ok. eexists; split; reflexivity.
          -- exists (LClose3 k). cbn [pstep]. rewrite Ek. eexists; split; reflexivity.
      + pose proof (w_kwait s IW k t' Ek) as Kw.
        destruct (k_pc (p_calls s t')) eqn:Epc; try contradiction.
        * eapply (caller_progress s t'); eauto. unfold holds. rewrite Epc. lia.
        * eapply (caller_progress s t'); eauto. unfold holds. rewrite Epc. lia.
        * eapply (caller_progress s t'); eauto. unfold holds. rewrite Epc. lia.
        * exists (LCloseJoin k). cbn [pstep]. rewrite Ek, Epc. eexists; split; reflexivity.
      + exists (LClose5 k). cbn [pstep]. rewrite Ek. eexists; split; reflexivity.
    - assert (Hp : (0 < sumf (fun t => holds (p_calls s t)) (p_tids s))%nat) by lia.
      destruct (sumf_pos _ _ Hp) as (t&_&Ht). eapply (caller_progress s t); eauto.
  Qed.
End NotStuck.

Section NotStuckReach.
  Variable g : config.
  Hypothesis Hsrv : forall c, cmd_served_ok (g_r2ps g) (g_srv g) c = true.
  Hypothesis Hver : g_ver g <> 6%Z.
  Hypothesis Hcap : (0 < g_cap g)%nat.

  Theorem all_run sched : forall s s', InvA s -> InvB g s -> InvC s -> InvW s -> prun g sched s = Some s' ->
    InvA s' /\ InvB g s' /\ InvC s' /\ InvW s'.
  Proof.
    induction sched as [|l r IH]; intros s s' IA IB IC IW H; cbn [prun] in H.
    - inversion H; subst; auto.
    - destruct (pstep g s l) as [s1|] eqn:E; [|discriminate]. eapply IH; [| | | |exact H].
      + eapply inva_step; eauto.
      + eapply invb_step; eauto.
      + eapply invc_step; eauto.
      + eapply invw_step; eauto.
  Qed.

  Theorem not_stuck_reach sched s :
    prun g sched (p_init g) = Some s -> p_b s = BClean -> (0 < p_waits s)%nat -> can_progress g s.
  Proof.
    intros H Eb Hw.
    destruct (all_run sched _ _ (inva_init g) (invb_init g) (invc_init g) (invw_init g) H) as (IA&IB&IC&IW).
    apply not_stuck; auto. rewrite (cap_run g sched _ _ H). reflexivity.
  Qed.
End NotStuckReach.
