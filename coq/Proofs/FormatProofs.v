(** Proofs for Model/Format.v: the base-10 printer produces the canonical decimal numeral of its argument. *)
From Coq Require Import List Arith NArith ZArith Bool Lia.
Require Import RV.Model.Base RV.Model.Format.
Import ListNotations.
Open Scope N_scope.

Lemma size_nat_gt p : Npos p < 2 ^ N.of_nat (Pos.size_nat p).
Proof.
  induction p as [p IH|p IH|]; cbn [Pos.size_nat]; rewrite ?Nat2N.inj_succ, ?N.pow_succ_r'.
  - change (N.pos p~1) with (2 * N.pos p + 1). lia.
  - change (N.pos p~0) with (2 * N.pos p). lia.
  - cbn. lia.
Qed.

Lemma N_size_nat_gt n : n < 2 ^ N.of_nat (S (N.size_nat n)).
Proof.
  destruct n as [|p]; [cbn; lia|].
  cbn [N.size_nat]. rewrite Nat2N.inj_succ, N.pow_succ_r'. pose proof (size_nat_gt p). lia.
Qed.

Lemma dec_value_aux_app l1 : forall l2 a,
  dec_value_aux (l1 ++ l2) a =
  match dec_value_aux l1 a with Some a' => dec_value_aux l2 a' | None => None end.
Proof.
  induction l1 as [|b l1 IH]; intros l2 a; cbn [app dec_value_aux]; [reflexivity|].
  destruct (is_digit b); [apply IH|reflexivity].
Qed.

Lemma digit_char_small d : d < 10 -> digit_char d = 48 + d /\ is_digit (48 + d) = true.
Proof.
  intros H. unfold digit_char, is_digit.
  destruct (N.ltb_spec d 10); [|lia]. split; [reflexivity|].
  apply andb_true_intro; split; apply N.leb_le; lia.
Qed.

Lemma single_digit n a : n < 10 ->
  dec_value_aux [digit_char n] a = Some (a * 10 ^ N.of_nat (length [digit_char n]) + n) /\ (n <> 0 -> digit_char n <> 48).
Proof.
  intros H. destruct (digit_char_small n H) as [E D]. cbn [dec_value_aux length]. rewrite E, D.
  change (N.of_nat 1) with 1. rewrite N.pow_1_r. split; [f_equal; lia|lia].
Qed.

Lemma digits_aux_spec : forall fuel n acc, n < 2 ^ N.of_nat (S fuel) ->
  exists ds, digits_aux (S fuel) 10 n acc = ds ++ acc /\ ds <> [] /\
    (forall a, dec_value_aux ds a = Some (a * 10 ^ N.of_nat (length ds) + n)) /\
    (n <> 0 -> hd 0 ds <> 48).
Proof.
  induction fuel as [|f IH]; intros n acc Hn; cbn [digits_aux].
  - (* fuel 1: n < 2 *)
    change (2 ^ N.of_nat 1) with 2 in Hn.
    destruct (N.ltb_spec n 10) as [Hlt|Hge]; [|lia].
    exists [digit_char n]. repeat split.
    + discriminate.
    + intros a. apply single_digit, Hlt.
    + cbn [hd]. apply (single_digit n 0 Hlt).
  - destruct (N.ltb_spec n 10) as [Hlt|Hge].
    + exists [digit_char n]. repeat split.
      * discriminate.
      * intros a. apply single_digit, Hlt.
      * cbn [hd]. apply (single_digit n 0 Hlt).
    + assert (Hdiv : n / 10 < 2 ^ N.of_nat (S f)).
      { apply N.div_lt_upper_bound; [lia|].
        rewrite Nat2N.inj_succ, N.pow_succ_r' in Hn. lia. }
      destruct (IH (n / 10) (digit_char (n mod 10) :: acc) Hdiv) as (ds & E & Hne & Hv & Hz).
      assert (Hm : n mod 10 < 10) by (apply N.mod_lt; lia).
      destruct (digit_char_small _ Hm) as [Ed Dd].
      exists (ds ++ [digit_char (n mod 10)]). repeat split.
      * change (digits_aux (S f) 10 (n / 10) (digit_char (n mod 10) :: acc) = (ds ++ [digit_char (n mod 10)]) ++ acc).
        rewrite E, <- app_assoc. reflexivity.
      * destruct ds; discriminate.
      * intros a. rewrite dec_value_aux_app, Hv. cbn [dec_value_aux]. rewrite Ed, Dd. f_equal.
        rewrite app_length. cbn [length]. rewrite Nat.add_1_r, Nat2N.inj_succ, N.pow_succ_r'.
        pose proof (N.div_mod n 10 ltac:(lia)) as Hdm.
        set (P := 10 ^ N.of_nat (length ds)). clearbody P.
        set (q := n / 10) in *. set (m := n mod 10) in *. clearbody q m.
        rewrite Hdm. replace (48 + m - 48) with m by lia. ring.
      * intros _. destruct ds as [|d ds']; [contradiction|]. cbn [app hd]. cbn [hd] in Hz. apply Hz.
        intro Hq. assert (n / 10 * 10 <= n) by (pose proof (N.div_mod n 10 ltac:(lia)); lia).
        assert (1 <= n / 10) by (apply N.div_le_lower_bound; lia). lia.
Qed.

(** FormatUint(n, 10) is the canonical decimal numeral of n *)
Theorem fmt_uint_value n : dec_value (fmt_uint n) = Some n /\ dec_canonical (fmt_uint n) = true.
Proof.
  destruct (N.eq_dec n 0) as [->|Hn]; [split; reflexivity|].
  unfold fmt_uint, fmt_uint_base.
  destruct (digits_aux_spec (N.size_nat n) n [] (N_size_nat_gt n)) as (ds & E & Hne & Hv & Hz).
  rewrite E, app_nil_r. specialize (Hz Hn).
  destruct ds as [|d ds']; [contradiction|]. cbn [hd] in Hz. split.
  - unfold dec_value. rewrite Hv. f_equal; lia.
  - unfold dec_canonical. destruct (N.eqb_spec d 48); [contradiction|reflexivity].
Qed.

Lemma dec_value_first_digit d r n : dec_value (d :: r) = Some n -> is_digit d = true.
Proof. unfold dec_value. cbn [dec_value_aux]. destruct (is_digit d); [reflexivity|discriminate]. Qed.

(** FormatInt(z, 10): optional '-', then the canonical numeral of |z| *)
Theorem fmt_int_value z : int_value (fmt_int z) = Some z.
Proof.
  destruct z as [|p|p]; unfold fmt_int, fmt_int_base.
  - reflexivity.
  - destruct (fmt_uint_value (Npos p)) as [Hv _]. fold (fmt_uint (Npos p)).
    unfold int_value. destruct (fmt_uint (N.pos p)) as [|d r] eqn:E; [discriminate|].
    pose proof (dec_value_first_digit _ _ _ Hv) as Hd.
    destruct (N.eqb_spec d 45) as [->|Hne]; [discriminate|].
    rewrite Hv. reflexivity.
  - destruct (fmt_uint_value (Npos p)) as [Hv _]. fold (fmt_uint (Npos p)).
    unfold int_value. rewrite N.eqb_refl, Hv. reflexivity.
Qed.
