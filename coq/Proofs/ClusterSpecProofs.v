(** End-to-end statement for CLUSTER SLOTS: a reply that encodes an abstract topology is parsed
    into groups that carry exactly the listed ranges, under their primaries, with only nodes whose
    endpoint is known; the rebuilt table sends every slot of a listed range to that primary. *)
From Coq Require Import List Arith NArith ZArith Bool Lia Permutation.
Require Import RV.Model.Base RV.Model.ClusterTopo RV.Model.ClusterSpec RV.Proofs.ClusterTopoProofs.
Import ListNotations.
Open Scope Z_scope.

Fixpoint kept_nodes (dh : bytes) (ns : list snode) : list addr :=
  match ns with
  | [] => []
  | n :: r => match node_addr dh n with Some a => a :: kept_nodes dh r | None => kept_nodes dh r end
  end.

Lemma slot_nodes_enc dh ns : slot_nodes dh (map enc_node ns) = Ok (kept_nodes dh ns).
Proof.
  induction ns as [|n r IH]; [reflexivity|].
  cbn [map slot_nodes enc_node values length Nat.ltb Nat.leb idx nth_error bind mstring intlen kept_nodes].
  rewrite IH. cbn [bind]. unfold node_addr. destruct (parse_endpoint dh (sn_host n) (sn_port n)); reflexivity.
Qed.

Lemma kept_nodes_In dh ns a : In a (kept_nodes dh ns) -> exists n, In n ns /\ node_addr dh n = Some a.
Proof.
  induction ns as [|n r IH]; cbn [kept_nodes In]; [tauto|].
  destruct (node_addr dh n) as [b|] eqn:E.
  - intros [<-|H]; [exists n; auto|]. destruct (IH H) as [n' [? ?]]. exists n'; auto.
  - intro H. destruct (IH H) as [n' [? ?]]. exists n'; auto.
Qed.

(** what parseSlots does with one well-formed element *)
Lemma parse_slots_entry_enc dh e acc :
  parse_slots_entry dh (enc_entry e) acc =
  Ok (match entry_master dh e with
      | None => acc
      | Some m =>
        match assoc_get m acc with
        | Some g => assoc_set m (mkGroup (g_nodes g) (g_slots g ++ [entry_range e])) acc
        | None => assoc_set m (mkGroup (kept_nodes dh (se_nodes e)) [entry_range e]) acc
        end
      end).
Proof.
  unfold parse_slots_entry, enc_entry, entry_master, entry_range. cbn [values].
  destruct (se_nodes e) as [|n0 ns] eqn:En; [reflexivity|].
  cbn [map length Nat.ltb Nat.leb idx nth_error bind enc_node values mstring intlen].
  unfold node_addr.
  destruct (parse_endpoint dh (sn_host n0) (sn_port n0)) as [m|] eqn:PE; [|reflexivity].
  destruct (assoc_get m acc) as [g|]; [reflexivity|].
  cbn [skipn].
  change (enc_node n0 :: map enc_node ns) with (map enc_node (n0 :: ns)).
  rewrite slot_nodes_enc. cbn [bind kept_nodes]. unfold node_addr. rewrite PE. reflexivity.
Qed.

(** invariant of the loop over the elements processed so far *)
Record slots_inv (dh : bytes) (done : list sentry) (acc : groups) : Prop := {
  si_nodup : NoDup (keys acc);
  si_headed : Forall group_headed acc;
  si_has : forall e m, In e done -> entry_master dh e = Some m ->
                       exists g, assoc_get m acc = Some g /\ In (entry_range e) (g_slots g);
  si_only : forall k g r, In (k, g) acc -> In r (g_slots g) ->
                          exists e, In e done /\ entry_master dh e = Some k /\ r = entry_range e;
  si_nodes : forall k g a, In (k, g) acc -> In a (g_nodes g) ->
                           exists e n, In e done /\ In n (se_nodes e) /\ node_addr dh n = Some a;
}.

Lemma slots_inv_nil dh : slots_inv dh [] [].
Proof. constructor; cbn; try tauto; constructor. Qed.

Lemma entry_master_kept dh e m : entry_master dh e = Some m -> hd_error (kept_nodes dh (se_nodes e)) = Some m.
Proof.
  unfold entry_master. destruct (se_nodes e) as [|n r]; [discriminate|]. cbn [kept_nodes]. intros ->. reflexivity.
Qed.

Lemma slots_inv_step dh done acc e acc' :
  slots_inv dh done acc -> parse_slots_entry dh (enc_entry e) acc = Ok acc' -> slots_inv dh (done ++ [e]) acc'.
Proof.
  intros [ND HD HAS ONLY NODES]. rewrite parse_slots_entry_enc. intro E; inversion E; subst acc'; clear E.
  destruct (entry_master dh e) as [m|] eqn:EM.
  2:{ constructor; auto.
      - intros e0 m0 Hin. apply in_app_or in Hin. destruct Hin as [Hin|[<-|[]]]; [eauto|congruence].
      - intros k g r Hi Hr. destruct (ONLY k g r Hi Hr) as [e0 [? ?]]. exists e0. split; [apply in_or_app; auto|auto].
      - intros k g a Hi Ha. destruct (NODES k g a Hi Ha) as [e0 [n [? ?]]]. exists e0, n. split; [apply in_or_app; auto|auto]. }
  set (g' := match assoc_get m acc with
             | Some g => mkGroup (g_nodes g) (g_slots g ++ [entry_range e])
             | None => mkGroup (kept_nodes dh (se_nodes e)) [entry_range e]
             end).
  assert (Eacc : match assoc_get m acc with
                 | Some g => assoc_set m (mkGroup (g_nodes g) (g_slots g ++ [entry_range e])) acc
                 | None => assoc_set m (mkGroup (kept_nodes dh (se_nodes e)) [entry_range e]) acc
                 end = assoc_set m g' acc) by (unfold g'; destruct (assoc_get m acc); reflexivity).
  rewrite Eacc. clear Eacc.
  assert (Hlast : In (entry_range e) (g_slots g')).
  { unfold g'. destruct (assoc_get m acc); cbn [g_slots]; [apply in_or_app; right|]; now left. }
  constructor.
  - now apply assoc_set_NoDup.
  - apply Forall_forall. intros [k g] Hin. apply In_assoc_set in Hin. destruct Hin as [[-> ->]|Hin].
    + unfold group_headed, g'. cbn [fst snd]. destruct (assoc_get m acc) as [g0|] eqn:G; cbn [g_nodes].
      * apply assoc_get_In in G. rewrite Forall_forall in HD. exact (HD _ G).
      * now apply entry_master_kept.
    + rewrite Forall_forall in HD. exact (HD _ Hin).
  - intros e0 m0 Hin EM0. apply in_app_or in Hin. destruct Hin as [Hin|[<-|[]]].
    + destruct (HAS e0 m0 Hin EM0) as [g [G Hr]].
      destruct (addr_eqb m m0) eqn:Em.
      * apply addr_eqb_spec in Em. subst m0. exists g'. split; [apply assoc_get_set_same|].
        unfold g'. rewrite G. cbn [g_slots]. apply in_or_app. now left.
      * apply addr_eqb_neq in Em. exists g. split; [now rewrite assoc_get_set_other|exact Hr].
    + rewrite EM in EM0. inversion EM0; subst m0. exists g'. split; [apply assoc_get_set_same|exact Hlast].
  - intros k g r Hi Hr. apply In_assoc_set in Hi. destruct Hi as [[-> ->]|Hi].
    + unfold g' in Hr. destruct (assoc_get m acc) as [g0|] eqn:G; cbn [g_slots] in Hr.
      * apply in_app_or in Hr. destruct Hr as [Hr|[<-|[]]].
        -- destruct (ONLY m g0 r (assoc_get_In _ _ _ G) Hr) as [e0 [? ?]]. exists e0. split; [apply in_or_app; auto|auto].
        -- exists e. split; [apply in_or_app; right; now left|auto].
      * destruct Hr as [<-|[]]. exists e. split; [apply in_or_app; right; now left|auto].
    + destruct (ONLY k g r Hi Hr) as [e0 [? ?]]. exists e0. split; [apply in_or_app; auto|auto].
  - intros k g a Hi Ha. apply In_assoc_set in Hi. destruct Hi as [[-> ->]|Hi].
    + unfold g' in Ha. destruct (assoc_get m acc) as [g0|] eqn:G; cbn [g_nodes] in Ha.
      * destruct (NODES m g0 a (assoc_get_In _ _ _ G) Ha) as [e0 [n [? ?]]]. exists e0, n. split; [apply in_or_app; auto|auto].
      * destruct (kept_nodes_In _ _ _ Ha) as [n [? ?]]. exists e, n. split; [apply in_or_app; right; now left|auto].
    + destruct (NODES k g a Hi Ha) as [e0 [n [? ?]]]. exists e0, n. split; [apply in_or_app; auto|auto].
Qed.

Lemma parse_slots_loop_enc dh es : forall done acc,
  slots_inv dh done acc ->
  exists gs, parse_slots_loop dh (map enc_entry es) acc = Ok gs /\ slots_inv dh (done ++ es) gs.
Proof.
  induction es as [|e r IH]; intros done acc I; cbn [map parse_slots_loop].
  - exists acc. rewrite app_nil_r. auto.
  - rewrite parse_slots_entry_enc.
    pose proof (slots_inv_step dh done acc e _ I (parse_slots_entry_enc dh e acc)) as I'.
    cbn [bind]. destruct (IH _ _ I') as [gs [E Ig]]. exists gs. split; [exact E|]. now rewrite <- app_assoc in Ig.
Qed.

Theorem parse_slots_spec dh es :
  exists gs, parse_slots dh (enc_slots es) = Ok gs /\ slots_inv dh es gs.
Proof.
  unfold parse_slots, enc_slots. cbn [values].
  destruct (parse_slots_loop_enc dh es [] [] (slots_inv_nil dh)) as [gs [E I]]. exists gs. auto.
Qed.

(** the table built from such a reply, in any iteration order of the groups *)
Theorem slots_table dh es c e m s :
  t_kind c <> CfgReplicaOnly ->
  In e es -> entry_master dh e = Some m -> covers (entry_range e) s = true ->
  (forall e' m', In e' es -> covers (entry_range e') s = true -> entry_master dh e' = Some m' -> m' = m) ->
  exists gs, parse_slots dh (enc_slots es) = Ok gs /\
             forall l, Permutation (map snd gs) l -> wslot c l s = Some m.
Proof.
  intros Hk Hin EM Hc Hu. destruct (parse_slots_spec dh es) as [gs [E [ND HD HAS ONLY NODES]]].
  exists gs. split; [exact E|]. intros l P.
  destruct (HAS e m Hin EM) as [g [G Hr]].
  assert (Hg : In g l).
  { apply (Permutation_in _ P). apply in_map_iff. exists (m, g). split; [reflexivity|now apply assoc_get_In]. }
  assert (Hl : lists g s = true).
  { unfold lists. apply existsb_exists. exists (entry_range e). auto. }
  apply (wslot_default_unique c l s g m Hk Hg Hl).
  - intros g' Hg' Hl'. apply Permutation_sym in P. apply (Permutation_in _ P) in Hg'.
    apply in_map_iff in Hg'. destruct Hg' as [[k g''] [Eq Hin']]. cbn [snd] in Eq. subst g''.
    unfold lists in Hl'. apply existsb_exists in Hl'. destruct Hl' as [r [Hr' Hc']].
    destruct (ONLY k g' r Hin' Hr') as [e' [He' [EM' ->]]].
    assert (k = m) by (eapply Hu; eauto). subst k.
    apply (In_assoc_get _ _ _ ND) in Hin'. congruence.
  - rewrite Forall_forall in HD. specialize (HD _ (assoc_get_In _ _ _ G)). exact HD.
Qed.

(** slots listed by nobody have no connection *)
Theorem slots_table_unlisted dh es c s :
  (forall e, In e es -> covers (entry_range e) s = false) ->
  exists gs, parse_slots dh (enc_slots es) = Ok gs /\
             forall l, Permutation (map snd gs) l -> wslot c l s = None.
Proof.
  intro Hn. destruct (parse_slots_spec dh es) as [gs [E [ND HD HAS ONLY NODES]]].
  exists gs. split; [exact E|]. intros l P. apply wslot_none. intros g Hg.
  apply Permutation_sym in P. apply (Permutation_in _ P) in Hg.
  apply in_map_iff in Hg. destruct Hg as [[k g'] [Eq Hin']]. cbn [snd] in Eq. subst g'.
  unfold lists. destruct (existsb (fun r => covers r s) (g_slots g)) eqn:X; [|reflexivity].
  apply existsb_exists in X. destruct X as [r [Hr Hc]].
  destruct (ONLY k g r Hin' Hr) as [e' [He' [_ ->]]]. rewrite (Hn e' He') in Hc. discriminate.
Qed.
