(** streamTo on counted strings with a writer that may fail at any byte. *)
From Coq Require Import List Arith NArith ZArith Bool Lia ZifyN ZifyNat ZifyBool.
Require Import RV.Model.Base RV.Model.RespWrite RV.Model.RespStream.
Require Import RV.Proofs.BinaryProofs RV.Proofs.RespWriteProofs RV.Proofs.RespIOProofs RV.Proofs.RespBaseProofs
               RV.Proofs.RespScalarProofs RV.Proofs.RespRoundtrip RV.Proofs.RespStreamProofs.
Import ListNotations.
Open Scope N_scope.

Lemma accepted_nil w : accepted w [] = [].
Proof. unfold accepted, w_write. destruct (w_budget w) as [k|]; [|reflexivity]. cbn [blen length N.of_nat]. destruct (0 <=? k); cbn [fst]; [reflexivity|apply firstn_nil]. Qed.

Lemma failed_nil w : w_failed (snd (w_write w [])) = false.
Proof.
  unfold w_write. destruct (w_budget w) as [k|]; [|reflexivity]. cbn [blen length N.of_nat].
  destruct (N.leb_spec 0 k); [reflexivity|lia].
Qed.

Lemma accepted_len w d : (length (accepted w d) <= length d)%nat.
Proof.
  unfold accepted. destruct w as [bud out fl]. pose proof (w_write_spec bud out fl d) as (H1 & _).
  cbv zeta in H1. rewrite H1, firstn_length. lia.
Qed.

Lemma out_after_write w d : w_out (snd (w_write w d)) = w_out w ++ accepted w d.
Proof.
  unfold accepted. destruct w as [bud out fl]. pose proof (w_write_spec bud out fl d) as (H1 & H2 & _).
  cbv zeta in *. cbn [w_out]. now rewrite H2, H1.
Qed.

(** io.Copy of a non-empty payload that is completely available *)
Lemma flatw_copy_out B (s rest : bytes) w : s <> [] ->
  flatw_step B (OCopyOut (blen s)) (s ++ rest) w =
  (Ok (accepted w s), skipn (length (accepted w s)) s ++ rest, snd (w_write w s)).
Proof.
  intros Hne. cbn [flatw_step].
  destruct (N.leb_spec (blen s) (blen (s ++ rest))) as [_|Hx]; [|unfold blen in Hx; rewrite app_length in Hx; lia].
  assert (Ea : firstn (N.to_nat (blen s)) (s ++ rest) = s) by (unfold blen; rewrite Nat2N.id; apply firstn_app_exact).
  rewrite Ea.
  pose proof (accepted_len w s) as Hd. unfold accepted in *.
  destruct s as [|b0 s0]; [congruence|].
  destruct (w_write w (b0 :: s0)) as [d w'] eqn:Ew. cbn [fst snd] in *.
  now rewrite skipn_app_short by assumption.
Qed.

Lemma runw_copy_out B (s rest : bytes) w : s <> [] ->
  runw B (do_op (OCopyOut (blen s))) (s ++ rest) w =
  (Ok (accepted w s), skipn (length (accepted w s)) s ++ rest, snd (w_write w s)).
Proof. intros Hne. cbn [do_op runw]. rewrite flatw_copy_out by assumption. reflexivity. Qed.

Lemma runw_writer_err B s w :
  runw B (do_op OWriterErr) s w = ((if w_failed w then Err eWriter else Ok []), s, w).
Proof. reflexivity. Qed.

Theorem runw_stream_counted B (HB : (32 <= B)%nat) f t s rest w :
  (t = tBlobString \/ t = tVerbatim) -> (zlen s + 2 < two63)%Z ->
  exists w',
    runw B (stream_to (S f)) (enc (VBlob t s) ++ rest) w =
      ((zlen (accepted w s), (if w_failed (snd (w_write w s)) then SErr eWriter else SNone), true), rest, w') /\
    w_out w' = w_out w ++ accepted w s.
Proof.
  intros Ht Hlen.
  assert (Hk : k_stream_blob t = true) by (destruct Ht; subst; reflexivity).
  assert (Hnc : (t =? tChunk) = false) by (destruct Ht; subst; reflexivity).
  assert (Es : enc (VBlob t s) ++ rest = t :: dec (blen s) ++ crlf ++ s ++ crlf ++ rest).
  { cbn [enc app]. rewrite <- ?app_assoc. reflexivity. }
  rewrite Es, runw_stream_cons_blob by assumption.
  assert (Hb : (Z.of_N (blen s) < two63)%Z) by (unfold blen, zlen in *; lia).
  rewrite (runw_bind_eq B _ _ _ _ _ _ _ (runw_read_i_nat B (blen s) _ w HB Hb)).
  replace (Z.of_N (blen s)) with (zlen s) by (unfold blen, zlen; lia).
  unfold stream_blob.
  destruct (Z.eqb_spec (zlen s) (-1)) as [Hx|_]; [unfold zlen in Hx; lia|].
  destruct (list_eq_dec N.eq_dec s []) as [->|Hne].
  - (* empty payload: nothing is written *)
    change (zlen (@nil N)) with 0%Z. cbn [Z.eqb negb]. rewrite Hnc.
    exists w. rewrite accepted_nil, failed_nil, app_nil_r. split; [|reflexivity].
    rewrite (runw_bind_eq B _ _ _ _ _ _ _ (runw_discard B 2 crlf rest w eq_refl)). reflexivity.
  - destruct (Z.eqb_spec (zlen s) 0) as [Hx|_]; [destruct s; [congruence|unfold zlen in Hx; cbn [length] in Hx; lia]|].
    cbn [negb].
    replace (Z.to_N (zlen s)) with (blen s) by (unfold blen, zlen; lia).
    rewrite (runw_bind_eq B _ _ _ _ _ _ _ (runw_copy_out B s (crlf ++ rest) w Hne)).
    set (w' := snd (w_write w s)). set (d := accepted w s).
    rewrite (runw_bind_eq B _ _ _ _ _ _ _ (runw_writer_err B _ w')).
    pose proof (accepted_len w s) as Hd. fold d in Hd.
    rewrite (wrap64_small_z (zlen s - zlen d + 2)) by (unfold zlen, two63 in *; lia).
    assert (Edis : runw B (do_op (ODiscard (zlen s - zlen d + 2))) (skipn (length d) s ++ crlf ++ rest) w' = (Ok [], rest, w')).
    { rewrite app_assoc. apply runw_discard. rewrite app_length, skipn_length. cbn [crlf length]. unfold zlen. lia. }
    exists w'. split; [|apply out_after_write].
    rewrite (runw_bind_eq B _ _ _ _ _ _ _ Edis).
    destruct (w_failed w'); reflexivity.
Qed.
