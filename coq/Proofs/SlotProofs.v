(** Proofs for Model/Slot.v: table-driven CRC16 = bitwise CRC16-XMODEM (given a table whose 256
    entries are the bitwise CRC of their index — checked on the regenerated table in SlotGenProofs.v),
    hash-tag extraction = specification, and the key-slot bookkeeping of the builders. *)
From Coq Require Import List Arith NArith Bool Lia.
Require Import RV.Model.Base RV.Model.Slot.
Import ListNotations.
Open Scope N_scope.

(** * Bit-level helpers *)

Lemma lt_pow2_bits a n : a < 2 ^ n <-> (forall m, n <= m -> N.testbit a m = false).
Proof.
  split.
  - intros Ha m Hm.
    destruct (N.eq_dec a 0) as [->|Hz]; [apply N.bits_0|].
    apply N.bits_above_log2.
    apply N.log2_lt_pow2 in Ha; lia.
  - intros H.
    destruct (N.eq_dec a 0) as [->|Hz].
    + apply N.neq_0_lt_0, N.pow_nonzero; lia.
    + apply N.log2_lt_pow2; [lia|].
      destruct (N.lt_ge_cases (N.log2 a) n) as [Hl|Hl]; [exact Hl|].
      pose proof (N.bit_log2 a Hz) as Hb. rewrite (H _ Hl) in Hb. discriminate.
Qed.

Lemma lxor_lt_pow2 a b n : a < 2 ^ n -> b < 2 ^ n -> N.lxor a b < 2 ^ n.
Proof.
  rewrite !lt_pow2_bits. intros Ha Hb m Hm.
  rewrite N.lxor_spec, Ha, Hb by exact Hm. reflexivity.
Qed.

Lemma lxor_mod_pow2 a b n : N.lxor a b mod 2 ^ n = N.lxor (a mod 2 ^ n) (b mod 2 ^ n).
Proof.
  apply N.bits_inj. intro m.
  destruct (N.lt_ge_cases m n) as [H|H].
  - rewrite N.lxor_spec, !N.mod_pow2_bits_low, N.lxor_spec by exact H. reflexivity.
  - rewrite N.lxor_spec, !N.mod_pow2_bits_high by exact H. reflexivity.
Qed.

Lemma land_255 a : N.land a 255 = a mod 256.
Proof. change 255 with (N.ones 8). rewrite N.land_ones. reflexivity. Qed.

Lemma land_16383 a : N.land a 16383 = a mod 16384.
Proof. change 16383 with (N.ones 14). rewrite N.land_ones. reflexivity. Qed.

(** * The single-bit step is linear over xor *)

Definition shl1 (x : N) : N := N.shiftl x 1 mod W16.

Lemma shl1_lxor a b : shl1 (N.lxor a b) = N.lxor (shl1 a) (shl1 b).
Proof. unfold shl1, W16. change 65536 with (2 ^ 16). rewrite N.shiftl_lxor. apply lxor_mod_pow2. Qed.

Lemma crc_shift1_lxor a b : crc_shift1 (N.lxor a b) = N.lxor (crc_shift1 a) (crc_shift1 b).
Proof.
  unfold crc_shift1. fold (shl1 a) (shl1 b) (shl1 (N.lxor a b)).
  rewrite N.lxor_spec, shl1_lxor.
  destruct (N.testbit a 15), (N.testbit b 15); cbn [xorb];
    apply N.bits_inj; intro m; rewrite !N.lxor_spec;
    destruct (N.testbit (shl1 a) m), (N.testbit (shl1 b) m), (N.testbit 4129 m); reflexivity.
Qed.

Lemma crc_shiftk_lxor k : forall a b, crc_shiftk k (N.lxor a b) = N.lxor (crc_shiftk k a) (crc_shiftk k b).
Proof.
  induction k as [|k IH]; intros a b; cbn [crc_shiftk]; [reflexivity|].
  rewrite crc_shift1_lxor. apply IH.
Qed.

Lemma crc_shift1_lt x : crc_shift1 x < W16.
Proof.
  unfold crc_shift1, W16. change 65536 with (2 ^ 16).
  assert (H : N.shiftl x 1 mod 2 ^ 16 < 2 ^ 16) by (apply N.mod_lt; discriminate).
  destruct (N.testbit x 15); [|exact H].
  apply lxor_lt_pow2; [exact H|reflexivity].
Qed.

Lemma crc_shiftk_lt k : forall x, x < W16 -> crc_shiftk k x < W16.
Proof.
  induction k as [|k IH]; intros x Hx; cbn [crc_shiftk]; [exact Hx|].
  apply IH, crc_shift1_lt.
Qed.

(** * Ranges 0..255 as lists (for the finite checks) *)

Lemma In_range256 i : i < 256 -> In i range256.
Proof.
  intros Hi. unfold range256.
  rewrite <- (N2Nat.id i). apply in_map. apply in_seq. lia.
Qed.

Lemma forall_range256 (P : N -> bool) :
  forallb P range256 = true -> forall i, i < 256 -> P i = true.
Proof. intros H i Hi. rewrite forallb_forall in H. apply H, In_range256, Hi. Qed.

(** a low byte moves up by eight positions unchanged: no bit is shifted out *)
Lemma crc_shiftk8_low lo : lo < 256 -> crc_shiftk 8 lo = N.shiftl lo 8.
Proof.
  intros H.
  apply N.eqb_eq.
  exact (forall_range256 (fun x => crc_shiftk 8 x =? N.shiftl x 8) ltac:(vm_compute; reflexivity) lo H).
Qed.

(** * Table correctness as a hypothesis; the byte step *)

Definition table_ok (tab : list N) : Prop :=
  forall i, i < 256 -> nth (N.to_nat i) tab 0 = crc_shiftk 8 (N.shiftl i 8).

Lemma crc16_bitwise_single i : crc16_bitwise [i] = crc_shiftk 8 (N.shiftl i 8).
Proof. unfold crc16_bitwise, crc16_bit_step. cbn [fold_left]. now rewrite N.lxor_0_l. Qed.

Lemma table_okb_ok tab : table_okb tab = true -> table_ok tab.
Proof.
  unfold table_okb. intros H. apply andb_prop in H. destruct H as [_ H].
  intros i Hi. rewrite <- crc16_bitwise_single. apply N.eqb_eq.
  exact (forall_range256 _ H i Hi).
Qed.

Lemma split_hi_lo crc b :
  N.lxor crc (N.shiftl b 8) = N.lxor (N.shiftl (N.lxor (N.shiftr crc 8) b) 8) (N.land crc 255).
Proof.
  apply N.bits_inj. intro m. rewrite !N.lxor_spec, N.land_spec.
  change 255 with (N.ones 8).
  destruct (N.lt_ge_cases m 8) as [H|H].
  - rewrite !N.shiftl_spec_low, N.ones_spec_low by exact H.
    now destruct (N.testbit crc m).
  - rewrite !N.shiftl_spec_high', N.ones_spec_high by exact H.
    rewrite N.lxor_spec, N.shiftr_spec', N.sub_add by exact H.
    now destruct (N.testbit crc m), (N.testbit b (m - 8)).
Qed.

Lemma shl8_mod crc : N.shiftl crc 8 mod W16 = N.shiftl (N.land crc 255) 8.
Proof.
  unfold W16. change 65536 with (2 ^ 16). change 255 with (N.ones 8).
  apply N.bits_inj. intro m.
  destruct (N.lt_ge_cases m 8) as [H8|H8].
  - rewrite N.mod_pow2_bits_low by lia. rewrite !N.shiftl_spec_low by exact H8. reflexivity.
  - rewrite (N.shiftl_spec_high' (N.land _ _)) by exact H8. rewrite N.land_spec.
    destruct (N.lt_ge_cases m 16) as [H16|H16].
    + rewrite N.mod_pow2_bits_low by exact H16. rewrite N.shiftl_spec_high' by exact H8.
      rewrite N.ones_spec_low by lia. now rewrite andb_true_r.
    + rewrite N.mod_pow2_bits_high by exact H16.
      rewrite N.ones_spec_high by lia. now rewrite andb_false_r.
Qed.

Lemma shiftr8_lt crc : crc < W16 -> N.shiftr crc 8 < 256.
Proof.
  unfold W16. intros H. rewrite N.shiftr_div_pow2. change (2 ^ 8) with 256.
  apply N.div_lt_upper_bound; lia.
Qed.

Lemma crc16_step_eq tab crc b :
  table_ok tab -> crc < W16 -> b < 256 ->
  crc16_tab_step tab crc b = crc16_bit_step crc b.
Proof.
  intros T Hc Hb. unfold crc16_tab_step, crc16_bit_step.
  pose proof (shiftr8_lt crc Hc) as Hhi.
  assert (Hx : N.lxor (N.shiftr crc 8) b < 256).
  { change 256 with (2 ^ 8). apply lxor_lt_pow2; assumption. }
  rewrite (N.mod_small (N.shiftr crc 8) 256) by exact Hhi.
  rewrite land_255, (N.mod_small _ 256) by exact Hx.
  rewrite T by exact Hx.
  rewrite split_hi_lo, crc_shiftk_lxor.
  rewrite (crc_shiftk8_low (N.land crc 255)).
  2:{ rewrite land_255. apply N.mod_lt. discriminate. }
  rewrite shl8_mod. apply N.lxor_comm.
Qed.

Lemma crc16_bit_step_lt crc b : crc16_bit_step crc b < W16.
Proof. unfold crc16_bit_step. cbn [crc_shiftk]. do 7 (apply crc_shiftk_lt with (k := 0%nat) || idtac). apply crc_shift1_lt. Qed.

Lemma crc16_fold_eq tab (T : table_ok tab) :
  forall bs crc, crc < W16 -> Forall (fun b => b < 256) bs ->
    fold_left (crc16_tab_step tab) bs crc = fold_left crc16_bit_step bs crc.
Proof.
  induction bs as [|b bs IH]; intros crc Hc Hbs; cbn [fold_left]; [reflexivity|].
  inversion Hbs as [|? ? Hb Hr]; subst.
  rewrite crc16_step_eq by assumption.
  apply IH; [apply crc16_bit_step_lt|exact Hr].
Qed.

Theorem crc16_tab_bitwise tab :
  table_ok tab -> forall bs, Forall (fun b => b < 256) bs -> crc16_tab tab bs = crc16_bitwise bs.
Proof.
  intros T bs Hbs. unfold crc16_tab, crc16_bitwise.
  apply crc16_fold_eq; [exact T|reflexivity|exact Hbs].
Qed.

(** * Hash tag: the loops of slot() compute [hashtag_spec] *)

Lemma find_from_shift c : forall k from, find_from c k from = (from + find_from c k 0)%nat.
Proof.
  induction k as [|x r IH]; intros from; cbn [find_from]; [lia|].
  destruct (x =? c); [lia|]. rewrite (IH (S from)), (IH 1%nat). lia.
Qed.

Lemma find_from_le c k : (find_from c k 0 <= length k)%nat.
Proof.
  induction k as [|x r IH]; cbn [find_from length]; [lia|].
  destruct (x =? c); [lia|]. rewrite find_from_shift. lia.
Qed.

Lemma split_at_find c : forall l,
  split_at c l = (firstn (find_from c l 0) l,
                  if (find_from c l 0 =? length l)%nat then None else Some (skipn (S (find_from c l 0)) l)).
Proof.
  induction l as [|x r IH]; [reflexivity|].
  cbn [split_at find_from]. destruct (x =? c) eqn:E.
  - reflexivity.
  - rewrite IH, (find_from_shift c r 1). cbn [Nat.add firstn length skipn Nat.eqb]. reflexivity.
Qed.

Lemma firstn_nil_iff {A} n (l : list A) : l <> [] -> (firstn n l = [] <-> n = O).
Proof. intros Hl. destruct n, l; cbn; try easy. Qed.

Theorem hashtag_eq_spec k : hashtag k = hashtag_spec k.
Proof.
  unfold hashtag, hashtag_spec, find_idx. change (skipn 0 k) with k.
  rewrite split_at_find.
  set (i := find_from 123 k 0).
  destruct (Nat.eqb_spec i (length k)) as [Hi|Hi]; [reflexivity|].
  pose proof (find_from_le 123 k) as Hle. fold i in Hle.
  set (after := skipn (S i) k).
  rewrite split_at_find.
  rewrite (find_from_shift 125 after (S i)).
  set (j := find_from 125 after 0).
  assert (Hlen : length after = (length k - S i)%nat) by (unfold after; apply skipn_length).
  pose proof (find_from_le 125 after) as Hj. fold j in Hj.
  destruct (Nat.eqb_spec j (length after)) as [Hja|Hja].
  - replace (S i + j =? length k)%nat with true by (symmetry; apply Nat.eqb_eq; lia).
    cbn [orb]. now destruct (firstn j after).
  - replace (S i + j =? length k)%nat with false by (symmetry; apply Nat.eqb_neq; lia).
    cbn [orb].
    assert (Hne : after <> []) by (intro E; rewrite E in *; cbn in *; lia).
    destruct (Nat.eqb_spec (S i + j) (S i)) as [H0|H0].
    + assert (j = O) by lia. replace (firstn j after) with (@nil N) by (subst j; now rewrite H).
      reflexivity.
    + unfold slice. replace (S i + j - S i)%nat with j by lia. fold after.
      destruct (firstn j after) eqn:Ef; [|reflexivity].
      apply firstn_nil_iff in Ef; [lia|exact Hne].
Qed.

Lemma split_at_app c pre post : ~ In c pre -> split_at c (pre ++ c :: post) = (pre, Some post).
Proof.
  induction pre as [|x pre IH]; intros H; cbn [app split_at].
  - now rewrite N.eqb_refl.
  - destruct (N.eqb_spec x c) as [->|_]; [exfalso; apply H; now left|].
    rewrite IH; [reflexivity|]. intro Hin; apply H; now right.
Qed.

Lemma split_at_some c : forall l p s, split_at c l = (p, Some s) -> l = p ++ c :: s /\ ~ In c p.
Proof.
  induction l as [|x r IH]; intros p s H; cbn [split_at] in H; [discriminate|].
  destruct (N.eqb_spec x c) as [->|Hx].
  - inversion H; subst. split; [reflexivity|intros []].
  - destruct (split_at c r) as [p' s'] eqn:E. inversion H; subst.
    destruct (IH p' s eq_refl) as [-> Hn]. split; [reflexivity|].
    intros [Hin|Hin]; [now apply Hx|now apply Hn].
Qed.

Theorem hashtag_spec_tagged pre tag post :
  ~ In 123 pre -> ~ In 125 tag -> tag <> [] ->
  hashtag_spec (pre ++ 123 :: tag ++ 125 :: post) = tag.
Proof.
  intros Hp Ht Hne. unfold hashtag_spec.
  rewrite (split_at_app 123 pre _ Hp), (split_at_app 125 tag post Ht).
  destruct tag; [contradiction|reflexivity].
Qed.

Theorem hashtag_spec_whole k :
  (forall pre tag post, k = pre ++ 123 :: tag ++ 125 :: post -> ~ In 123 pre -> ~ In 125 tag -> tag = []) ->
  hashtag_spec k = k.
Proof.
  intros H. unfold hashtag_spec.
  destruct (split_at 123 k) as [p [after|]] eqn:E1; [|reflexivity].
  destruct (split_at 125 after) as [t [post|]] eqn:E2; [|now destruct t].
  apply split_at_some in E1. destruct E1 as [Ek Hp].
  apply split_at_some in E2. destruct E2 as [Ea Ht].
  subst after. rewrite (H p t post Ek Hp Ht). reflexivity.
Qed.

Lemma In_skipn {A} (x : A) : forall n l, In x (skipn n l) -> In x l.
Proof. induction n as [|n IH]; intros [|y l] H; cbn in *; auto. Qed.

Lemma In_firstn {A} (x : A) : forall n l, In x (firstn n l) -> In x l.
Proof. induction n as [|n IH]; intros [|y l] H; cbn in *; try contradiction. destruct H; auto. Qed.

Lemma hashtag_bytes k : Forall (fun b => b < 256) k -> Forall (fun b => b < 256) (hashtag k).
Proof.
  intros H. unfold hashtag.
  destruct (_ =? _)%nat; [exact H|].
  destruct (_ || _); [exact H|].
  unfold slice. rewrite Forall_forall in *. intros x Hx.
  apply H. eapply In_skipn, In_firstn, Hx.
Qed.

Theorem slot_eq_spec tab :
  table_ok tab -> forall k, Forall (fun b => b < 256) k -> slot tab k = slot_spec k.
Proof.
  intros T k Hk. unfold slot, slot_spec.
  rewrite land_16383, crc16_tab_bitwise by (auto using hashtag_bytes).
  now rewrite hashtag_eq_spec.
Qed.

Lemma slot_lt tab k : slot tab k < 16384.
Proof. unfold slot. rewrite land_16383. apply N.mod_lt. discriminate. Qed.

(** * Key-slot bookkeeping *)

Lemma land_NoSlot_small x : x <= 16384 -> N.land x NoSlot =? NoSlot = false.
Proof.
  intros Hx. apply N.eqb_neq. unfold NoSlot.
  assert (Hz : N.land x 32768 = 0).
  { apply N.bits_inj. intro m. rewrite N.land_spec, N.bits_0.
    destruct (N.eq_dec m 15) as [->|Hm].
    - assert (Hb : N.testbit x 15 = false).
      { apply (proj1 (lt_pow2_bits x 15)); [change (2 ^ 15) with 32768; lia|lia]. }
      now rewrite Hb.
    - change 32768 with (2 ^ 15). rewrite N.pow2_bits_false by congruence. apply andb_false_r. }
  rewrite Hz. discriminate.
Qed.

Lemma land_lor_NoSlot x : N.land (N.lor NoSlot x) NoSlot = NoSlot.
Proof.
  apply N.bits_inj. intro m. rewrite N.land_spec, N.lor_spec.
  destruct (N.testbit NoSlot m), (N.testbit x m); reflexivity.
Qed.

(** cluster mode: the state is InitSlot or a slot *)
Definition cluster_ks (ks : N) : Prop := ks = InitSlot \/ ks < 16384.

Lemma cluster_ks_small ks : cluster_ks ks -> N.land ks NoSlot =? NoSlot = false.
Proof. intros [->|H]; apply land_NoSlot_small; unfold InitSlot; lia. Qed.

Lemma check_all_cluster tab : forall keys ks r, ks_check_all tab ks keys = Ok r -> cluster_ks ks -> cluster_ks r.
Proof.
  induction keys as [|k keys IH]; intros ks r H Hc; cbn [ks_check_all] in H.
  - inversion H; subst; exact Hc.
  - unfold check in H. destruct ((ks =? InitSlot) || (ks =? slot tab k)); [|discriminate].
    eapply IH; [exact H|]. right. apply slot_lt.
Qed.

Lemma ks_check_all_app tab : forall l1 l2 ks,
  ks_check_all tab ks (l1 ++ l2) =
  match ks_check_all tab ks l1 with Ok ks' => ks_check_all tab ks' l2 | Err e => Err e | Panic => Panic end.
Proof.
  induction l1 as [|k l1 IH]; intros l2 ks; cbn [app ks_check_all]; [reflexivity|].
  destruct (check ks (slot tab k)); [apply IH|reflexivity|reflexivity].
Qed.

Lemma cluster_run_flat tab : forall es ks, cluster_ks ks ->
  ks_run tab ks es = ks_check_all tab ks (all_keys es).
Proof.
  induction es as [|e es IH]; intros ks Hc; [reflexivity|].
  cbn [ks_run all_keys flat_map]. fold (all_keys es).
  rewrite ks_check_all_app.
  assert (He : ks_event tab ks e = ks_check_all tab ks (event_keys e)).
  { destruct e as [k|l]; cbn [ks_event event_keys].
    - unfold ks_key. rewrite cluster_ks_small by exact Hc. cbn [ks_check_all].
      now destruct (check ks (slot tab k)).
    - unfold ks_keys. now rewrite cluster_ks_small by exact Hc. }
  rewrite He.
  destruct (ks_check_all tab ks (event_keys e)) as [ks'| |] eqn:E; try reflexivity.
  apply IH. eapply check_all_cluster; eassumption.
Qed.

(** from a concrete slot [s]: success iff every key is in slot [s] *)
Lemma check_all_from_slot tab : forall keys s, s <> InitSlot ->
  (Forall (fun k => slot tab k = s) keys -> ks_check_all tab s keys = Ok s) /\
  (~ Forall (fun k => slot tab k = s) keys -> ks_check_all tab s keys = Panic).
Proof.
  induction keys as [|k keys IH]; intros s Hs; cbn [ks_check_all].
  - split; [reflexivity|]. intros H; exfalso; apply H; constructor.
  - unfold check. replace (s =? InitSlot) with false by (symmetry; now apply N.eqb_neq). cbn [orb].
    destruct (N.eqb_spec s (slot tab k)) as [E|E].
    + rewrite <- E. destruct (IH s Hs) as [A B]. split.
      * intros H. inversion H; subst. now apply A.
      * intros H. apply B. intro HF. apply H. constructor; [now symmetry|exact HF].
    + split; [|reflexivity]. intros H. inversion H; subst. congruence.
Qed.

Lemma slot_ne_Init tab k : slot tab k <> InitSlot.
Proof. pose proof (slot_lt tab k). unfold InitSlot. lia. Qed.

Lemma same_slot_dec tab keys : {same_slot tab keys} + {~ same_slot tab keys}.
Proof.
  destruct keys as [|k0 keys]; [left; intros ? ? []|].
  destruct (Forall_dec (fun k => slot tab k = slot tab k0) (fun k => N.eq_dec _ _) keys) as [H|H].
  - left. rewrite Forall_forall in H. intros k1 k2 [<-|H1] [<-|H2]; auto.
    + symmetry; auto.
    + rewrite (H _ H1), (H _ H2); reflexivity.
  - right. intro S. apply H. apply Forall_forall. intros k Hk. apply S; [now right|now left].
Qed.

Theorem cluster_build tab es :
  (same_slot tab (all_keys es) ->
     ks_run tab InitSlot es = Ok (match all_keys es with [] => InitSlot | k :: _ => slot tab k end)) /\
  (~ same_slot tab (all_keys es) -> ks_run tab InitSlot es = Panic).
Proof.
  rewrite cluster_run_flat by (now left).
  destruct (all_keys es) as [|k0 keys]; cbn [ks_check_all].
  - split; [reflexivity|]. intros H; exfalso; apply H; intros ? ? [].
  - unfold check. rewrite N.eqb_refl. cbn [orb].
    destruct (check_all_from_slot tab keys (slot tab k0) (slot_ne_Init tab k0)) as [A B]. split.
    + intros S. apply A. apply Forall_forall. intros k Hk. apply S; [now right|now left].
    + intros S. apply B. intro HF. apply S. rewrite Forall_forall in HF.
      intros k1 k2 [<-|H1] [<-|H2]; auto.
      * symmetry; auto.
      * rewrite (HF _ H1), (HF _ H2); reflexivity.
Qed.

(** non-cluster builders: the key that decides the slot is the first key of the last non-empty key call *)
Lemma deciding_key_some : forall es k, exists k', deciding_key es (Some k) = Some k'.
Proof.
  induction es as [|[k0|[|k0 l]] es IH]; intros k; cbn [deciding_key]; eauto.
Qed.

Lemma noslot_run_gen tab : forall es ks acc,
  N.land ks NoSlot = NoSlot ->
  (ks = match acc with None => ks | Some k => N.lor NoSlot (slot tab k) end) ->
  ks_run tab ks es = Ok (match deciding_key es acc with None => ks | Some k => N.lor NoSlot (slot tab k) end).
Proof.
  induction es as [|e es IH]; intros ks acc Hn Hacc; cbn [ks_run deciding_key].
  - destruct acc; [now rewrite <- Hacc|reflexivity].
  - destruct e as [k|[|k l]]; cbn [ks_event]; unfold ks_key, ks_keys; rewrite Hn, N.eqb_refl.
    + rewrite (IH _ (Some k)); [|apply land_lor_NoSlot|reflexivity].
      destruct (deciding_key_some es k) as [k' ->]; reflexivity.
    + apply IH; assumption.
    + rewrite (IH _ (Some k)); [|apply land_lor_NoSlot|reflexivity].
      destruct (deciding_key_some es k) as [k' ->]; reflexivity.
Qed.

Theorem noslot_build tab es :
  ks_run tab NoSlot es = Ok (match deciding_key es None with None => NoSlot | Some k => N.lor NoSlot (slot tab k) end).
Proof. apply (noslot_run_gen tab es NoSlot None); reflexivity. Qed.
