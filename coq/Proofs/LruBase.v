(** List / lookup lemmas and the structural invariant of the lru model (Model/Lru.v). *)
From Coq Require Import List NArith ZArith Bool Lia Permutation.
Require Import RV.Model.Base RV.Model.Lru.
Import ListNotations.
Open Scope Z_scope.

(** ** boolean equalities *)

Lemma list_eqb_eq {A : Type} (eqb : A -> A -> bool) :
  (forall a b, eqb a b = true <-> a = b) ->
  forall l1 l2, list_eqb eqb l1 l2 = true <-> l1 = l2.
Proof.
  intros Heq l1. induction l1 as [|x r IH]; intros [|y r2]; cbn [list_eqb]; split; intro H; try reflexivity; try discriminate.
  - apply andb_true_iff in H. destruct H as [H1 H2]. apply Heq in H1. apply IH in H2. subst. reflexivity.
  - injection H as -> ->. apply andb_true_iff. split; [apply Heq; reflexivity|apply IH; reflexivity].
Qed.

Lemma bytes_eqb_eq a b : bytes_eqb a b = true <-> a = b.
Proof. unfold bytes_eqb. apply list_eqb_eq. intros x y. apply N.eqb_eq. Qed.

Lemma bytes_eqb_refl a : bytes_eqb a a = true.
Proof. apply bytes_eqb_eq. reflexivity. Qed.

Lemma bytes_eqb_neq a b : bytes_eqb a b = false <-> a <> b.
Proof.
  split; intro H.
  - intro E. apply bytes_eqb_eq in E. congruence.
  - destruct (bytes_eqb a b) eqn:E; [apply bytes_eqb_eq in E; contradiction|reflexivity].
Qed.

Definition kc (e : entry) : bytes * bytes := (ekey e, ecmd e).

Lemma ematch_iff k c e : ematch k c e = true <-> kc e = (k, c).
Proof.
  unfold ematch, kc. rewrite andb_true_iff, !bytes_eqb_eq. split.
  - intros [-> ->]. reflexivity.
  - intro H. injection H as <- <-. split; reflexivity.
Qed.

Lemma ematch_false k c e : ematch k c e = false <-> kc e <> (k, c).
Proof.
  split; intro H.
  - intro E. apply ematch_iff in E. congruence.
  - destruct (ematch k c e) eqn:E; [apply ematch_iff in E; contradiction|reflexivity].
Qed.

Lemma has_id_iff id e : has_id id e = true <-> eid e = id.
Proof. unfold has_id. apply N.eqb_eq. Qed.

(** ** sums, filters, permutations *)

Lemma sum_cons e l : sum_sizes (e :: l) = esize e + sum_sizes l.
Proof. reflexivity. Qed.

Lemma sum_nil : sum_sizes [] = 0.
Proof. reflexivity. Qed.

Lemma sum_app l1 l2 : sum_sizes (l1 ++ l2) = sum_sizes l1 + sum_sizes l2.
Proof. induction l1 as [|e r IH]; cbn [app]; rewrite ?sum_cons, ?sum_nil; lia. Qed.

Lemma sum_filter_split (p : entry -> bool) l :
  sum_sizes l = sum_sizes (filter p l) + sum_sizes (filter (fun e => negb (p e)) l).
Proof.
  induction l as [|e r IH]; [reflexivity|].
  cbn [filter]. destruct (p e); cbn [negb]; rewrite !sum_cons; lia.
Qed.

Lemma sum_perm l1 l2 : Permutation l1 l2 -> sum_sizes l1 = sum_sizes l2.
Proof. induction 1; rewrite ?sum_cons in *; lia. Qed.

Lemma filter_none {A : Type} (p : A -> bool) l : (forall x, In x l -> p x = false) -> filter p l = [].
Proof.
  induction l as [|x r IH]; intro H; [reflexivity|].
  cbn [filter]. rewrite (H x (or_introl eq_refl)). apply IH. intros y Hy. apply H. right. exact Hy.
Qed.

Lemma filter_all {A : Type} (p : A -> bool) l : (forall x, In x l -> p x = true) -> filter p l = l.
Proof.
  induction l as [|x r IH]; intro H; [reflexivity|].
  cbn [filter]. rewrite (H x (or_introl eq_refl)). f_equal. apply IH. intros y Hy. apply H. right. exact Hy.
Qed.

Lemma filter_unique {A B : Type} (f : A -> B) (p : A -> bool) l e :
  NoDup (map f l) -> (forall x y, p x = true -> p y = true -> f x = f y) ->
  In e l -> p e = true -> filter p l = [e].
Proof.
  intros Hnd Hp. induction l as [|x r IH]; intros Hin He; [contradiction|].
  cbn [map] in Hnd. inversion Hnd as [|? ? Hx Hr]; subst.
  cbn [filter]. destruct (p x) eqn:Epx.
  - assert (x = e).
    { destruct Hin as [->|Hin]; [reflexivity|]. exfalso. apply Hx.
      rewrite (Hp x e Epx He). apply in_map. exact Hin. }
    subst x. f_equal. apply filter_none. intros y Hy.
    destruct (p y) eqn:Epy; [|reflexivity]. exfalso. apply Hx. rewrite (Hp e y He Epy). apply in_map. exact Hy.
  - destruct Hin as [->|Hin]; [congruence|]. apply IH; assumption.
Qed.

Lemma filter_split_perm {A : Type} (p : A -> bool) l :
  Permutation (filter (fun x => negb (p x)) l ++ filter p l) l.
Proof.
  induction l as [|x r IH]; [constructor|].
  cbn [filter]. destruct (p x); cbn [negb app].
  - apply Permutation_sym. apply Permutation_cons_app. apply Permutation_sym. exact IH.
  - constructor. exact IH.
Qed.

Lemma NoDup_map_filter {A B : Type} (f : A -> B) (p : A -> bool) l :
  NoDup (map f l) -> NoDup (map f (filter p l)).
Proof.
  induction l as [|x r IH]; intro H; [constructor|].
  cbn [map] in H. inversion H as [|? ? Hx Hr]; subst.
  cbn [filter]. destruct (p x); [|apply IH; exact Hr].
  cbn [map]. constructor; [|apply IH; exact Hr].
  intro Hin. apply Hx. apply in_map_iff in Hin. destruct Hin as [y [Hy Hin]].
  apply filter_In in Hin. rewrite <- Hy. apply in_map. apply Hin.
Qed.

Lemma NoDup_app_snoc {A : Type} (l : list A) x : NoDup l -> ~ In x l -> NoDup (l ++ [x]).
Proof.
  intros Hnd Hx. induction l as [|y r IH]; cbn [app]; [constructor; [intros []|constructor]|].
  inversion Hnd as [|? ? Hy Hr]; subst. constructor.
  - intro Hin. apply in_app_or in Hin. destruct Hin as [Hin|[->|[]]]; [contradiction|]. apply Hx. left. reflexivity.
  - apply IH; [exact Hr|]. intro H. apply Hx. right. exact H.
Qed.

Lemma find_some_in {A : Type} (p : A -> bool) l e : find p l = Some e -> In e l /\ p e = true.
Proof. apply find_some. Qed.

Lemma find_none_all {A : Type} (p : A -> bool) l : find p l = None -> forall x, In x l -> p x = false.
Proof. intros H x Hx. exact (find_none p l H x Hx). Qed.

Lemma lookup_some k c l e : lookup k c l = Some e -> In e l /\ kc e = (k, c).
Proof. unfold lookup. intro H. apply find_some in H. destruct H as [H1 H2]. split; [exact H1|apply ematch_iff; exact H2]. Qed.

Lemma lookup_none k c l : lookup k c l = None -> forall e, In e l -> kc e <> (k, c).
Proof. unfold lookup. intros H e He. apply ematch_false. exact (find_none _ _ H e He). Qed.

(** with unique (key, cmd), the lookup finds the only matching entry *)
Lemma lookup_unique k c l e :
  NoDup (map kc l) -> In e l -> kc e = (k, c) -> lookup k c l = Some e.
Proof.
  intros Hnd. induction l as [|x r IH]; intros Hin He; [contradiction|].
  cbn [map] in Hnd. inversion Hnd as [|? ? Hx Hr]; subst.
  unfold lookup. cbn [find]. destruct (ematch k c x) eqn:Em.
  - apply ematch_iff in Em. destruct Hin as [->|Hin]; [reflexivity|].
    exfalso. apply Hx. rewrite Em, <- He. apply in_map. exact Hin.
  - destruct Hin as [->|Hin]; [apply ematch_iff in He; congruence|]. apply IH; assumption.
Qed.

Lemma filter_match_unique k c l e :
  NoDup (map kc l) -> lookup k c l = Some e -> filter (ematch k c) l = [e].
Proof.
  intros Hnd Hl. apply lookup_some in Hl. destruct Hl as [Hin He].
  apply (filter_unique kc); [exact Hnd| |exact Hin|apply ematch_iff; exact He].
  intros x y Hx Hy. apply ematch_iff in Hx, Hy. congruence.
Qed.

Lemma remove_kc_sum k c l e :
  NoDup (map kc l) -> lookup k c l = Some e -> sum_sizes (remove_kc k c l) = sum_sizes l - esize e.
Proof.
  intros Hnd Hl. unfold remove_kc. rewrite (sum_filter_split (ematch k c) l).
  rewrite (filter_match_unique k c l e Hnd Hl). rewrite sum_cons. cbn [sum_sizes fold_right]. lia.
Qed.

Lemma remove_kc_in k c l x : In x (remove_kc k c l) <-> In x l /\ kc x <> (k, c).
Proof. unfold remove_kc. rewrite filter_In, negb_true_iff, ematch_false. tauto. Qed.

Lemma remove_kc_lookup k c l : lookup k c (remove_kc k c l) = None.
Proof.
  unfold lookup. destruct (find (ematch k c) (remove_kc k c l)) eqn:E; [|reflexivity].
  apply find_some in E. destruct E as [E1 E2]. apply remove_kc_in in E1. apply ematch_iff in E2. tauto.
Qed.

Lemma move_to_back_perm id l : NoDup (map eid l) -> Permutation (move_to_back id l) l.
Proof.
  intro Hnd. unfold move_to_back. destruct (find (has_id id) l) as [e|] eqn:E; [|apply Permutation_refl].
  apply find_some in E. destruct E as [Hin He].
  assert (Hf : filter (has_id id) l = [e]).
  { apply (filter_unique eid); [exact Hnd| |exact Hin|exact He].
    intros x y Hx Hy. apply has_id_iff in Hx, Hy. congruence. }
  rewrite <- Hf. apply filter_split_perm.
Qed.

Lemma NoDup_map_perm {A B : Type} (f : A -> B) l1 l2 : Permutation l1 l2 -> NoDup (map f l1) -> NoDup (map f l2).
Proof. intros Hp. apply Permutation_NoDup. apply Permutation_map. exact Hp. Qed.

Lemma touch_fold_perm ids l :
  NoDup (map eid l) -> Permutation (fold_left (fun l id => move_to_back id l) ids l) l.
Proof.
  revert l. induction ids as [|id r IH]; intros l Hnd; [apply Permutation_refl|].
  cbn [fold_left]. pose proof (move_to_back_perm id l Hnd) as Hp.
  eapply Permutation_trans; [apply IH|exact Hp].
  apply (NoDup_map_perm eid l); [apply Permutation_sym; exact Hp|exact Hnd].
Qed.

(** ** the structural invariant *)

Record inv (s : state) : Prop := mkInv {
  inv_kc : NoDup (map kc (order s));                                   (* one entry per (key, cmd) *)
  inv_ids : forall e, In e (order s) -> (eid e < next_id s)%N;
  inv_idnd : NoDup (map eid (order s));
  inv_pend0 : forall e, In e (order s) -> pending e = true -> esize e = 0;
  inv_size : closed s = false -> size s = sum_sizes (order s);
  inv_closed : closed s = true -> order s = []
}.

Lemma inv_init : inv init.
Proof. constructor; cbn; try constructor; intros; try contradiction; try discriminate; reflexivity. Qed.

(** [inv] only looks at size, order, closed, next_id *)
Lemma inv_perm s s' :
  Permutation (order s') (order s) -> size s' = size s -> closed s' = closed s -> next_id s' = next_id s ->
  inv s -> inv s'.
Proof.
  intros Hp Hs Hc Hn [I1 I2 I3 I4 I5 I6]. constructor.
  - apply (NoDup_map_perm kc (order s)); [apply Permutation_sym; exact Hp|exact I1].
  - intros e He. rewrite Hn. apply I2. eapply Permutation_in; eassumption.
  - apply (NoDup_map_perm eid (order s)); [apply Permutation_sym; exact Hp|exact I3].
  - intros e He. apply I4. eapply Permutation_in; eassumption.
  - rewrite Hc, Hs. intro H. rewrite (I5 H). symmetry. apply sum_perm. exact Hp.
  - rewrite Hc. intro H. rewrite (I6 H) in Hp. apply Permutation_nil. apply Permutation_sym. exact Hp.
Qed.

Lemma inv_same s s' :
  order s' = order s -> size s' = size s -> closed s' = closed s -> next_id s' = next_id s -> inv s -> inv s'.
Proof. intros Ho. apply inv_perm. rewrite Ho. apply Permutation_refl. Qed.

(** [bump] *)
Lemma bump_order s k : order (fst (bump s k)) = order s. Proof. reflexivity. Qed.
Lemma bump_size s k : size (fst (bump s k)) = size s. Proof. reflexivity. Qed.
Lemma bump_closed s k : closed (fst (bump s k)) = closed s. Proof. reflexivity. Qed.
Lemma bump_next s k : next_id (fst (bump s k)) = next_id s. Proof. reflexivity. Qed.

(** ** flight_fast / flights_fast change the hit counters only *)

Lemma flight_fast_core s k c now :
  let s' := fst (flight_fast s k c now) in
  order s' = order s /\ size s' = size s /\ closed s' = closed s /\ next_id s' = next_id s.
Proof.
  unfold flight_fast. destruct (lookup k c (order s)) as [e|]; [|cbn; tauto].
  destruct (live (eval e) now); cbn; tauto.
Qed.

Lemma flights_fast_core now items : forall s,
  let s' := fst (fst (flights_fast s now items)) in
  order s' = order s /\ size s' = size s /\ closed s' = closed s /\ next_id s' = next_id s.
Proof.
  induction items as [|[k c t] r IH]; intro s; [cbn; tauto|].
  cbn [flights_fast].
  destruct (lookup k c (order s)) as [e|].
  - destruct (live (eval e) now).
    + unfold bump. specialize (IH (set_hit s k (N.succ (get_hits k (hits s))))).
      destruct (flights_fast (set_hit s k (N.succ (get_hits k (hits s)))) now r) as [[s2 rs] mv].
      cbn in *. exact IH.
    + specialize (IH s). destruct (flights_fast s now r) as [[s2 rs] mv]. cbn in *. exact IH.
  - specialize (IH s). destruct (flights_fast s now r) as [[s2 rs] mv]. cbn in *. exact IH.
Qed.

Lemma inv_flight_fast s k c now : inv s -> inv (fst (flight_fast s k c now)).
Proof. intro H. destruct (flight_fast_core s k c now) as [A [B [C D]]]. eapply inv_same; eassumption. Qed.

Lemma inv_flights_fast s now items : inv s -> inv (fst (fst (flights_fast s now items))).
Proof. intro H. destruct (flights_fast_core now items s) as [A [B [C D]]]. eapply inv_same; eassumption. Qed.

(** ** touch permutes the list *)

Lemma touch_perm s ids : inv s -> Permutation (order (touch s ids)) (order s).
Proof.
  intro H. unfold touch. destruct (closed s); [apply Permutation_refl|].
  cbn [set_order order]. apply touch_fold_perm. apply (inv_idnd s H).
Qed.

Lemma touch_core s ids : size (touch s ids) = size s /\ closed (touch s ids) = closed s /\ next_id (touch s ids) = next_id s.
Proof. unfold touch. destruct (closed s) eqn:E; cbn; rewrite ?E; tauto. Qed.

Lemma inv_touch s ids : inv s -> inv (touch s ids).
Proof.
  intro H. destruct (touch_core s ids) as [A [B C]].
  eapply inv_perm; try eassumption. apply touch_perm. exact H.
Qed.

(** ** push_pending *)

Lemma inv_push s k c ttl now :
  inv s -> closed s = false -> lookup k c (order s) = None -> inv (fst (push_pending s k c ttl now)).
Proof.
  intros [I1 I2 I3 I4 I5 I6] Hc Hl. unfold push_pending. cbn [fst].
  constructor; cbn [order size closed next_id].
  - rewrite map_app. cbn [map]. apply NoDup_app_snoc; [exact I1|].
    intro Hin. apply in_map_iff in Hin. destruct Hin as [x [Hx Hin]].
    exact (lookup_none k c _ Hl x Hin Hx).
  - intros e He. apply in_app_or in He. destruct He as [He|[<-|[]]].
    + specialize (I2 e He). lia.
    + cbn. lia.
  - rewrite map_app. cbn [map]. apply NoDup_app_snoc; [exact I3|].
    intro Hin. apply in_map_iff in Hin. destruct Hin as [x [Hx Hin]].
    specialize (I2 x Hin). cbn in Hx. lia.
  - intros e He Hp. apply in_app_or in He. destruct He as [He|[<-|[]]]; [apply I4; assumption|reflexivity].
  - intro H. rewrite sum_app, (I5 H). cbn. lia.
  - intro H. congruence.
Qed.

(** ** slow_one (the write-locked section of Flight / Flights for one command) *)

Lemma inv_remove_entry s k c e :
  inv s -> closed s = false -> lookup k c (order s) = Some e ->
  inv (mkS (size s - esize e) (remove_kc k c (order s)) (hits s) (closed s) (next_id s)).
Proof.
  intros [I1 I2 I3 I4 I5 I6] Hc Hl. constructor; cbn [order size closed next_id].
  - apply NoDup_map_filter. exact I1.
  - intros x Hx. apply remove_kc_in in Hx. apply I2. apply Hx.
  - apply NoDup_map_filter. exact I3.
  - intros x Hx. apply remove_kc_in in Hx. apply I4. apply Hx.
  - intro H. rewrite (remove_kc_sum k c _ e I1 Hl), (I5 H). reflexivity.
  - intro H. congruence.
Qed.

Lemma inv_slow_one s k c ttl now :
  inv s -> closed s = false -> inv (fst (slow_one s k c ttl now)) /\ closed (fst (slow_one s k c ttl now)) = false.
Proof.
  intros Hi Hc. unfold slow_one. destruct (lookup k c (order s)) as [e|] eqn:El.
  - destruct (live (eval e) now).
    + cbn [bump fst]. split; [|exact Hc].
      eapply inv_perm; [| | | |exact Hi]; cbn [set_order set_hit order size closed next_id]; try reflexivity.
      apply move_to_back_perm. apply (inv_idnd s Hi).
    + pose proof (inv_remove_entry s k c e Hi Hc El) as Hi1.
      set (s1 := mkS (size s - esize e) (remove_kc k c (order s)) (hits s) (closed s) (next_id s)) in *.
      pose proof (inv_push s1 k c ttl now Hi1 Hc (remove_kc_lookup k c (order s))) as Hi2.
      unfold push_pending in *. cbn [fst] in *. split; [exact Hi2|exact Hc].
  - pose proof (inv_push s k c ttl now Hi Hc El) as Hi2.
    unfold push_pending in *. cbn [fst] in *. split; [exact Hi2|exact Hc].
Qed.

Lemma inv_flight_slow s k c ttl now : inv s -> inv (fst (flight_slow s k c ttl now)).
Proof.
  intro Hi. unfold flight_slow. destruct (closed s) eqn:Hc; [exact Hi|].
  pose proof (inv_slow_one s k c ttl now Hi Hc) as [H _].
  destruct (slow_one s k c ttl now) as [s1 r]. exact H.
Qed.

Lemma inv_flight s k c ttl now : inv s -> inv (fst (flight s k c ttl now)).
Proof.
  intro Hi. unfold flight.
  pose proof (inv_flight_fast s k c now Hi) as H1.
  destruct (flight_fast s k c now) as [s1 o]. cbn [fst] in H1.
  destruct o as [| [[id v]|] mv | | | | | | |]; try (apply inv_flight_slow; exact H1).
  destruct mv; cbn [fst]; [apply inv_touch; exact H1|exact H1].
Qed.

Lemma inv_flights_slow_open now items : forall s,
  inv s -> closed s = false -> inv (fst (flights_slow_open s now items)).
Proof.
  induction items as [|[k c t] r IH]; intros s Hi Hc; [exact Hi|].
  cbn [flights_slow_open].
  pose proof (inv_slow_one s k c t now Hi Hc) as [H1 H2].
  destruct (slow_one s k c t now) as [s1 x]. cbn [fst] in H1, H2.
  specialize (IH s1 H1 H2). destruct (flights_slow_open s1 now r) as [s2 rs]. exact IH.
Qed.

Lemma inv_flights_slow s now items : inv s -> inv (fst (flights_slow s now items)).
Proof.
  intro Hi. unfold flights_slow. destruct (closed s) eqn:Hc; [exact Hi|].
  apply inv_flights_slow_open; assumption.
Qed.

Lemma inv_flights s now items : inv s -> inv (fst (flights s now items)).
Proof.
  intro Hi. unfold flights.
  pose proof (inv_flights_fast s now items Hi) as H1.
  destruct (flights_fast s now items) as [[s1 rs] mv]. cbn [fst] in H1.
  assert (H2 : inv (match mv with [] => s1 | _ :: _ => touch s1 mv end)).
  { destruct mv; [exact H1|apply inv_touch; exact H1]. }
  destruct (missed_items items rs) as [|mi0 mi]; [exact H2|].
  pose proof (inv_flights_slow _ now (mi0 :: mi) H2) as H3.
  destruct (flights_slow _ now (mi0 :: mi)) as [s3 rs2]. exact H3.
Qed.

(** ** the eviction walk *)

Lemma evict_spec max : forall l sz z keep ev,
  evict max sz l = (z, keep, ev) ->
  z = sz - sum_sizes ev /\
  Permutation (ev ++ keep) l /\
  (forall e, In e ev -> pending e = false) /\
  (z <= max \/ forall e, In e keep -> pending e = true).
Proof.
  induction l as [|e r IH]; intros sz z keep ev H; cbn [evict] in H.
  - injection H as <- <- <-. cbn [app]. rewrite sum_nil. split; [lia|]. split; [constructor|]. split; [intros ? []|right; intros ? []].
  - destruct (max <? sz) eqn:Em.
    + destruct (pending e) eqn:Ep.
      * destruct (evict max sz r) as [[z1 k1] e1] eqn:Er. injection H as <- <- <-.
        destruct (IH _ _ _ _ Er) as [A [B [C D]]]. split; [exact A|]. split; [|split; [exact C|]].
        -- apply Permutation_sym. apply Permutation_cons_app. apply Permutation_sym. exact B.
        -- destruct D as [D|D]; [left; exact D|right]. intros x [<-|Hx]; [exact Ep|apply D; exact Hx].
      * destruct (evict max (sz - esize e) r) as [[z1 k1] e1] eqn:Er. injection H as <- <- <-.
        destruct (IH _ _ _ _ Er) as [A [B [C D]]]. split; [|split; [|split]].
        -- rewrite sum_cons. lia.
        -- cbn [app]. constructor. exact B.
        -- intros x [<-|Hx]; [exact Ep|apply C; exact Hx].
        -- exact D.
    + injection H as <- <- <-. cbn [app]. rewrite sum_nil. split; [lia|]. split; [apply Permutation_refl|]. split; [intros ? []|].
      left. apply Z.ltb_ge in Em. exact Em.
Qed.

Lemma evict_keep_sub max l sz z keep ev : evict max sz l = (z, keep, ev) -> forall e, In e keep -> In e l.
Proof.
  intros H e He. destruct (evict_spec max l sz z keep ev H) as [_ [B _]].
  eapply Permutation_in; [exact B|]. apply in_or_app. right. exact He.
Qed.

Lemma NoDup_map_app_r {A B : Type} (f : A -> B) l1 l2 : NoDup (map f (l1 ++ l2)) -> NoDup (map f l2).
Proof.
  rewrite map_app. induction (map f l1) as [|x r IH]; cbn [app]; [tauto|].
  intro H. inversion H; subst. apply IH. assumption.
Qed.

(** ** Update *)

Definition wf_msg (v : msg) : Prop := m_typ v <> 0%N.

Lemma upd_kc_map_kc k c f l : (forall e, kc (f e) = kc e) -> map kc (upd_kc k c f l) = map kc l.
Proof.
  intro Hf. unfold upd_kc. rewrite map_map. apply map_ext. intro e. destruct (ematch k c e); [apply Hf|reflexivity].
Qed.

Lemma upd_kc_map_id k c f l : (forall e, eid (f e) = eid e) -> map eid (upd_kc k c f l) = map eid l.
Proof.
  intro Hf. unfold upd_kc. rewrite map_map. apply map_ext. intro e. destruct (ematch k c e); [apply Hf|reflexivity].
Qed.

Lemma upd_kc_in k c f l x : In x (upd_kc k c f l) -> exists e, In e l /\ ((kc e = (k, c) /\ x = f e) \/ (kc e <> (k, c) /\ x = e)).
Proof.
  unfold upd_kc. intro H. apply in_map_iff in H. destruct H as [e [He Hin]]. exists e. split; [exact Hin|].
  destruct (ematch k c e) eqn:Em; [left; apply ematch_iff in Em|right; apply ematch_false in Em]; split; auto.
Qed.

Lemma upd_kc_sum k c f l e :
  NoDup (map kc l) -> lookup k c l = Some e -> sum_sizes (upd_kc k c f l) = sum_sizes l - esize e + esize (f e).
Proof.
  intros Hnd Hl. induction l as [|x r IH]; [discriminate|].
  cbn [map] in Hnd. inversion Hnd as [|? ? Hx Hr]; subst.
  unfold lookup in Hl. cbn [find] in Hl. unfold upd_kc. cbn [map]. fold (upd_kc k c f r). rewrite !sum_cons.
  destruct (ematch k c x) eqn:Em.
  - injection Hl as <-. 
    assert (Hr' : upd_kc k c f r = r).
    { unfold upd_kc. rewrite <- (map_id r) at 2. apply map_ext_in. intros y Hy.
      destruct (ematch k c y) eqn:Ey; [|reflexivity]. exfalso. apply Hx.
      apply ematch_iff in Em, Ey. rewrite Em, <- Ey. apply in_map. exact Hy. }
    rewrite Hr'. lia.
  - rewrite (IH Hr Hl). lia.
Qed.

Lemma inv_update g s k c v : wf_msg v -> inv s -> inv (fst (update g s k c v)).
Proof.
  intros Hv Hi. unfold update. destruct (lookup k c (order s)) as [e|] eqn:El; [|exact Hi].
  set (px := min_xat (m_xat (eval e)) (m_xat v)).
  set (v' := set_xat v px).
  set (sz := entry_size g k c v').
  assert (Hv' : is_pending_msg v' = false).
  { unfold is_pending_msg, v'. destruct v. cbn. apply N.eqb_neq. exact Hv. }
  (* the state after the commit, before the walk *)
  assert (H1 : exists s1 px1 rel1,
     (if pending e then
        (mkS (size s + sz) (upd_kc k c (fun x => mkE (eid x) (ekey x) (ecmd x) v' sz) (order s)) (hits s) (closed s) (next_id s), px, Some (Rel (eid e) v'))
      else (s, 0, None)) = (s1, px1, rel1) /\ inv s1).
  { destruct (pending e) eqn:Ep; [|eauto].
    eexists _, _, _. split; [reflexivity|].
    destruct Hi as [I1 I2 I3 I4 I5 I6]. constructor; cbn [order size closed next_id].
    - rewrite upd_kc_map_kc; [exact I1|reflexivity].
    - intros x Hx. apply upd_kc_in in Hx. destruct Hx as [y [Hy [[_ ->]|[_ ->]]]]; cbn; apply I2; exact Hy.
    - rewrite upd_kc_map_id; [exact I3|reflexivity].
    - intros x Hx Hp. apply upd_kc_in in Hx. destruct Hx as [y [Hy [[_ ->]|[_ ->]]]].
      + unfold pending in Hp. cbn in Hp. congruence.
      + apply I4; assumption.
    - intro H. rewrite (upd_kc_sum k c _ _ e I1 El). cbn [esize]. rewrite (I5 H).
      apply lookup_some in El. rewrite (I4 e (proj1 El) Ep). lia.
    - intro H. rewrite (I6 H) in El. discriminate. }
  destruct H1 as [s1 [px1 [rel1 [-> Hi1]]]].
  destruct (evict (cmax g) (size s1) (order s1)) as [[z keep] ev] eqn:Ee. cbn [fst].
  destruct (evict_spec _ _ _ _ _ _ Ee) as [A [B [C D]]].
  destruct Hi1 as [I1 I2 I3 I4 I5 I6]. constructor; cbn [order size closed next_id].
  - apply (NoDup_map_app_r kc ev). apply (NoDup_map_perm kc (order s1)); [apply Permutation_sym; exact B|exact I1].
  - intros x Hx. apply I2. eapply evict_keep_sub; eassumption.
  - apply (NoDup_map_app_r eid ev). apply (NoDup_map_perm eid (order s1)); [apply Permutation_sym; exact B|exact I3].
  - intros x Hx. apply I4. eapply evict_keep_sub; eassumption.
  - intro H. rewrite A, (I5 H), <- (sum_perm _ _ B), sum_app. lia.
  - intro H. specialize (I6 H). rewrite I6 in Ee. cbn in Ee. injection Ee as _ <- _. reflexivity.
Qed.

(** ** Cancel, Delete, Close *)

Lemma inv_cancel s k c : inv s -> inv (fst (cancel s k c)).
Proof.
  intro Hi. unfold cancel. destruct (lookup k c (order s)) as [e|] eqn:El; [|exact Hi].
  destruct (pending e) eqn:Ep; [|exact Hi]. cbn [fst].
  destruct (closed s) eqn:Hc.
  - rewrite (inv_closed s Hi Hc) in El. discriminate.
  - pose proof (inv_remove_entry s k c e Hi Hc El) as H.
    apply lookup_some in El. rewrite (inv_pend0 s Hi e (proj1 El) Ep), Z.sub_0_r in H.
    eapply inv_same; [| | | |exact H]; cbn [order size closed next_id]; congruence.
Qed.

Lemma inv_purge_if p s : inv s -> inv (purge_if p s).
Proof.
  intros [I1 I2 I3 I4 I5 I6]. unfold purge_if. constructor; cbn [order size closed next_id].
  - apply NoDup_map_filter. exact I1.
  - intros x Hx. apply filter_In in Hx. apply I2. apply Hx.
  - apply NoDup_map_filter. exact I3.
  - intros x Hx. apply filter_In in Hx. apply I4. apply Hx.
  - intro H. rewrite (I5 H). rewrite (sum_filter_split (fun e => p e && negb (pending e)) (order s)). lia.
  - intro H. rewrite (I6 H). reflexivity.
Qed.

Lemma inv_delete s keys : inv s -> inv (delete s keys).
Proof. intro H. unfold delete. destruct keys; apply inv_purge_if; exact H. Qed.

Lemma inv_close s : inv s -> inv (fst (close s)).
Proof.
  intros [I1 I2 I3 I4 I5 I6]. unfold close. cbn [fst]. constructor; cbn [order size closed next_id map];
    try constructor; intros; try contradiction; try discriminate; reflexivity.
Qed.

(** ** every step preserves the invariant *)

Definition wf_op (o : op) : Prop := match o with Update _ _ v => wf_msg v | _ => True end.

Lemma inv_step g s o : wf_op o -> inv s -> inv (fst (step g s o)).
Proof.
  intros Hw Hi. destruct o; cbn [step fst].
  - apply inv_flight; exact Hi.
  - apply inv_flights; exact Hi.
  - apply inv_update; assumption.
  - apply inv_cancel; exact Hi.
  - apply inv_delete; exact Hi.
  - apply inv_close; exact Hi.
  - exact Hi.
  - apply inv_flight_fast; exact Hi.
  - apply inv_touch; exact Hi.
  - apply inv_flight_slow; exact Hi.
  - pose proof (inv_flights_fast s now items Hi) as H. destruct (flights_fast s now items) as [[s1 rs] mv]. exact H.
  - pose proof (inv_flights_slow s now items Hi) as H. destruct (flights_slow s now items) as [s1 rs]. exact H.
Qed.

Lemma run_app g ops1 ops2 s : run g (ops1 ++ ops2) s = run g ops2 (run g ops1 s).
Proof. unfold run. apply fold_left_app. Qed.

Lemma run_cons g o ops s : run g (o :: ops) s = run g ops (fst (step g s o)).
Proof. reflexivity. Qed.

Lemma inv_run g ops : forall s, Forall wf_op ops -> inv s -> inv (run g ops s).
Proof.
  induction ops as [|o r IH]; intros s Hw Hi; [exact Hi|].
  inversion Hw; subst. rewrite run_cons. apply IH; [assumption|]. apply inv_step; assumption.
Qed.
