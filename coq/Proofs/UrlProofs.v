(** Proofs about ParseURL (C44): closed form of every option, rejection of invalid values,
    non-interference between parameters. *)
From Coq Require Import List NArith ZArith Bool Lia String.
Require Import RV.Model.Base RV.Model.AccBase RV.Model.Url.
Import ListNotations.
Open Scope N_scope.

(** ---- the documented mapping, one closed form per option ---- *)
Section Mapping.
Variable e : env.

Definition valid_scheme (u : purl) : bool :=
  is_unix_scheme (scheme u) || is_tls_scheme (scheme u) || is_plain_scheme (scheme u).

(** address list: socket path (unix) or host:port of the URL, then every addr parameter in order *)
Definition addrs_of (u : purl) : list bytes :=
  (if is_unix_scheme (scheme u) then [trim_space e (path u)] else [snd (parse_addr e (hostname u) (host u))])
  ++ map (fun a => snd (parse_addr e (hostname u) a)) (q_all (query u) (b "addr")).

(** skip_verify: bare parameter or empty value = true, otherwise strconv.ParseBool *)
Definition skip_of (u : purl) : bool :=
  if q_has (query u) (b "skip_verify") then
    match q_get (query u) (b "skip_verify") with
    | [] => true
    | v => match parse_bool v with Some sv => sv | None => false end
    end
  else false.

Definition tls_of (u : purl) : option tls_cfg :=
  if is_tls_scheme (scheme u) then Some (mkTls (fst (parse_addr e (hostname u) (host u))) (skip_of u)) else None.

Definition user_of (u : purl) : bytes := match user u with Some (n, _) => n | None => [] end.
Definition pass_of (u : purl) : bytes := match user u with Some (_, Some p) => p | _ => [] end.

(** database: the db parameter wins over the path; path only for non-unix schemes *)
Definition db_of (u : purl) : Z :=
  if q_has (query u) (b "db") then
    match parse_int10 (q_get (query u) (b "db")) with Some z => z | None => 0%Z end
  else if is_unix_scheme (scheme u) then 0%Z
  else match split_byte 47 (path u) with
       | [_; d] => match parse_int10 d with Some z => z | None => 0%Z end
       | _ => 0%Z
       end.

(** a duration parameter *)
Definition dur_of (u : purl) (k : bytes) : Z :=
  if q_has (query u) k then
    match parse_duration e (q_get (query u) k) with Some d => d | None => 0%Z end
  else 0%Z.

Definition expected (u : purl) : opts :=
  mkOpts (addrs_of u) (tls_of u) (is_unix_scheme (scheme u)) (user_of u) (pass_of u) (db_of u)
         (dur_of u (b "dial_timeout")) (dur_of u (b "write_timeout"))
         (bytes_eqb (q_get (query u) (b "protocol")) (b "2"))
         (bytes_eqb (q_get (query u) (b "client_cache")) (b "0"))
         (bytes_eqb (q_get (query u) (b "max_retries")) (b "0"))
         (q_get (query u) (b "client_name"))
         (q_get (query u) (b "master_set")).

(** the conditions under which ParseURL rejects *)
Definition bad_path (u : purl) : bool :=
  negb (is_unix_scheme (scheme u)) &&
  match split_byte 47 (path u) with
  | [_; d] => match parse_int10 d with Some _ => false | None => true end
  | _ :: _ :: _ :: _ => true
  | _ => false
  end.
Definition bad_db (u : purl) : bool :=
  q_has (query u) (b "db") && match parse_int10 (q_get (query u) (b "db")) with Some _ => false | None => true end.
Definition bad_dur (u : purl) (k : bytes) : bool :=
  q_has (query u) k && match parse_duration e (q_get (query u) k) with Some _ => false | None => true end.
Definition bad_skip (u : purl) : bool :=
  is_tls_scheme (scheme u) && q_has (query u) (b "skip_verify") &&
  match q_get (query u) (b "skip_verify") with
  | [] => false
  | v => match parse_bool v with Some _ => false | None => true end
  end.

Definition rejected (u : purl) : bool :=
  negb (valid_scheme u) || bad_path u || bad_db u || bad_dur u (b "dial_timeout") || bad_dur u (b "write_timeout") || bad_skip u.

(** each stage: rejects exactly under its condition, otherwise yields its closed form *)
Lemma stage_path_spec u :
  stage_path u = if bad_path u then stage_path u else
    Ok (if is_unix_scheme (scheme u) then None else
        match split_byte 47 (path u) with
        | [_; d] => parse_int10 d
        | _ => None
        end).
Proof.
  unfold stage_path, bad_path, path_db. destruct (is_unix_scheme (scheme u)); cbn [negb andb]; [reflexivity|].
  destruct (split_byte 47 (path u)) as [|x [|d [|y r]]]; try reflexivity.
  destruct (parse_int10 d); reflexivity.
Qed.

Lemma stage_path_err u : bad_path u = true -> exists k, stage_path u = Err k.
Proof.
  unfold stage_path, bad_path, path_db. destruct (is_unix_scheme (scheme u)); cbn [negb andb]; [discriminate|].
  destruct (split_byte 47 (path u)) as [|x [|d [|y r]]]; try discriminate.
  - destruct (parse_int10 d); [discriminate|]. eauto.
  - eauto.
Qed.

Lemma stage_db_spec u dbp :
  stage_db u dbp = if bad_db u then Err EDb else
    Ok (if q_has (query u) (b "db") then parse_int10 (q_get (query u) (b "db")) else dbp).
Proof.
  unfold stage_db, bad_db. destruct (q_has (query u) (b "db")); cbn [andb]; [|reflexivity].
  destruct (parse_int10 (q_get (query u) (b "db"))); reflexivity.
Qed.

Lemma stage_dur_spec u k ek :
  stage_dur e u k ek = if bad_dur u k then Err ek else Ok (dur_of u k).
Proof.
  unfold stage_dur, bad_dur, dur_of. destruct (q_has (query u) k); cbn [andb]; [|reflexivity].
  destruct (parse_duration e (q_get (query u) k)); reflexivity.
Qed.

Lemma stage_skip_spec u :
  stage_skip u (if is_tls_scheme (scheme u) then Some (mkTls (fst (parse_addr e (hostname u) (host u))) false) else None) =
  if bad_skip u then Err ESkipVerify else Ok (tls_of u).
Proof.
  unfold stage_skip, bad_skip, tls_of, skip_of. destruct (is_tls_scheme (scheme u)); cbn [andb]; [|reflexivity].
  destruct (q_has (query u) (b "skip_verify")); cbn [andb]; [|reflexivity].
  destruct (q_get (query u) (b "skip_verify")) as [|c r]; [reflexivity|].
  cbn [server_name]. destruct (parse_bool (c :: r)); reflexivity.
Qed.

(** ParseURL is a total function of the parsed URL: it rejects exactly under [rejected], and otherwise
    returns exactly the documented options *)
Theorem parse_url_spec (u : purl) :
  (rejected u = false -> parse_url e u = Ok (expected u)) /\
  (rejected u = true -> exists k, parse_url e u = Err k) /\
  parse_url e u <> Panic.
Proof.
  unfold rejected, valid_scheme, parse_url. cbv zeta.
  destruct (is_unix_scheme (scheme u) || is_tls_scheme (scheme u) || is_plain_scheme (scheme u)) eqn:Es; cbn [negb orb].
  2:{ repeat split; try discriminate. eauto. }
  rewrite stage_path_spec.
  destruct (bad_path u) eqn:Bp; cbn [orb].
  { destruct (stage_path_err u Bp) as (k & ->). cbn [bind]. repeat split; try discriminate. eauto. }
  cbn [bind]. rewrite stage_db_spec.
  destruct (bad_db u) eqn:Bd; cbn [orb bind]. { repeat split; try discriminate. eauto. }
  rewrite !stage_dur_spec.
  destruct (bad_dur u (b "dial_timeout")) eqn:B1; cbn [orb bind]. { repeat split; try discriminate. eauto. }
  destruct (bad_dur u (b "write_timeout")) eqn:B2; cbn [orb bind]. { repeat split; try discriminate. eauto. }
  rewrite stage_skip_spec.
  destruct (bad_skip u) eqn:B3; cbn [orb bind]. { repeat split; try discriminate. eauto. }
  repeat split; try discriminate. intros _. f_equal.
  unfold expected, addrs_of, user_of, pass_of, db_of. f_equal.
  destruct (q_has (query u) (b "db")); [reflexivity|].
  destruct (is_unix_scheme (scheme u)); [reflexivity|].
  destruct (split_byte 47 (path u)) as [|x [|d [|y r]]]; reflexivity.
Qed.

End Mapping.

(** ---- non-interference: each option is a function of its own parameter only ---- *)

Lemma q_has_get_of_all q q' k : q_all q k = q_all q' k -> q_has q k = q_has q' k /\ q_get q k = q_get q' k.
Proof. unfold q_has, q_get. intros ->. split; reflexivity. Qed.

(** durations *)
Lemma dur_of_own e u u' k : q_all (query u) k = q_all (query u') k -> dur_of e u k = dur_of e u' k.
Proof. intro H. unfold dur_of. destruct (q_has_get_of_all _ _ _ H) as [-> ->]. reflexivity. Qed.

(** the option record restricted to the fields that depend only on one query key each *)
Theorem query_fields_own e u u' o o' :
  parse_url e u = Ok o -> parse_url e u' = Ok o' ->
  (q_all (query u) (b "dial_timeout") = q_all (query u') (b "dial_timeout") -> dial_timeout o = dial_timeout o') /\
  (q_all (query u) (b "write_timeout") = q_all (query u') (b "write_timeout") -> conn_write_timeout o = conn_write_timeout o') /\
  (q_all (query u) (b "protocol") = q_all (query u') (b "protocol") -> always_resp2 o = always_resp2 o') /\
  (q_all (query u) (b "client_cache") = q_all (query u') (b "client_cache") -> disable_cache o = disable_cache o') /\
  (q_all (query u) (b "max_retries") = q_all (query u') (b "max_retries") -> disable_retry o = disable_retry o') /\
  (q_all (query u) (b "client_name") = q_all (query u') (b "client_name") -> client_name o = client_name o') /\
  (q_all (query u) (b "master_set") = q_all (query u') (b "master_set") -> master_set o = master_set o') /\
  (user u = user u' -> username o = username o' /\ password o = password o') /\
  (scheme u = scheme u' -> host u = host u' -> hostname u = hostname u' ->
   q_all (query u) (b "skip_verify") = q_all (query u') (b "skip_verify") -> tls o = tls o') /\
  (scheme u = scheme u' -> host u = host u' -> hostname u = hostname u' -> path u = path u' ->
   q_all (query u) (b "addr") = q_all (query u') (b "addr") -> init_address o = init_address o') /\
  (scheme u = scheme u' -> path u = path u' ->
   q_all (query u) (b "db") = q_all (query u') (b "db") -> select_db o = select_db o').
Proof.
  intros H H'.
  destruct (parse_url_spec e u) as (S1 & S2 & _). destruct (parse_url_spec e u') as (S1' & S2' & _).
  destruct (rejected e u) eqn:R. { destruct (S2 eq_refl) as (k & Hk). congruence. }
  destruct (rejected e u') eqn:R'. { destruct (S2' eq_refl) as (k & Hk). congruence. }
  rewrite (S1 eq_refl) in H. rewrite (S1' eq_refl) in H'. injection H as <-. injection H' as <-.
  unfold expected; cbn [dial_timeout conn_write_timeout always_resp2 disable_cache disable_retry client_name master_set
                        username password tls init_address select_db].
  repeat match goal with |- _ /\ _ => split end.
  - apply dur_of_own.
  - apply dur_of_own.
  - intro E. now destruct (q_has_get_of_all _ _ _ E) as [_ ->].
  - intro E. now destruct (q_has_get_of_all _ _ _ E) as [_ ->].
  - intro E. now destruct (q_has_get_of_all _ _ _ E) as [_ ->].
  - intro E. now destruct (q_has_get_of_all _ _ _ E) as [_ ->].
  - intro E. now destruct (q_has_get_of_all _ _ _ E) as [_ ->].
  - unfold user_of, pass_of. intro E. rewrite E. split; reflexivity.
  - intros Es Eh En E. unfold tls_of, skip_of. destruct (q_has_get_of_all _ _ _ E) as [-> ->]. now rewrite Es, Eh, En.
  - intros Es Eh En Ep E. unfold addrs_of. now rewrite Es, Eh, En, Ep, E.
  - intros Es Ep E. unfold db_of. destruct (q_has_get_of_all _ _ _ E) as [-> ->]. now rewrite Es, Ep.
Qed.

(** setting / changing any other query key leaves [q_all k] untouched *)
Lemma q_all_other q k k' v : bytes_eqb k' k = false -> q_all ((k', v) :: q) k = q_all q k.
Proof. intro H. unfold q_all. cbn [filter fst]. now rewrite H. Qed.

Lemma q_all_app q1 q2 k : q_all (q1 ++ q2) k = q_all q1 k ++ q_all q2 k.
Proof. unfold q_all. now rewrite filter_app, map_app. Qed.

(** ---- the repaired defect ---- *)
Lemma before_fix_overwrites :
  let e := mkEnv (fun _ => ([], [])) (fun s => if bytes_eqb s (b "5s") then Some 5000000000%Z else if bytes_eqb s (b "1s") then Some 1000000000%Z else None) (fun s => s) in
  timeouts_before_fix e [(b "dial_timeout", b "5s"); (b "write_timeout", b "1s")] = Ok (1000000000%Z, 0%Z).
Proof. vm_compute. reflexivity. Qed.

(** ---- the mapping, part by part, in terms of the library functions ---- *)
Theorem mapping_parts e u o : parse_url e u = Ok o ->
  (* credentials *)
  username o = match user u with Some (n, _) => n | None => [] end /\
  password o = match user u with Some (_, Some p) => p | _ => [] end /\
  (* scheme: TLS for rediss / valkeys, unix dialer for unix *)
  (tls o <> None <-> is_tls_scheme (scheme u) = true) /\
  unix_dial o = is_unix_scheme (scheme u) /\
  (* address or socket path, then the addr parameters in order *)
  init_address o =
    (if is_unix_scheme (scheme u) then [trim_space e (path u)] else [snd (parse_addr e (hostname u) (host u))])
    ++ map (fun a => snd (parse_addr e (hostname u) a)) (q_all (query u) (b "addr")) /\
  (forall t, tls o = Some t -> server_name t = fst (parse_addr e (hostname u) (host u))) /\
  (* database: db parameter, else /<n> path (non-unix), else 0 *)
  (q_has (query u) (b "db") = true -> parse_int10 (q_get (query u) (b "db")) = Some (select_db o)) /\
  (q_has (query u) (b "db") = false -> is_unix_scheme (scheme u) = false ->
     forall x d, split_byte 47 (path u) = [x; d] -> parse_int10 d = Some (select_db o)) /\
  (q_has (query u) (b "db") = false -> (is_unix_scheme (scheme u) = true \/ split_byte 47 (path u) = [path u]) -> select_db o = 0%Z) /\
  (* dial_timeout -> Dialer.Timeout, write_timeout -> ConnWriteTimeout *)
  (q_has (query u) (b "dial_timeout") = true -> parse_duration e (q_get (query u) (b "dial_timeout")) = Some (dial_timeout o)) /\
  (q_has (query u) (b "dial_timeout") = false -> dial_timeout o = 0%Z) /\
  (q_has (query u) (b "write_timeout") = true -> parse_duration e (q_get (query u) (b "write_timeout")) = Some (conn_write_timeout o)) /\
  (q_has (query u) (b "write_timeout") = false -> conn_write_timeout o = 0%Z) /\
  (* flags and names *)
  always_resp2 o = bytes_eqb (q_get (query u) (b "protocol")) (b "2") /\
  disable_cache o = bytes_eqb (q_get (query u) (b "client_cache")) (b "0") /\
  disable_retry o = bytes_eqb (q_get (query u) (b "max_retries")) (b "0") /\
  client_name o = q_get (query u) (b "client_name") /\
  master_set o = q_get (query u) (b "master_set") /\
  (* skip_verify (TLS schemes): bare / empty = true, else ParseBool *)
  (forall t, tls o = Some t ->
     (q_has (query u) (b "skip_verify") = false -> skip_verify t = false) /\
     (q_has (query u) (b "skip_verify") = true -> q_get (query u) (b "skip_verify") = [] -> skip_verify t = true) /\
     (q_has (query u) (b "skip_verify") = true -> q_get (query u) (b "skip_verify") <> [] ->
        parse_bool (q_get (query u) (b "skip_verify")) = Some (skip_verify t))).
Proof.
  intro H. destruct (parse_url_spec e u) as (S1 & S2 & _).
  destruct (rejected e u) eqn:R. { destruct (S2 eq_refl) as (k & Hk). congruence. }
  rewrite (S1 eq_refl) in H. injection H as <-.
  unfold rejected in R. repeat (apply orb_false_iff in R; destruct R as [R ?]).
  unfold expected; cbn [dial_timeout conn_write_timeout always_resp2 disable_cache disable_retry client_name master_set
                        username password tls init_address select_db unix_dial].
  repeat match goal with |- _ /\ _ => split end; try reflexivity.
  - unfold tls_of. destruct (is_tls_scheme (scheme u)); split; intro; congruence.
  - unfold tls_of. intros t. destruct (is_tls_scheme (scheme u)); [|discriminate]. intros [= <-]. reflexivity.
  - intro Hh. unfold db_of. rewrite Hh. unfold bad_db in *. rewrite Hh in *. cbn [andb] in *.
    destruct (parse_int10 (q_get (query u) (b "db"))); [reflexivity|discriminate].
  - intros Hh Hu x d Hs. unfold db_of. rewrite Hh, Hu, Hs. unfold bad_path in *. rewrite Hu, Hs in *. cbn [negb andb] in *.
    destruct (parse_int10 d); [reflexivity|discriminate].
  - intros Hh [Hu|Hs]; unfold db_of; rewrite Hh.
    + now rewrite Hu.
    + rewrite Hs. now destruct (is_unix_scheme (scheme u)).
  - intro Hh. unfold dur_of. rewrite Hh. unfold bad_dur in *. rewrite Hh in *. cbn [andb] in *.
    destruct (parse_duration e (q_get (query u) (b "dial_timeout"))); [reflexivity|discriminate].
  - intro Hh. unfold dur_of. now rewrite Hh.
  - intro Hh. unfold dur_of. rewrite Hh. unfold bad_dur in *. rewrite Hh in *. cbn [andb] in *.
    destruct (parse_duration e (q_get (query u) (b "write_timeout"))); [reflexivity|discriminate].
  - intro Hh. unfold dur_of. now rewrite Hh.
  - unfold tls_of. intros t. destruct (is_tls_scheme (scheme u)) eqn:Et; [|discriminate]. intros [= <-]. cbn [skip_verify].
    unfold skip_of, bad_skip in *. rewrite Et in *. cbn [andb] in *.
    repeat split.
    + intro Hh. now rewrite Hh.
    + intros Hh Hg. now rewrite Hh, Hg.
    + intros Hh Hg. rewrite Hh in *. cbn [andb] in *. destruct (q_get (query u) (b "skip_verify")) as [|c r]; [congruence|].
      destruct (parse_bool (c :: r)); [reflexivity|discriminate].
Qed.

(** every documented way of being invalid is rejected *)
Theorem invalid_rejected e u :
  (is_unix_scheme (scheme u) || is_tls_scheme (scheme u) || is_plain_scheme (scheme u) = false -> parse_url e u = Err EScheme) /\
  ((q_has (query u) (b "db") = true /\ parse_int10 (q_get (query u) (b "db")) = None) \/
   (q_has (query u) (b "dial_timeout") = true /\ parse_duration e (q_get (query u) (b "dial_timeout")) = None) \/
   (q_has (query u) (b "write_timeout") = true /\ parse_duration e (q_get (query u) (b "write_timeout")) = None) \/
   (is_tls_scheme (scheme u) = true /\ q_has (query u) (b "skip_verify") = true /\
    q_get (query u) (b "skip_verify") <> [] /\ parse_bool (q_get (query u) (b "skip_verify")) = None) \/
   (is_unix_scheme (scheme u) = false /\ exists x d, split_byte 47 (path u) = [x; d] /\ parse_int10 d = None) \/
   (is_unix_scheme (scheme u) = false /\ exists x y z r, split_byte 47 (path u) = x :: y :: z :: r)
   -> exists k, parse_url e u = Err k).
Proof.
  split.
  - intro H. unfold parse_url. now rewrite H.
  - intro H. apply (parse_url_spec e u). unfold rejected.
    assert (G : bad_path u || bad_db u || bad_dur e u (b "dial_timeout") || bad_dur e u (b "write_timeout") || bad_skip u = true).
    { unfold bad_path, bad_db, bad_dur, bad_skip.
      destruct H as [[H1 H2]|[[H1 H2]|[[H1 H2]|[(H1 & H2 & H3 & H4)|[(H1 & x & d & H2 & H3)|(H1 & x & y & z & r & H2)]]]]].
      - rewrite H1, H2. cbn. now rewrite !orb_true_r.
      - rewrite H1, H2. cbn. now rewrite !orb_true_r.
      - rewrite H1, H2. cbn. now rewrite !orb_true_r.
      - rewrite H1, H2. destruct (q_get (query u) (b "skip_verify")) as [|c r]; [congruence|]. rewrite H4. cbn. now rewrite !orb_true_r.
      - rewrite H1, H2, H3. reflexivity.
      - rewrite H1, H2. reflexivity. }
    rewrite <- !orb_assoc in *. rewrite G. apply orb_true_r.
Qed.

(** ---- the addr list: every entry is mapped on its own, with the URL's host as the only context ---- *)
Lemma addr_entry_hosted e uhost a h p : split_host_port e a = (h, p) -> h <> [] -> p <> [] ->
  snd (parse_addr e uhost a) = join_host_port h p.
Proof. intros H Hh Hp. unfold parse_addr. rewrite H. destruct h; [contradiction|]. destruct p; [contradiction|]. reflexivity. Qed.

(** an entry without a host (":port", or anything net.SplitHostPort rejects: no port at all) takes the URL's u.Host
    verbatim, or "localhost" when the URL has none; a missing port is 6379 *)
Lemma addr_entry_hostless e uhost a p : split_host_port e a = ([], p) ->
  snd (parse_addr e uhost a) =
  join_host_port (match uhost with [] => b "localhost" | _ => uhost end) (match p with [] => b "6379" | _ => p end).
Proof. intros H. unfold parse_addr. rewrite H. destruct uhost; destruct p; reflexivity. Qed.

Theorem addr_entries e u o : parse_url e u = Ok o ->
  forall i a, nth_error (q_all (query u) (b "addr")) i = Some a ->
  nth_error (init_address o) (S i) = Some (snd (parse_addr e (hostname u) a)) /\
  List.length (init_address o) = S (List.length (q_all (query u) (b "addr"))).
Proof.
  intros H i a Hi. destruct (mapping_parts e u o H) as (_ & _ & _ & _ & Ha & _). rewrite Ha.
  destruct (is_unix_scheme (scheme u)); cbn [app nth_error List.length]; rewrite map_length; (split; [|reflexivity]);
    erewrite map_nth_error by exact Hi; reflexivity.
Qed.

(** the documented rule for an entry with a port: its own host, or the URL's host NAME (localhost if the URL has none) *)
Theorem addr_rule e u a h p : split_host_port e a = (h, p) -> p <> [] ->
  snd (parse_addr e (hostname u) a) =
  join_host_port (match h with [] => match hostname u with [] => b "localhost" | n => n end | _ => h end) p.
Proof.
  intros H Hp. destruct h as [|c r].
  - rewrite (addr_entry_hostless e (hostname u) a p H). destruct p; [contradiction|]. now destruct (hostname u).
  - apply (addr_entry_hosted e (hostname u) a (c :: r) p H); [discriminate|exact Hp].
Qed.

(** the original code used u.Host verbatim as the default host: with a port in the URL the result was malformed *)
Lemma addr_before_fix_malformed :
  let e := mkEnv (fun s => if bytes_eqb s (b ":7001") then ([], b "7001") else ([], [])) (fun _ => None) (fun s => s) in
  snd (parse_addr e (b "h1:7000") (b ":7001")) = b "[h1:7000]:7001" /\   (* default host = u.Host *)
  snd (parse_addr e (b "h1") (b ":7001")) = b "h1:7001" /\               (* default host = u.Hostname() *)
  snd (parse_addr e (b "[::1]") (b "[::1]")) = b "[[::1]]:6379" /\      (* redis://[::1] before *)
  snd (parse_addr e (b "::1") (b "[::1]")) = b "[::1]:6379".            (* … and after *)
Proof. vm_compute. repeat split; reflexivity. Qed.
