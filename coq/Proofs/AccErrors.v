(** C15: error propagation (nil / redis error / non-redis error) and wrong-shape outcomes. *)
From Coq Require Import String List NArith ZArith Bool Lia Arith.
Require Import RV.Model.Base RV.Model.AccBase RV.Model.Accessors.
Import ListNotations.
Open Scope N_scope.

(** ---- the trees the decoder (readNextMessage), the cache codec and the mock builders produce ----
    payload kind follows the type byte: string types carry a string (the empty string may show up as the
    integer payload 0, the two are indistinguishable), integer / boolean / null types an integer,
    aggregate types children — of ANY length, streamed maps may have an odd number of elements. *)
Definition str_typ (t : N) : bool :=
  (t =? tBlobString) || (t =? tSimpleString) || (t =? tSimpleErr) || (t =? tFloat) || (t =? tBlobErr) || (t =? tVerbatim) || (t =? tBigNumber).
Definition int_typ (t : N) : bool := (t =? tInteger) || (t =? tBool) || (t =? tNull) || (t =? tEnd).
Definition agg_typ (t : N) : bool := (t =? tArray) || (t =? tMap) || (t =? tSet) || (t =? tPush).

Fixpoint decodable (m : msg) : bool :=
  let attrs_ok a := match a with
                    | None => true
                    | Some x => (mtyp x =? tAttribute) && has_arr x && decodable x
                    end in
  match m with
  | MInt t i a => (int_typ t || (str_typ t && (i =? 0)%Z)) && attrs_ok a
  | MStr t _ a => str_typ t && attrs_ok a
  | MArr t l a => (agg_typ t || (t =? tAttribute)) && forallb decodable l && attrs_ok a
  end.

Lemma decodable_nil_or_err_scalar m : decodable m = true ->
  (mtyp m =? tNull) || (mtyp m =? tSimpleErr) || (mtyp m =? tBlobErr) = true -> has_arr m = false.
Proof.
  destruct m as [t i a|t s a|t l a]; cbn [has_arr mtyp]; try reflexivity.
  cbn [decodable]. intros H1 H2. apply andb_true_iff in H1. destruct H1 as [H1 _]. apply andb_true_iff in H1. destruct H1 as [H1 _].
  unfold agg_typ, tArray, tMap, tSet, tPush, tAttribute, tNull, tSimpleErr, tBlobErr in *.
  repeat match goal with H : context [?x =? ?y] |- _ => destruct (N.eqb_spec x y); subst; cbn in H end; try discriminate.
Qed.

(** ---- nil ---- *)
Theorem nil_propagates e a m : mtyp m = tNull -> has_arr m = false -> run e a m = RErr ENil.
Proof.
  intros Ht Ha. destruct m as [t i at_|t s at_|t l at_]; cbn in Ht, Ha; try discriminate; subst t; destruct a; reflexivity.
Qed.

(** ---- error replies ---- *)
Theorem error_propagates e a m : (mtyp m = tSimpleErr \/ mtyp m = tBlobErr) -> has_arr m = false ->
  run e a m = RErr (ERedis (mtyp m) (trim_prefix (b "ERR ") (mstr m))).
Proof.
  intros Ht Ha. destruct m as [t i at_|t s at_|t l at_]; cbn in Ht, Ha; try discriminate;
    destruct Ht; subst t; destruct a; reflexivity.
Qed.

(** ---- RedisResult with a non-redis error ---- *)
Theorem result_error_propagates e a k m : run_result e a (Some k) m = RErr (EOther k).
Proof. reflexivity. Qed.

Theorem result_delegates e a m : run_result e a None m = run e a m.
Proof. reflexivity. Qed.

(** ---- wrong shape ---- *)

(** the reply types each accessor is meant for *)
Definition string_bodied (t : N) : bool :=
  (t =? tBlobString) || (t =? tSimpleString) || (t =? tFloat) || (t =? tBigNumber) || (t =? tVerbatim).
Definition arr_typ (t : N) : bool := (t =? tArray) || (t =? tSet).

Definition accepts (a : accessor) (t : N) : bool :=
  match a with
  | AError => true
  | AToInt64 => t =? tInteger
  | AToBool => t =? tBool
  | AToFloat64 => t =? tFloat
  | AToString | AAsReader | AAsBytes | ADecodeJSON | AAsFloat64 => string_bodied t
  | AAsInt64 | AAsUint64 => (t =? tInteger) || string_bodied t
  | AAsBool => (t =? tBlobString) || (t =? tSimpleString) || (t =? tInteger) || (t =? tBool)
  | AToArray | AAsStrSlice | AAsIntSlice | AAsFloatSlice | AAsBoolSlice | AAsXRangeEntry | AAsXRange
  | AAsXRangeSlice | AAsXRangeSlices | AAsZScore | AAsZScores | AAsScanEntry | AAsGeosearch | ADecodeSliceOfJSON => arr_typ t
  | AToMap => t =? tMap
  | AAsMap | AAsStrMap | AAsIntMap | AAsXRead | AAsXReadSlices => (t =? tMap) || arr_typ t
  | AAsLMPop | AAsZMPop | AAsFtSearch | AAsFtAggregate | AAsFtAggregateCursor => agg_typ t || (t =? tAttribute)   (* no type test at all: any aggregate *)
  | AToAny => string_bodied t || (t =? tBool) || (t =? tInteger) || (t =? tMap) || arr_typ t
  end.

(** the accessors built on ToString *)
Definition via_to_string (a : accessor) : bool :=
  match a with
  | AToString | AAsReader | AAsBytes | ADecodeJSON | AAsInt64 | AAsUint64 | AAsFloat64 => true
  | _ => false
  end.

(** the class that escapes: ToString treats every scalar that is neither an integer nor nil / error as a
    string, so a boolean ('#') or end-marker ('.') reply is read as the empty string *)
Definition scalar_as_string (a : accessor) (m : msg) : bool :=
  via_to_string a && negb (has_arr m) && ((mtyp m =? tBool) || (mtyp m =? tEnd)).

Lemma decodable_typ_cases m : decodable m = true ->
  match m with
  | MInt t i _ => In t [tInteger; tBool; tNull; tEnd] \/ (In t [tBlobString; tSimpleString; tSimpleErr; tFloat; tBlobErr; tVerbatim; tBigNumber] /\ i = 0%Z)
  | MStr t _ _ => In t [tBlobString; tSimpleString; tSimpleErr; tFloat; tBlobErr; tVerbatim; tBigNumber]
  | MArr t _ _ => In t [tArray; tMap; tSet; tPush; tAttribute]
  end.
Proof.
  destruct m as [t i a|t s a|t l a]; cbn [decodable]; intro H.
  - apply andb_true_iff in H. destruct H as [H _]. apply orb_true_iff in H. destruct H as [H|H].
    + left. unfold int_typ in H. cbn [In].
      repeat (apply orb_true_iff in H; destruct H as [H|H]); apply N.eqb_eq in H; auto 10.
    + right. apply andb_true_iff in H. destruct H as [H Hi]. apply Z.eqb_eq in Hi. split; [|exact Hi].
      unfold str_typ in H. cbn [In].
      repeat (apply orb_true_iff in H; destruct H as [H|H]); apply N.eqb_eq in H; auto 10.
  - apply andb_true_iff in H. destruct H as [H _]. unfold str_typ in H. cbn [In].
    repeat (apply orb_true_iff in H; destruct H as [H|H]); apply N.eqb_eq in H; auto 10.
  - apply andb_true_iff in H. destruct H as [H _]. apply andb_true_iff in H. destruct H as [H _]. cbn [In].
    unfold agg_typ in H.
    repeat (apply orb_true_iff in H; destruct H as [H|H]); apply N.eqb_eq in H; auto 10.
Qed.

(** applying an accessor to a decodable reply of a type it is not meant for yields a parse error, nil and
    error replies aside, and except for the [scalar_as_string] class *)
Theorem wrong_shape_parse_error e a m :
  decodable m = true -> msg_error m = None -> accepts a (mtyp m) = false -> scalar_as_string a m = false ->
  run e a m = RErr EParse.
Proof.
  intros Hd He Ha Hs. pose proof (decodable_typ_cases m Hd) as Ht.
  destruct m as [t i at_|t s at_|t l at_]; cbn [In] in Ht.
  - destruct Ht as [Ht|[Ht ->]];
      repeat (destruct Ht as [Ht|Ht]); try contradiction; subst t;
      destruct a; try discriminate Ha; try discriminate He; try discriminate Hs; reflexivity.
  - repeat (destruct Ht as [Ht|Ht]); try contradiction; subst t;
      destruct a; try discriminate Ha; try discriminate He; try discriminate Hs; reflexivity.
  - repeat (destruct Ht as [Ht|Ht]); try contradiction; subst t;
      destruct a; try discriminate Ha; try discriminate He; try discriminate Hs; reflexivity.
Qed.

(** the escaping class, exactly: what the ToString family returns on it *)
Theorem scalar_as_string_characterised e m :
  has_arr m = false -> (mtyp m = tBool \/ mtyp m = tEnd) ->
  to_string m = ROk (mstr m) /\
  run e AToString m = ROk (VStr (mstr m)) /\ run e AAsReader m = ROk (VStr (mstr m)) /\ run e AAsBytes m = ROk (VStr (mstr m)) /\
  run e ADecodeJSON m = (if json_ok e (mstr m) then ROk VUnit else RErr EJson) /\
  run e AAsInt64 m = (match parse_int10 (mstr m) with Some z => ROk (VInt z) | None => RErr ENum end) /\
  run e AAsUint64 m = (match parse_uint10 (mstr m) with Some n => ROk (VUint n) | None => RErr ENum end).
Proof.
  intros Ha Ht. destruct m as [t i at_|t s at_|t l at_]; cbn in Ha, Ht; try discriminate;
    destruct Ht; subst t; cbn; repeat split; try reflexivity;
    try (destruct (json_ok e _); reflexivity);
    try (destruct (parse_int10 _); reflexivity); try (destruct (parse_uint10 _); reflexivity).
Qed.

Lemma wrong_shape_refuted_witness e :
  let m := MInt tBool 1 None in
  decodable m = true /\ msg_error m = None /\ accepts AToString (mtyp m) = false /\ run e AToString m = ROk (VStr []).
Proof. cbn. repeat split; reflexivity. Qed.

(** the repaired ToMap: what it did before on an odd-length map *)
Lemma to_map_before_fix_panics :
  to_map_before_fix (MArr tMap [MStr tBlobString (b "k") None] None) = RPanic.
Proof. reflexivity. Qed.

Lemma to_map_fix_agrees m : even_len (mvals m) = true -> to_map m = to_map_before_fix m.
Proof. intro H. unfold to_map, to_map_before_fix. now rewrite H. Qed.

