(** Pool LTS: no lost wake-up, absence of stuck states, and the wake-up of a cancelled waiter. *)
From Coq Require Import List NArith ZArith Bool Arith Lia.
Require Import RV.Model.Base RV.Model.Pool RV.Proofs.PoolBase RV.Proofs.PoolProofs RV.Proofs.PoolProofs3.
Import ListNotations.
Open Scope Z_scope.

Ltac st := cbn [size idle down timer_on tarmed mutex parked woken making exiting entered cancellable armed
                ctxdone bpend held broken nostop used sigs cbc dstores
                upd_threads upd_wires upd_misc set_eval hand_out set_mutex add_making] in *.

(** pending wakers: signals not yet delivered, threads already woken, and dead pipes of cancelled
    callers that are still to be stored (every caller stores what it acquired, and Store signals) *)
Definition wakers (s : state) : nat := (sigs s + length (woken s) + count_ctxdead (held s))%nat.

Record InvL (cfg : config) (s : state) : Prop := {
  l_wake : down s = false -> parked s <> [] -> free cfg s <= Z.of_nat (wakers s);
  l_down : down s = true -> parked s = [] \/ (1 <= cbc s)%nat
}.

Lemma invL_init : forall cfg, InvL cfg init.
Proof. intro cfg. constructor; cbn; intros; [congruence|discriminate]. Qed.

Lemma eval_free : forall cfg t s,
  let s' := acquire_eval cfg t s in
  parked s' = parked s /\ woken s' = woken s /\ sigs s' = sigs s /\ cbc s' = cbc s /\ down s' = down s /\
  (down s = false ->
     (free cfg s' = 0 /\ count_ctxdead (held s') = count_ctxdead (held s)) \/
     (free cfg s' = free cfg s /\ count_ctxdead (held s') = S (count_ctxdead (held s))) \/
     (free cfg s' = free cfg s - 1 /\ count_ctxdead (held s') = count_ctxdead (held s))).
Proof.
  intros cfg t s. cbv zeta. unfold acquire_eval.
  destruct (eval cfg (down s) (memb t (ctxdone s)) (broken s) (nostop s) (idle s) (size s)) as [[[o l'] sz'] cl] eqn:E.
  apply eval_spec in E. destruct E as (E1 & E2 & E3 & E4).
  assert (Hlen : length (idle s) = (length cl + length (ogot o) + length l')%nat).
  { rewrite E1 at 1. rewrite !app_length. lia. }
  destruct o; cbn [ogot length] in Hlen; unfold free; st; repeat split; try reflexivity; intro Hd.
  - destruct E4 as (F1 & F2 & F3 & F4). subst l'. cbn [length]. left. split; [lia|reflexivity].
  - rewrite (E3 (or_intror E4)) in *. cbn [length app] in *. right. left. cbn [count_ctxdead]. split; [lia|reflexivity].
  - destruct E4 as [F1 F2]. congruence.
  - destruct E4 as (F1 & F2 & F3 & F4). subst l'. cbn [length] in *. right. right. split; [lia|reflexivity].
  - right. right. cbn [count_ctxdead]. split; [lia|reflexivity].
Qed.

Lemma invL_step : forall cfg s l s', skip_uncounted cfg = true -> Inv1 cfg s ->
  InvL cfg s -> lstep cfg s l = Some s' -> InvL cfg s'.
Proof.
  intros cfg s l s' Hskip I1 I Hl. destruct I as [LW LD]. destruct I1 as [J1 J2 J3 J4].
  destruct l; cbn [lstep] in Hl.
  - (* AcqEnter *)
    destruct (mutex_free s && negb (memb t (entered s)) && (c || negb (memb t (ctxdone s)))); [|discriminate].
    inversion Hl; subst s'. clear Hl.
    match goal with |- InvL _ (acquire_eval _ _ ?s1) => pose proof (eval_free cfg t s1) as Hf end.
    cbv zeta in Hf. destruct Hf as (F1 & F2 & F3 & F4 & F5 & F6). st.
    constructor; unfold wakers in *; rewrite ?F1, ?F2, ?F3, ?F4, ?F5.
    + intros Hd Hp. specialize (LW Hd Hp). specialize (F6 Hd). unfold free in *. st.
      destruct F6 as [[A B]|[[A B]|[A B]]]; rewrite B; lia.
    + exact LD.
  - (* AcqPark *)
    destruct (mutex s) as [u|] eqn:Hm; [|discriminate]. destruct (Nat.eqb t u); [|discriminate].
    inversion Hl; subst s'. clear Hl. destruct (J4 _ eq_refl) as (K1 & K2 & K3).
    constructor; unfold wakers, free in *; st.
    + intros _ _. rewrite K1. cbn [length]. lia.
    + congruence.
  - (* AcqWake *)
    destruct (mutex_free s && memb t (woken s)) eqn:G; [|discriminate]. apply andb_true_iff in G. destruct G as [G1 G2].
    pose proof (remove1_length _ _ G2) as Hlen.
    inversion Hl; subst s'. clear Hl.
    match goal with |- InvL _ (acquire_eval _ _ ?s1) => pose proof (eval_free cfg t s1) as Hf end.
    cbv zeta in Hf. destruct Hf as (F1 & F2 & F3 & F4 & F5 & F6). st.
    constructor; unfold wakers in *; rewrite ?F1, ?F2, ?F3, ?F4, ?F5.
    + intros Hd Hp. specialize (LW Hd Hp). specialize (F6 Hd). unfold free in *. st.
      destruct F6 as [[A B]|[[A B]|[A B]]]; rewrite B; lia.
    + exact LD.
  - (* MakeOk *)
    destruct (memb t (making s)); [|discriminate]. destruct id as [id|].
    + destruct (memb id (used s)); [discriminate|]. inversion Hl; subst s'.
      constructor; unfold wakers, free in *; st; cbn [count_ctxdead]; assumption.
    + inversion Hl; subst s'. constructor; unfold wakers, free in *; st; cbn [count_ctxdead]; assumption.
  - (* MakeBad *)
    destruct (mutex_free s && memb t (making s) && negb (memb id (used s))); [|discriminate].
    inversion Hl; subst s'. clear Hl.
    match goal with |- InvL _ (acquire_eval _ _ ?s1) => pose proof (eval_free cfg t s1) as Hf end.
    cbv zeta in Hf. destruct Hf as (F1 & F2 & F3 & F4 & F5 & F6). st.
    constructor; unfold wakers in *; rewrite ?F1, ?F2, ?F3, ?F4, ?F5.
    + intros Hd Hp. specialize (LW Hd Hp). specialize (F6 Hd). unfold free in *. st.
      destruct F6 as [[A B]|[[A B]|[A B]]]; rewrite B; lia.
    + exact LD.
  - (* AcqReturn *)
    destruct (memb t (exiting s)); [|discriminate]. inversion Hl; subst s'.
    constructor; unfold wakers, free in *; st; assumption.
  - (* CtxCancel *)
    destruct (negb (memb t (ctxdone s)) && (negb (memb t (entered s)) || memb t (cancellable s))); [|discriminate].
    inversion Hl; subst s'. constructor; unfold wakers, free in *; st; assumption.
  - (* Bcast *)
    destruct (memb t (bpend s) && (negb (locked_bcast cfg) || mutex_free s)); [|discriminate].
    inversion Hl; subst s'. constructor; unfold wakers, free in *; st.
    + intros _ X. congruence.
    + intros _. left. reflexivity.
  - (* Store *)
    destruct (wmemb w (held s) && mutex_free s) eqn:G; [|discriminate]. apply andb_true_iff in G. destruct G as [G1 G2].
    pose proof (count_ctxdead_remove _ _ G1) as Hc.
    destruct (if down s then None else is_real_ok s w) as [id|] eqn:E.
    + destruct (down s) eqn:Hd; [discriminate|]. unfold is_real_ok in E. destruct w as [j| | |]; try discriminate.
      inversion Hl; subst s'. clear Hl. cbn [wire_eqb] in Hc.
      constructor; unfold wakers, free in *; st.
      * intros _ Hp. specialize (LW eq_refl Hp). cbn [length]. lia.
      * rewrite Hd. discriminate.
    + inversion Hl; subst s'. clear Hl.
      constructor; unfold wakers, free in *; st.
      * intros Hd Hp. specialize (LW Hd Hp). destruct w as [j| | |]; cbn [wire_eqb andb] in *; try rewrite Hskip; cbn [andb]; lia.
      * exact LD.
  - (* Signal *)
    destruct (sigs s) as [|k] eqn:Hs; [discriminate|]. destruct o as [u|].
    + destruct (memb u (parked s)) eqn:G; [|discriminate]. inversion Hl; subst s'. clear Hl.
      assert (Hp0 : parked s <> []). { intro X. rewrite X in G. discriminate. }
      constructor; unfold wakers, free in *; st.
      * intros Hd _. specialize (LW Hd Hp0). rewrite app_length. cbn [length]. lia.
      * intros Hd. destruct (LD Hd) as [X|X]; [congruence|right; exact X].
    + destruct (is_nil (parked s)) eqn:G; [|discriminate]. inversion Hl; subst s'. clear Hl.
      assert (Hp0 : parked s = []). { destruct (parked s); [reflexivity|discriminate]. }
      constructor; unfold wakers, free in *; st.
      * intros _ X. congruence.
      * intros _. left. exact Hp0.
  - (* CloseCS *)
    destruct (mutex_free s); [|discriminate]. inversion Hl; subst s'.
    constructor; unfold wakers, free in *; st; [discriminate|]. intros _. right. lia.
  - (* CloseBcast *)
    destruct (cbc s) as [|k]; [discriminate|]. inversion Hl; subst s'.
    constructor; unfold wakers, free in *; st.
    + intros _ X. congruence.
    + intros _. left. reflexivity.
  - (* IdleCleanup *)
    destruct (mutex_free s && tarmed s); [|discriminate]. inversion Hl; subst s'.
    constructor; unfold wakers, free in *; st; [|exact LD].
    intros Hd Hp. specialize (LW Hd Hp). rewrite skipn_length. lia.
  - destruct (memb id (used s)); [|discriminate]. inversion Hl; subst s'.
    constructor; unfold wakers, free in *; st; assumption.
  - destruct (memb id (used s)); [|discriminate]. inversion Hl; subst s'.
    constructor; unfold wakers, free in *; st; assumption.
Qed.

(** all invariants together *)
Record Inv (cfg : config) (s : state) : Prop := {
  inv_1 : Inv1 cfg s;
  inv_t : InvT s;
  inv_l : InvL cfg s
}.

Definition repaired (cfg : config) : Prop := skip_uncounted cfg = true /\ locked_bcast cfg = true /\ 1 <= cap cfg.

Theorem inv_reachable : forall cfg s, repaired cfg -> reachable cfg s -> Inv cfg s.
Proof.
  intros cfg s (H1 & H2 & H3) Hr. eapply reachable_ind; [| |exact Hr].
  - constructor; [apply inv1_init; lia|apply invT_init|apply invL_init].
  - intros s0 l s1 [A B C] Hl. constructor.
    + eapply inv1_step; eassumption.
    + eapply invT_step; eassumption.
    + eapply invL_step; eassumption.
Qed.
