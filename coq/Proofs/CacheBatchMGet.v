(** pipe.doCacheMGet: DoCache on MGET / JSON.MGET returns, at position i, the reply for key i. *)
From Coq Require Import String Ascii.
From Coq Require Import List Arith NArith ZArith Bool Lia.
Require Import RV.Model.Base RV.Model.CacheBatch RV.Proofs.CacheBatchBase RV.Proofs.CacheBatchMulti.
Import ListNotations.
Open Scope nat_scope.

Lemma key_mem_In k l : key_mem k l = true <-> In k l.
Proof.
  induction l as [|x l IH]; cbn [key_mem In]; [split; [discriminate|tauto]|].
  rewrite orb_true_iff, list_eqb_N_eq, IH. split; intros [H|H]; auto.
Qed.

Lemma key_index_nth k l : In k l -> exists i, key_index k l = Some i /\ nth_error l i = Some k.
Proof.
  induction l as [|x l IH]; [intros []|]. intro H. cbn [key_index].
  destruct (bytes_eqb k x) eqn:E.
  - apply list_eqb_N_eq in E. subst. exists 0. auto.
  - destruct H as [->|H]; [rewrite bytes_eqb_refl in E; discriminate|].
    destruct (IH H) as [i [Hi Hn]]. exists (S i). rewrite Hi. auto.
Qed.

Section MGetProof.
  Variable lookup : key -> bytes -> lk.
  Variable srv : argv -> msg.
  Variable qerr : argv -> option msg.
  Variable optin : bool.

  Variable cc : bytes.          (* the per-key cache command: "GET" or "JSON.GET" ++ path *)
  Variable nkeys : nat.

  Inductive mkind := MKHit (v : msg) | MKWait (r : rres) | MKSelf (k : key) | MKMiss.

  Fixpoint mklist (rw : list key) (l : list key) : list mkind :=
    match l with
    | [] => []
    | k :: r =>
      if key_mem k rw then MKSelf k :: mklist rw r
      else match lookup k cc with
           | LHit v => MKHit v :: mklist rw r
           | LWait x => MKWait x :: mklist rw r
           | LMiss => MKMiss :: mklist (rw ++ [k]) r
           end
    end.

  Definition mk_val (k : mkind) : msg := match k with MKHit v => v | _ => zero_msg end.
  Definition mk_entry (k : mkind) : option mentry :=
    match k with MKWait r => Some (MForeign r) | MKSelf x => Some (MSelf x) | _ => None end.

  Fixpoint mk_miss (ks : list mkind) (l : list key) : list key :=
    match ks, l with
    | MKMiss :: r, k :: lr => k :: mk_miss r lr
    | _ :: r, _ :: lr => mk_miss r lr
    | _, _ => []
    end.

  Definition eff (st : mstate) : list msg := if ms_alloc st then ms_values st else repeat_n zero_msg nkeys.

  Lemma mklist_length rw l : length (mklist rw l) = length l.
  Proof.
    revert rw; induction l as [|k l IH]; intro rw; cbn [mklist length]; [reflexivity|].
    destruct (key_mem k rw); [cbn; now rewrite IH|]. destruct (lookup k cc); cbn [length]; now rewrite IH.
  Qed.

  Lemma mget_scan_gen l : forall st pre_v pre_e,
    length pre_v = length pre_e -> nkeys = length pre_v + length l ->
    eff st = pre_v ++ repeat_n zero_msg (length l) ->
    ms_entries st = pre_e ++ repeat_n None (length l) ->
    let st' := fold_left (fun st (ik : nat * key) =>
      let (i, k) := ik in
      if key_mem k (ms_rewrite st)
      then mkM (ms_alloc st) (ms_values st) (upd i (Some (MSelf k)) (ms_entries st)) (ms_rewrite st)
      else match lookup k cc with
           | LHit v =>
             let vals := if ms_alloc st then ms_values st else repeat_n zero_msg nkeys in
             mkM true (upd i v vals) (ms_entries st) (ms_rewrite st)
           | LWait r => mkM (ms_alloc st) (ms_values st) (upd i (Some (MForeign r)) (ms_entries st)) (ms_rewrite st)
           | LMiss => mkM (ms_alloc st) (ms_values st) (ms_entries st) (ms_rewrite st ++ [k])
           end) (combine (seq (length pre_v) (length l)) l) st in
    eff st' = pre_v ++ map mk_val (mklist (ms_rewrite st) l) /\
    ms_entries st' = pre_e ++ map mk_entry (mklist (ms_rewrite st) l) /\
    ms_rewrite st' = ms_rewrite st ++ mk_miss (mklist (ms_rewrite st) l) l.
  Proof.
    induction l as [|k l IH]; intros st pre_v pre_e Hlen Hn Hv He.
    - cbn in *. rewrite !app_nil_r in *. auto.
    - cbn [length seq combine fold_left mklist]. cbn [length repeat_n] in Hv, He, Hn. cbv zeta.
      assert (E1 : forall x : msg, S (length pre_v) = length (pre_v ++ [x])) by (intro; rewrite app_length; cbn; lia).
      destruct (key_mem k (ms_rewrite st)) eqn:Emem.
      + match goal with |- context [fold_left ?f ?ll ?s] => set (st1 := s) end.
        assert (Er : ms_rewrite st1 = ms_rewrite st) by reflexivity.
        assert (Hv1 : eff st1 = (pre_v ++ [zero_msg]) ++ repeat_n zero_msg (length l)).
        { unfold eff, st1. cbn [ms_alloc ms_values]. fold (eff st). rewrite Hv, <- app_assoc. reflexivity. }
        assert (He1 : ms_entries st1 = (pre_e ++ [Some (MSelf k)]) ++ repeat_n None (length l)).
        { unfold st1. cbn [ms_entries]. rewrite He, Hlen, upd_app_here, <- app_assoc. reflexivity. }
        rewrite (E1 zero_msg).
        destruct (IH st1 (pre_v ++ [zero_msg]) (pre_e ++ [Some (MSelf k)])) as (A & B & C); auto.
        { rewrite !app_length; cbn; lia. } { rewrite app_length; cbn; lia. }
        cbv zeta in A, B, C. rewrite Er in A, B, C.
        rewrite A, B, C. cbn [map mk_val mk_entry mk_miss]. rewrite <- !app_assoc. auto.
      + destruct (lookup k cc) as [v|r|] eqn:Elk.
        * match goal with |- context [fold_left ?f ?ll ?s] => set (st1 := s) end.
          assert (Er : ms_rewrite st1 = ms_rewrite st) by reflexivity.
          assert (Hv1 : eff st1 = (pre_v ++ [v]) ++ repeat_n zero_msg (length l)).
          { unfold eff at 1, st1. cbn [ms_alloc ms_values]. fold (eff st). rewrite Hv, upd_app_here, <- app_assoc. reflexivity. }
          assert (He1 : ms_entries st1 = (pre_e ++ [None]) ++ repeat_n None (length l)).
          { unfold st1. cbn [ms_entries]. rewrite He, <- app_assoc. reflexivity. }
          rewrite (E1 v).
          destruct (IH st1 (pre_v ++ [v]) (pre_e ++ [None])) as (A & B & C); auto.
          { rewrite !app_length; cbn; lia. } { rewrite app_length; cbn; lia. }
          cbv zeta in A, B, C. rewrite Er in A, B, C.
          rewrite A, B, C. cbn [map mk_val mk_entry mk_miss]. rewrite <- !app_assoc. auto.
        * match goal with |- context [fold_left ?f ?ll ?s] => set (st1 := s) end.
          assert (Er : ms_rewrite st1 = ms_rewrite st) by reflexivity.
          assert (Hv1 : eff st1 = (pre_v ++ [zero_msg]) ++ repeat_n zero_msg (length l)).
          { unfold eff, st1. cbn [ms_alloc ms_values]. fold (eff st). rewrite Hv, <- app_assoc. reflexivity. }
          assert (He1 : ms_entries st1 = (pre_e ++ [Some (MForeign r)]) ++ repeat_n None (length l)).
          { unfold st1. cbn [ms_entries]. rewrite He, Hlen, upd_app_here, <- app_assoc. reflexivity. }
          rewrite (E1 zero_msg).
          destruct (IH st1 (pre_v ++ [zero_msg]) (pre_e ++ [Some (MForeign r)])) as (A & B & C); auto.
          { rewrite !app_length; cbn; lia. } { rewrite app_length; cbn; lia. }
          cbv zeta in A, B, C. rewrite Er in A, B, C.
          rewrite A, B, C. cbn [map mk_val mk_entry mk_miss]. rewrite <- !app_assoc. auto.
        * match goal with |- context [fold_left ?f ?ll ?s] => set (st1 := s) end.
          assert (Er : ms_rewrite st1 = ms_rewrite st ++ [k]) by reflexivity.
          assert (Hv1 : eff st1 = (pre_v ++ [zero_msg]) ++ repeat_n zero_msg (length l)).
          { unfold eff, st1. cbn [ms_alloc ms_values]. fold (eff st). rewrite Hv, <- app_assoc. reflexivity. }
          assert (He1 : ms_entries st1 = (pre_e ++ [None]) ++ repeat_n None (length l)).
          { unfold st1. cbn [ms_entries]. rewrite He, <- app_assoc. reflexivity. }
          rewrite (E1 zero_msg).
          destruct (IH st1 (pre_v ++ [zero_msg]) (pre_e ++ [None])) as (A & B & C); auto.
          { rewrite !app_length; cbn; lia. } { rewrite app_length; cbn; lia. }
          cbv zeta in A, B, C. rewrite Er in A, B, C.
          rewrite A, B, C. cbn [map mk_val mk_entry mk_miss]. rewrite <- !app_assoc. auto.
  Qed.

  Lemma mget_scan_spec ks :
    nkeys = length ks ->
    let st := mget_scan lookup cc nkeys ks in
    eff st = map mk_val (mklist [] ks) /\
    ms_entries st = map mk_entry (mklist [] ks) /\
    ms_rewrite st = mk_miss (mklist [] ks) ks.
  Proof.
    intro Hn. unfold mget_scan, indexed.
    pose proof (mget_scan_gen ks (mkM false [] (repeat_n None nkeys) []) [] []) as H.
    cbn [length app ms_rewrite ms_entries] in H. apply H; auto;
      try (unfold eff; cbn [ms_alloc]; now rewrite Hn); try now rewrite Hn.
  Qed.

  (** soundness of the classification *)
  Inductive mkind_ok (rw misses : list key) : mkind -> key -> Prop :=
  | mok_hit v k : lookup k cc = LHit v -> mkind_ok rw misses (MKHit v) k
  | mok_wait r k : lookup k cc = LWait r -> mkind_ok rw misses (MKWait r) k
  | mok_miss k : lookup k cc = LMiss -> In k misses -> mkind_ok rw misses MKMiss k
  | mok_self k : lookup k cc = LMiss -> In k rw \/ In k misses -> mkind_ok rw misses (MKSelf k) k.

  Definition rw_inv (rw : list key) : Prop := forall k, In k rw -> lookup k cc = LMiss.

  Lemma mklist_sound l : forall rw, rw_inv rw ->
    Forall2 (mkind_ok rw (mk_miss (mklist rw l) l)) (mklist rw l) l.
  Proof.
    induction l as [|k l IH]; intros rw Hinv; [constructor|].
    cbn [mklist]. destruct (key_mem k rw) eqn:Emem.
    - cbn [mk_miss]. constructor; [|now apply IH].
      apply key_mem_In in Emem. constructor; [now apply Hinv|now left].
    - destruct (lookup k cc) as [v|r|] eqn:Elk; cbn [mk_miss].
      + constructor; [now constructor|now apply IH].
      + constructor; [now constructor|now apply IH].
      + constructor; [constructor; [assumption|now left]|].
        assert (Hinv' : rw_inv (rw ++ [k])).
        { intros x Hx. apply in_app_or in Hx as [Hx|[<-|[]]]; auto. }
        specialize (IH (rw ++ [k]) Hinv').
        eapply Forall2_imp; [|exact IH].
        intros mk x Hk. destruct Hk.
        * now constructor.
        * now constructor.
        * constructor; [assumption|now right].
        * constructor; [assumption|]. destruct H0 as [H0|H0]; [|right; now right].
          apply in_app_or in H0 as [H0|[<-|[]]]; [now left|right; now left].
  Qed.

  (** ** the transaction on the wire *)

  Lemma wire_go_tx cmds : forall q dirty,
    Forall not_tx cmds ->
    wire_go srv qerr true q dirty (cmds ++ [[bs "EXEC"]])
    = map (fun c => q_or qerr c queued_msg) cmds ++
      [if dirty || existsb (rejected qerr) cmds then execabort_msg else arr (map srv (rev q ++ cmds))].
  Proof.
    induction cmds as [|c cmds IH]; intros q dirty Hc.
    - cbn [app wire_go map existsb]. rewrite orb_false_r, app_nil_r. reflexivity.
    - inversion Hc as [|? ? [Hm He] Hc']; subst.
      cbn [app wire_go map existsb]. rewrite Hm, He. unfold q_or at 1, rejected at 1.
      destruct (qerr c) as [e|] eqn:Eq.
      + rewrite IH by assumption. cbn [orb]. rewrite orb_true_r. cbn [orb].
        destruct dirty; reflexivity.
      + rewrite IH by assumption. cbn [orb rev]. rewrite <- app_assoc. reflexivity.
  Qed.

  Definition pttl_of (k : key) : argv := [bs "PTTL"; k].

  Lemma pttl_not_tx k : not_tx (pttl_of k).
  Proof. split; reflexivity. Qed.

  (** ** the waits *)

  Definition m_after (elem : key -> msg) (ki : mkind * key) : msg :=
    match fst ki with
    | MKHit v => v
    | MKWait r => r_val r
    | MKSelf k => elem k
    | MKMiss => zero_msg
    end.

  Lemma mget_waits_spec elem misskeys (kis : list (mkind * key)) : forall pre,
    (forall r k, In (MKWait r, k) kis -> r_err r = None) ->
    (forall x k, In (MKSelf x, k) kis -> In x misskeys) ->
    mget_waits misskeys (map elem misskeys) (map (fun ki => mk_entry (fst ki)) kis) (length pre)
               (pre ++ map (fun ki => mk_val (fst ki)) kis)
    = Ok (inl (pre ++ map (m_after elem) kis)).
  Proof.
    induction kis as [|[k x] kis IH]; intros pre Hw Hs; [reflexivity|].
    cbn [map fst mget_waits].
    assert (E1 : forall y : msg, S (length pre) = length (pre ++ [y])) by (intro; rewrite app_length; cbn; lia).
    assert (Hw' : forall r k, In (MKWait r, k) kis -> r_err r = None) by (intros; eapply Hw; right; eauto).
    assert (Hs' : forall y k, In (MKSelf y, k) kis -> In y misskeys) by (intros; eapply Hs; right; eauto).
    destruct k as [v|r|y|]; cbn [mk_entry mk_val mget_waits].
    - rewrite (E1 v).
      change (pre ++ v :: map (fun ki => mk_val (fst ki)) kis) with (pre ++ [v] ++ map (fun ki => mk_val (fst ki)) kis).
      rewrite app_assoc, IH by assumption. now rewrite <- app_assoc.
    - rewrite (Hw r x (or_introl eq_refl)). rewrite upd_app_here, (E1 (r_val r)).
      change (pre ++ r_val r :: map (fun ki => mk_val (fst ki)) kis) with (pre ++ [r_val r] ++ map (fun ki => mk_val (fst ki)) kis).
      rewrite app_assoc, IH by assumption. now rewrite <- app_assoc.
    - destruct (key_index_nth y misskeys (Hs y x (or_introl eq_refl))) as [i [Hi Hn]].
      rewrite Hi. rewrite nth_error_map, Hn. cbn [option_map].
      rewrite upd_app_here, (E1 (elem y)).
      change (pre ++ elem y :: map (fun ki => mk_val (fst ki)) kis) with (pre ++ [elem y] ++ map (fun ki => mk_val (fst ki)) kis).
      rewrite app_assoc, IH by assumption. now rewrite <- app_assoc.
    - rewrite (E1 zero_msg).
      change (pre ++ zero_msg :: map (fun ki => mk_val (fst ki)) kis) with (pre ++ [zero_msg] ++ map (fun ki => mk_val (fst ki)) kis).
      rewrite app_assoc, IH by assumption. now rewrite <- app_assoc.
  Qed.

  Definition m_final (elem : key -> msg) (ki : mkind * key) : msg * bool :=
    match fst ki with
    | MKMiss => (elem (snd ki), true)
    | _ => (m_after elem ki, false)
    end.

  Lemma blanked_m_final elem kis : blanked_m (map (m_final elem) kis) = map (m_after elem) kis.
  Proof. unfold blanked_m. rewrite map_map. apply map_ext. intros [k x]. destruct k; reflexivity. Qed.

  Lemma fills_m_final elem : forall ks l, length ks = length l ->
    fills_of_m (map (m_final elem) (combine ks l)) = map elem (mk_miss ks l).
  Proof.
    induction ks as [|k ks IH]; intros [|x l] Hl; try discriminate; [reflexivity|].
    injection Hl as Hl. unfold fills_of_m in *. cbn [combine map filter].
    destruct k; cbn [m_final fst snd filter map mk_miss]; try now apply IH.
    f_equal. now apply IH.
  Qed.

  Lemma mk_miss_all : forall ks l, length ks = length l -> length (mk_miss ks l) = length l ->
    Forall (fun k => k = MKMiss) ks.
  Proof.
    assert (Hle : forall ks l, length (mk_miss ks l) <= length l).
    { induction ks as [|k ks IH]; intros [|x l]; cbn [mk_miss length]; try lia; destruct k; cbn [length]; try lia;
        specialize (IH l); lia. }
    induction ks as [|k ks IH]; intros [|x l] Hl Hm; try discriminate; [constructor|].
    injection Hl as Hl. destruct k; cbn [mk_miss length] in Hm;
      try (pose proof (Hle ks l); lia).
    constructor; [reflexivity|apply (IH l); lia].
  Qed.

  Lemma all_miss_final elem : forall kl l,
    Forall (fun k => k = MKMiss) kl -> length kl = length l ->
    map elem (mk_miss kl l) = map (fun ki => fst (m_final elem ki)) (combine kl l).
  Proof.
    intros kl l H. revert l. induction H as [|k kl0 -> _ IH]; intros [|x l0] Hl; try discriminate; [reflexivity|].
    injection Hl as Hl. cbn [mk_miss combine map m_final fst snd]. f_equal. now apply IH.
  Qed.

  Lemma mk_miss_none : forall ks l, length ks = length l -> mk_miss ks l = [] ->
    Forall (fun k => k <> MKMiss) ks.
  Proof.
    induction ks as [|k ks IH]; intros [|x l] Hl Hm; try discriminate; [constructor|].
    injection Hl as Hl. destruct k; cbn [mk_miss] in Hm; try discriminate;
      (constructor; [discriminate|now apply (IH l)]).
  Qed.
End MGetProof.

(** ** doCacheMGet *)
Section MGetTop.
  Variable lookup : key -> bytes -> lk.
  Variable srv : argv -> msg.
  Variable qerr : argv -> option msg.
  Variable optin : bool.

  Variable cmd0 : bytes.                 (* "MGET" or "JSON.MGET" *)
  Variable ks : list key.
  Variable pathopt : list bytes.         (* [] for MGET, [path] for JSON.MGET *)
  Variable elem : key -> msg.            (* the element the server returns for one key *)

  Let commands : argv := cmd0 :: ks ++ pathopt.
  Let cc : bytes := mget_cc commands.

  Hypothesis Hshape : (is_json commands = true /\ exists p, pathopt = [p]) \/ (is_json commands = false /\ pathopt = []).
  Hypothesis Hcmd0 : bytes_eqb cmd0 (bs "MULTI") = false /\ bytes_eqb cmd0 (bs "EXEC") = false.
  (** the server answers the (rewritten) multi-key command elementwise, one element per key in order *)
  Hypothesis Hsrv : forall ms, srv (cmd0 :: ms ++ pathopt) = arr (map elem ms).
  Hypothesis Helem : forall k, m_typ (elem k) <> 0%N.
  Hypothesis Hhit : forall k v, lookup k cc = LHit v -> m_typ v <> 0%N.
  Hypothesis Hwait : forall k r, lookup k cc = LWait r -> r_err r = None /\ m_typ (r_val r) <> 0%N.
  (** no command of the transaction is rejected by the server *)
  Hypothesis Hq : forall a, qerr a = None.

  Definition per_key (k : key) : msg :=
    match lookup k cc with
    | LHit v => v
    | LWait r => r_val r
    | LMiss => elem k
    end.

  Lemma nkeys_eq : (length commands - 1) - (if is_json commands then 1 else 0) = length ks.
  Proof.
    unfold commands in *. cbn [length]. rewrite app_length.
    destruct Hshape as [[-> [p ->]]|[-> ->]]; cbn [length]; lia.
  Qed.

  Lemma ks_eq : firstn (length ks) (skipn 1 commands) = ks.
  Proof. unfold commands. cbn [skipn]. rewrite firstn_app, Nat.sub_diag, firstn_all. cbn [firstn]. apply app_nil_r. Qed.

  Lemma rewritten_eq (ms : list key) :
    (nth 0 commands [] :: ms) ++ (if is_json commands then [last commands []] else []) = cmd0 :: ms ++ pathopt.
  Proof.
    unfold commands in *. cbn [nth]. destruct Hshape as [[-> [p ->]]|[-> ->]]; [|reflexivity].
    cbn [app]. do 2 f_equal.
    change (cmd0 :: ks ++ [p]) with ((cmd0 :: ks) ++ [p]). now rewrite last_last.
  Qed.

  Theorem do_cache_mget_positional :
    do_cache_mget lookup srv qerr optin commands = Ok (new_result (arr (map per_key ks))).
  Proof.
    unfold do_cache_mget. rewrite nkeys_eq, ks_eq. fold cc.
    destruct (mget_scan_spec lookup cc (length ks) ks eq_refl) as (Hv & He & Hr).
    set (kl := mklist lookup cc [] ks) in *.
    set (st := mget_scan lookup cc (length ks) ks) in *.
    fold (eff (length ks) st). rewrite Hv, He, Hr.
    assert (Hkl : length kl = length ks) by apply mklist_length.
    pose proof (mklist_sound lookup cc ks [] (fun _ H => match H with end)) as Hs. fold kl in Hs.
    set (kis := combine kl ks).
    assert (Ev : map (mk_val) kl = map (fun ki : mkind * key => mk_val (fst ki)) kis)
      by (unfold kis; symmetry; apply map_combine_fst, Hkl).
    assert (Ee : map (mk_entry) kl = map (fun ki : mkind * key => mk_entry (fst ki)) kis)
      by (unfold kis; symmetry; apply map_combine_fst, Hkl).
    assert (Hwaits : forall r k, In (MKWait r, k) kis -> r_err r = None).
    { intros r k Hin. pose proof (Forall2_combine_in _ _ _ _ _ Hs Hin) as Hk. inversion Hk; subst.
      eapply Hwait; eauto. }
    assert (Hselfs : forall x k, In (MKSelf x, k) kis -> In x (mk_miss kl ks)).
    { intros x k Hin. pose proof (Forall2_combine_in _ _ _ _ _ Hs Hin) as Hk.
      inversion Hk as [| | |k0 Hl Hor]; subst. destruct Hor as [[]|]; assumption. }
    assert (Hfilled : Forall (fun xb : msg * bool => filled_m (fst xb)) (map (m_final elem) kis)).
    { apply Forall_forall. intros xb Hxb. apply in_map_iff in Hxb as [[k x] [<- Hin]].
      pose proof (Forall2_combine_in _ _ _ _ _ Hs Hin) as Hk.
      unfold filled_m, typ_unfilled.
      destruct Hk; cbn [m_final fst snd m_after]; apply N.eqb_neq; eauto.
      eapply Hwait; eauto. }
    assert (Hfinal : map fst (map (m_final elem) kis) = map per_key ks).
    { rewrite map_map. unfold kis. clear -Hs. induction Hs as [|k x kl0 l Hk _ IH]; [reflexivity|].
      cbn [combine map]. f_equal; [|exact IH].
      unfold per_key. destruct Hk as [v k Hl|r k Hl|k Hl _|k Hl _]; rewrite Hl; reflexivity. }
    destruct (mk_miss kl ks) as [|m0 mrest] eqn:Emiss.
    - (* every key was a hit or a wait *)
      rewrite Ev, Ee.
      pose proof (mget_waits_spec elem [] kis [] Hwaits) as Hw. cbn [app length map] in Hw.
      rewrite Hw by (intros x k Hin; exact (Hselfs x k Hin)).
      cbn [refill_m]. do 3 f_equal.
      rewrite <- Hfinal, map_map. apply map_ext_in. intros [k x] Hin.
      pose proof (mk_miss_none kl ks Hkl Emiss) as Hnm. rewrite Forall_forall in Hnm.
      assert (In k kl) by (unfold kis in Hin; apply in_combine_l in Hin; exact Hin).
      specialize (Hnm k H). destruct k; try reflexivity; congruence.
    - rewrite <- Emiss. set (misskeys := mk_miss kl ks) in *. rewrite <- Emiss in Hselfs.
      rewrite rewritten_eq.
      set (rewritten := cmd0 :: misskeys ++ pathopt).
      set (multi := [optin_cmd optin; [bs "MULTI"]] ++ map (fun k => [bs "PTTL"; k]) misskeys ++ [rewritten; [bs "EXEC"]]).
      assert (Hrw_tx : not_tx rewritten).
      { unfold not_tx, rewritten, is_cmd. destruct Hcmd0; auto. }
      assert (Hwire : redis_wire srv qerr multi =
                map new_result ([optin_reply srv qerr optin; ok_msg] ++
                                map (fun c => q_or qerr c queued_msg) (map (pttl_of) misskeys ++ [rewritten]) ++
                                [arr (map srv (map pttl_of misskeys ++ [rewritten]))])).
      { unfold redis_wire, multi. f_equal.
        destruct (optin_not_multi optin) as [Om Oe].
        cbn [app wire_go]. rewrite Om, Oe. unfold optin_reply, q_or at 1. rewrite Hq.
        assert (Mm : is_cmd "MULTI" [bs "MULTI"] = true) by reflexivity. rewrite Mm.
        replace (map (fun k => [bs "PTTL"; k]) misskeys ++ [rewritten; [bs "EXEC"]])
          with ((map pttl_of misskeys ++ [rewritten]) ++ [[bs "EXEC"]]) by (rewrite <- app_assoc; reflexivity).
        rewrite wire_go_tx.
        2:{ apply Forall_app; split; [|now constructor]. apply Forall_forall. intros c Hc.
            apply in_map_iff in Hc as [k [<- _]]. apply pttl_not_tx. }
        cbn [orb rev app].
        assert (Hnr : existsb (rejected qerr) (map pttl_of misskeys ++ [rewritten]) = false).
        { apply not_true_is_false. intro Hex. apply existsb_exists in Hex as [c [_ Hc]]. unfold rejected in Hc. now rewrite Hq in Hc. }
        rewrite Hnr. reflexivity. }
      rewrite Hwire.
      set (n := length misskeys).
      assert (Hlm : length multi = n + 4) by (unfold multi, n; rewrite !app_length, map_length; cbn [length]; unfold key; lia).
      set (pre := map new_result ([optin_reply srv qerr optin; ok_msg] ++ map (fun c => q_or qerr c queued_msg) (map pttl_of misskeys))).
      assert (Hpre : length pre = n + 2) by (unfold pre, n; rewrite map_length, app_length, !map_length; cbn [length]; unfold key; lia).
      assert (Hresp : map new_result ([optin_reply srv qerr optin; ok_msg] ++
                        map (fun c => q_or qerr c queued_msg) (map pttl_of misskeys ++ [rewritten]) ++
                        [arr (map srv (map pttl_of misskeys ++ [rewritten]))])
                      = pre ++ [new_result (q_or qerr rewritten queued_msg);
                                new_result (arr (map srv (map pttl_of misskeys ++ [rewritten])))]).
      { unfold pre. rewrite !map_app. cbn [map app]. rewrite <- !app_assoc. reflexivity. }
      rewrite Hresp.
      replace (length multi - 1) with (length pre + 1) by lia.
      rewrite rnth_app_r. cbn [rnth nth].
      unfold to_array. cbn [r_err new_result r_val arr m_typ m_vals]. cbn [N.eqb orb tArr Pos.eqb].
      assert (Hlast : last_msg (map srv (map pttl_of misskeys ++ [rewritten])) = Some (arr (map elem misskeys))).
      { unfold last_msg. rewrite map_length, app_length, map_length. cbn [length].
        replace (length misskeys + 1 - 1) with (length (map srv (map pttl_of misskeys))) by (rewrite !map_length; lia).
        rewrite map_app, nth_error_app2, Nat.sub_diag by lia. cbn [map nth_error].
        unfold rewritten. now rewrite Hsrv. }
      rewrite Hlast.
      assert (Hnoerr : msg_error (arr (map elem misskeys)) = None) by reflexivity.
      rewrite Hnoerr.
      assert (Hlc : length commands = S (length ks + length pathopt)) by (unfold commands; cbn [length]; now rewrite app_length).
      assert (Hlr : length rewritten = S (n + length pathopt)) by (unfold rewritten; cbn [length]; rewrite app_length; reflexivity).
      rewrite Hlc, Hlr.
      destruct (Nat.eqb_spec (S (n + length pathopt)) (S (length ks + length pathopt))) as [Heq|Hneq].
      + (* every key missed: the server's reply is returned as it is *)
        do 3 f_equal.
        assert (Hall : Forall (fun k => k = MKMiss) kl) by (apply (mk_miss_all kl ks Hkl); fold misskeys; unfold n in Heq; lia).
        rewrite <- Hfinal, map_map.
        unfold misskeys, kis. now apply all_miss_final.
      + cbn [m_vals arr].
        assert (H2 : (2 <=? length (map srv (map pttl_of misskeys ++ [rewritten]))) = true).
        { apply Nat.leb_le. rewrite map_length, app_length, map_length. cbn [length].
          rewrite Emiss. cbn [length]. lia. }
        rewrite H2, Ev, Ee.
        pose proof (mget_waits_spec elem misskeys kis [] Hwaits Hselfs) as Hw. cbn [app length] in Hw.
        rewrite Hw.
        rewrite <- (blanked_m_final elem kis).
        replace (map elem misskeys) with (fills_of_m (map (m_final elem) kis))
          by (unfold kis, misskeys; apply fills_m_final, Hkl).
        pose proof (refill_m_blanked (map (m_final elem) kis) [] 0 (le_n 0) (Forall_nil _) Hfilled) as Hrf.
        cbn [app] in Hrf. rewrite Hrf, Hfinal. reflexivity.
  Qed.
End MGetTop.
