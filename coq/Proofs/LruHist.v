(** History invariants: where every entry of a reachable store comes from (C07 expiry rule, C06 no
    stale hit). *)
From Coq Require Import List NArith ZArith Bool Lia Permutation.
Require Import RV.Model.Base RV.Model.Lru RV.Proofs.LruBase RV.Proofs.LruSteps RV.Proofs.LruAnswers.
Import ListNotations.
Open Scope Z_scope.

Lemma run_snoc g ops o s : run g (ops ++ [o]) s = fst (step g (run g ops s) o).
Proof. rewrite run_app. reflexivity. Qed.

(** operation [o] looks up command (k, c) with client TTL [ttl] at instant [now] *)
Definition requests (o : op) (k c : bytes) (ttl now : Z) : Prop :=
  match o with
  | Flight k' c' ttl' now' | FlightSlow k' c' ttl' now' => k' = k /\ c' = c /\ ttl' = ttl /\ now' = now
  | Flights now' items | FlightsSlow now' items => now' = now /\ In (FI k c ttl) items
  | _ => False
  end.

(** the origin of an entry [e] of the store reached by history [ops] *)
Definition origin (ops : list op) (e : entry) : Prop :=
  exists ttl now,
    (exists o, In o ops /\ requests o (ekey e) (ecmd e) ttl now) /\
    if pending e then eval e = pending_msg ttl now
    else exists u v,
      nth_error ops u = Some (Update (ekey e) (ecmd e) v) /\
      eval e = set_xat v (min_xat (trunc56 (unix_milli (now + ttl))) (m_xat v)) /\
      forall j o, (u < j)%nat -> nth_error ops j = Some o -> ~ invalidates (ekey e) o.

Lemma creates_requests s o e' : creates s o e' -> exists ttl now, requests o (ekey e') (ecmd e') ttl now /\ eval e' = pending_msg ttl now.
Proof.
  destruct o; cbn [creates requests]; try contradiction.
  - intros [A [B _]]. unfold kc in A. injection A as <- <-. exists ttl, now. tauto.
  - intros [[k c t] [Hit [A [B _]]]]. cbn [fi_key fi_cmd fi_ttl] in *. unfold kc in A. injection A as <- <-. exists t, now. tauto.
  - intros [A [B _]]. unfold kc in A. injection A as <- <-. exists ttl, now. tauto.
  - intros [[k c t] [Hit [A [B _]]]]. cbn [fi_key fi_cmd fi_ttl] in *. unfold kc in A. injection A as <- <-. exists t, now. tauto.
Qed.

Lemma origin_run g ops :
  Forall wf_op ops -> forall e, In e (order (run g ops init)) -> origin ops e.
Proof.
  induction ops as [|o ops IH] using rev_ind; intros Hw e He; [contradiction|].
  apply Forall_app in Hw. destruct Hw as [Hw Hwo]. inversion Hwo as [|? ? Hwo1 _]; subst.
  pose proof (inv_run g ops init Hw inv_init) as Hi.
  rewrite run_snoc in He. set (s := run g ops init) in *.
  destruct (step_prov g s o e Hi He) as [Hold|[Hnew|[e0 [v [Ho [He0 [Hp0 ->]]]]]]].
  - (* an entry that was already there *)
    destruct (IH Hw e Hold) as [ttl [now [[o' [Ho' Hr]] Hrest]]].
    exists ttl, now. split; [exists o'; split; [apply in_or_app; left; exact Ho'|exact Hr]|].
    destruct (pending e) eqn:Ep; [exact Hrest|].
    destruct Hrest as [u [v [Hu [Hv Hinv]]]]. exists u, v.
    assert (Hlt : (u < length ops)%nat) by (apply nth_error_Some; congruence).
    split; [rewrite nth_error_app1; assumption|]. split; [exact Hv|].
    intros j o2 Hj Hn. destruct (Nat.lt_ge_cases j (length ops)) as [Hjl|Hjl].
    + rewrite nth_error_app1 in Hn by exact Hjl. eapply Hinv; eassumption.
    + rewrite nth_error_app2 in Hn by exact Hjl.
      destruct (j - length ops)%nat as [|n] eqn:En; [|destruct n; discriminate].
      injection Hn as <-. apply (step_invalidated g s o e He Ep).
  - (* created by this operation *)
    pose proof Hnew as Hnp. apply creates_requests in Hnew. destruct Hnew as [ttl [now [Hr Hv]]].
    exists ttl, now. split; [exists o; split; [apply in_or_app; right; left; reflexivity|exact Hr]|].
    assert (Hp : pending e = true) by (unfold pending; rewrite Hv; reflexivity). rewrite Hp. exact Hv.
  - (* completed by this Update *)
    destruct (IH Hw e0 He0) as [ttl [now [[o' [Ho' Hr]] Hrest]]]. rewrite Hp0 in Hrest.
    exists ttl, now. unfold completed. cbn [ekey ecmd eval].
    split; [exists o'; split; [apply in_or_app; left; exact Ho'|exact Hr]|].
    assert (Hpe : pending (completed g e0 v) = false).
    { unfold pending, completed, is_pending_msg. cbn [eval]. subst o. cbn in Hwo1. destruct v. cbn. apply N.eqb_neq. exact Hwo1. }
    unfold completed in Hpe. rewrite Hpe. exists (length ops), v.
    split; [rewrite nth_error_app2, Nat.sub_diag by lia; subst o; reflexivity|].
    split; [rewrite Hrest; reflexivity|].
    intros j o2 Hj Hn. assert (nth_error (ops ++ [o]) j = None); [|congruence].
    apply nth_error_None. rewrite app_length. cbn. lia.
Qed.

(** ** C07 *)

Lemma m_xat_set v x : m_xat (set_xat v x) = x.
Proof. destruct v. reflexivity. Qed.

Lemma min_xat_spec cx sx : 0 <= sx -> min_xat cx sx = if sx =? 0 then cx else Z.min cx sx.
Proof.
  intro H. unfold min_xat. destruct (sx =? 0) eqn:E0.
  - rewrite orb_true_r. reflexivity.
  - rewrite orb_false_r. destruct (cx <? sx) eqn:E; [apply Z.ltb_lt in E|apply Z.ltb_ge in E]; lia.
Qed.

Theorem expiry_rule g ops e :
  Forall wf_op ops -> In e (order (run g ops init)) -> pending e = false ->
  exists ttl now v,
    (exists o, In o ops /\ requests o (ekey e) (ecmd e) ttl now) /\
    In (Update (ekey e) (ecmd e) v) ops /\
    m_xat (eval e) = min_xat (trunc56 (unix_milli (now + ttl))) (m_xat v).
Proof.
  intros Hw He Hp. destruct (origin_run g ops Hw e He) as [ttl [now [Hr Hrest]]]. rewrite Hp in Hrest.
  destruct Hrest as [u [v [Hu [Hv _]]]]. exists ttl, now, v. split; [exact Hr|]. split.
  - eapply nth_error_In. exact Hu.
  - rewrite Hv. apply m_xat_set.
Qed.

(** what Update itself reports and delivers *)
Lemma update_reports g s k c v e :
  lookup k c (order s) = Some e -> pending e = true ->
  snd (update g s k c v) =
  OUpdate (min_xat (m_xat (eval e)) (m_xat v)) (Some (Rel (eid e) (set_xat v (min_xat (m_xat (eval e)) (m_xat v))))).
Proof. intros El Ep. rewrite (update_some g s k c v e El), Ep. reflexivity. Qed.

(** a completed entry is served iff the instant is strictly before its expiry *)
Theorem hit_iff s k c ttl now e :
  inv s -> In e (order s) -> kc e = (k, c) -> pending e = false ->
  (unix_milli now < m_xat (eval e) -> snd (flight s k c ttl now) = OFlight (eval e) (Some (eid e))) /\
  (m_xat (eval e) <= unix_milli now -> snd (flight s k c ttl now) = OFlight (pending_msg ttl now) None).
Proof.
  intros Hi He Hk Hp. rewrite (flight_out s k c ttl now Hi). unfold flight_result.
  rewrite (lookup_unique k c _ e (inv_kc s Hi) He Hk).
  unfold live, rel_pttl. unfold pending in Hp. rewrite Hp. cbn [orb]. split; intro H.
  - assert (E : (0 <? m_xat (eval e) - unix_milli now) = true) by (apply Z.ltb_lt; lia). rewrite E. reflexivity.
  - assert (E : (0 <? m_xat (eval e) - unix_milli now) = false) by (apply Z.ltb_ge; lia). rewrite E. reflexivity.
Qed.

(** reports *)
Lemma cache_pxat_spec m : m_xat m <> 0 -> cache_pxat m = m_xat m.
Proof. intro H. unfold cache_pxat. apply Z.eqb_neq in H. rewrite H. reflexivity. Qed.

Lemma cache_pttl_spec m now : m_xat m <> 0 -> cache_pttl m now = Z.max 0 (m_xat m - unix_milli now).
Proof. intro H. unfold cache_pttl. apply Z.eqb_neq in H. rewrite H. reflexivity. Qed.

Lemma cache_ttl_spec m now :
  cache_ttl m now = if 0 <? cache_pttl m now then (cache_pttl m now + 999) / 1000 else cache_pttl m now.
Proof.
  unfold cache_ttl. cbv zeta. destruct (0 <? cache_pttl m now) eqn:E; [|reflexivity].
  apply Z.ltb_lt in E. set (p := cache_pttl m now) in *.
  destruct (p / 1000 * 1000 <? p) eqn:E2; [apply Z.ltb_lt in E2|apply Z.ltb_ge in E2];
    Z.div_mod_to_equations; lia.
Qed.

Lemma trunc56_id x : 0 <= x < two56 -> trunc56 x = x.
Proof. intro H. unfold trunc56. apply Z.mod_small. exact H. Qed.

Lemma trunc56_range x : 0 <= trunc56 x < two56.
Proof. unfold trunc56. apply Z.mod_pos_bound. reflexivity. Qed.

(** ** C06 *)

Theorem no_stale_hit g ops o k c v :
  Forall wf_op ops ->
  In (AHit v) (answers k c o (snd (step g (run g ops init) o))) ->
  exists u v0 x,
    nth_error ops u = Some (Update k c v0) /\ v = set_xat v0 x /\
    (forall j o', (u < j)%nat -> nth_error ops j = Some o' -> ~ invalidates k o') /\
    unix_milli (now_of o) < x.
Proof.
  intros Hw H. pose proof (inv_run g ops init Hw inv_init) as Hi.
  destruct (step_hit g _ o k c v Hi H) as [e [He [Hk [Hv [Hp Hlt]]]]].
  destruct (origin_run g ops Hw e He) as [ttl [now [_ Hrest]]]. rewrite Hp in Hrest.
  destruct Hrest as [u [v0 [Hu [Hv0 Hinv]]]]. unfold kc in Hk. injection Hk as <- <-.
  exists u, v0, (min_xat (trunc56 (unix_milli (now + ttl))) (m_xat v0)).
  split; [exact Hu|]. split; [congruence|]. split; [exact Hinv|].
  rewrite <- Hv, Hv0, m_xat_set in Hlt. exact Hlt.
Qed.

(** after a disconnect nothing is ever served again by this store *)
Lemma closed_step g s o : inv s -> closed s = true -> closed (fst (step g s o)) = true /\ order (fst (step g s o)) = [].
Proof.
  intros Hi Hc. pose proof (inv_closed s Hi Hc) as Ho.
  assert (Hn : forall k c, lookup k c (order s) = None) by (intros; rewrite Ho; reflexivity).
  destruct o; cbn [step fst].
  - unfold flight, flight_fast. rewrite Hn. unfold flight_slow. rewrite Hc. cbn. tauto.
  - rewrite flights_unfold. cbv zeta. pose proof (flights_mid_spec s now items Hi) as [Hi2 [Hp [Hc2 _]]].
    rewrite Ho in Hp. apply Permutation_sym, Permutation_nil in Hp.
    destruct (missed_items items _); [cbn [fst]; rewrite Hc2; tauto|].
    unfold flights_slow. rewrite Hc2, Hc. cbn [fst]. rewrite Hc2. tauto.
  - rewrite update_none by apply Hn. tauto.
  - rewrite cancel_spec, Hn. tauto.
  - unfold delete. destruct keys; unfold purge_if; cbn [closed order]; rewrite Ho; cbn; tauto.
  - cbn. tauto.
  - tauto.
  - unfold flight_fast. rewrite Hn. tauto.
  - unfold touch. rewrite Hc. tauto.
  - unfold flight_slow. rewrite Hc. tauto.
  - pose proof (flights_fast_core now items s) as [A [_ [C _]]].
    destruct (flights_fast s now items) as [[s1 rs] mv]. cbn [fst] in *. rewrite A, C. tauto.
  - unfold flights_slow. rewrite Hc. tauto.
Qed.
