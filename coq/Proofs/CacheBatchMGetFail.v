(** pipe.doCacheMGet, failure path: when the rewritten request fails, exactly the flights this call
    started are cancelled, with the call's error, and the call returns that error (C09, caller side). *)
From Coq Require Import String Ascii.
From Coq Require Import List Arith NArith ZArith Bool Lia.
Require Import RV.Model.Base RV.Model.CacheBatch RV.Proofs.CacheBatchBase RV.Proofs.CacheBatchMulti RV.Proofs.CacheBatchMGet.
Import ListNotations.
Open Scope nat_scope.

Section MGetFail.
  Variable lookup : key -> bytes -> lk.
  Variable srv : argv -> msg.
  Variable qerr : argv -> option msg.
  Variable optin : bool.
  Variable cmd0 : bytes.
  Variable ks : list key.
  Variable pathopt : list bytes.

  Definition fcommands : argv := cmd0 :: ks ++ pathopt.
  Definition fcc : bytes := mget_cc fcommands.

  Hypothesis Hshape : (is_json fcommands = true /\ exists p, pathopt = [p]) \/ (is_json fcommands = false /\ pathopt = []).
  Hypothesis Hcmd0 : bytes_eqb cmd0 (bs "MULTI") = false /\ bytes_eqb cmd0 (bs "EXEC") = false.

  (** the flights this call starts: the keys that miss, first occurrence only *)
  Definition own_flights : list key := mk_miss (mklist lookup fcc [] ks) ks.
  Definition frewritten : argv := cmd0 :: own_flights ++ pathopt.
  (** the transaction is aborted when the server rejects one of its commands at queue time *)
  Definition tx_rejected : bool := existsb (rejected qerr) (map pttl_of own_flights ++ [frewritten]).
  Definition fail_err : err :=
    abort_err (ERedis (trim_err (m_str execabort_msg))) (new_result (q_or qerr frewritten queued_msg)).

  Lemma f_nkeys : (length fcommands - 1) - (if is_json fcommands then 1 else 0) = length ks.
  Proof.
    unfold fcommands in *. cbn [length]. rewrite app_length.
    destruct Hshape as [[-> [p ->]]|[-> ->]]; cbn [length]; lia.
  Qed.

  Lemma f_rewritten (ms : list key) :
    (nth 0 fcommands [] :: ms) ++ (if is_json fcommands then [last fcommands []] else []) = cmd0 :: ms ++ pathopt.
  Proof.
    unfold fcommands in *. cbn [nth]. destruct Hshape as [[-> [p ->]]|[-> ->]]; [|reflexivity].
    cbn [app]. do 2 f_equal. change (cmd0 :: ks ++ [p]) with ((cmd0 :: ks) ++ [p]). now rewrite last_last.
  Qed.

  Lemma f_inner_keys (ms : list key) :
    firstn ((length (cmd0 :: ms ++ pathopt) - 1) - (if is_json fcommands then 1 else 0)) (skipn 1 (cmd0 :: ms ++ pathopt)) = ms.
  Proof.
    cbn [length skipn]. rewrite app_length. unfold key in *.
    match goal with |- firstn ?n _ = _ => assert (E : n = length ms) end.
    { destruct Hshape as [[-> [p ->]]|[-> ->]]; cbn [length]; lia. }
    rewrite E. rewrite firstn_app, Nat.sub_diag, firstn_all. cbn [firstn]. apply app_nil_r.
  Qed.

  Lemma wire_go_cons_plain c r :
    is_cmd "MULTI" c = false -> is_cmd "EXEC" c = false ->
    wire_go srv qerr false [] false (c :: r) = q_or qerr c (srv c) :: wire_go srv qerr false [] false r.
  Proof. intros Hm He. cbn [wire_go]. rewrite Hm, He. unfold q_or. destruct (qerr c); reflexivity. Qed.

  (** the EXEC reply and the reply to the rewritten command, whatever the server rejects *)
  Lemma f_wire :
    let multi := [optin_cmd optin; [bs "MULTI"]] ++ map (fun k : bytes => [bs "PTTL"; k]) own_flights ++ [frewritten; [bs "EXEC"]] in
    rnth (length multi - 1) (redis_wire srv qerr multi)
      = new_result (if tx_rejected then execabort_msg else arr (map srv (map pttl_of own_flights ++ [frewritten]))) /\
    rnth (length multi - 2) (redis_wire srv qerr multi) = new_result (q_or qerr frewritten queued_msg).
  Proof.
    intro multi.
    assert (Hrw_tx : not_tx frewritten) by (unfold not_tx, frewritten, is_cmd; destruct Hcmd0; auto).
    assert (Hw : wire_go srv qerr false [] false multi
                 = [optin_reply srv qerr optin; ok_msg] ++
                   map (fun c => q_or qerr c queued_msg) (map pttl_of own_flights ++ [frewritten]) ++
                   [if tx_rejected then execabort_msg else arr (map srv (map pttl_of own_flights ++ [frewritten]))]).
    { unfold multi. destruct (optin_not_multi optin) as [Om Oe].
      assert (Mm : is_cmd "MULTI" [bs "MULTI"] = true) by reflexivity.
      assert (Hrest : wire_go srv qerr false [] false
                        ([bs "MULTI"] :: map (fun k => [bs "PTTL"; k]) own_flights ++ [frewritten; [bs "EXEC"]])
                      = ok_msg :: map (fun c => q_or qerr c queued_msg) (map pttl_of own_flights ++ [frewritten]) ++
                        [if tx_rejected then execabort_msg else arr (map srv (map pttl_of own_flights ++ [frewritten]))]).
      { cbn [wire_go]. rewrite Mm. f_equal.
        replace (map (fun k => [bs "PTTL"; k]) own_flights ++ [frewritten; [bs "EXEC"]])
          with ((map pttl_of own_flights ++ [frewritten]) ++ [[bs "EXEC"]]) by (rewrite <- app_assoc; reflexivity).
        rewrite wire_go_tx.
        2:{ apply Forall_app; split; [|now constructor]. apply Forall_forall. intros c Hc.
            apply in_map_iff in Hc as [k [<- _]]. apply pttl_not_tx. }
        cbn [orb rev app]. reflexivity. }
      cbn [app]. rewrite (wire_go_cons_plain _ _ Om Oe). unfold optin_reply. f_equal. exact Hrest. }
    unfold redis_wire. rewrite Hw.
    set (n := length own_flights).
    assert (Hlm : length multi = n + 4) by (unfold multi, n; rewrite !app_length, map_length; cbn [length]; unfold key; lia).
    set (pre := map new_result ([optin_reply srv qerr optin; ok_msg] ++ map (fun c => q_or qerr c queued_msg) (map pttl_of own_flights))).
    assert (Hpre : length pre = n + 2) by (unfold pre, n; rewrite map_length, app_length, !map_length; cbn [length]; unfold key; lia).
    assert (Hresp : map new_result ([optin_reply srv qerr optin; ok_msg] ++
                      map (fun c => q_or qerr c queued_msg) (map pttl_of own_flights ++ [frewritten]) ++
                      [if tx_rejected then execabort_msg else arr (map srv (map pttl_of own_flights ++ [frewritten]))])
                    = pre ++ [new_result (q_or qerr frewritten queued_msg);
                              new_result (if tx_rejected then execabort_msg else arr (map srv (map pttl_of own_flights ++ [frewritten])))]).
    { unfold pre. rewrite !map_app. cbn [map app]. rewrite <- !app_assoc. reflexivity. }
    rewrite Hresp. split.
    - replace (length multi - 1) with (length pre + 1) by lia. now rewrite rnth_app_r.
    - replace (length multi - 2) with (length pre + 0) by lia. now rewrite rnth_app_r.
  Qed.

  Lemma own_flights_scan :
    ms_rewrite (mget_scan lookup fcc (length ks) ks) = own_flights.
  Proof. destruct (mget_scan_spec lookup fcc (length ks) ks eq_refl) as (_ & _ & Hr). exact Hr. Qed.

  Lemma f_last : last_msg (map srv (map pttl_of own_flights ++ [frewritten])) = Some (srv frewritten).
  Proof.
    unfold last_msg. rewrite map_length, app_length, map_length. cbn [length].
    replace (length own_flights + 1 - 1) with (length (map srv (map pttl_of own_flights))) by (rewrite !map_length; lia).
    rewrite map_app, nth_error_app2, Nat.sub_diag by lia. reflexivity.
  Qed.

  (** the error of the failed request: the abort error, or the error reply of the rewritten command itself *)
  Definition request_failure : option err :=
    if tx_rejected then Some fail_err else msg_error (srv frewritten).

  (** on failure exactly the flights this call started are cancelled, with the call's error *)
  Theorem mget_fail_cancels_spec :
    mget_fail_cancels lookup srv qerr optin fcommands
    = match own_flights with
      | [] => None
      | _ => match request_failure with Some e => Some (own_flights, e) | None => None end
      end.
  Proof.
    unfold mget_fail_cancels, request_failure. rewrite f_nkeys.
    assert (Hk : firstn (length ks) (skipn 1 fcommands) = ks) by apply ks_eq. rewrite Hk. fold fcc.
    rewrite own_flights_scan.
    destruct own_flights as [|m0 mrest] eqn:Eo; [reflexivity|]. rewrite <- Eo.
    rewrite f_rewritten. fold frewritten.
    destruct f_wire as [He Hp]. cbn zeta in He, Hp.
    match goal with |- context [to_array ?x] =>
      replace x with (new_result (if tx_rejected then execabort_msg else arr (map srv (map pttl_of own_flights ++ [frewritten]))))
        by (symmetry; exact He) end.
    match goal with |- context [abort_err _ ?y] =>
      replace y with (new_result (q_or qerr frewritten queued_msg)) by (symmetry; exact Hp) end.
    assert (Hin : firstn (length frewritten - 1 - (if is_json fcommands then 1 else 0)) (skipn 1 frewritten) = own_flights)
      by apply f_inner_keys.
    rewrite Hin.
    unfold to_array. cbn [r_err new_result r_val].
    destruct tx_rejected; [reflexivity|].
    cbn [arr m_typ m_vals]. cbn [N.eqb tArr Pos.eqb orb]. rewrite f_last.
    destruct (msg_error (srv frewritten)); reflexivity.
  Qed.

  (** … and the call itself returns that error *)
  Theorem mget_fail_result :
    own_flights <> [] -> tx_rejected = true ->
    do_cache_mget lookup srv qerr optin fcommands = Ok (new_error fail_err).
  Proof.
    intros Hne Hrej. unfold do_cache_mget. rewrite f_nkeys.
    assert (Hk : firstn (length ks) (skipn 1 fcommands) = ks) by apply ks_eq. rewrite Hk. fold fcc.
    rewrite own_flights_scan.
    destruct own_flights as [|m0 mrest] eqn:Eo; [contradiction|]. rewrite <- Eo.
    rewrite f_rewritten. fold frewritten.
    destruct f_wire as [He Hp]. cbn zeta in He, Hp.
    match goal with |- context [to_array ?x] =>
      replace x with (new_result (if tx_rejected then execabort_msg else arr (map srv (map pttl_of own_flights ++ [frewritten]))))
        by (symmetry; exact He) end.
    match goal with |- context [abort_err _ ?y] =>
      replace y with (new_result (q_or qerr frewritten queued_msg)) by (symmetry; exact Hp) end.
    rewrite Hrej. reflexivity.
  Qed.

  (** the rewritten command answered with an error inside a successful EXEC: the reply is handed back *)
  Theorem mget_exec_error_result e :
    own_flights <> [] -> tx_rejected = false -> msg_error (srv frewritten) = Some e ->
    do_cache_mget lookup srv qerr optin fcommands = Ok (new_result (srv frewritten)).
  Proof.
    intros Hne Hrej Herr. unfold do_cache_mget. rewrite f_nkeys.
    assert (Hk : firstn (length ks) (skipn 1 fcommands) = ks) by apply ks_eq. rewrite Hk. fold fcc.
    rewrite own_flights_scan.
    destruct own_flights as [|m0 mrest] eqn:Eo; [contradiction|]. rewrite <- Eo.
    rewrite f_rewritten. fold frewritten.
    destruct f_wire as [He Hp]. cbn zeta in He, Hp.
    match goal with |- context [to_array ?x] =>
      replace x with (new_result (if tx_rejected then execabort_msg else arr (map srv (map pttl_of own_flights ++ [frewritten]))))
        by (symmetry; exact He) end.
    rewrite Hrej. unfold to_array. cbn [r_err new_result r_val arr m_typ m_vals]. cbn [N.eqb tArr Pos.eqb orb].
    rewrite f_last, Herr. reflexivity.
  Qed.

  (** the cancelled keys are keys of this MGET that the store reported as misses - never a key that was a
      hit or that another caller's flight is fetching *)
  Theorem own_flights_are_misses k :
    In k own_flights -> In k ks /\ lookup k fcc = LMiss.
  Proof.
    unfold own_flights. intro H.
    pose proof (mklist_sound lookup fcc ks [] (fun _ H => match H with end)) as Hs.
    revert H Hs. generalize (mk_miss (mklist lookup fcc [] ks) ks) at 2 as ms. intros ms.
    generalize (mklist lookup fcc [] ks) as kl. intros kl H Hs. revert H.
    induction Hs as [|mk x kl0 l Hk _ IH]; cbn [mk_miss]; [intros []|].
    destruct mk; cbn [mk_miss]; try (intro H; destruct (IH H); split; [now right|assumption]).
    intros [<-|H]; [inversion Hk; subst; split; [now left|assumption]|destruct (IH H); split; [now right|assumption]].
  Qed.

  (** every key that missed (a flight this call started) is cancelled *)
  Theorem misses_are_own_flights k :
    In k ks -> lookup k fcc = LMiss -> In k own_flights.
  Proof.
    unfold own_flights. intros Hin Hl.
    assert (G : forall l rw, In k l -> ~ In k rw -> In k (mk_miss (mklist lookup fcc rw l) l)).
    { induction l as [|x l IH]; intros rw Hi Hn; [destruct Hi|]. cbn [mklist].
      destruct (key_mem x rw) eqn:Em.
      - cbn [mk_miss]. destruct Hi as [->|Hi]; [apply key_mem_In in Em; contradiction|now apply IH].
      - destruct Hi as [->|Hi].
        + rewrite Hl. cbn [mk_miss]. now left.
        + destruct (lookup x fcc) eqn:Ex; cbn [mk_miss]; try now apply IH.
          destruct (list_eq_dec N.eq_dec k x) as [->|Hne]; [now left|right].
          apply IH; [assumption|]. intro H. apply in_app_or in H as [H|[E|[]]]; [contradiction|congruence]. }
    apply G; [assumption|intros []].
  Qed.
End MGetFail.
