(** What the answers of a step say about the state it ran on: hits come from completed, unexpired
    entries of the pre-state; lookups of a command in flight are told to wait on that flight;
    a miss on an open store leaves a pending entry. *)
From Coq Require Import List NArith ZArith Bool Lia Permutation.
Require Import RV.Model.Base RV.Model.Lru RV.Proofs.LruBase RV.Proofs.LruSteps.
Import ListNotations.
Open Scope Z_scope.

Lemma ematch_item_iff k c it : ematch_item k c it = true <-> (fi_key it, fi_cmd it) = (k, c).
Proof.
  unfold ematch_item. rewrite andb_true_iff, !bytes_eqb_eq. split.
  - intros [-> ->]. reflexivity.
  - intro H. injection H as <- <-. split; reflexivity.
Qed.

Lemma kc_eqb_iff k c k' c' : bytes_eqb k k' && bytes_eqb c c' = true <-> (k', c') = (k, c).
Proof.
  rewrite andb_true_iff, !bytes_eqb_eq. split.
  - intros [-> ->]. reflexivity.
  - intro H. injection H as <- <-. split; reflexivity.
Qed.

Lemma answers_items_in k c a : forall items rs,
  In a (answers_items k c items rs) ->
  exists it r, In (it, r) (combine items rs) /\ (fi_key it, fi_cmd it) = (k, c) /\ a = ans_of_fres r.
Proof.
  induction items as [|it items IH]; intros [|r rs] H; cbn [answers_items] in H; try contradiction.
  apply in_app_or in H. destruct H as [H|H].
  - destruct (ematch_item k c it) eqn:E; [|contradiction]. destruct H as [<-|[]].
    exists it, r. split; [left; reflexivity|]. split; [apply ematch_item_iff; exact E|reflexivity].
  - destruct (IH rs H) as [it' [r' [A B]]]. exists it', r'. split; [right; exact A|exact B].
Qed.

Lemma in_answers_items k c : forall items rs it r,
  In (it, r) (combine items rs) -> (fi_key it, fi_cmd it) = (k, c) -> In (ans_of_fres r) (answers_items k c items rs).
Proof.
  induction items as [|x items IH]; intros [|y rs] it r H Hk; cbn [combine] in H; try contradiction.
  cbn [answers_items]. apply in_or_app. destruct H as [H|H].
  - injection H as -> ->. left. apply ematch_item_iff in Hk. rewrite Hk. left. reflexivity.
  - right. eapply IH; eassumption.
Qed.

Lemma forall2_combine {A B : Type} (P : A -> B -> Prop) l1 l2 :
  Forall2 P l1 l2 -> forall a b, In (a, b) (combine l1 l2) -> P a b.
Proof.
  induction 1 as [|x y l1 l2 Hp Hf IH]; intros a b H; [contradiction|].
  destruct H as [H|H]; [injection H as <- <-; exact Hp|apply IH; exact H].
Qed.

(** ** hits *)

Definition hit_from (s : state) (k c : bytes) (now : Z) (v : msg) : Prop :=
  exists e, In e (order s) /\ kc e = (k, c) /\ eval e = v /\ pending e = false /\ unix_milli now < m_xat v.

Definition hit_res (s : state) (now : Z) (it : fitem) (r : fres) : Prop :=
  match r with FHit v => hit_from s (fi_key it) (fi_cmd it) now v | _ => True end.

Lemma live_done e now : pending e = false -> live (eval e) now = true -> unix_milli now < m_xat (eval e).
Proof.
  unfold pending, live, rel_pttl. intros -> H. cbn [orb] in H. apply Z.ltb_lt in H. lia.
Qed.

Lemma hit_res_fast s now items it :
  In it items ->
  match lookup (fi_key it) (fi_cmd it) (order s) with
  | Some e => if live (eval e) now then hit_res s now it (if pending e then FWait (eid e) else FHit (eval e)) else hit_res s now it FMiss
  | None => hit_res s now it FMiss
  end.
Proof.
  intros _. destruct (lookup (fi_key it) (fi_cmd it) (order s)) as [e|] eqn:El; [|exact I].
  destruct (live (eval e) now) eqn:Elive; [|exact I]. destruct (pending e) eqn:Ep; [exact I|].
  cbn [hit_res]. apply lookup_some in El. destruct El as [A B]. exists e. repeat split; try assumption.
  apply live_done; assumption.
Qed.

(** completed entries of the states a second pass goes through are entries of the state it started from *)
Definition done_from (s0 : state) (s' : state) : Prop := forall e, In e (order s') -> pending e = false -> In e (order s0).

Lemma done_from_slow s0 s' k c t now : inv s' -> closed s' = false -> done_from s0 s' -> done_from s0 (fst (slow_one s' k c t now)).
Proof.
  intros Hi Hc Hd e He Hp. destruct (slow_one_prov s' k c t now e Hi He) as [H|H]; [apply Hd; assumption|].
  apply new_pending_pending in H. congruence.
Qed.

Lemma hit_res_slow s0 now s' it :
  inv s' -> closed s' = false -> done_from s0 s' ->
  hit_res s0 now it (fres_of_sres (snd (slow_one s' (fi_key it) (fi_cmd it) (fi_ttl it) now))).
Proof.
  intros Hi Hc Hd. pose proof (slow_one_res s' (fi_key it) (fi_cmd it) (fi_ttl it) now Hi) as H.
  destruct (snd (slow_one s' (fi_key it) (fi_cmd it) (fi_ttl it) now)); cbn [fres_of_sres hit_res]; try exact I.
  destruct H as [e [A [B [C [D [E F]]]]]]. exists e. repeat split; try assumption.
  - apply Hd; assumption.
  - unfold rel_pttl in F. lia.
Qed.

Lemma flights_hits s now items :
  inv s -> match snd (flights s now items) with OFlights rs => Forall2 (hit_res s now) items rs | _ => False end.
Proof.
  intro Hi. apply (flights_forall2 (hit_res s now) (done_from s)); try assumption.
  - intros it Hit. apply (hit_res_fast s now items it Hit).
  - intros _ it _. exact I.
  - intros s' k c t. apply done_from_slow.
  - intros s' it A B C _. apply hit_res_slow; assumption.
  - intros s2 Hp _ _ e He _. eapply Permutation_in; eassumption.
Qed.

Lemma flights_fast_hits s now items : Forall2 (hit_res s now) items (snd (fst (flights_fast s now items))).
Proof. apply (flights_fast_forall2 _ (order s)); [reflexivity|]. intros it Hit. apply (hit_res_fast s now items it Hit). Qed.

Lemma flights_slow_hits s now items :
  inv s -> Forall2 (hit_res s now) items (snd (flights_slow s now items)).
Proof.
  intro Hi. unfold flights_slow. destruct (closed s) eqn:Hc.
  - cbn [snd]. induction items; cbn [map]; constructor; [exact I|assumption].
  - apply (flights_slow_open_forall2 (hit_res s now) (done_from s)); try assumption.
    + intros s' k c t. apply done_from_slow.
    + intros s' it A B C _. apply hit_res_slow; assumption.
    + intros e He _. exact He.
Qed.

Lemma flight_result_hit s k c ttl now v ce :
  inv s -> flight_result s k c ttl now = OFlight v ce -> is_pending_msg v = false -> hit_from s k c now v.
Proof.
  intros Hi H Hv. unfold flight_result in H. destruct (lookup k c (order s)) as [e|] eqn:El.
  - destruct (live (eval e) now) eqn:Elive.
    + injection H as <- <-. apply lookup_some in El. destruct El as [A B]. exists e. repeat split; try assumption.
      apply live_done; assumption.
    + injection H as <- <-. discriminate.
  - destruct (closed s); injection H as <- <-; discriminate.
Qed.

Lemma ans_hit_flight v ce w : In (AHit w) [ans_of_flight v ce] -> w = v /\ is_pending_msg v = false.
Proof.
  unfold ans_of_flight. intros [H|[]]. destruct (is_pending_msg v); [destruct ce; discriminate|].
  injection H as ->. split; reflexivity.
Qed.

Theorem step_hit g s o k c v :
  inv s -> In (AHit v) (answers k c o (snd (step g s o))) -> hit_from s k c (now_of o) v.
Proof.
  intros Hi H.
  destruct o as [k0 c0 ttl now|now items|k0 c0 v0|k0 c0 err|keys|err|k0 c0 now|k0 c0 now|ids|k0 c0 ttl now|now items|now items];
    cbn [step snd answers now_of] in *; try contradiction.
  - (* Flight *)
    rewrite (flight_out s k0 c0 ttl now Hi) in H.
    destruct (flight_result s k0 c0 ttl now) as [w ce| | | | | | | |] eqn:Er; try contradiction.
    destruct (bytes_eqb k k0 && bytes_eqb c c0) eqn:Ek; [|contradiction].
    apply kc_eqb_iff in Ek. injection Ek as -> ->.
    apply ans_hit_flight in H. destruct H as [-> Hv]. eapply flight_result_hit; eassumption.
  - (* Flights *)
    pose proof (flights_hits s now items Hi) as Hf.
    destruct (snd (flights s now items)) as [| |rs| | | | | |]; try contradiction.
    apply answers_items_in in H. destruct H as [it [r [A [B C]]]].
    pose proof (forall2_combine _ _ _ Hf it r A) as Hp. destruct r; try discriminate.
    injection C as ->. cbn [hit_res] in Hp. injection B as <- <-. exact Hp.
  - (* FlightFast *)
    rewrite flight_fast_out in H. destruct (lookup k0 c0 (order s)) as [e|] eqn:El; [|contradiction].
    destruct (live (eval e) now) eqn:Elive; [|contradiction].
    destruct (bytes_eqb k k0 && bytes_eqb c c0) eqn:Ek; [|contradiction].
    apply kc_eqb_iff in Ek. injection Ek as -> ->.
    apply ans_hit_flight in H. destruct H as [-> Hv]. apply lookup_some in El. destruct El as [A B].
    exists e. repeat split; try assumption. apply live_done; assumption.
  - (* FlightSlow *)
    rewrite (flight_slow_out s k0 c0 ttl now Hi) in H.
    destruct (flight_result s k0 c0 ttl now) as [w ce| | | | | | | |] eqn:Er; try contradiction.
    destruct (bytes_eqb k k0 && bytes_eqb c c0) eqn:Ek; [|contradiction].
    apply kc_eqb_iff in Ek. injection Ek as -> ->.
    apply ans_hit_flight in H. destruct H as [-> Hv]. eapply flight_result_hit; eassumption.
  - (* FlightsFast *)
    pose proof (flights_fast_hits s now items) as Hf.
    destruct (flights_fast s now items) as [[s1 rs] mv]. cbn [fst snd answers] in *.
    apply filter_In in H. destruct H as [H _].
    apply answers_items_in in H. destruct H as [it [r [A [B C]]]].
    pose proof (forall2_combine _ _ _ Hf it r A) as Hp. destruct r; try discriminate.
    injection C as ->. cbn [hit_res] in Hp. injection B as <- <-. exact Hp.
  - (* FlightsSlow *)
    pose proof (flights_slow_hits s now items Hi) as Hf.
    destruct (flights_slow s now items) as [s1 rs]. cbn [fst snd answers] in *.
    apply answers_items_in in H. destruct H as [it [r [A [B C]]]].
    pose proof (forall2_combine _ _ _ Hf it r A) as Hp. destruct r; try discriminate.
    injection C as ->. cbn [hit_res] in Hp. injection B as <- <-. exact Hp.
Qed.
