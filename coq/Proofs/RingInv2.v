(** Ring LTS: tickets and places of the putters. *)
From Coq Require Import List NArith ZArith Bool Arith Lia.
Require Import RV.Model.Base RV.Model.Ring RV.Proofs.RingBase RV.Proofs.RingInv.
Import ListNotations.
Local Open Scope nat_scope.

Ltac rst := cbn [write read1 read2 slots wpc rpc nw n1 n2 wseq rseq recv
                 set_slots set_slot set_counts set_wpc set_rpc add_recv
                 mark payload pm c_one c_multi c_resps slept rlock tk parked1 woken1 bc wt wparked wwoken fillseq
                 sl_lists sl_fill sl_mark sl_clear sl_writer sl_rlock] in *.
Ltac slot_cases s' s E := destruct (Nat.eq_dec s' s) as [E|E]; [subst s'; rewrite ?upd_same|rewrite ?upd_other by exact E].

Section RingInv2.
Variable k : nat.
Variable start : N.
Notation sof := (sof k start).
Notation cntpos := (cntpos k start).
Notation InvA := (InvA k start).

Definition pend (x : slot) : nat := length (fillseq x) + length (tk x) + length (parked1 x) + length (woken1 x).
Definition occ (x : slot) (p : nat) : nat := cnt (tk x) p + cnt (parked1 x) p + cnt (woken1 x) p + cnt (fillseq x) p.

Record InvT (st : state) : Prop := {
  t_tk : forall s, cntpos (nw st) s = pend (slots st s);
  t_loc : forall s p, 1 <= occ (slots st s) p -> sof p = s /\ 1 <= p <= nw st;
  t_one : forall p, 1 <= p <= nw st -> occ (slots st (sof p)) p = 1
}.

Lemma invt_init : InvT (init start).
Proof.
  constructor; cbn [init slots nw]; unfold pend, occ; cbn.
  - reflexivity.
  - intros s p H. lia.
  - intros p H. lia.
Qed.

Lemma invt_frame : forall st st', InvT st -> nw st' = nw st ->
  (forall s, tk (slots st' s) = tk (slots st s) /\ parked1 (slots st' s) = parked1 (slots st s) /\
             woken1 (slots st' s) = woken1 (slots st s) /\ fillseq (slots st' s) = fillseq (slots st s)) ->
  InvT st'.
Proof.
  intros st st' [T1 T2 T3] Hn H. constructor.
  - intro s. destruct (H s) as (A & B & C & D). unfold pend. rewrite Hn, A, B, C, D. apply T1.
  - intros s p. destruct (H s) as (A & B & C & D). unfold occ. rewrite Hn, A, B, C, D. apply T2.
  - intros p. destruct (H (sof p)) as (A & B & C & D). unfold occ. rewrite Hn, A, B, C, D. apply T3.
Qed.

Lemma invt_PutTicket : forall st st', InvA st -> InvT st -> lstep k st PutTicket = Some st' -> InvT st'.
Proof.
  intros st st' IA [T1 T2 T3] Hl. cbn [lstep] in Hl. apply some_inj in Hl. subst st'.
  rewrite (a_write k start st IA), u32_succ.
  change (idx k (u32 (start + N.of_nat (S (nw st))))) with (sof (S (nw st))). set (s := sof (S (nw st))) in *.
  assert (Hnew : forall s', occ (slots st s') (S (nw st)) = 0).
  { intro s'. destruct (occ (slots st s') (S (nw st))) eqn:E; [reflexivity|]. destruct (T2 s' (S (nw st))); lia. }
  constructor; rst.
  - intro s'. unfold pend. slot_cases s' s E; rst.
    + unfold s at 1. rewrite cntpos_succ_same. fold s. rewrite (T1 s). unfold pend. rewrite app_length. cbn [length]. lia.
    + rewrite (cntpos_succ_other k start (nw st) s') by (fold s; congruence). apply T1.
  - intros s' p. unfold occ. slot_cases s' s E; rst.
    + rewrite cnt_app1. intro H. case_ind (S (nw st)) p.
      * split; [reflexivity|lia].
      * destruct (T2 s p); [unfold occ; lia|]. split; [assumption|lia].
    + intro H. destruct (T2 s' p H). split; [assumption|lia].
  - intros p Hp. unfold occ. destruct (Nat.eq_dec (sof p) s) as [E|E].
    + rewrite E, upd_same. rst. rewrite cnt_app1. case_ind (S (nw st)) p.
      * specialize (Hnew s). unfold occ in Hnew. lia.
      * assert (Hp' : 1 <= p <= nw st) by lia. specialize (T3 p Hp'). rewrite E in T3. unfold occ in T3. lia.
    + rewrite upd_other by exact E. apply T3. assert (p <> S (nw st)) by (intro; subst p; fold s in E; congruence). lia.
Qed.

Lemma invt_PutLock : forall st st' p s m, InvT st -> lstep k st (PutLock p s m) = Some st' -> InvT st'.
Proof.
  intros st st' p s m [T1 T2 T3] Hl. cbn [lstep] in Hl.
  destruct (negb (rlock (slots st s)) && (memb p (tk (slots st s)) || memb p (woken1 (slots st s)))) eqn:G; [|discriminate].
  apply andb_true_iff in G. destruct G as [_ G].
  set (x := slots st s) in *.
  set (x1 := if memb p (tk x) then sl_lists x (remove1 p (tk x)) (parked1 x) (woken1 x) (bc x) (wt x)
             else sl_lists x (tk x) (parked1 x) (remove1 p (woken1 x)) (bc x) (wt x)) in *.
  (* what removing p from its waiting list does *)
  assert (X1 : fillseq x1 = fillseq x /\ parked1 x1 = parked1 x /\
               S (length (tk x1) + length (woken1 x1)) = length (tk x) + length (woken1 x) /\
               (forall q, cnt (tk x1) q + cnt (woken1 x1) q + ind p q = cnt (tk x) q + cnt (woken1 x) q)).
  { subst x1. destruct (memb p (tk x)) eqn:M; rst.
    - pose proof (remove1_length _ _ M). pose proof (memb_cnt _ _ M). repeat split; try lia.
      intro q. rewrite cnt_remove1. case_ind p q; lia.
    - cbn [orb] in G. pose proof (remove1_length _ _ G). pose proof (memb_cnt _ _ G). repeat split; try lia.
      intro q. rewrite cnt_remove1. case_ind p q; lia. }
  destruct X1 as (F1 & F2 & F3 & F4).
  assert (Hloc : sof p = s /\ 1 <= p <= nw st).
  { apply T2. fold x. unfold occ. specialize (F4 p). rewrite ind_refl in F4. lia. }
  match type of Hl with (if ?c then Some (set_slot _ _ ?va) else Some (set_slot _ _ ?vb)) = _ =>
    remember va as v1 eqn:Ev1; remember vb as v2 eqn:Ev2 end.
  assert (V : forall v, v = (if Nat.eqb (mark x1) 0 then v1 else v2) ->
              pend v = pend x /\ forall q, occ v q = occ x q).
  { intros v Hv. destruct (Nat.eqb (mark x1) 0).
    - subst v v1. unfold pend, occ. destruct (slept (sl_fill x1 p m)); rst; rewrite F1, F2, app_length; cbn [length];
        (split; [lia|]); intro q; rewrite cnt_app1; specialize (F4 q); lia.
    - subst v v2. unfold pend, occ. rst. rewrite F1, F2, app_length. cbn [length].
      split; [lia|]. intro q. rewrite cnt_app1. specialize (F4 q). lia. }
  assert (Hst : st' = set_slot st s (if Nat.eqb (mark x1) 0 then v1 else v2)).
  { destruct (Nat.eqb (mark x1) 0); apply some_inj in Hl; congruence. }
  destruct (V _ eq_refl) as [V1 V2]. remember (if Nat.eqb (mark x1) 0 then v1 else v2) as v eqn:Ev. clear Ev Ev1 Ev2 Hl.
  subst st'. constructor; rst.
  - intro s'. slot_cases s' s E; [rewrite V1|]; apply T1.
  - intros s' q. slot_cases s' s E; [rewrite V2|]; apply T2.
  - intros q Hq. destruct (Nat.eq_dec (sof q) s) as [E|E].
    + rewrite E, upd_same, V2. specialize (T3 q Hq). rewrite E in T3. exact T3.
    + rewrite upd_other by exact E. apply T3. exact Hq.
Qed.

Lemma invt_RSignal : forall st st' o, InvT st -> lstep k st (RSignal o) = Some st' -> InvT st'.
Proof.
  intros st st' o IT Hl. cbn [lstep] in Hl. destruct (rpc st) as [| |s]; try discriminate.
  destruct o as [p|].
  - destruct (memb p (parked1 (slots st s))) eqn:M; [|discriminate]. apply some_inj in Hl. subst st'.
    destruct IT as [T1 T2 T3]. pose proof (remove1_length _ _ M) as HL. pose proof (memb_cnt _ _ M) as HC.
    set (x := slots st s) in *.
    assert (V : pend (sl_lists x (tk x) (remove1 p (parked1 x)) (woken1 x ++ [p]) (bc x) (wt x)) = pend x /\
                forall q, occ (sl_lists x (tk x) (remove1 p (parked1 x)) (woken1 x ++ [p]) (bc x) (wt x)) q = occ x q).
    { unfold pend, occ. rst. rewrite app_length. cbn [length]. split; [lia|].
      intro q. rewrite cnt_remove1, cnt_app1. case_ind p q; lia. }
    destruct V as [V1 V2].
    constructor; rst.
    + intro s'. slot_cases s' s E; [rewrite V1|]; apply T1.
    + intros s' q. slot_cases s' s E; [rewrite V2|]; apply T2.
    + intros q Hq. destruct (Nat.eq_dec (sof q) s) as [E|E].
      * rewrite E, upd_same, V2. specialize (T3 q Hq). rewrite E in T3. exact T3.
      * rewrite upd_other by exact E. apply T3. exact Hq.
  - destruct (is_nil (parked1 (slots st s))); [|discriminate]. apply some_inj in Hl. subst st'.
    eapply invt_frame; [exact IT|reflexivity|]. intro s'. rst. auto.
Qed.

Lemma writer_take_lists : forall st s r1' st1, writer_take st s r1' = Some st1 ->
  nw st1 = nw st /\ wpc st1 = wpc st /\ rpc st1 = rpc st /\
  forall s', tk (slots st1 s') = tk (slots st s') /\ parked1 (slots st1 s') = parked1 (slots st s') /\
             woken1 (slots st1 s') = woken1 (slots st s') /\ fillseq (slots st1 s') = fillseq (slots st s') /\
             bc (slots st1 s') = bc (slots st s') /\ slept (slots st1 s') = slept (slots st s') /\
             wparked (slots st1 s') = wparked (slots st s') /\ wwoken (slots st1 s') = wwoken (slots st s') /\
             rlock (slots st1 s') = rlock (slots st s') /\
             mark (slots st1 s') = (if Nat.eqb s' s then 2 else mark (slots st s')).
Proof.
  intros st s r1' st1 H. apply writer_take_some in H. destruct H as [Hm H]. subst st1. rst.
  split; [reflexivity|]. split; [reflexivity|]. split; [reflexivity|]. intro s'.
  slot_cases s' s E; rst.
  - rewrite Nat.eqb_refl. repeat split; reflexivity.
  - destruct (Nat.eqb s' s) eqn:E2; [apply Nat.eqb_eq in E2; congruence|]. repeat split; reflexivity.
Qed.

Lemma invt_step : forall st l st', InvA st -> InvT st -> lstep k st l = Some st' -> InvT st'.
Proof.
  intros st l st' IA IT Hl. destruct l.
  - eapply invt_PutTicket; eassumption.
  - eapply invt_PutLock; eassumption.
  - (* PutBcast *)
    cbn [lstep] in Hl. destruct (memb p (bc (slots st s))); [|discriminate]. apply some_inj in Hl. subst st'.
    eapply invt_frame; [exact IT|reflexivity|]. intro s'. rst. slot_cases s' s E; [|auto].
    destruct (wparked (slots st s)); rst; auto.
  - (* WNext *)
    cbn [lstep] in Hl. destruct (wpc st); [|discriminate].
    match type of Hl with context [rlock ?x] => destruct (rlock x); [discriminate|] end.
    match type of Hl with context [writer_take ?a ?b ?c] => destruct (writer_take a b c) as [st1|] eqn:T end.
    + apply some_inj in Hl. subst st'. apply writer_take_lists in T. destruct T as (A & _ & _ & B).
      eapply invt_frame; [exact IT|exact A|]. intro s'. destruct (B s') as (B1 & B2 & B3 & B4 & _). auto.
    + apply some_inj in Hl. subst st'. exact IT.
  - (* WWaitEnter *)
    cbn [lstep] in Hl. destruct (wpc st); [|discriminate].
    match type of Hl with context [rlock ?x] => destruct (rlock x); [discriminate|] end.
    match type of Hl with context [writer_take ?a ?b ?c] => destruct (writer_take a b c) as [st1|] eqn:T end.
    + apply some_inj in Hl. subst st'. apply writer_take_lists in T. destruct T as (A & _ & _ & B).
      eapply invt_frame; [exact IT|exact A|]. intro s'. destruct (B s') as (B1 & B2 & B3 & B4 & _). auto.
    + apply some_inj in Hl. subst st'. eapply invt_frame; [exact IT|reflexivity|]. intro s'. rst.
      match goal with |- context [upd _ ?s _ s'] => slot_cases s' s E; rst; auto end.
  - (* WWaitRetry *)
    cbn [lstep] in Hl. destruct (wpc st) as [|s]; [discriminate|].
    destruct (wwoken (slots st s) && negb (rlock (slots st s))); [|discriminate].
    match type of Hl with context [writer_take ?a ?b ?c] => destruct (writer_take a b c) as [st1|] eqn:T end.
    + apply some_inj in Hl. subst st'. apply writer_take_lists in T. destruct T as (A & _ & _ & B).
      eapply invt_frame; [exact IT|rst; exact A|]. intro s'. rst. destruct (B s') as (B1 & B2 & B3 & B4 & _).
      rewrite B1, B2, B3, B4. rst. slot_cases s' s E; rst; auto.
    + apply some_inj in Hl. subst st'. eapply invt_frame; [exact IT|reflexivity|]. intro s'. rst.
      slot_cases s' s E; rst; auto.
  - (* RNext *)
    cbn [lstep] in Hl. destruct (rpc st); try discriminate.
    match type of Hl with context [rlock ?x] => destruct (rlock x); [discriminate|] end.
    match type of Hl with context [Nat.eqb (mark ?x) 2] => destruct (Nat.eqb (mark x) 2) end.
    + apply some_inj in Hl. subst st'. eapply invt_frame; [exact IT|reflexivity|]. intro s'. rst.
      match goal with |- context [upd _ ?s _ s'] => slot_cases s' s E; rst; auto end.
    + apply some_inj in Hl. subst st'. eapply invt_frame; [exact IT|reflexivity|]. intro s'. rst.
      match goal with |- context [upd _ ?s _ s'] => slot_cases s' s E; rst; auto end.
  - (* RDeliver *)
    cbn [lstep] in Hl. destruct (rpc st) as [|s [i|]|]; try discriminate.
    destruct (memb p (wt (slots st s))); [|discriminate]. apply some_inj in Hl. subst st'.
    eapply invt_frame; [exact IT|reflexivity|]. intro s'. rst. slot_cases s' s E; rst; auto.
  - (* RUnlock *)
    cbn [lstep] in Hl. destruct (rpc st) as [|s [i|]|]; try discriminate. apply some_inj in Hl. subst st'.
    eapply invt_frame; [exact IT|reflexivity|]. intro s'. rst. slot_cases s' s E; rst; auto.
  - eapply invt_RSignal; eassumption.
  - cbn [lstep] in Hl. destruct (wpc st); [|discriminate]. apply some_inj in Hl. subst st'. exact IT.
Qed.

(** ---- wake-up invariants ---- *)

Record InvW (st : state) : Prop := {
  w_l1 : forall s, parked1 (slots st s) <> [] ->
           mark (slots st s) <> 0 \/ rlock (slots st s) = true \/ rpc st = RSig s \/ woken1 (slots st s) <> [];
  w_l2 : forall s, wparked (slots st s) = true ->
           slept (slots st s) = true /\ (mark (slots st s) <> 1 \/ bc (slots st s) <> []);
  w_w : forall s, (wparked (slots st s) = true \/ wwoken (slots st s) = true) -> wpc st = WWait s;
  w_w2 : forall s, wpc st = WWait s ->
           (wparked (slots st s) = true /\ wwoken (slots st s) = false) \/
           (wparked (slots st s) = false /\ wwoken (slots st s) = true)
}.

Lemma invw_init : InvW (init start).
Proof.
  constructor; cbn [init slots wpc rpc]; cbn.
  - intros s H. congruence.
  - intros s H. discriminate.
  - intros s [H|H]; discriminate.
  - intros s H. discriminate.
Qed.

Lemma invw_frame : forall st st', InvW st -> wpc st' = wpc st ->
  (forall s, rpc st = RSig s -> rpc st' = RSig s) ->
  (forall s, mark (slots st' s) = mark (slots st s) /\ rlock (slots st' s) = rlock (slots st s) /\
             parked1 (slots st' s) = parked1 (slots st s) /\ woken1 (slots st' s) = woken1 (slots st s) /\
             slept (slots st' s) = slept (slots st s) /\ wparked (slots st' s) = wparked (slots st s) /\
             wwoken (slots st' s) = wwoken (slots st s) /\ bc (slots st' s) = bc (slots st s)) ->
  InvW st'.
Proof.
  intros st st' [W1 W2 W3 W4] Hw Hr H. constructor.
  - intros s. destruct (H s) as (A & B & C & D & _). rewrite A, B, C, D. intro Hp.
    destruct (W1 s Hp) as [X|[X|[X|X]]]; auto.
  - intros s. destruct (H s) as (A & _ & _ & _ & E & F & _ & G). rewrite A, E, F, G. apply W2.
  - intros s. destruct (H s) as (_ & _ & _ & _ & _ & F & G & _). rewrite F, G, Hw. apply W3.
  - intros s. destruct (H s) as (_ & _ & _ & _ & _ & F & G & _). rewrite F, G, Hw. apply W4.
Qed.

Lemma widle_quiet : forall st, InvW st -> wpc st = WIdle -> forall s, wparked (slots st s) = false /\ wwoken (slots st s) = false.
Proof.
  intros st [_ _ W3 _] Hw s. destruct (wparked (slots st s)) eqn:A; destruct (wwoken (slots st s)) eqn:B; auto;
    exfalso; assert (wpc st = WWait s) by (apply W3; auto); congruence.
Qed.

Lemma wwait_others_quiet : forall st s, InvW st -> wpc st = WWait s -> forall s', s' <> s ->
  wparked (slots st s') = false /\ wwoken (slots st s') = false.
Proof.
  intros st s [_ _ W3 _] Hw s' Hn. destruct (wparked (slots st s')) eqn:A; destruct (wwoken (slots st s')) eqn:B; auto;
    exfalso; assert (H : wpc st = WWait s') by (apply W3; auto); rewrite Hw in H; inversion H; congruence.
Qed.

Lemma invw_PutLock : forall st st' p s m, InvW st -> lstep k st (PutLock p s m) = Some st' -> InvW st'.
Proof.
  intros st st' p s m IW Hl. cbn [lstep] in Hl.
  destruct (negb (rlock (slots st s)) && (memb p (tk (slots st s)) || memb p (woken1 (slots st s)))) eqn:G; [|discriminate].
  set (x := slots st s) in *.
  set (x1 := if memb p (tk x) then sl_lists x (remove1 p (tk x)) (parked1 x) (woken1 x) (bc x) (wt x)
             else sl_lists x (tk x) (parked1 x) (remove1 p (woken1 x)) (bc x) (wt x)) in *.
  assert (X1 : mark x1 = mark x /\ rlock x1 = rlock x /\ parked1 x1 = parked1 x /\ slept x1 = slept x /\
               wparked x1 = wparked x /\ wwoken x1 = wwoken x /\ bc x1 = bc x).
  { subst x1. destruct (memb p (tk x)); rst; repeat split; reflexivity. }
  destruct X1 as (M1 & M2 & M3 & M4 & M5 & M6 & M7).
  destruct IW as [W1 W2 W3 W4].
  destruct (Nat.eqb (mark x1) 0) eqn:Hm.
  - match type of Hl with Some (set_slot _ _ ?vv) = _ => remember vv as v eqn:Ev end.
    assert (V : mark v = 1 /\ slept v = slept x /\ wparked v = wparked x /\ wwoken v = wwoken x /\ rlock v = rlock x /\
                (slept x = true -> bc v <> [])).
    { subst v. destruct (slept (sl_fill x1 p m)) eqn:Sl; rst; rewrite ?M2, ?M4, ?M5, ?M6; repeat split; try reflexivity.
      - intros _ H. apply app_eq_nil in H. destruct H. discriminate.
      - rst. rewrite M4 in Sl. congruence. }
    destruct V as (V1 & V2 & V3 & V4 & V5 & V6). clear Ev. apply some_inj in Hl. subst st'.
    constructor; rst.
    + intros s'. slot_cases s' s E; [intros _; left; lia|apply W1].
    + intros s'. slot_cases s' s E; [|apply W2]. rewrite V3, V2, V1. intro Hp. destruct (W2 s Hp) as [Sl _]. fold x in Sl. auto.
    + intros s'. slot_cases s' s E; [rewrite V3, V4|]; apply W3.
    + intros s'. slot_cases s' s E; [rewrite V3, V4|]; apply W4.
  - apply Nat.eqb_neq in Hm. apply some_inj in Hl. subst st'.
    constructor; rst.
    + intros s'. slot_cases s' s E; [rst; intros _; left; exact Hm|apply W1].
    + intros s'. slot_cases s' s E; [rst; rewrite M1, M4, M5, M7|]; apply W2.
    + intros s'. slot_cases s' s E; [rst; rewrite M5, M6|]; apply W3.
    + intros s'. slot_cases s' s E; [rst; rewrite M5, M6|]; apply W4.
Qed.

Lemma invw_PutBcast : forall st st' p s, InvW st -> lstep k st (PutBcast p s) = Some st' -> InvW st'.
Proof.
  intros st st' p s IW Hl. cbn [lstep] in Hl. set (x := slots st s) in *.
  destruct (memb p (bc x)); [|discriminate]. apply some_inj in Hl. subst st'.
  destruct IW as [W1 W2 W3 W4]. rst.
  destruct (wparked x) eqn:Wp; rst.
  - assert (Hw : wpc st = WWait s) by (apply W3; left; exact Wp).
    constructor; rst.
    + intros s'. slot_cases s' s E; [rst|]; apply W1.
    + intros s'. slot_cases s' s E; [rst; discriminate|apply W2].
    + intros s'. slot_cases s' s E; [rst; intros _; exact Hw|apply W3].
    + intros s'. slot_cases s' s E; [rst; intros _; right; auto|apply W4].
  - constructor; rst.
    + intros s'. slot_cases s' s E; [rst|]; apply W1.
    + intros s'. slot_cases s' s E; [rst; fold x; rewrite Wp; discriminate|apply W2].
    + intros s'. slot_cases s' s E; [rst|]; apply W3.
    + intros s'. slot_cases s' s E; [rst|]; apply W4.
Qed.

(** the writer takes the command of slot [s] and leaves WaitForWrite / NextWriteCmd *)
Lemma invw_take : forall st st1 s r1' st',
  (forall s0, parked1 (slots st s0) <> [] ->
     mark (slots st s0) <> 0 \/ rlock (slots st s0) = true \/ rpc st = RSig s0 \/ woken1 (slots st s0) <> []) ->
  writer_take st s r1' = Some st1 ->
  (forall s', wparked (slots st s') = false /\ wwoken (slots st s') = false) ->
  wpc st' = WIdle -> rpc st' = rpc st ->
  (forall s', mark (slots st' s') = mark (slots st1 s') /\ rlock (slots st' s') = rlock (slots st1 s') /\
              parked1 (slots st' s') = parked1 (slots st1 s') /\ woken1 (slots st' s') = woken1 (slots st1 s') /\
              wparked (slots st' s') = wparked (slots st1 s') /\ wwoken (slots st' s') = wwoken (slots st1 s')) ->
  InvW st'.
Proof.
  intros st st1 s r1' st' W1 T Hq Hw Hr H. apply writer_take_lists in T. destruct T as (_ & _ & _ & B).
  constructor.
  - intros s'. destruct (H s') as (A1 & A2 & A3 & A4 & _). destruct (B s') as (_ & B2 & B3 & _ & _ & _ & _ & _ & B9 & B10).
    rewrite A1, A2, A3, A4, B2, B3, B9, B10, Hr. intro Hp. destruct (Nat.eqb s' s) eqn:E.
    + left. lia.
    + apply W1. exact Hp.
  - intros s'. destruct (H s') as (_ & _ & _ & _ & A5 & _). destruct (B s') as (_ & _ & _ & _ & _ & _ & B7 & _).
    rewrite A5, B7. destruct (Hq s') as [Q _]. rewrite Q. discriminate.
  - intros s'. destruct (H s') as (_ & _ & _ & _ & A5 & A6). destruct (B s') as (_ & _ & _ & _ & _ & _ & B7 & B8 & _).
    rewrite A5, A6, B7, B8. destruct (Hq s') as [Q1 Q2]. rewrite Q1, Q2. intros [X|X]; discriminate.
  - intros s' X. rewrite Hw in X. discriminate.
Qed.

Lemma invw_WNext : forall st st', InvW st -> lstep k st WNext = Some st' -> InvW st'.
Proof.
  intros st st' IW Hl. cbn [lstep] in Hl. destruct (wpc st) eqn:Hw; [|discriminate].
  match type of Hl with context [rlock ?x] => destruct (rlock x); [discriminate|] end.
  match type of Hl with context [writer_take ?a ?b ?c] => destruct (writer_take a b c) as [st1|] eqn:T end.
  - apply some_inj in Hl. subst st'. eapply invw_take; [exact (w_l1 st IW)|exact T|apply widle_quiet; assumption| | |].
    + apply writer_take_lists in T. destruct T as (_ & A & _). congruence.
    + apply writer_take_lists in T. destruct T as (_ & _ & A & _). exact A.
    + intro s'. repeat split; reflexivity.
  - apply some_inj in Hl. subst st'. exact IW.
Qed.

Lemma invw_WWaitEnter : forall st st', InvW st -> lstep k st WWaitEnter = Some st' -> InvW st'.
Proof.
  intros st st' IW Hl. cbn [lstep] in Hl. destruct (wpc st) eqn:Hw; [|discriminate].
  match type of Hl with context [rlock (slots st ?ss)] => set (s := ss) in *; destruct (rlock (slots st s)); [discriminate|] end.
  match type of Hl with context [writer_take ?a ?b ?c] => destruct (writer_take a b c) as [st1|] eqn:T end.
  - apply some_inj in Hl. subst st'. eapply invw_take; [exact (w_l1 st IW)|exact T|apply widle_quiet; assumption| | |].
    + apply writer_take_lists in T. destruct T as (_ & A & _). congruence.
    + apply writer_take_lists in T. destruct T as (_ & _ & A & _). exact A.
    + intro s'. repeat split; reflexivity.
  - apply some_inj in Hl. subst st'. apply writer_take_none in T.
    pose proof (widle_quiet st IW Hw) as Hq. destruct IW as [W1 W2 W3 W4].
    constructor; rst.
    + intros s'. slot_cases s' s E; [rst|]; apply W1.
    + intros s'. slot_cases s' s E; rst.
      * intros _. split; [reflexivity|left; exact T].
      * destruct (Hq s') as [Q _]. rewrite Q. discriminate.
    + intros s'. slot_cases s' s E; rst; [reflexivity|]. destruct (Hq s') as [Q1 Q2]. rewrite Q1, Q2. intros [X|X]; discriminate.
    + intros s' X. inversion X. subst s'. rewrite upd_same. rst. left. auto.
Qed.

Lemma invw_WWaitRetry : forall st st', InvW st -> lstep k st WWaitRetry = Some st' -> InvW st'.
Proof.
  intros st st' IW Hl. cbn [lstep] in Hl. destruct (wpc st) as [|s] eqn:Hw; [discriminate|].
  destruct (wwoken (slots st s) && negb (rlock (slots st s))) eqn:G; [|discriminate].
  pose proof (wwait_others_quiet st s IW Hw) as Hq.
  match type of Hl with context [writer_take ?a ?b ?c] => destruct (writer_take a b c) as [st1|] eqn:T end.
  - apply some_inj in Hl. subst st'.
    eapply (invw_take _ st1 s); [| exact T | | | |].
    + intros s'. rst. slot_cases s' s E; [rst|]; apply (w_l1 st IW).
    + intro s'. rst. slot_cases s' s E; rst; [auto|apply (Hq s' E)].
    + rst. reflexivity.
    + rst. apply writer_take_lists in T. destruct T as (_ & _ & A & _). rst. exact A.
    + intro s'. rst. repeat split; reflexivity.
  - apply some_inj in Hl. subst st'. apply writer_take_none in T. rst. rewrite upd_same in *. rst.
    destruct IW as [W1 W2 W3 W4].
    constructor; rst.
    + intros s'. slot_cases s' s E; [rst|]; apply W1.
    + intros s'. slot_cases s' s E; rst.
      * intros _. split; [reflexivity|left; exact T].
      * apply W2.
    + intros s'. slot_cases s' s E; rst; [intros _; exact Hw|apply W3].
    + intros s' X. rewrite Hw in X. inversion X. subst s'. rewrite upd_same. rst. left. auto.
Qed.

Lemma invw_RNext : forall st st', InvA st -> InvW st -> lstep k st RNext = Some st' -> InvW st'.
Proof.
  intros st st' IA IW Hl. cbn [lstep] in Hl. destruct (rpc st) eqn:Hrp; try discriminate.
  match type of Hl with context [rlock (slots st ?ss)] => set (s := ss) in *; destruct (rlock (slots st s)); [discriminate|] end.
  destruct IW as [W1 W2 W3 W4].
  destruct (Nat.eqb (mark (slots st s)) 2) eqn:Hm.
  - apply Nat.eqb_eq in Hm. apply some_inj in Hl. subst st'. constructor; rst.
    + intros s'. slot_cases s' s E; rst; [intros _; right; left; reflexivity|].
      intro Hp. destruct (W1 s' Hp) as [X|[X|[X|X]]]; auto. congruence.
    + intros s'. slot_cases s' s E; rst; [|apply W2]. intro Hp. destruct (W2 s Hp) as [A _]. split; [exact A|left; lia].
    + intros s'. slot_cases s' s E; [rst|]; apply W3.
    + intros s'. slot_cases s' s E; [rst|]; apply W4.
  - apply some_inj in Hl. subst st'. constructor; rst.
    + intros s'. slot_cases s' s E; rst; [intros _; right; left; reflexivity|].
      intro Hp. destruct (W1 s' Hp) as [X|[X|[X|X]]]; auto. congruence.
    + intros s'. slot_cases s' s E; [rst|]; apply W2.
    + intros s'. slot_cases s' s E; [rst|]; apply W3.
    + intros s'. slot_cases s' s E; [rst|]; apply W4.
Qed.

Lemma invw_step : forall st l st', InvA st -> InvW st -> lstep k st l = Some st' -> InvW st'.
Proof.
  intros st l st' IA IW Hl. destruct l.
  - cbn [lstep] in Hl. apply some_inj in Hl. subst st'. eapply invw_frame; [exact IW|reflexivity|rst; auto|].
    intro s'. rst. match goal with |- context [upd _ ?s _ s'] => slot_cases s' s E; rst; repeat split; reflexivity end.
  - eapply invw_PutLock; eassumption.
  - eapply invw_PutBcast; eassumption.
  - eapply invw_WNext; eassumption.
  - eapply invw_WWaitEnter; eassumption.
  - eapply invw_WWaitRetry; eassumption.
  - eapply invw_RNext; eassumption.
  - (* RDeliver *)
    cbn [lstep] in Hl. destruct (rpc st) as [|s [i|]|] eqn:Hrp; try discriminate.
    destruct (memb p (wt (slots st s))); [|discriminate]. apply some_inj in Hl. subst st'.
    eapply invw_frame; [exact IW|reflexivity|rst; intros s' X; congruence|].
    intro s'. rst. slot_cases s' s E; rst; repeat split; reflexivity.
  - (* RUnlock *)
    cbn [lstep] in Hl. destruct (rpc st) as [|s [i|]|] eqn:Hrp; try discriminate. apply some_inj in Hl. subst st'.
    destruct IW as [W1 W2 W3 W4]. constructor; rst.
    + intros s'. slot_cases s' s E; rst; [intros _; right; right; left; reflexivity|].
      intro Hp. destruct (W1 s' Hp) as [X|[X|[X|X]]]; auto. congruence.
    + intros s'. slot_cases s' s E; [rst|]; apply W2.
    + intros s'. slot_cases s' s E; [rst|]; apply W3.
    + intros s'. slot_cases s' s E; [rst|]; apply W4.
  - (* RSignal *)
    cbn [lstep] in Hl. destruct (rpc st) as [| |s] eqn:Hrp; try discriminate.
    destruct IW as [W1 W2 W3 W4]. destruct o as [p|].
    + destruct (memb p (parked1 (slots st s))); [|discriminate]. apply some_inj in Hl. subst st'. constructor; rst.
      * intros s'. slot_cases s' s E; rst.
        -- intros _. right. right. right. intro X. apply app_eq_nil in X. destruct X. discriminate.
        -- intro Hp. destruct (W1 s' Hp) as [X|[X|[X|X]]]; auto. inversion X. congruence.
      * intros s'. slot_cases s' s E; [rst|]; apply W2.
      * intros s'. slot_cases s' s E; [rst|]; apply W3.
      * intros s'. slot_cases s' s E; [rst|]; apply W4.
    + destruct (is_nil (parked1 (slots st s))) eqn:Hn; [|discriminate]. apply is_nil_true in Hn. apply some_inj in Hl. subst st'.
      constructor; rst; try assumption.
      intros s' Hp. destruct (W1 s' Hp) as [X|[X|[X|X]]]; auto. inversion X; subst; congruence.
  - cbn [lstep] in Hl. destruct (wpc st); [|discriminate]. apply some_inj in Hl. subst st'. exact IW.
Qed.

End RingInv2.
