(** Proofs about Model/SlidingBloom.v (C37). *)
From Coq Require Import List NArith ZArith Bool Lia ZifyN ZifyNat ZifyBool.
Require Import RV.Model.Base RV.Model.Bloom RV.Model.SlidingBloom RV.Proofs.BloomProofs.
Import ListNotations.
Open Scope Z_scope.

Definition covers (b : bitmap) (l : list N) : Prop := forall i, In i l -> testbit b i = true.

Lemma covers_app_r : forall a b l, covers b l -> covers (a ++ b) l.
Proof. intros a b l H i Hi. rewrite testbit_app, (H i Hi). apply orb_true_r. Qed.

Lemma covers_rev_self : forall idxs b l, incl l idxs -> covers (rev idxs ++ b) l.
Proof.
  intros idxs b l Hincl i Hi. rewrite testbit_app.
  assert (testbit (rev idxs) i = true) as ->; [|reflexivity].
  apply testbit_In. apply in_rev. rewrite rev_involutive. apply Hincl. exact Hi.
Qed.

Lemma sadd_loop_bits : forall kk idxs i one cnt c n,
  fst (fst (sadd_loop kk i one cnt idxs c n)) = rev idxs ++ c /\
  snd (fst (sadd_loop kk i one cnt idxs c n)) = rev idxs ++ n.
Proof.
  intros kk idxs. induction idxs as [|x t IH]; intros i one cnt c n; cbn [sadd_loop rev app fst snd].
  - split; reflexivity.
  - destruct (boundary kk i); unfold setbit; rewrite <- !app_assoc; cbn [app]; apply IH.
Qed.

Lemma sadd_script_nonempty : forall wh now kk idxs s s0,
  idxs <> [] -> rotate wh now s = SOk s0 tt ->
  exists cc nc v, sadd_script wh now kk idxs s =
    SOk {| cur := Some (rev idxs ++ getb (cur s0)); nxt := Some (rev idxs ++ getb (nxt s0));
           ccnt := Some cc; ncnt := Some nc; lock := lock s0 |} v.
Proof.
  intros wh now kk idxs s s0 Hne Hr. unfold sadd_script. rewrite Hr.
  destruct idxs as [|i0 r0]; [contradiction|].
  pose proof (sadd_loop_bits kk (i0 :: r0) 1%N 0%N 0%N (getb (cur s0)) (getb (nxt s0))) as [Hb1 Hb2].
  destruct (sadd_loop kk 1%N 0%N 0%N (i0 :: r0) (getb (cur s0)) (getb (nxt s0))) as [[c n] cnt].
  cbn [fst snd] in Hb1, Hb2. subst c n. eexists _, _, _. reflexivity.
Qed.

Section Client.
  Variable K : Type.
  Variable hash : K -> N * N.
  Variable size k : N.
  Variable wh : Z.
  Hypothesis Hk : (1 <= k)%N.
  Hypothesis Hsize : (0 < size)%N.

  Notation idx := (indexes_of K hash size k).
  Notation sstep := (sstep K hash size k wh).
  Notation srun := (srun K hash size k wh).

  Lemma ssane_true : SlidingBloom.sane size k = true.
  Proof. unfold SlidingBloom.sane. apply andb_true_intro. split; apply negb_true_iff, N.eqb_neq; lia. Qed.

  Lemma idx_len : forall x, N.of_nat (length (idx x)) = k.
  Proof.
    intros x. unfold Bloom.indexes_of. destruct (hash x) as [h1 h2]. rewrite map_length, seq_length. lia.
  Qed.

  Lemma flat_nonempty : forall y ys, flat_map idx (y :: ys) <> [].
  Proof.
    intros y ys H. cbn [flat_map] in H. apply app_eq_nil in H. destruct H as [H _].
    pose proof (idx_len y) as Hl. rewrite H in Hl. cbn [length] in Hl. lia.
  Qed.

  (** the invariant that carries an item [x] added at time [t] through the half window *)
  Definition Inv (x : K) (t : Z) (s : sstate) : Prop :=
    exists c n cc nc,
      cur s = Some c /\ nxt s = Some n /\ ccnt s = Some cc /\ ncnt s = Some nc /\
      covers c (idx x) /\
      ((covers n (idx x) /\ exists p, lock s = Some p /\ t < p) \/ exists p, lock s = Some p /\ t + wh < p).

  Lemma rotate_lock : forall t s s0, rotate wh t s = SOk s0 tt -> 0 < wh /\ exists p, lock s0 = Some p /\ t < p.
  Proof.
    intros t s s0 H. unfold rotate in H. destruct (wh <=? 0) eqn:E; [discriminate|]. split; [lia|].
    destruct (lock_alive s t) eqn:Ha.
    - inversion H; subst s0. unfold lock_alive in Ha. destruct (lock s) as [p|]; [|discriminate]. exists p. split; [reflexivity|lia].
    - destruct (nxt s); [|discriminate]. destruct (ncnt s); [|discriminate]. inversion H; subst s0. cbn [lock].
      exists (t + wh). split; [reflexivity|lia].
  Qed.

  Lemma rotate_inv : forall x t s u, 0 < wh -> t <= u <= t + wh -> Inv x t s ->
    exists s1, rotate wh u s = SOk s1 tt /\ Inv x t s1.
  Proof.
    intros x t s u Hwh Hu [c [n [cc [nc [Hc [Hn [Hcc [Hnc [Hcov Hor]]]]]]]]].
    unfold rotate. assert (wh <=? 0 = false) as -> by lia.
    destruct (lock_alive s u) eqn:Ha.
    - exists s. split; [reflexivity|]. exists c, n, cc, nc. repeat split; assumption.
    - destruct Hor as [[Hn' [p [Hp Hlt]]]|[p [Hp Hle]]].
      + rewrite Hn, Hnc. eexists. split; [reflexivity|].
        exists n, [], nc, 0. cbn [cur nxt ccnt ncnt lock]. repeat split; try reflexivity; try assumption.
        right. exists (u + wh). split; [reflexivity|].
        unfold lock_alive in Ha. rewrite Hp in Ha. lia.
      + unfold lock_alive in Ha. rewrite Hp in Ha. lia.
  Qed.

  Lemma incl_idx_flat : forall x keys, In x keys -> incl (idx x) (flat_map idx keys).
  Proof. intros x keys Hin i Hi. apply in_flat_map. exists x. split; assumption. Qed.

  (** a successful Add establishes the invariant, from ANY state *)
  Lemma add_establishes : forall s t keys x s1,
    In x keys -> sstep s t (SAdd keys) = (s1, XDone) -> Inv x t s1.
  Proof.
    intros s t keys x s1 Hin H. destruct keys as [|y ys]; [contradiction|].
    cbn [SlidingBloom.sstep] in H. rewrite ssane_true in H.
    destruct (rotate wh t s) as [s0 []|s0] eqn:Hr.
    - destruct (sadd_script_nonempty wh t k (flat_map idx (y :: ys)) s s0 (flat_nonempty y ys) Hr) as [cc [nc [v Hs]]].
      rewrite Hs in H. inversion H; subst s1. clear H.
      destruct (rotate_lock t s s0 Hr) as [_ Hlock].
      eexists _, _, cc, nc. cbn [cur nxt ccnt ncnt lock]. repeat split; try reflexivity.
      + apply covers_rev_self. exact (incl_idx_flat x (y :: ys) Hin).
      + left. split; [|exact Hlock]. apply covers_rev_self. exact (incl_idx_flat x (y :: ys) Hin).
    - unfold sadd_script in H. rewrite Hr in H. inversion H.
  Qed.

  Lemma add_preserves : forall x t s u keys, 0 < wh -> t <= u <= t + wh -> Inv x t s ->
    snd (sstep s u (SAdd keys)) = XDone /\ Inv x t (fst (sstep s u (SAdd keys))).
  Proof.
    intros x t s u keys Hwh Hu HI. destruct keys as [|y ys]; [split; [reflexivity|exact HI]|].
    cbn [SlidingBloom.sstep]. rewrite ssane_true.
    destruct (rotate_inv x t s u Hwh Hu HI) as [s0 [Hr [c [n [cc [nc [Hc [Hn [Hcc [Hnc [Hcov Hor]]]]]]]]]]].
    destruct (sadd_script_nonempty wh u k (flat_map idx (y :: ys)) s s0 (flat_nonempty y ys) Hr) as [cc' [nc' [v Hs]]].
    rewrite Hs. cbn [fst snd]. split; [reflexivity|].
    eexists _, _, cc', nc'. cbn [cur nxt ccnt ncnt lock]. repeat split; try reflexivity.
    - rewrite Hc. cbn [getb]. apply covers_app_r. exact Hcov.
    - destruct Hor as [[Hn' Hl]|Hlock]; [left|right; exact Hlock].
      split; [|exact Hl]. rewrite Hn. cbn [getb]. apply covers_app_r. exact Hn'.
  Qed.

  (** Exists within the half window: per key in order, and true for the item *)
  Lemma exists_in_window : forall x t s u qs, 0 < wh -> t <= u <= t + wh -> Inv x t s ->
    Inv x t (fst (sstep s u (SExists qs))) /\
    exists bs, snd (sstep s u (SExists qs)) = XBools (Ok bs) /\ length bs = length qs /\
      forall i, nth_error qs i = Some x -> nth_error bs i = Some true.
  Proof.
    intros x t s u qs Hwh Hu HI. destruct qs as [|q qs'].
    - cbn [SlidingBloom.sstep fst snd]. split; [exact HI|]. exists []. split; [reflexivity|]. split; [reflexivity|].
      intros i Hi. destruct i; discriminate.
    - cbn [SlidingBloom.sstep]. rewrite ssane_true. unfold sexists_script.
      destruct (rotate_inv x t s u Hwh Hu HI) as [s0 [Hr HI0]]. rewrite Hr. cbn [fst snd].
      split; [exact HI0|].
      destruct HI0 as [c [n [cc [nc [Hc [Hn [Hcc [Hnc [Hcov Hor]]]]]]]]].
      rewrite Hc. cbn [getb].
      rewrite flat_map_concat_map.
      pose proof (exists_loop_chunks k c (map idx (q :: qs')) 0%N) as H.
      rewrite N.mul_0_l, N.add_0_l in H. rewrite H.
      + rewrite map_map.
        replace (length (q :: qs')) with (length (map (fun y => forallb (testbit c) (idx y)) (q :: qs'))) by (first [apply map_length | symmetry; apply map_length]).
        rewrite fill_results_exact by assumption.
        eexists. split; [reflexivity|]. split; [first [reflexivity | apply map_length | symmetry; apply map_length]|].
        intros i Hi. rewrite nth_error_map, Hi. cbn [option_map]. f_equal.
        apply forallb_forall. intros j Hj. apply Hcov. exact Hj.
      + lia.
      + apply Forall_forall. intros ch Hch. apply in_map_iff in Hch. destruct Hch as [y [<- _]]. apply idx_len.
  Qed.

  Lemma step_preserves : forall x t s u o, 0 < wh -> t <= u <= t + wh -> sdestructive K o = false ->
    Inv x t s -> Inv x t (fst (sstep s u o)).
  Proof.
    intros x t s u o Hwh Hu Hd HI. destruct o as [|keys|keys| | |]; try discriminate.
    - (* SInit: the keys exist, nothing happens *)
      cbn [SlidingBloom.sstep]. unfold sinit_script.
      destruct HI as [c [n [cc [nc [Hc [Hn [Hcc [Hnc [Hcov Hor]]]]]]]]] eqn:E.
      rewrite Hc. cbn [fst]. exists c, n, cc, nc. repeat split; assumption.
    - apply add_preserves; assumption.
    - apply exists_in_window; assumption.
    - exact HI.
  Qed.

  Lemma run_preserves : forall x t post s, 0 < wh ->
    Forall (fun p => t <= fst p <= t + wh /\ sdestructive K (snd p) = false) post ->
    Inv x t s -> Inv x t (srun s post).
  Proof.
    intros x t post. induction post as [|[u o] r IH]; intros s Hwh Hall HI; cbn [SlidingBloom.srun]; [exact HI|].
    pose proof (Forall_inv Hall) as [Hu Hd]. pose proof (Forall_inv_tail Hall) as Hr. cbn [fst snd] in Hu, Hd.
    apply IH; [exact Hwh|exact Hr|]. apply step_preserves; assumption.
  Qed.

  Theorem half_window : forall s t keys x s1,
    In x keys -> sstep s t (SAdd keys) = (s1, XDone) ->
    forall post, Forall (fun p => t <= fst p <= t + wh /\ sdestructive K (snd p) = false) post ->
    forall t' qs, t <= t' <= t + wh ->
    exists bs, snd (sstep (srun s1 post) t' (SExists qs)) = XBools (Ok bs) /\ length bs = length qs /\
      forall i, nth_error qs i = Some x -> nth_error bs i = Some true.
  Proof.
    intros s t keys x s1 Hin Hadd post Hpost t' qs Ht'.
    assert (Hwh : 0 < wh).
    { destruct keys as [|y ys]; [contradiction|]. cbn [SlidingBloom.sstep] in Hadd. rewrite ssane_true in Hadd.
      unfold sadd_script in Hadd. destruct (rotate wh t s) as [s0 []|s0] eqn:Hr; [|inversion Hadd].
      exact (proj1 (rotate_lock t s s0 Hr)). }
    pose proof (add_establishes s t keys x s1 Hin Hadd) as HI.
    pose proof (run_preserves x t post s1 Hwh Hpost HI) as HI2.
    destruct (exists_in_window x t (srun s1 post) t' qs Hwh Ht' HI2) as [_ H]. exact H.
  Qed.
End Client.
