(** Lemmas about [upd] and [nth_error]. *)
From Coq Require Import List Arith Lia.
Require Import RV.Model.ListUpd.
Import ListNotations.

(** ---- upd / nth_error ---- *)

Lemma length_upd {A} n (x : A) l : length (upd n x l) = length l.
Proof. revert n. induction l as [|y l IH]; intros [|n]; cbn [upd length]; auto. Qed.

Lemma nth_error_upd_same {A} n (x : A) l : n < length l -> nth_error (upd n x l) n = Some x.
Proof. revert n. induction l as [|y l IH]; intros [|n] H; cbn [upd length nth_error] in *; try lia; auto. apply IH. lia. Qed.

Lemma nth_error_upd_other {A} n m (x : A) l : n <> m -> nth_error (upd n x l) m = nth_error l m.
Proof. revert n m. induction l as [|y l IH]; intros [|n] [|m] H; cbn [upd nth_error]; auto; try congruence. Qed.

Lemma nth_error_upd {A} n m (x : A) l :
  nth_error (upd n x l) m = if Nat.eqb n m then (if Nat.ltb n (length l) then Some x else None) else nth_error l m.
Proof.
  destruct (Nat.eqb n m) eqn:E.
  - apply Nat.eqb_eq in E. subst m. destruct (Nat.ltb n (length l)) eqn:L.
    + apply Nat.ltb_lt in L. apply nth_error_upd_same, L.
    + apply Nat.ltb_ge in L. apply nth_error_None. rewrite length_upd. exact L.
  - apply Nat.eqb_neq in E. apply nth_error_upd_other, E.
Qed.

Lemma nth_error_lt {A} (l : list A) n x : nth_error l n = Some x -> n < length l.
Proof. intros H. apply nth_error_Some. congruence. Qed.

