(** Proofs about Model/Replica.v and the replica part of Model/ClusterTopo.v (C21). *)
From Coq Require Import List Arith NArith ZArith Bool Lia.
Require Import RV.Model.Base RV.Model.ClusterTopo RV.Model.Replica RV.Proofs.ClusterTopoProofs.
Import ListNotations.
Open Scope Z_scope.

(** standalone: a replica is chosen only when SendToReplicas is configured and said yes *)
Lemma standalone_route_replica has_str optin has_sel sel nnodes nrep rnd i :
  standalone_route has_str optin has_sel sel nnodes nrep rnd = Ok (DReplica i) -> has_str = true /\ optin = true.
Proof.
  unfold standalone_route. destruct (has_str && optin) eqn:E; [|discriminate]. intros _. now apply andb_true_iff in E.
Qed.

Lemma standalone_route_multi_replica has_str optins has_sel sel nnodes nrep rnd i :
  standalone_route_multi has_str optins has_sel sel nnodes nrep rnd = Ok (DReplica i) ->
  has_str = true /\ forall b, In b optins -> b = true.
Proof.
  unfold standalone_route_multi. destruct (has_str && forallb (fun b => b) optins && _) eqn:E; [|discriminate]. intros _.
  apply andb_true_iff in E. destruct E as [E _]. apply andb_true_iff in E. destruct E as [E1 E2].
  split; [exact E1|]. intros b Hb. rewrite forallb_forall in E2. now apply E2.
Qed.

(** a selector result outside the candidate list means the primary *)
Lemma standalone_pick_out_of_range sel nnodes nrep rnd :
  sel < 0 \/ Z.of_nat nnodes <= sel -> standalone_pick true sel nnodes nrep rnd = Ok DPrimary.
Proof.
  intro H. unfold standalone_pick.
  assert ((sel <? 0) || (Z.of_nat nnodes <=? sel) = true) as ->.
  { apply orb_true_iff. destruct H; [left; now apply Z.ltb_lt|right; now apply Z.leb_le]. }
  reflexivity.
Qed.

(** the index a selector returns inside the list is honoured *)
Lemma standalone_pick_in_range sel nnodes nrep rnd :
  0 < sel < Z.of_nat nnodes -> (nnodes = S nrep) ->
  standalone_pick true sel nnodes nrep rnd = Ok (DReplica (Z.to_nat sel - 1)).
Proof.
  intros H Hn. unfold standalone_pick.
  destruct (Z.ltb_spec sel 0); [lia|]. destruct (Z.leb_spec (Z.of_nat nnodes) sel); [lia|]. cbn [orb].
  destruct (Z.eqb_spec sel 0); [lia|]. destruct (Nat.ltb_spec (Z.to_nat sel - 1) nrep); [reflexivity|lia].
Qed.

(** sentinel *)
Lemma sentinel_pick_replica replica_only has_str optin :
  sentinel_pick replica_only has_str optin = SReplica -> replica_only = true \/ (has_str = true /\ optin = true).
Proof. unfold sentinel_pick. destruct replica_only; [now left|]. destruct has_str, optin; try discriminate. now right. Qed.

Lemma sentinel_pick_multi_replica replica_only has_str optins :
  sentinel_pick_multi replica_only has_str optins = SReplica ->
  replica_only = true \/ (has_str = true /\ forall b, In b optins -> b = true).
Proof.
  unfold sentinel_pick_multi. destruct replica_only; [now left|]. destruct has_str; [|discriminate].
  destruct (forallb (fun b => b) optins) eqn:E; [|discriminate]. intros _. right. split; [reflexivity|].
  intros b Hb. rewrite forallb_forall in E. now apply E.
Qed.

(** cluster: without opt-in (and not ReplicaOnly) the command goes to the write table, which holds
    the primary of the shard that lists the slot *)
Lemma cluster_no_optin_primary c gs t s nsel :
  rebuild c gs = Ok t -> t_kind c <> CfgReplicaOnly ->
  pick_slot t s false nsel = match last_owner gs s with Some g => primary g | None => None end.
Proof.
  intros R Hk. unfold rebuild in R. destruct (groups_ok gs); [|discriminate]. inversion R; subst. unfold pick_slot. cbn [andb tb_w].
  unfold wslot, primary. destruct (last_owner gs s) as [g|]; [|reflexivity].
  destruct (g_nodes g) as [|p reps]; [reflexivity|]. destruct (t_kind c); try reflexivity. congruence.
Qed.

(** ReplicaOnly: the table holds a replica when the shard has one, else its primary *)
Lemma cluster_replicaonly c gs t s nsel to_replica a g :
  rebuild c gs = Ok t -> t_kind c = CfgReplicaOnly -> last_owner gs s = Some g ->
  pick_slot t s to_replica nsel = Some a ->
  match g_nodes g with
  | _ :: ((_ :: _) as reps) => In a reps
  | [p] => a = p
  | [] => False
  end.
Proof.
  intros R Hk Ho. unfold rebuild in R. destruct (groups_ok gs); [|discriminate]. inversion R; subst. unfold pick_slot. cbn [tb_rinit].
  unfold rslots_init. rewrite Hk. rewrite andb_false_r. cbn [tb_w]. unfold wslot. rewrite Ho, Hk.
  destruct (g_nodes g) as [|p [|x reps]]; [discriminate|intro H; now inversion H|].
  intro H. eapply nth_error_In; eauto.
Qed.

(** ReplicaSelector: the read table of a slot holds one node; an index outside the replicas means the primary *)
Lemma rslot_selector_fallback c gs s g p reps :
  t_kind c = CfgReplicaSelector -> last_owner gs s = Some g -> g_nodes g = p :: reps ->
  (t_rsel c s reps < 0 \/ Z.of_nat (length reps) <= t_rsel c s reps) -> rslot c gs s = [p].
Proof.
  intros Hk Ho Hn Hr. unfold rslot. rewrite Hk, Ho, Hn. destruct reps as [|x r]; [reflexivity|].
  assert ((0 <=? t_rsel c s (x :: r)) && (t_rsel c s (x :: r) <? Z.of_nat (length (x :: r))) = false) as ->; [|reflexivity].
  apply andb_false_iff. destruct Hr; [left; now apply Z.leb_gt|right; now apply Z.ltb_ge].
Qed.

Lemma rslot_selector_in_range c gs s g p reps a :
  t_kind c = CfgReplicaSelector -> last_owner gs s = Some g -> g_nodes g = p :: reps -> reps <> [] ->
  0 <= t_rsel c s reps < Z.of_nat (length reps) -> nth_error reps (Z.to_nat (t_rsel c s reps)) = Some a ->
  rslot c gs s = [a].
Proof.
  intros Hk Ho Hn Hne Hr Ha. unfold rslot. rewrite Hk, Ho, Hn. destruct reps as [|x r]; [congruence|].
  destruct (Z.leb_spec 0 (t_rsel c s (x :: r))); [|lia]. destruct (Z.ltb_spec (t_rsel c s (x :: r)) (Z.of_nat (length (x :: r)))); [|lia].
  cbn [andb]. now rewrite Ha.
Qed.

(** ReadNodeSelector: the candidates are the whole shard, primary first; an index outside means the primary *)
Lemma pick_readsel_fallback c gs t s nsel g p reps :
  rebuild c gs = Ok t -> t_kind c = CfgReadNodeSelector -> last_owner gs s = Some g -> g_nodes g = p :: reps ->
  (nsel < 0 \/ Z.of_nat (length (p :: reps)) <= nsel) -> pick_slot t s true nsel = Some p.
Proof.
  intros R Hk Ho Hn Hr. unfold rebuild in R. destruct (groups_ok gs) eqn:G; [|discriminate]. inversion R; subst. unfold pick_slot.
  cbn [tb_rinit tb_r tb_readsel]. unfold rslots_init, rslot. rewrite Hk, Ho, Hn.
  assert (gs <> []) by (intro E; subst; discriminate). destruct gs; [congruence|]. cbn [negb andb].
  assert ((nsel <? 0) || (Z.of_nat (length (p :: reps)) <=? nsel) = true) as ->.
  { apply orb_true_iff. destruct Hr; [left; now apply Z.ltb_lt|right; now apply Z.leb_le]. }
  reflexivity.
Qed.

(** with opt-in the destination is always a node of the shard that lists the slot *)
Lemma pick_optin_in_shard c gs t s nsel a g :
  rebuild c gs = Ok t -> last_owner gs s = Some g -> pick_slot t s true nsel = Some a -> In a (g_nodes g).
Proof.
  intros R Ho. unfold rebuild in R. destruct (groups_ok gs) eqn:G; [|discriminate]. inversion R; subst. unfold pick_slot.
  cbn [tb_rinit tb_r tb_readsel tb_w]. unfold rslots_init.
  destruct (t_kind c) eqn:Hk; cbn [andb].
  - unfold wslot. rewrite Ho. destruct (g_nodes g) as [|p reps]; [discriminate|]. rewrite Hk. intro H; inversion H; now left.
  - unfold wslot. rewrite Ho. destruct (g_nodes g) as [|p reps]; [discriminate|]. rewrite Hk.
    destruct reps as [|x r]; [intro H; inversion H; now left|]. intro H. apply in_cons. exact (nth_error_In _ _ H).
  - destruct gs as [|g0 gs']; [discriminate|]. cbn [negb]. unfold rslot. rewrite Hk, Ho.
    destruct (g_nodes g) as [|p [|x r]]; [discriminate|cbn; intro H; inversion H; now left|].
    destruct ((0 <=? t_rsel c s (x :: r)) && (t_rsel c s (x :: r) <? Z.of_nat (length (x :: r)))).
    + destruct (nth_error (x :: r) (Z.to_nat (t_rsel c s (x :: r)))) eqn:E; cbn; intro H; inversion H; subst.
      * right. change (In a (x :: r)). exact (nth_error_In _ _ E).
      * now left.
    + cbn. intro H; inversion H; now left.
  - destruct gs as [|g0 gs']; [discriminate|]. cbn [negb]. unfold rslot. rewrite Hk, Ho.
    destruct (g_nodes g) as [|p reps]; [discriminate|]. intro H. eapply nth_error_In; eauto.
Qed.

(** ---- every entry point ---- *)
Lemma standalone_entry_replica e has_str optins has_sel sel nnodes nrep rnd i :
  standalone_entry e has_str optins has_sel sel nnodes nrep rnd = Ok (DReplica i) ->
  has_str = true /\
  match e with
  | EDo | EDoStream | EReceive => hd false optins = true
  | EDoMulti | EDoMultiStream => forall b, In b optins -> b = true
  | _ => False
  end.
Proof.
  destruct e; cbn [standalone_entry]; intro H; try discriminate;
    try (apply standalone_route_replica in H; exact H); apply standalone_route_multi_replica in H; exact H.
Qed.

Lemma sentinel_entry_replica e replica_only has_str optins :
  sentinel_entry e replica_only has_str optins = SReplica ->
  replica_only = true \/
  (has_str = true /\
   match e with
   | EDo | EDoCache | EDoStream | EReceive => hd false optins = true
   | EDoMulti | EDoMultiCache | EDoMultiStream => forall b, In b optins -> b = true
   | EDedicated => False
   end).
Proof.
  destruct e; cbn [sentinel_entry]; intro H;
    try (apply sentinel_pick_replica in H; exact H); try (apply sentinel_pick_multi_replica in H; exact H).
  destruct replica_only; [now left|discriminate].
Qed.

(** cluster DoMultiStream: one command of the batch that did not opt in — with or without a key
    slot, wherever it sits — keeps the whole batch on the write table *)
Lemma cluster_multistream_no_optin t has_str cs nsel d :
  (has_str = false \/ exists c, In c cs /\ b_replica c = false) ->
  cluster_multistream t has_str cs nsel = Ok d ->
  exists slot, d = cluster_pick t slot false nsel /\
               match slot with Some s => d = CNode (tb_w t s) | None => d = CAny end.
Proof.
  intros Hn. unfold cluster_multistream. destruct cs as [|c0 r]; [discriminate|].
  assert (E : has_str && forallb b_replica (c0 :: r) = false).
  { destruct Hn as [->|[c [Hin Hc]]]; [reflexivity|]. apply andb_false_iff. right.
    destruct (forallb b_replica (c0 :: r)) eqn:F; [|reflexivity]. rewrite forallb_forall in F. rewrite (F c Hin) in Hc. discriminate. }
  rewrite E.
  destruct (stream_slot r (b_slot c0)) as [slot| |]; try discriminate. intro H; injection H as <-.
  exists slot. split; [reflexivity|]. destruct slot; reflexivity.
Qed.

Lemma cluster_entry_single_no_optin e t has_str c nsel :
  (e = EDedicated \/ has_str = false \/ b_replica c = false) ->
  cluster_entry_single e t has_str c nsel = match b_slot c with Some s => CNode (tb_w t s) | None => CAny end.
Proof.
  intro H. unfold cluster_entry_single, cluster_pick.
  assert (E : (match e with EDedicated => false | _ => has_str && b_replica c end) = false).
  { destruct H as [->|[->|Hc]]; [reflexivity|destruct e; reflexivity|rewrite Hc, andb_false_r; destruct e; reflexivity]. }
  destruct (b_slot c) as [s|]; [|destruct e; reflexivity].
  destruct e; cbn in E |- *; try rewrite E; reflexivity.
Qed.
