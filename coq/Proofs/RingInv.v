(** Ring LTS: the counting invariant, the order of the writer and reader, the slot-owner invariant. *)
From Coq Require Import List NArith ZArith Bool Arith Lia.
Require Import RV.Model.Base RV.Model.Ring RV.Proofs.RingBase.
Import ListNotations.
Local Open Scope nat_scope.

Ltac rst := cbn [write read1 read2 slots wpc rpc nw n1 n2 wseq rseq recv
                 set_slots set_slot set_counts set_wpc set_rpc add_recv
                 mark payload pm c_one c_multi c_resps slept rlock tk parked1 woken1 bc wt wparked wwoken fillseq
                 sl_lists sl_fill sl_mark sl_clear sl_writer sl_rlock] in *.

Section RingInv.
Variable k : nat.
Variable start : N.
Notation sof := (sof k start).
Notation cntpos := (cntpos k start).

Definition item_at (st : state) (j : nat) : nat :=
  nth (cntpos (j - 1) (sof j)) (fillseq (slots st (sof j))) 0.

Definition last_is (l : list nat) (o : option nat) : Prop := exists pre i, l = pre ++ [i] /\ o = Some i.

Definition CI (st : state) (s : nat) : Prop :=
  let x := slots st s in
  (mark x = 0 /\ payload x = None /\ length (fillseq x) = cntpos (n1 st) s /\ cntpos (n1 st) s = cntpos (n2 st) s) \/
  (mark x = 1 /\ last_is (fillseq x) (payload x) /\ length (fillseq x) = S (cntpos (n1 st) s) /\ cntpos (n1 st) s = cntpos (n2 st) s) \/
  (mark x = 2 /\ last_is (fillseq x) (payload x) /\ length (fillseq x) = cntpos (n1 st) s /\ cntpos (n1 st) s = S (cntpos (n2 st) s)).

(** the item that occupies slot [s] and whose result has not been delivered yet *)
Definition und (st : state) (s : nat) : option nat :=
  if Nat.eqb (mark (slots st s)) 0 then
    match rpc st with RHold s' (Some i) => if Nat.eqb s' s then Some i else None | _ => None end
  else payload (slots st s).

Definition wpos (st : state) : nat := match wpc st with WWait _ => 1 | WIdle => 0 end.

Record InvA (st : state) : Prop := {
  a_write : write st = u32 (start + N.of_nat (nw st));
  a_read1 : read1 st = u32 (start + N.of_nat (n1 st + wpos st));
  a_read2 : read2 st = u32 (start + N.of_nat (n2 st));
  a_wwait : forall s, wpc st = WWait s -> s = sof (S (n1 st));
  a_le : n2 st <= n1 st;
  a_ci : forall s, CI st s;
  a_ws : wseq st = map (item_at st) (seq 1 (n1 st));
  a_rs : rseq st = map (item_at st) (seq 1 (n2 st));
  a_lock : forall s, rlock (slots st s) = true <-> (exists it, rpc st = RHold s it);
  a_hold : forall s i, rpc st = RHold s (Some i) -> mark (slots st s) = 0;
  a_so : forall s, bc (slots st s) ++ wt (slots st s) = opt_list (und st s);
  a_recv : own_results (recv st) = true
}.

Lemma inva_init : InvA (init start).
Proof.
  constructor; cbn [init write read1 read2 slots wpc rpc nw n1 n2 wseq rseq recv]; unfold wpos; cbn.
  - rewrite N.add_0_r. reflexivity.
  - rewrite N.add_0_r. reflexivity.
  - rewrite N.add_0_r. reflexivity.
  - discriminate.
  - lia.
  - intro s. left. cbn. auto.
  - reflexivity.
  - reflexivity.
  - intro s. cbn. split; [discriminate|intros [it H]; discriminate].
  - discriminate.
  - intro s. reflexivity.
  - reflexivity.
Qed.

(** frame lemmas *)
Lemma CI_frame : forall st st' s,
  n1 st' = n1 st -> n2 st' = n2 st ->
  mark (slots st' s) = mark (slots st s) -> payload (slots st' s) = payload (slots st s) ->
  fillseq (slots st' s) = fillseq (slots st s) -> CI st s -> CI st' s.
Proof.
  intros st st' s H1 H2 H3 H4 H5 H. unfold CI in *. cbv zeta in *. rewrite H1, H2, H3, H4, H5. exact H.
Qed.

Lemma item_at_frame : forall st st' j, fillseq (slots st' (sof j)) = fillseq (slots st (sof j)) -> item_at st' j = item_at st j.
Proof. intros st st' j H. unfold item_at. rewrite H. reflexivity. Qed.

Lemma map_item_at_frame : forall st st' a n,
  (forall s, fillseq (slots st' s) = fillseq (slots st s)) -> map (item_at st') (seq a n) = map (item_at st) (seq a n).
Proof. intros st st' a n H. apply map_ext. intro j. apply item_at_frame. apply H. Qed.

(** appending to a fill sequence does not change the items of positions that were already dequeued *)
Lemma map_item_at_fill : forall st st' s p n,
  (forall s', s' <> s -> fillseq (slots st' s') = fillseq (slots st s')) ->
  fillseq (slots st' s) = fillseq (slots st s) ++ [p] ->
  cntpos n s <= length (fillseq (slots st s)) ->
  map (item_at st') (seq 1 n) = map (item_at st) (seq 1 n).
Proof.
  intros st st' s p n Ho Hs Hl. apply map_ext_in. intros j Hj. apply in_seq in Hj.
  unfold item_at. destruct (Nat.eq_dec (sof j) s) as [E|E].
  - rewrite E, Hs. apply app_nth1.
    assert (H : cntpos (j - 1) (sof j) < cntpos n (sof j)) by (apply cntpos_lt_at; lia).
    rewrite E in H. lia.
  - rewrite (Ho _ E). reflexivity.
Qed.

Lemma und_frame : forall st st' s,
  rpc st' = rpc st -> mark (slots st' s) = mark (slots st s) -> payload (slots st' s) = payload (slots st s) ->
  und st' s = und st s.
Proof. intros st st' s H1 H2 H3. unfold und. rewrite H1, H2, H3. reflexivity. Qed.

Lemma slots_set_slot_same : forall st s v, slots (set_slot st s v) s = v.
Proof. intros. cbn [set_slot set_slots slots]. apply upd_same. Qed.

Lemma slots_set_slot_other : forall st s v s', s' <> s -> slots (set_slot st s v) s' = slots st s'.
Proof. intros. cbn [set_slot set_slots slots]. apply upd_other. assumption. Qed.

(** the slot fields the counting invariant looks at *)
Definition same_core_f (f f' : nat -> slot) : Prop :=
  forall s, mark (f' s) = mark (f s) /\ payload (f' s) = payload (f s) /\
            fillseq (f' s) = fillseq (f s) /\ rlock (f' s) = rlock (f s).
Definition same_bw_f (f f' : nat -> slot) : Prop :=
  forall s, bc (f' s) = bc (f s) /\ wt (f' s) = wt (f s).
Definition same_core (st st' : state) : Prop := same_core_f (slots st) (slots st').
Definition same_bw (st st' : state) : Prop := same_bw_f (slots st) (slots st').

Lemma same_core_upd : forall f s v,
  mark v = mark (f s) -> payload v = payload (f s) -> fillseq v = fillseq (f s) -> rlock v = rlock (f s) ->
  same_core_f f (upd f s v).
Proof.
  intros f s v H1 H2 H3 H4 s'. destruct (Nat.eq_dec s' s) as [E|E].
  - subst s'. rewrite upd_same. auto.
  - rewrite upd_other by exact E. auto.
Qed.

Lemma same_bw_upd : forall f s v, bc v = bc (f s) -> wt v = wt (f s) -> same_bw_f f (upd f s v).
Proof.
  intros f s v H1 H2 s'. destruct (Nat.eq_dec s' s) as [E|E].
  - subst s'. rewrite upd_same. auto.
  - rewrite upd_other by exact E. auto.
Qed.

Lemma inva_frame : forall st st',
  InvA st -> same_core st st' -> same_bw st st' ->
  write st' = u32 (start + N.of_nat (nw st')) ->
  read1 st' = read1 st -> read2 st' = read2 st -> n1 st' = n1 st -> n2 st' = n2 st ->
  wseq st' = wseq st -> rseq st' = rseq st -> wpc st' = wpc st -> rpc st' = rpc st -> recv st' = recv st ->
  InvA st'.
Proof.
  intros st st' I Hc Hb Hw H1 H2 H3 H4 H5 H6 H7 H8 H9. destruct I as [Iw Ir1 Ir2 Iww Ile Ici Iws Irs Ilock Ihold Iso Irecv].
  constructor.
  - exact Hw.
  - unfold wpos. rewrite H1, H3, H7. exact Ir1.
  - rewrite H2, H4. exact Ir2.
  - rewrite H7, H3. exact Iww.
  - lia.
  - intro s. destruct (Hc s) as (C1 & C2 & C3 & C4). eapply CI_frame; eauto.
  - rewrite H5, H3, Iws. symmetry. apply map_item_at_frame. intro s. apply (Hc s).
  - rewrite H6, H4, Irs. symmetry. apply map_item_at_frame. intro s. apply (Hc s).
  - intro s. destruct (Hc s) as (C1 & C2 & C3 & C4). rewrite C4, H8. apply Ilock.
  - intros s i. rewrite H8. destruct (Hc s) as (C1 & _). rewrite C1. apply Ihold.
  - intro s. destruct (Hb s) as [B1 B2]. destruct (Hc s) as (C1 & C2 & _). rewrite B1, B2.
    rewrite (und_frame st st' s H8 C1 C2). apply Iso.
  - rewrite H9. exact Irecv.
Qed.

Lemma inva_PutTicket : forall st st', InvA st -> lstep k st PutTicket = Some st' -> InvA st'.
Proof.
  intros st st' I Hl. cbn [lstep] in Hl. inversion Hl; subst st'. clear Hl.
  eapply inva_frame; try exact I; unfold same_core, same_bw; rst; try reflexivity.
  - apply same_core_upd; reflexivity.
  - apply same_bw_upd; reflexivity.
  - rewrite (a_write st I). apply u32_succ.
Qed.

Lemma und_mark0_free : forall st s, InvA st -> mark (slots st s) = 0 -> rlock (slots st s) = false -> und st s = None.
Proof.
  intros st s I Hm Hr. unfold und. rewrite Hm. cbn [Nat.eqb].
  destruct (rpc st) as [|s' [i|]|s'] eqn:E; try reflexivity.
  destruct (Nat.eqb s' s) eqn:E2; [|reflexivity]. apply Nat.eqb_eq in E2. subst s'.
  assert (H : rlock (slots st s) = true) by (apply (a_lock st I); eexists; exact E). congruence.
Qed.

Lemma inva_PutLock : forall st st' p s m, InvA st -> lstep k st (PutLock p s m) = Some st' -> InvA st'.
Proof.
  intros st st' p s m I Hl. cbn [lstep] in Hl.
  destruct (negb (rlock (slots st s)) && (memb p (tk (slots st s)) || memb p (woken1 (slots st s)))) eqn:G; [|discriminate].
  apply andb_true_iff in G. destruct G as [G1 G2]. apply negb_true_iff in G1.
  set (x := slots st s) in *.
  set (x1 := if memb p (tk x) then sl_lists x (remove1 p (tk x)) (parked1 x) (woken1 x) (bc x) (wt x)
             else sl_lists x (tk x) (parked1 x) (remove1 p (woken1 x)) (bc x) (wt x)) in *.
  assert (X1 : mark x1 = mark x /\ payload x1 = payload x /\ fillseq x1 = fillseq x /\ rlock x1 = rlock x /\
               bc x1 = bc x /\ wt x1 = wt x /\ slept x1 = slept x).
  { subst x1. destruct (memb p (tk x)); rst; repeat split; reflexivity. }
  destruct X1 as (M1 & M2 & M3 & M4 & M5 & M6 & M7).
  destruct (Nat.eqb (mark x1) 0) eqn:Hm.
  - (* fill *)
    apply Nat.eqb_eq in Hm. rewrite M1 in Hm.
    pose proof (und_mark0_free st s I Hm G1) as Hu.
    pose proof (a_so st I s) as Hso. fold x in Hso. rewrite Hu in Hso. cbn [opt_list] in Hso.
    apply app_eq_nil in Hso. destruct Hso as [Hbc Hwt].
    pose proof (a_ci st I s) as Hci. unfold CI in Hci. cbv zeta in Hci. fold x in Hci.
    destruct Hci as [(C1 & C2 & C3 & C4)|[(C1 & _)|(C1 & _)]]; try congruence.
    match type of Hl with Some (set_slot _ _ ?vv) = _ => remember vv as v eqn:Ev end.
    assert (V : mark v = 1 /\ payload v = Some p /\ fillseq v = fillseq x ++ [p] /\ rlock v = false /\ bc v ++ wt v = [p]).
    { subst v. destruct (slept (sl_fill x1 p m)); rst; rewrite ?M3, ?M4, ?M5, ?M6, ?Hbc, ?Hwt, ?G1; repeat split; reflexivity. }
    inversion Hl; subst st'. clear Hl.
    clear Ev.
    destruct V as (V1 & V2 & V3 & V4 & V5).
    destruct I as [Iw Ir1 Ir2 Iww Ile Ici Iws Irs Ilock Ihold Iso Irecv]. constructor; rst.
    + exact Iw.
    + exact Ir1.
    + exact Ir2.
    + exact Iww.
    + exact Ile.
    + intro s'. destruct (Nat.eq_dec s' s) as [E|E].
      * subst s'. unfold CI. cbv zeta. rst. rewrite upd_same. right. left. rewrite V1, V2, V3.
        split; [reflexivity|]. split; [exists (fillseq x), p; split; reflexivity|]. rewrite app_length. cbn [length]. split; lia.
      * eapply CI_frame; try apply Ici; rst; try reflexivity; rewrite upd_other by exact E; reflexivity.
    + rewrite Iws. symmetry. apply (map_item_at_fill _ _ s p).
      * intros s' E. rst. rewrite upd_other by exact E. reflexivity.
      * rst. rewrite upd_same. exact V3.
      * fold x. lia.
    + rewrite Irs. symmetry. apply (map_item_at_fill _ _ s p).
      * intros s' E. rst. rewrite upd_other by exact E. reflexivity.
      * rst. rewrite upd_same. exact V3.
      * fold x. pose proof (cntpos_mono k start _ _ s Ile). lia.
    + intro s'. destruct (Nat.eq_dec s' s) as [E|E].
      * subst s'. rewrite upd_same. rewrite V4. rewrite <- G1. apply Ilock.
      * rewrite upd_other by exact E. apply Ilock.
    + intros s' i Hr. destruct (Nat.eq_dec s' s) as [E|E].
      * subst s'. exfalso. assert (rlock (slots st s) = true) by (apply Ilock; eexists; exact Hr). fold x in H. congruence.
      * rewrite upd_other by exact E. eapply Ihold. exact Hr.
    + intro s'. destruct (Nat.eq_dec s' s) as [E|E].
      * subst s'. unfold und. rst. rewrite upd_same. rewrite V5, V1, V2. reflexivity.
      * unfold und. rst. rewrite upd_other by exact E. apply Iso.
    + exact Irecv.
  - (* park *)
    inversion Hl; subst st'. clear Hl.
    eapply inva_frame; try exact I; unfold same_core, same_bw; rst; try reflexivity.
    + apply same_core_upd; rst; fold x; congruence.
    + apply same_bw_upd; rst; fold x; congruence.
    + apply (a_write st I).
Qed.

(** steps that leave the counters and mark / payload / fillseq of every slot alone *)
Lemma inva_frame2 : forall st st',
  InvA st ->
  (forall s, mark (slots st' s) = mark (slots st s) /\ payload (slots st' s) = payload (slots st s) /\
             fillseq (slots st' s) = fillseq (slots st s)) ->
  write st' = write st -> nw st' = nw st ->
  read1 st' = u32 (start + N.of_nat (n1 st' + wpos st')) -> read2 st' = read2 st -> n1 st' = n1 st -> n2 st' = n2 st ->
  wseq st' = wseq st -> rseq st' = rseq st -> (forall s, wpc st' = WWait s -> s = sof (S (n1 st'))) ->
  (forall s, rlock (slots st' s) = true <-> (exists it, rpc st' = RHold s it)) ->
  (forall s i, rpc st' = RHold s (Some i) -> mark (slots st' s) = 0) ->
  (forall s, bc (slots st' s) ++ wt (slots st' s) = opt_list (und st' s)) ->
  own_results (recv st') = true ->
  InvA st'.
Proof.
  intros st st' I Hc Hw Hnw H1 H2 H3 H4 H5 H6 H7 HL HH HS HR.
  destruct I as [Iw Ir1 Ir2 Iww Ile Ici Iws Irs Ilock Ihold Iso Irecv].
  constructor; try assumption.
  - rewrite Hw, Hnw. exact Iw.
  - rewrite H2, H4. exact Ir2.
  - lia.
  - intro s. destruct (Hc s) as (C1 & C2 & C3). eapply CI_frame; eauto.
  - rewrite H5, H3, Iws. symmetry. apply map_item_at_frame. intro s. apply (Hc s).
  - rewrite H6, H4, Irs. symmetry. apply map_item_at_frame. intro s. apply (Hc s).
Qed.

Lemma so_single : forall st s i, InvA st -> und st s = Some i ->
  (bc (slots st s) = [i] /\ wt (slots st s) = []) \/ (bc (slots st s) = [] /\ wt (slots st s) = [i]).
Proof.
  intros st s i I Hu. pose proof (a_so st I s) as H. rewrite Hu in H. cbn [opt_list] in H. apply app_single_inv. exact H.
Qed.

Lemma so_none : forall st s, InvA st -> und st s = None -> bc (slots st s) = [] /\ wt (slots st s) = [].
Proof.
  intros st s I Hu. pose proof (a_so st I s) as H. rewrite Hu in H. cbn [opt_list] in H. apply app_eq_nil. exact H.
Qed.

Lemma memb_single : forall p i, memb p [i] = true -> p = i.
Proof. intros p i H. cbn [memb] in H. rewrite orb_false_r in H. apply Nat.eqb_eq. exact H. Qed.

Lemma remove1_single : forall p, remove1 p [p] = [].
Proof. intro p. cbn [remove1]. rewrite Nat.eqb_refl. reflexivity. Qed.

Lemma inva_PutBcast : forall st st' p s, InvA st -> lstep k st (PutBcast p s) = Some st' -> InvA st'.
Proof.
  intros st st' p s I Hl. cbn [lstep] in Hl. set (x := slots st s) in *.
  destruct (memb p (bc x)) eqn:G; [|discriminate].
  assert (Hbw : bc x = [p] /\ wt x = []).
  { destruct (und st s) as [i|] eqn:Hu.
    - destruct (so_single st s i I Hu) as [[B W]|[B W]]; fold x in B, W.
      + rewrite B in G. apply memb_single in G. subst i. auto.
      + rewrite B in G. discriminate.
    - destruct (so_none st s I Hu) as [B W]. fold x in B. rewrite B in G. discriminate. }
  destruct Hbw as [B W].
  match type of Hl with Some (set_slot _ _ ?vv) = _ => remember vv as v eqn:Ev end.
  assert (V : mark v = mark x /\ payload v = payload x /\ fillseq v = fillseq x /\ rlock v = rlock x /\ bc v = [] /\ wt v = [p]).
  { subst v. rst. destruct (wparked x); rst; rewrite B, W, remove1_single; repeat split; reflexivity. }
  destruct V as (V1 & V2 & V3 & V4 & V5 & V6). clear Ev.
  inversion Hl; subst st'. clear Hl.
  eapply inva_frame2; try exact I; rst; try reflexivity.
  - intro s'. destruct (Nat.eq_dec s' s) as [E|E]; [subst s'; rewrite upd_same; fold x; auto|rewrite upd_other by exact E; auto].
  - apply (a_read1 st I).
  - apply (a_wwait st I).
  - intro s'. destruct (Nat.eq_dec s' s) as [E|E].
    + subst s'. rewrite upd_same. rewrite V4. apply (a_lock st I).
    + rewrite upd_other by exact E. apply (a_lock st I).
  - intros s' i Hr. destruct (Nat.eq_dec s' s) as [E|E].
    + subst s'. rewrite upd_same. rewrite V1. eapply (a_hold st I). exact Hr.
    + rewrite upd_other by exact E. eapply (a_hold st I). exact Hr.
  - intro s'. destruct (Nat.eq_dec s' s) as [E|E].
    + subst s'. unfold und. rst. rewrite upd_same. rewrite V5, V6, V1, V2. cbn [app].
      pose proof (a_so st I s) as Hso. fold x in Hso. rewrite B, W in Hso. cbn [app] in Hso. unfold und in Hso. fold x in Hso. exact Hso.
    + unfold und. rst. rewrite upd_other by exact E. apply (a_so st I).
  - apply (a_recv st I).
Qed.

(** the writer takes the command at position n1+1 *)
Lemma inva_take : forall st st' s,
  InvA st -> s = sof (S (n1 st)) -> mark (slots st s) = 1 -> rlock (slots st s) = false ->
  write st' = write st -> nw st' = nw st -> read1 st' = u32 (start + N.of_nat (S (n1 st))) -> read2 st' = read2 st ->
  n1 st' = S (n1 st) -> n2 st' = n2 st -> wseq st' = wseq st ++ opt_list (payload (slots st s)) -> rseq st' = rseq st ->
  wpc st' = WIdle -> rpc st' = rpc st -> recv st' = recv st ->
  (forall s', s' <> s -> mark (slots st' s') = mark (slots st s') /\ payload (slots st' s') = payload (slots st s') /\
                         fillseq (slots st' s') = fillseq (slots st s') /\ rlock (slots st' s') = rlock (slots st s') /\
                         bc (slots st' s') = bc (slots st s') /\ wt (slots st' s') = wt (slots st s')) ->
  (mark (slots st' s) = 2 /\ payload (slots st' s) = payload (slots st s) /\ fillseq (slots st' s) = fillseq (slots st s) /\
   rlock (slots st' s) = rlock (slots st s) /\ bc (slots st' s) = bc (slots st s) /\ wt (slots st' s) = wt (slots st s)) ->
  InvA st'.
Proof.
  intros st st' s I Hs Hm Hr Hw Hnw H1 H2 Hn1 Hn2 Hws Hrs Hwp Hrp Hrc Ho (S1 & S2 & S3 & S4 & S5 & S6).
  destruct I as [Iw Ir1 Ir2 Iww Ile Ici Iws Irs Ilock Ihold Iso Irecv].
  assert (Hfs : forall s', fillseq (slots st' s') = fillseq (slots st s')).
  { intro s'. destruct (Nat.eq_dec s' s) as [E|E]; [subst s'; exact S3|apply (Ho s' E)]. }
  pose proof (Ici s) as Hci. unfold CI in Hci. cbv zeta in Hci.
  destruct Hci as [(C1 & _)|[(C1 & C2 & C3 & C4)|(C1 & _)]]; try congruence.
  destruct C2 as (pre & i & Cf & Cp).
  assert (Hsucc : cntpos (S (n1 st)) s = S (cntpos (n1 st) s)) by (rewrite Hs; apply cntpos_succ_same).
  constructor.
  - rewrite Hw, Hnw. exact Iw.
  - unfold wpos. rewrite H1, Hn1, Hwp. f_equal. f_equal. f_equal. lia.
  - rewrite H2, Hn2. exact Ir2.
  - rewrite Hwp. discriminate.
  - lia.
  - intro s'. destruct (Nat.eq_dec s' s) as [E|E].
    + subst s'. unfold CI. cbv zeta. right. right. rewrite S1, S2, S3, Hn1, Hn2.
      split; [reflexivity|]. split; [exists pre, i; split; assumption|].
      split; lia.
    + destruct (Ho s' E) as (O1 & O2 & O3 & _). unfold CI. cbv zeta. rewrite O1, O2, O3, Hn1, Hn2.
      rewrite (cntpos_succ_other k start (n1 st) s') by congruence. apply Ici.
  - rewrite Hws, Hn1, seq_S_app, map_app, Iws. f_equal.
    + symmetry. apply map_item_at_frame. exact Hfs.
    + cbn [map]. rewrite Cp. cbn [opt_list]. f_equal. unfold item_at.
      replace (1 + n1 st - 1) with (n1 st) by lia. replace (1 + n1 st) with (S (n1 st)) by lia.
      rewrite <- Hs. rewrite Hfs, Cf. rewrite app_nth2 by (rewrite Cf, app_length in C3; cbn [length] in C3; lia).
      rewrite Cf, app_length in C3. cbn [length] in C3. replace (cntpos (n1 st) s - length pre) with 0 by lia. reflexivity.
  - rewrite Hrs, Hn2, Irs. symmetry. apply map_item_at_frame. exact Hfs.
  - intro s'. rewrite Hrp. destruct (Nat.eq_dec s' s) as [E|E].
    + subst s'. rewrite S4. apply Ilock.
    + destruct (Ho s' E) as (_ & _ & _ & O4 & _). rewrite O4. apply Ilock.
  - intros s' j Hh. rewrite Hrp in Hh. destruct (Nat.eq_dec s' s) as [E|E].
    + subst s'. exfalso. assert (rlock (slots st s) = true) by (apply Ilock; eexists; exact Hh). congruence.
    + destruct (Ho s' E) as (O1 & _). rewrite O1. eapply Ihold. exact Hh.
  - intro s'. destruct (Nat.eq_dec s' s) as [E|E].
    + subst s'. rewrite S5, S6, Iso. unfold und. rewrite S1, S2, Hm. reflexivity.
    + destruct (Ho s' E) as (O1 & O2 & _ & _ & O5 & O6). rewrite O5, O6, Iso. unfold und. rewrite O1, O2, Hrp. reflexivity.
  - rewrite Hrc. exact Irecv.
Qed.

Lemma writer_take_some : forall st s r1' st1, writer_take st s r1' = Some st1 ->
  mark (slots st s) = 1 /\
  st1 = set_counts (set_slot st s (sl_mark (slots st s) 2 (payload (slots st s)))) (write st) r1' (read2 st) (nw st) (S (n1 st)) (n2 st)
          (wseq st ++ opt_list (payload (slots st s))) (rseq st).
Proof.
  intros st s r1' st1 H. unfold writer_take in H. destruct (Nat.eqb (mark (slots st s)) 1) eqn:E; [|discriminate].
  apply Nat.eqb_eq in E. inversion H. auto.
Qed.

Lemma writer_take_none : forall st s r1', writer_take st s r1' = None -> mark (slots st s) <> 1.
Proof.
  intros st s r1' H. unfold writer_take in H. destruct (Nat.eqb (mark (slots st s)) 1) eqn:E; [discriminate|].
  apply Nat.eqb_neq in E. exact E.
Qed.

Lemma next_read1 : forall st, InvA st -> wpc st = WIdle ->
  u32 (read1 st + 1) = u32 (start + N.of_nat (S (n1 st))) /\ idx k (u32 (read1 st + 1)) = sof (S (n1 st)).
Proof.
  intros st I Hw. pose proof (a_read1 st I) as H. unfold wpos in H. rewrite Hw, Nat.add_0_r in H.
  rewrite H, u32_succ. split; reflexivity.
Qed.

Lemma some_inj : forall (A : Type) (a b : A), Some a = Some b -> a = b.
Proof. intros A a b H. inversion H. reflexivity. Qed.

Ltac slot_cases s' s E := destruct (Nat.eq_dec s' s) as [E|E]; [subst s'; rewrite ?upd_same|rewrite ?upd_other by exact E].

Lemma inva_WNext : forall st st', InvA st -> lstep k st WNext = Some st' -> InvA st'.
Proof.
  intros st st' I Hl. cbn [lstep] in Hl. destruct (wpc st) eqn:Hw; [|discriminate].
  destruct (next_read1 st I Hw) as [R1 R2]. rewrite R1 in Hl.
  change (idx k (u32 (start + N.of_nat (S (n1 st))))) with (sof (S (n1 st))) in Hl. set (s := sof (S (n1 st))) in *.
  destruct (rlock (slots st s)) eqn:Hr; [discriminate|].
  destruct (writer_take st s (u32 (start + N.of_nat (S (n1 st))))) as [st1|] eqn:T.
  - apply some_inj in Hl; subst st'. apply writer_take_some in T. destruct T as [Tm T]. subst st1.
    eapply (inva_take st _ s); try exact I; rst; try reflexivity; try assumption.
    + intros s' E. rewrite upd_other by exact E. repeat split; reflexivity.
    + rewrite upd_same. rst. repeat split; reflexivity.
  - apply some_inj in Hl; subst st'. exact I.
Qed.

Lemma inva_WWaitEnter : forall st st', InvA st -> lstep k st WWaitEnter = Some st' -> InvA st'.
Proof.
  intros st st' I Hl. cbn [lstep] in Hl. destruct (wpc st) eqn:Hw; [|discriminate].
  destruct (next_read1 st I Hw) as [R1 R2]. rewrite R1 in Hl.
  change (idx k (u32 (start + N.of_nat (S (n1 st))))) with (sof (S (n1 st))) in Hl. set (s := sof (S (n1 st))) in *.
  destruct (rlock (slots st s)) eqn:Hr; [discriminate|].
  destruct (writer_take st s (u32 (start + N.of_nat (S (n1 st))))) as [st1|] eqn:T.
  - apply some_inj in Hl; subst st'. apply writer_take_some in T. destruct T as [Tm T]. subst st1.
    eapply (inva_take st _ s); try exact I; rst; try reflexivity; try assumption.
    + intros s' E. rewrite upd_other by exact E. repeat split; reflexivity.
    + rewrite upd_same. rst. repeat split; reflexivity.
  - apply some_inj in Hl; subst st'.
    eapply inva_frame2; try exact I; rst; try reflexivity.
    + intro s'. slot_cases s' s E; rst; auto.
    + unfold wpos. rst. f_equal. f_equal. f_equal. lia.
    + intros s0 H0. inversion H0. reflexivity.
    + intro s'. slot_cases s' s E; rst; apply (a_lock st I).
    + intros s' i Hh. slot_cases s' s E; rst; eapply (a_hold st I); exact Hh.
    + intro s'. unfold und. rst. slot_cases s' s E; rst; apply (a_so st I).
    + apply (a_recv st I).
Qed.

Lemma inva_WWaitRetry : forall st st', InvA st -> lstep k st WWaitRetry = Some st' -> InvA st'.
Proof.
  intros st st' I Hl. cbn [lstep] in Hl. destruct (wpc st) as [|s] eqn:Hw; [discriminate|].
  pose proof (a_wwait st I s Hw) as Hs.
  destruct (wwoken (slots st s) && negb (rlock (slots st s))) eqn:G; [|discriminate].
  apply andb_true_iff in G. destruct G as [G1 G2]. apply negb_true_iff in G2.
  pose proof (a_read1 st I) as Hr1. unfold wpos in Hr1. rewrite Hw in Hr1.
  match type of Hl with context [writer_take ?a ?b ?c] => destruct (writer_take a b c) as [st1|] eqn:T end.
  - apply some_inj in Hl; subst st'. apply writer_take_some in T. destruct T as [Tm T]. subst st1. rst. rewrite upd_same in *. rst.
    eapply (inva_take st _ s); try exact I; rst; try reflexivity; try assumption.
    + rewrite Hr1. f_equal. f_equal. f_equal. lia.
    + intros s' E. rewrite !upd_other by exact E. repeat split; reflexivity.
    + rewrite !upd_same. rst. repeat split; reflexivity.
  - apply some_inj in Hl; subst st'. rst. rewrite upd_same.
    eapply inva_frame2; try exact I; rst; try reflexivity.
    + intro s'. slot_cases s' s E; rst; auto.
    + unfold wpos. rst. rewrite Hw. exact Hr1.
    + rewrite Hw. intros s0 H0. inversion H0. subst s0. exact Hs.
    + intro s'. slot_cases s' s E; rst; apply (a_lock st I).
    + intros s' i Hh. slot_cases s' s E; rst; eapply (a_hold st I); exact Hh.
    + intro s'. unfold und. rst. slot_cases s' s E; rst; apply (a_so st I).
    + apply (a_recv st I).
Qed.

Lemma rlock_free_idle : forall st, InvA st -> rpc st = RIdle -> forall s, rlock (slots st s) = false.
Proof.
  intros st I Hr s. destruct (rlock (slots st s)) eqn:E; [|reflexivity].
  apply (a_lock st I) in E. destruct E as [it E]. congruence.
Qed.

Lemma cntpos_lt_n : forall n m s, cntpos n s < cntpos m s -> n < m.
Proof.
  intros n m s H. destruct (le_lt_dec m n) as [L|L]; [|exact L].
  pose proof (cntpos_mono k start m n s L). lia.
Qed.

Lemma inva_RNext : forall st st', InvA st -> lstep k st RNext = Some st' -> InvA st'.
Proof.
  intros st st' I Hl. cbn [lstep] in Hl. destruct (rpc st) eqn:Hrp; try discriminate.
  pose proof (a_read2 st I) as Hr2. rewrite Hr2, u32_succ in Hl.
  change (idx k (u32 (start + N.of_nat (S (n2 st))))) with (sof (S (n2 st))) in Hl. set (s := sof (S (n2 st))) in *.
  pose proof (rlock_free_idle st I Hrp) as Hfree. rewrite (Hfree s) in Hl.
  destruct (Nat.eqb (mark (slots st s)) 2) eqn:Hm.
  - (* a written command: take its result channel *)
    apply Nat.eqb_eq in Hm. apply some_inj in Hl. subst st'.
    destruct I as [Iw Ir1 Ir2 Iww Ile Ici Iws Irs Ilock Ihold Iso Irecv].
    pose proof (Ici s) as Hci. unfold CI in Hci. cbv zeta in Hci.
    destruct Hci as [(C1 & _)|[(C1 & _)|(C1 & C2 & C3 & C4)]]; try congruence.
    destruct C2 as (pre & i & Cf & Cp).
    assert (Hsucc : cntpos (S (n2 st)) s = S (cntpos (n2 st) s)) by (unfold s; apply cntpos_succ_same).
    assert (Hlt : n2 st < n1 st) by (apply (cntpos_lt_n _ _ s); lia).
    rewrite Cp. cbn [opt_list].
    constructor; rst.
    + exact Iw.
    + exact Ir1.
    + reflexivity.
    + exact Iww.
    + lia.
    + intro s'. slot_cases s' s E; unfold CI; cbv zeta; rst; rewrite ?upd_same, ?upd_other by exact E; rst.
      * left. repeat split; try reflexivity; lia.
      * rewrite (cntpos_succ_other k start (n2 st) s') by (fold s; congruence). apply Ici.
    + rewrite Iws. symmetry. apply map_item_at_frame. intro s'. rst. slot_cases s' s E; reflexivity.
    + rewrite seq_S_app, map_app, Irs. f_equal.
      * symmetry. apply map_item_at_frame. intro s'. rst. slot_cases s' s E; reflexivity.
      * cbn [map]. f_equal. unfold item_at. rst.
        replace (1 + n2 st - 1) with (n2 st) by lia. replace (1 + n2 st) with (S (n2 st)) by lia.
        fold s. rewrite upd_same. rst. rewrite Cf.
        rewrite Cf, app_length in C3. cbn [length] in C3.
        rewrite app_nth2 by lia. replace (cntpos (n2 st) s - length pre) with 0 by lia. reflexivity.
    + intro s'. slot_cases s' s E; rst.
      * split; [intros _; eexists; reflexivity|reflexivity].
      * rewrite (Hfree s'). split; [discriminate|]. intros [it H]. inversion H. congruence.
    + intros s' j H. inversion H. subst s'. rewrite upd_same. reflexivity.
    + intro s'. unfold und. rst. slot_cases s' s E; rst.
      * rewrite !Nat.eqb_refl. cbn [Nat.eqb]. rewrite Iso. unfold und. rewrite Hm. cbn [Nat.eqb]. rewrite Cp. reflexivity.
      * rewrite Iso. unfold und. rewrite Hrp.
        destruct (Nat.eqb (mark (slots st s')) 0); [|reflexivity].
        destruct (Nat.eqb s s') eqn:E2; [apply Nat.eqb_eq in E2; congruence|reflexivity].
    + exact Irecv.
  - (* nothing to complete: the lock is taken all the same *)
    apply some_inj in Hl. subst st'.
    eapply inva_frame2; try exact I; rst; try reflexivity.
    + intro s'. slot_cases s' s E; rst; auto.
    + apply (a_read1 st I).
    + apply (a_wwait st I).
    + intro s'. slot_cases s' s E; rst.
      * split; [intros _; eexists; reflexivity|reflexivity].
      * rewrite (Hfree s'). split; [discriminate|]. intros [it H]. inversion H. congruence.
    + intros s' j H. discriminate.
    + intro s'. unfold und. rst. slot_cases s' s E; rst; rewrite (a_so st I); unfold und; rewrite Hrp;
        destruct (Nat.eqb (mark (slots st _)) 0); reflexivity.
    + apply (a_recv st I).
Qed.

Lemma inva_RDeliver : forall st st' p, InvA st -> lstep k st (RDeliver p) = Some st' -> InvA st'.
Proof.
  intros st st' p I Hl. cbn [lstep] in Hl. destruct (rpc st) as [|s [i|]|] eqn:Hrp; try discriminate.
  destruct (memb p (wt (slots st s))) eqn:G; [|discriminate]. apply some_inj in Hl. subst st'.
  pose proof (a_hold st I s i Hrp) as Hm.
  assert (Hu : und st s = Some i). { unfold und. rewrite Hm, Hrp. cbn [Nat.eqb]. rewrite Nat.eqb_refl. reflexivity. }
  assert (Hbw : bc (slots st s) = [] /\ wt (slots st s) = [p] /\ p = i).
  { destruct (so_single st s i I Hu) as [[B W]|[B W]].
    - rewrite W in G. discriminate.
    - rewrite W in G. apply memb_single in G. subst i. auto. }
  destruct Hbw as (B & W & Hp). subst i.
  eapply inva_frame2; try exact I; rst; try reflexivity.
  - intro s'. slot_cases s' s E; rst; auto.
  - apply (a_read1 st I).
  - apply (a_wwait st I).
  - intro s'. slot_cases s' s E; rst.
    + split; [intros _; eexists; reflexivity|]. intros _. apply (a_lock st I). eexists. exact Hrp.
    + split.
      * intro H. apply (a_lock st I) in H. destruct H as [it H]. rewrite Hrp in H. inversion H. congruence.
      * intros [it H]. inversion H. congruence.
  - intros s' j H. discriminate.
  - intro s'. unfold und. rst. slot_cases s' s E; rst.
    + rewrite Hm. cbn [Nat.eqb]. rewrite B, W, remove1_single. reflexivity.
    + rewrite (a_so st I). unfold und. rewrite Hrp.
      destruct (Nat.eqb (mark (slots st s')) 0); [|reflexivity].
      destruct (Nat.eqb s s') eqn:E2; [apply Nat.eqb_eq in E2; congruence|reflexivity].
  - cbn [own_results]. rewrite Nat.eqb_refl. apply (a_recv st I).
Qed.

Lemma inva_RUnlock : forall st st', InvA st -> lstep k st RUnlock = Some st' -> InvA st'.
Proof.
  intros st st' I Hl. cbn [lstep] in Hl. destruct (rpc st) as [|s [i|]|] eqn:Hrp; try discriminate.
  apply some_inj in Hl. subst st'.
  eapply inva_frame2; try exact I; rst; try reflexivity.
  - intro s'. slot_cases s' s E; rst; auto.
  - apply (a_read1 st I).
  - apply (a_wwait st I).
  - intro s'. slot_cases s' s E; rst.
    + split; [discriminate|]. intros [it H]. discriminate.
    + split.
      * intro H. apply (a_lock st I) in H. destruct H as [it H]. rewrite Hrp in H. inversion H. congruence.
      * intros [it H]. discriminate.
  - intros s' j H. discriminate.
  - intro s'. unfold und. rst. slot_cases s' s E; rst; rewrite (a_so st I); unfold und; rewrite Hrp;
      destruct (Nat.eqb (mark (slots st _)) 0); reflexivity.
  - apply (a_recv st I).
Qed.

Lemma inva_RSignal : forall st st' o, InvA st -> lstep k st (RSignal o) = Some st' -> InvA st'.
Proof.
  intros st st' o I Hl. cbn [lstep] in Hl. destruct (rpc st) as [| |s] eqn:Hrp; try discriminate.
  assert (Hfree : forall s', rlock (slots st s') = false).
  { intro s'. destruct (rlock (slots st s')) eqn:E; [|reflexivity]. apply (a_lock st I) in E. destruct E as [it E]. congruence. }
  destruct o as [p|].
  - destruct (memb p (parked1 (slots st s))); [|discriminate]. apply some_inj in Hl. subst st'.
    eapply inva_frame2; try exact I; rst; try reflexivity.
    + intro s'. slot_cases s' s E; rst; auto.
    + apply (a_read1 st I).
    + apply (a_wwait st I).
    + intro s'. slot_cases s' s E; rst; rewrite Hfree; (split; [discriminate|intros [it H]; discriminate]).
    + intros s' j H. discriminate.
    + intro s'. unfold und. rst. slot_cases s' s E; rst; rewrite (a_so st I); unfold und; rewrite Hrp;
        destruct (Nat.eqb (mark (slots st _)) 0); reflexivity.
    + apply (a_recv st I).
  - destruct (is_nil (parked1 (slots st s))); [|discriminate]. apply some_inj in Hl. subst st'.
    eapply inva_frame2; try exact I; rst; try reflexivity.
    + intro s'. auto.
    + apply (a_read1 st I).
    + apply (a_wwait st I).
    + intro s'. rewrite Hfree. split; [discriminate|intros [it H]; discriminate].
    + intros s' j H. discriminate.
    + intro s'. unfold und. rst. rewrite (a_so st I). unfold und. rewrite Hrp.
      destruct (Nat.eqb (mark (slots st s')) 0); reflexivity.
    + apply (a_recv st I).
Qed.

Theorem inva_step : forall st l st', InvA st -> lstep k st l = Some st' -> InvA st'.
Proof.
  intros st l st' I Hl. destruct l.
  - eapply inva_PutTicket; eassumption.
  - eapply inva_PutLock; eassumption.
  - eapply inva_PutBcast; eassumption.
  - eapply inva_WNext; eassumption.
  - eapply inva_WWaitEnter; eassumption.
  - eapply inva_WWaitRetry; eassumption.
  - eapply inva_RNext; eassumption.
  - eapply inva_RDeliver; eassumption.
  - eapply inva_RUnlock; eassumption.
  - eapply inva_RSignal; eassumption.
  - cbn [lstep] in Hl. destruct (wpc st); [|discriminate]. apply some_inj in Hl. subst st'. exact I.
Qed.

End RingInv.
