(** Proofs about Model/Stream.v (the recycling half of C29). *)
From Coq Require Import String List Arith NArith ZArith Bool Lia.
Require Import RV.Model.Base RV.Model.PsBase RV.Model.Stream.
Import ListNotations.
Open Scope N_scope.
Open Scope list_scope.

Definition proj (r : sres) : N * option serr := (sr_n r, sr_err r).

(** all replies clean: one WriteTo per command, each consuming exactly one reply, then io.EOF and one Store *)
Lemma drain_clean : forall n rs fuel w,
  (0 < n)%nat -> (n <= length rs)%nat -> (n < fuel)%nat -> forallb sr_clean (firstn n rs) = true ->
  drain fuel (mkStream n None w) rs = (mkStream 0 (Some EEOF) w, map proj (firstn n rs), [PStore], skipn n rs).
Proof.
  induction n as [|n IH]; intros rs fuel w Hn Hl Hf Hc; [lia|].
  destruct fuel as [|fuel]; [lia|]. destruct rs as [|r rs]; [cbn in Hl; lia|].
  cbn [firstn forallb] in Hc. apply andb_prop in Hc. destruct Hc as [Hr Hc].
  cbn [drain has_next st_n st_e Nat.eqb negb andb].
  unfold write_to. cbn [st_e st_n st_wire Nat.eqb]. rewrite Hr. cbn [Nat.sub].
  rewrite Nat.sub_0_r. destruct n as [|n].
  - cbn [Nat.eqb]. destruct fuel as [|fuel]; cbn; reflexivity.
  - cbn [Nat.eqb]. rewrite (IH rs fuel w); [reflexivity|lia|cbn in Hl; lia|lia|exact Hc].
Qed.

(** the first unclean reply ends the stream: the wire is closed, then stored *)
Lemma drain_unclean : forall k n rs fuel w r e,
  (k < n)%nat -> (n < fuel)%nat -> nth_error rs k = Some r -> sr_clean r = false -> sr_err r = Some e ->
  forallb sr_clean (firstn k rs) = true ->
  drain fuel (mkStream n None w) rs = (mkStream 0 (Some e) w, map proj (firstn (S k) rs), [PClose; PStore], skipn (S k) rs).
Proof.
  induction k as [|k IH]; intros n rs fuel w r e Hk Hf Hr Hcl He Hc.
  - destruct rs as [|r0 rs]; [discriminate|]. cbn in Hr. injection Hr as ->.
    destruct fuel as [|fuel]; [lia|]. destruct n as [|n]; [lia|].
    cbn [drain has_next st_n st_e Nat.eqb negb andb]. unfold write_to. cbn [st_e st_n st_wire Nat.eqb].
    rewrite Hcl, He. cbn [Nat.sub Nat.eqb]. destruct fuel; cbn; unfold proj; rewrite ?He; reflexivity.
  - destruct rs as [|r0 rs]; [discriminate|]. cbn in Hr.
    cbn [firstn forallb] in Hc. apply andb_prop in Hc. destruct Hc as [Hr0 Hc].
    destruct fuel as [|fuel]; [lia|]. destruct n as [|n]; [lia|].
    cbn [drain has_next st_n st_e Nat.eqb negb andb]. unfold write_to. cbn [st_e st_n st_wire Nat.eqb].
    rewrite Hr0. cbn [Nat.sub]. rewrite Nat.sub_0_r. destruct n as [|n]; [lia|]. cbn [Nat.eqb].
    rewrite (IH (S n) rs fuel w r e); auto; lia.
Qed.

(** a finished stream (or an error stream) does nothing *)
Lemma drain_done : forall fuel s rs, has_next s = false -> drain fuel s rs = (s, [], [], rs).
Proof. intros [|fuel] s rs H; cbn; [reflexivity|]. rewrite H. reflexivity. Qed.

Lemma write_to_done : forall s r, has_next s = false -> exists out, write_to s r = (s, out, false, []).
Proof.
  intros s r H. unfold write_to, has_next in *. destruct (st_e s); [eauto|].
  destruct (st_n s =? 0)%nat; [eauto|discriminate].
Qed.

(** nil and error replies: reported for that reply only; the stream goes on, nothing is closed *)
Lemma write_to_clean_err : forall n w r, (1 < n)%nat -> sr_clean r = true ->
  write_to (mkStream n None w) r = (mkStream (n - 1) None w, (sr_n r, sr_err r), true, []).
Proof.
  intros n w r Hn Hc. unfold write_to. cbn [st_e st_n st_wire]. destruct n as [|[|n]]; try lia.
  cbn [Nat.eqb]. rewrite Hc. cbn. reflexivity.
Qed.

Lemma count_store_app : forall a b, count_store (a ++ b) = (count_store a + count_store b)%nat.
Proof. intros. unfold count_store. rewrite filter_app, app_length. reflexivity. Qed.

(** the first unclean reply among the first n, if any *)
Fixpoint first_unclean (rs : list sres) : option nat :=
  match rs with
  | [] => None
  | r :: rest => if sr_clean r then option_map S (first_unclean rest) else Some O
  end.

Lemma first_unclean_none : forall rs, first_unclean rs = None -> forallb sr_clean rs = true.
Proof.
  induction rs as [|r rs IH]; cbn; [reflexivity|]. destruct (sr_clean r); [|discriminate].
  destruct (first_unclean rs); [discriminate|]. intros _. apply IH. reflexivity.
Qed.

Lemma first_unclean_some : forall rs k, first_unclean rs = Some k ->
  exists r, nth_error rs k = Some r /\ sr_clean r = false /\ forallb sr_clean (firstn k rs) = true.
Proof.
  induction rs as [|r rs IH]; intros k H; [discriminate|]. cbn in H. destruct (sr_clean r) eqn:E.
  - destruct (first_unclean rs) as [j|] eqn:F; [|discriminate]. injection H as <-.
    destruct (IH j eq_refl) as [x [A [B C]]]. exists x. cbn. rewrite E. auto.
  - injection H as <-. exists r. cbn. auto.
Qed.

Lemma first_unclean_lt : forall rs k, first_unclean rs = Some k -> (k < length rs)%nat.
Proof.
  intros rs k H. destruct (first_unclean_some rs k H) as [r [A _]]. apply nth_error_Some. congruence.
Qed.

Lemma nth_error_firstn' : forall {A} (l : list A) n k, (k < n)%nat -> nth_error (firstn n l) k = nth_error l k.
Proof. induction l as [|x l IH]; intros n k H; destruct n, k; cbn; try reflexivity; try lia. apply IH. lia. Qed.

Lemma firstn_firstn' : forall {A} (l : list A) k n, (k <= n)%nat -> firstn k (firstn n l) = firstn k l.
Proof. intros. rewrite firstn_firstn. f_equal. lia. Qed.

(** ** store exactly once, after the last reply read, closed first iff a reply was not clean *)
Theorem store_once : forall n rs w,
  (0 < n)%nat -> (n <= length rs)%nat -> forallb sres_wf rs = true ->
  let '(s', outs, evs, rem) := drain (S (length rs)) (mkStream n None w) rs in
  count_store evs = 1%nat /\ has_next s' = false /\
  match first_unclean (firstn n rs) with
  | None => evs = [PStore] /\ length outs = n /\ st_e s' = Some EEOF
  | Some k => evs = [PClose; PStore] /\ length outs = S k
  end /\
  outs = map proj (firstn (length outs) rs) /\ rem = skipn (length outs) rs.
Proof.
  intros n rs w Hn Hl Hwf. destruct (first_unclean (firstn n rs)) as [k|] eqn:F.
  - destruct (first_unclean_some _ _ F) as [r [A [B C]]].
    pose proof (first_unclean_lt _ _ F) as Hk. rewrite firstn_length in Hk.
    assert (Hkn : (k < n)%nat) by lia.
    rewrite nth_error_firstn' in A by exact Hkn. rewrite firstn_firstn' in C by lia.
    assert (He : exists e, sr_err r = Some e).
    { rewrite forallb_forall in Hwf. specialize (Hwf r (nth_error_In _ _ A)). unfold sres_wf in Hwf. rewrite B in Hwf. cbn in Hwf.
      destruct (sr_err r); [eauto|discriminate]. }
    destruct He as [e He].
    rewrite (drain_unclean k n rs (S (length rs)) w r e Hkn ltac:(lia) A B He C).
    assert (Hlen : length (map proj (firstn (S k) rs)) = S k) by (rewrite map_length, firstn_length; lia).
    rewrite Hlen. repeat split; reflexivity.
  - pose proof (first_unclean_none _ F) as C.
    rewrite (drain_clean n rs (S (length rs)) w Hn Hl ltac:(lia) C).
    assert (Hlen : length (map proj (firstn n rs)) = n) by (rewrite map_length, firstn_length; lia).
    rewrite Hlen. repeat split; reflexivity.
Qed.

(** ** DoStream / DoMultiStream (the repaired code) *)
Lemma do_stream_cases : forall c,
  (c_ctx_done c = true /\ do_stream c = Ok (mkStream 0 (Some ECtxDone) false, [PStore], false)) \/
  (c_ctx_done c = false /\ c_state c = 1 /\ do_stream c = Panic) \/
  (c_ctx_done c = false /\ c_state c = 0 /\ c_flush_ok c = true /\ do_stream c = Ok (mkStream (c_ncmd c) None true, [], false)) \/
  (c_ctx_done c = false /\ c_state c = 0 /\ c_flush_ok c = false /\ do_stream c = Ok (mkStream 0 (Some EPipe) false, [PClose; PStore], false)) \/
  (c_ctx_done c = false /\ c_state c <> 0 /\ c_state c <> 1 /\ do_stream c = Ok (mkStream 0 (Some EPipe) false, [PStore], false)).
Proof.
  intros c. unfold do_stream, do_stream_gen. destruct (c_ctx_done c); [left; auto|right].
  destruct (c_state c =? 1) eqn:E1; [left; apply N.eqb_eq in E1; auto|right].
  destruct (c_state c =? 0) eqn:E0.
  - apply N.eqb_eq in E0. destruct (c_flush_ok c); [left|right; left]; auto.
  - right; right. apply N.eqb_neq in E0, E1. auto.
Qed.

(** the wire a call took from the pool is stored exactly once over the life of the call, on every path: the early
    return on a done context, a pipe that is closing, a failed flush, and the drained stream whatever its replies *)
Theorem lifetime_store : forall c rs outs evs leak,
  (0 < c_ncmd c)%nat -> (c_ncmd c <= length rs)%nat -> forallb sres_wf rs = true ->
  lifetime c rs = Ok (outs, evs, leak) ->
  count_store evs = 1%nat /\ leak = false /\ (c_ctx_done c = true -> evs = [PStore] /\ outs = []).
Proof.
  intros c rs outs evs leak Hn Hl Hwf H. unfold lifetime, lifetime_gen in H. fold (do_stream c) in H.
  destruct (do_stream_cases c) as [[Hc E]|[[Hc [_ E]]|[[Hc [_ [_ E]]]|[[Hc [_ [_ E]]]|[Hc [_ [_ E]]]]]]]; rewrite E in H; try discriminate.
  - rewrite drain_done in H by reflexivity. injection H as <- <- <-. cbn. repeat split; auto.
  - pose proof (store_once (c_ncmd c) rs true Hn Hl Hwf) as HS.
    destruct (drain (S (length rs)) (mkStream (c_ncmd c) None true) rs) as [[[s' o] e] rem]. injection H as <- <- <-.
    destruct HS as [S1 _]. cbn. repeat split; auto; congruence.
  - rewrite drain_done in H by reflexivity. injection H as <- <- <-. cbn. repeat split; auto; congruence.
  - rewrite drain_done in H by reflexivity. injection H as <- <- <-. cbn. repeat split; auto; congruence.
Qed.

(** the connection goes back to the idle list exactly when it is still good: no error latched, and either nothing was
    sent (done context) or everything was flushed and every reply read was consumed cleanly *)
Definition recycled (c : call) (rs : list sres) : bool :=
  negb (wire_err c) &&
  (c_ctx_done c || (c_flush_ok c && match first_unclean (firstn (c_ncmd c) rs) with None => true | Some _ => false end)).

(** the pool's books after the call: the pool accounts for exactly the connections on its idle list — one when the
    wire was recycled, none otherwise (a closed wire gave its slot back; the made-up dead pipe never had one) *)
Theorem lifetime_books : forall c rs outs evs leak,
  (0 < c_ncmd c)%nat -> (c_ncmd c <= length rs)%nat -> forallb sres_wf rs = true -> call_wf c = true ->
  lifetime c rs = Ok (outs, evs, leak) ->
  books c evs = if recycled c rs then (1, 1)%nat else (0, 0)%nat.
Proof.
  intros c rs outs evs leak Hn Hl Hwf Hcw H. unfold lifetime, lifetime_gen in H. fold (do_stream c) in H.
  unfold books, recycled, wire_noslot. unfold call_wf in Hcw.
  destruct (do_stream_cases c) as [[Hc E]|[[Hc [_ E]]|[[Hc [H0 [Hf E]]]|[[Hc [H0 [Hf E]]]|[Hc [H0 [_ E]]]]]]]; rewrite E in H; try discriminate.
  - rewrite drain_done in H by reflexivity. injection H as <- <- <-. rewrite Hc. cbn [app pool_after orb].
    destruct (wire_err c); cbn [negb andb].
    + destruct (c_real c); reflexivity.
    + rewrite orb_false_r in Hcw. rewrite Hcw. reflexivity.
  - pose proof (store_once (c_ncmd c) rs true Hn Hl Hwf) as HS.
    destruct (drain (S (length rs)) (mkStream (c_ncmd c) None true) rs) as [[[s' o] e] rem]. injection H as <- <- <-.
    destruct HS as [_ [_ [HS _]]]. rewrite Hc, Hf. cbn [app orb andb].
    assert (We : wire_err c = false) by (unfold wire_err; rewrite H0; reflexivity).
    rewrite We in *. rewrite orb_false_r in Hcw. rewrite Hcw. cbn [negb andb].
    destruct (first_unclean (firstn (c_ncmd c) rs)); destruct HS as [-> _]; reflexivity.
  - rewrite drain_done in H by reflexivity. injection H as <- <- <-. rewrite Hc, Hf. cbn [app orb andb].
    assert (We : wire_err c = false) by (unfold wire_err; rewrite H0; reflexivity).
    rewrite We in *. rewrite orb_false_r in Hcw. rewrite Hcw. reflexivity.
  - rewrite drain_done in H by reflexivity. injection H as <- <- <-.
    assert (We : wire_err c = true) by (unfold wire_err; apply N.eqb_neq in H0; rewrite H0; reflexivity).
    rewrite We. cbn [negb andb app pool_after]. destruct (c_real c); reflexivity.
Qed.

(** the code as it was found: the early return did not store *)
Lemma lifetime_orig_ctx_done : forall c rs, c_ctx_done c = true -> lifetime_orig c rs = Ok ([], [], c_real c).
Proof.
  intros c rs H. unfold lifetime_orig, lifetime_gen, do_stream_gen. rewrite H. rewrite drain_done by reflexivity. reflexivity.
Qed.
