From Coq Require Import List NArith Bool Lia Arith ZifyN ZifyNat ZifyBool.
Require Import RV.Model.Base RV.Model.RespWrite.
Import ListNotations.
Open Scope N_scope.

(** * decimal printing *)

(** value of a digit string continued from accumulator [a] (what any decimal reader computes) *)
Fixpoint dval (ds : bytes) (a : N) : N :=
  match ds with
  | [] => a
  | d :: r => dval r (a * 10 + (d - 48))
  end.

Lemma dval_app ds1 ds2 a : dval (ds1 ++ ds2) a = dval ds2 (dval ds1 a).
Proof. revert a; induction ds1 as [|d r IH]; intros a; cbn [dval app]; [reflexivity|apply IH]. Qed.

Lemma is_digit_spec b : is_digit b = true <-> 48 <= b <= 57.
Proof. unfold is_digit. lia. Qed.

Lemma size_nat_gt p : N.pos p < 2 ^ N.of_nat (Pos.size_nat p).
Proof.
  induction p as [p IH|p IH|]; cbn [Pos.size_nat].
  - rewrite Nat2N.inj_succ, N.pow_succ_r'. lia.
  - rewrite Nat2N.inj_succ, N.pow_succ_r'. lia.
  - cbn. lia.
Qed.

Lemma N_size_nat_gt n : n < 2 ^ N.of_nat (N.size_nat n).
Proof. destruct n as [|p]; [cbn; lia|apply size_nat_gt]. Qed.

Lemma dec_aux_digits : forall fuel n acc,
  Forall (fun d => is_digit d = true) acc -> Forall (fun d => is_digit d = true) (dec_aux fuel n acc).
Proof.
  induction fuel as [|f IH]; intros n acc Ha; cbn [dec_aux]; [exact Ha|].
  assert (Hd : is_digit (48 + n mod 10) = true).
  { apply is_digit_spec. pose proof (N.mod_lt n 10 ltac:(lia)). lia. }
  destruct (n / 10 =? 0); [constructor; assumption|apply IH; constructor; assumption].
Qed.

Lemma dec_aux_val : forall fuel n acc, n < 2 ^ N.of_nat fuel ->
  dval (dec_aux fuel n acc) 0 = dval acc n.
Proof.
  induction fuel as [|f IH]; intros n acc Hn.
  - cbn in Hn. assert (n = 0) by lia. subst. reflexivity.
  - cbn [dec_aux].
    pose proof (N.div_mod n 10 ltac:(lia)) as Hdm.
    pose proof (N.mod_lt n 10 ltac:(lia)) as Hm.
    destruct (N.eqb_spec (n / 10) 0) as [Hz|Hnz].
    + cbn [dval]. f_equal. lia.
    + rewrite IH.
      * cbn [dval]. f_equal. lia.
      * rewrite Nat2N.inj_succ, N.pow_succ_r' in Hn.
        apply N.div_lt_upper_bound; lia.
Qed.

Lemma dec_aux_nonempty fuel n acc : dec_aux (S fuel) n acc <> [].
Proof.
  revert n acc; induction fuel as [|f IH]; intros n acc; cbn [dec_aux].
  - destruct (n / 10 =? 0); discriminate.
  - destruct (n / 10 =? 0); [discriminate|]. apply IH.
Qed.

Lemma dec_digits n : Forall (fun d => is_digit d = true) (dec n).
Proof. apply dec_aux_digits. constructor. Qed.

Lemma dec_val n : dval (dec n) 0 = n.
Proof.
  unfold dec. rewrite dec_aux_val; [reflexivity|].
  rewrite Nat2N.inj_succ, N.pow_succ_r'. pose proof (N_size_nat_gt n). lia.
Qed.

Lemma dec_nonempty n : dec n <> [].
Proof. apply dec_aux_nonempty. Qed.

Lemma dec_small n : n < 10 -> dec n = [48 + n].
Proof.
  intros H. unfold dec. cbn [dec_aux].
  rewrite N.div_small by lia. cbn [N.eqb]. rewrite N.mod_small by lia. reflexivity.
Qed.

(** the number of digits is what the specification of decimal notation says *)
Lemma dec_aux_length_bound : forall fuel n acc, (length (dec_aux fuel n acc) <= fuel + length acc)%nat.
Proof.
  induction fuel as [|f IH]; intros n acc; cbn [dec_aux]; [lia|].
  destruct (n / 10 =? 0); [cbn [length]; lia|].
  specialize (IH (n / 10) ((48 + n mod 10) :: acc)). cbn [length] in IH. lia.
Qed.

(** * the independent parser reads back what the printer wrote *)

Lemma parse_num_aux_digits : forall ds r a seen, Forall (fun d => is_digit d = true) ds ->
  parse_num_aux (ds ++ r) a seen = parse_num_aux r (dval ds a) (seen || negb (match ds with [] => true | _ => false end)).
Proof.
  induction ds as [|d ds IH]; intros r a seen Hd.
  - cbn. now rewrite orb_false_r.
  - inversion Hd as [|? ? Hd1 Hd2]; subst.
    cbn [app parse_num_aux dval]. rewrite Hd1. rewrite IH by assumption.
    f_equal. cbn [negb]. rewrite orb_true_r. destruct ds; cbn; now rewrite ?orb_true_r.
Qed.

Lemma parse_num_dec n rest : parse_num (dec n ++ crlf ++ rest) = Some (n, rest).
Proof.
  unfold parse_num. rewrite parse_num_aux_digits by apply dec_digits.
  rewrite dec_val. pose proof (dec_nonempty n) as Hne.
  destruct (dec n) as [|d ds]; [congruence|]. reflexivity.
Qed.

Lemma take_exact_app (s r : bytes) : take_exact (length s) (s ++ r) = Some (s, r).
Proof. induction s as [|b s IH]; cbn [length take_exact app]; [reflexivity|now rewrite IH]. Qed.

Lemma parse_bulk_write_b s rest : parse_bulk (write_b 36 s ++ rest) = Some (s, rest).
Proof.
  unfold write_b, write_n, parse_bulk. cbn [app].
  rewrite <- !app_assoc. rewrite parse_num_dec.
  unfold blen. rewrite Nat2N.id. rewrite take_exact_app. reflexivity.
Qed.

Lemma parse_bulks_write : forall argv rest,
  parse_bulks (length argv) (flat_map (write_b 36) argv ++ rest) = Some (argv, rest).
Proof.
  induction argv as [|a argv IH]; intros rest; cbn [length parse_bulks flat_map]; [reflexivity|].
  rewrite <- app_assoc, parse_bulk_write_b, IH. reflexivity.
Qed.

Lemma parse_cmd_write_cmd argv rest : parse_cmd (write_cmd argv ++ rest) = Some (argv, rest).
Proof.
  unfold write_cmd, write_n, parse_cmd. cbn [app].
  rewrite <- !app_assoc. rewrite parse_num_dec. rewrite Nat2N.id. apply parse_bulks_write.
Qed.

Lemma write_cmd_nonempty argv : exists b r, write_cmd argv = b :: r.
Proof. unfold write_cmd, write_n. cbn [app]. eauto. Qed.

Lemma parse_cmds_concat : forall cs fuel, (length cs < fuel)%nat ->
  parse_cmds fuel (concat (map write_cmd cs)) = Some cs.
Proof.
  induction cs as [|c cs IH]; intros fuel Hf.
  - destruct fuel; reflexivity.
  - destruct fuel as [|f]; [cbn in Hf; lia|].
    cbn [map concat].
    destruct (write_cmd_nonempty c) as (b & r & E).
    remember (write_cmd c ++ concat (map write_cmd cs)) as l eqn:El.
    assert (Hl : exists b' r', l = b' :: r') by (subst l; rewrite E; cbn; eauto).
    destruct Hl as (b' & r' & El'). rewrite El'. cbn [parse_cmds]. rewrite <- El', El.
    rewrite parse_cmd_write_cmd. rewrite IH by (cbn in Hf; lia). reflexivity.
Qed.

Lemma write_cmd_length_pos argv : (1 <= length (write_cmd argv))%nat.
Proof. destruct (write_cmd_nonempty argv) as (b & r & E). rewrite E. cbn. lia. Qed.

Lemma concat_write_length cs : (length cs <= length (concat (map write_cmd cs)))%nat.
Proof.
  induction cs as [|c cs IH]; cbn [map concat length]; [lia|].
  rewrite app_length. pose proof (write_cmd_length_pos c). lia.
Qed.

Lemma parse_stream_concat cs : parse_stream (concat (map write_cmd cs)) = Some cs.
Proof. unfold parse_stream. apply parse_cmds_concat. pose proof (concat_write_length cs). lia. Qed.

(** consequences: the encoding is injective and prefix-free (a frame never swallows or lends bytes) *)
Lemma write_cmd_prefix_free a b ra rb : write_cmd a ++ ra = write_cmd b ++ rb -> a = b /\ ra = rb.
Proof.
  intros E. pose proof (parse_cmd_write_cmd a ra) as Ha. rewrite E, parse_cmd_write_cmd in Ha.
  inversion Ha. auto.
Qed.

Lemma write_cmd_injective a b : write_cmd a = write_cmd b -> a = b.
Proof.
  intros E. apply (write_cmd_prefix_free a b [] []). now rewrite E.
Qed.

(** exact size of a frame: header digits + per argument header, payload and CRLF *)
Lemma write_cmd_length argv :
  length (write_cmd argv) =
  (3 + length (dec (N.of_nat (length argv))) +
   fold_right (fun a acc => 5 + length (dec (blen a)) + length a + acc) 0 argv)%nat.
Proof.
  unfold write_cmd, write_n. cbn [app length]. rewrite !app_length. cbn [crlf length].
  assert (H : length (flat_map (write_b 36) argv) =
              fold_right (fun a acc => 5 + length (dec (blen a)) + length a + acc)%nat 0%nat argv).
  { induction argv as [|a argv IH]; cbn [flat_map fold_right length]; [reflexivity|].
    rewrite app_length, IH. unfold write_b, write_n. cbn [app length]. rewrite !app_length. cbn [crlf length]. lia. }
  rewrite H. lia.
Qed.
