(** streamTo on streamed strings ($?\r\n ;n\r\n…\r\n … ;0\r\n): every chunk is copied to the writer. *)
From Coq Require Import List Arith NArith ZArith Bool Lia ZifyN ZifyNat ZifyBool.
Require Import RV.Model.Base RV.Model.RespWrite RV.Model.RespStream.
Require Import RV.Proofs.BinaryProofs RV.Proofs.RespIOProofs RV.Proofs.RespScalarProofs RV.Proofs.RespRoundtrip
               RV.Proofs.RespStreamProofs RV.Proofs.RespStreamCounted RV.Proofs.RespBaseProofs.
Import ListNotations.
Open Scope N_scope.

Section Chunks.
Variable B : nat.
Hypothesis HB : (32 <= B)%nat.

(** a writer that never fails *)
Definition unlimited (w : wstate) : Prop := w_budget w = None.

Lemma unlimited_write w d : unlimited w ->
  accepted w d = d /\ w_failed (snd (w_write w d)) = false /\ unlimited (snd (w_write w d)) /\
  w_out (snd (w_write w d)) = w_out w ++ d.
Proof. unfold unlimited, accepted, w_write. intros ->. cbn. auto. Qed.

(** a non-empty counted payload after any of the type bytes $ = ; *)
Lemma runw_stream_payload f t s rest w : k_stream_blob t = true -> s <> [] -> (zlen s + 2 < two63)%Z ->
  runw B (stream_to (S f)) (t :: dec (blen s) ++ crlf ++ s ++ crlf ++ rest) w =
    ((zlen (accepted w s), (if w_failed (snd (w_write w s)) then SErr eWriter else SNone), true), rest, snd (w_write w s)).
Proof.
  intros Hk Hne Hlen.
  rewrite runw_stream_cons_blob by assumption.
  assert (Hb : (Z.of_N (blen s) < two63)%Z) by (unfold blen, zlen in *; lia).
  rewrite (runw_bind_eq B _ _ _ _ _ _ _ (runw_read_i_nat B (blen s) _ w HB Hb)).
  replace (Z.of_N (blen s)) with (zlen s) by (unfold blen, zlen; lia).
  unfold stream_blob.
  destruct (Z.eqb_spec (zlen s) (-1)) as [Hx|_]; [unfold zlen in Hx; lia|].
  destruct (Z.eqb_spec (zlen s) 0) as [Hx|_]; [destruct s; [congruence|unfold zlen in Hx; cbn [length] in Hx; lia]|].
  cbn [negb].
  replace (Z.to_N (zlen s)) with (blen s) by (unfold blen, zlen; lia).
  rewrite (runw_bind_eq B _ _ _ _ _ _ _ (runw_copy_out B s (crlf ++ rest) w Hne)).
  set (w' := snd (w_write w s)). set (d := accepted w s).
  rewrite (runw_bind_eq B _ _ _ _ _ _ _ (runw_writer_err B _ w')).
  pose proof (accepted_len w s) as Hd. fold d in Hd.
  rewrite (wrap64_small_z (zlen s - zlen d + 2)) by (unfold zlen, two63 in *; lia).
  assert (Edis : runw B (do_op (ODiscard (zlen s - zlen d + 2))) (skipn (length d) s ++ crlf ++ rest) w' = (Ok [], rest, w')).
  { rewrite app_assoc. apply runw_discard. rewrite app_length, skipn_length. cbn [crlf length]. unfold zlen. lia. }
  rewrite (runw_bind_eq B _ _ _ _ _ _ _ Edis).
  destruct (w_failed w'); reflexivity.
Qed.

(** the end marker ;0\r\n *)
Lemma runw_stream_end f rest w :
  runw B (stream_to (S f)) ([tChunk; 48] ++ crlf ++ rest) w = ((0%Z, SNone, true), rest, w).
Proof.
  change ([tChunk; 48] ++ crlf ++ rest) with (tChunk :: dec 0 ++ crlf ++ rest).
  rewrite runw_stream_cons_blob by reflexivity.
  rewrite (runw_bind_eq B _ _ _ _ _ _ _ (runw_read_i_nat B 0 _ w HB eq_refl)).
  reflexivity.
Qed.

Definition chunks_ok (cs : list bytes) : Prop := forallb (fun c => nonempty c && len_ok c) cs = true.

(** the loop over the remaining chunks, after a chunk of nn > 0 bytes *)
Lemma runw_stream_chunks : forall cs g n nn rest w,
  chunks_ok cs -> unlimited w -> (length cs + 2 <= g)%nat -> (nn <> 0)%Z ->
  exists w',
    runw B (stream_chunks g n nn SNone true) (flat_map enc_chunk cs ++ [tChunk; 48] ++ crlf ++ rest) w =
      (((n + nn + zlen (concat cs))%Z, SNone, true), rest, w') /\
    unlimited w' /\ w_out w' = w_out w ++ concat cs.
Proof.
  induction cs as [|c cs IH]; intros g n nn rest w Hcs Hw Hg Hnn.
  - destruct g as [|[|g]]; try (cbn in Hg; lia).
    rewrite stream_chunks_S. cbv zeta.
    destruct (Z.eqb_spec nn 0) as [Hx|_]; [contradiction|]. cbn [negb andb flat_map app].
    rewrite (runw_bind_eq B _ _ _ _ _ _ _ (runw_stream_end g rest w)).
    rewrite stream_chunks_S. cbn [Z.eqb negb andb runw concat]. exists w.
    change (zlen (@nil N)) with 0%Z. rewrite app_nil_r, !Z.add_0_r. auto.
  - destruct g as [|g]; [cbn in Hg; lia|]. cbn [length] in Hg.
    unfold chunks_ok in Hcs. cbn [forallb] in Hcs. apply andb_true_iff in Hcs as [Hc Hcs].
    apply andb_true_iff in Hc as [Hne Hlen].
    rewrite stream_chunks_S. cbv zeta.
    destruct (Z.eqb_spec nn 0) as [Hx|_]; [contradiction|]. cbn [negb andb flat_map].
    assert (Hcne : c <> []) by (destruct c; [discriminate|congruence]).
    assert (Hcl : (zlen c + 2 < two63)%Z) by (unfold len_ok in Hlen; lia).
    destruct g as [|g]; [lia|].
    unfold enc_chunk at 1. rewrite <- !app_assoc. cbn [app]. rewrite <- !app_assoc.
    rewrite (runw_bind_eq B _ _ _ _ _ _ _ (runw_stream_payload g tChunk c _ w eq_refl Hcne Hcl)).
    destruct (unlimited_write w c Hw) as (Ea & Ef & Hw' & Eo). rewrite Ea, Ef. cbv beta iota.
    assert (Hc0 : (zlen c <> 0)%Z) by (destruct c; [congruence|unfold zlen; cbn [length]; lia]).
    destruct (IH (S g) (n + nn)%Z (zlen c) rest (snd (w_write w c)) Hcs Hw' ltac:(lia) Hc0) as (w2 & E2 & Hw2 & Eo2).
    exists w2. change (tChunk :: 48 :: crlf ++ rest) with ([tChunk; 48] ++ crlf ++ rest). rewrite E2. split; [|split; [assumption|]].
    + cbn [concat]. rewrite zlen_app_b. repeat (f_equal; try lia).
    + rewrite Eo2, Eo. cbn [concat]. now rewrite app_assoc.
Qed.

Theorem stream_streamed f t cs rest w :
  (t = tBlobString \/ t = tVerbatim) -> chunks_ok cs -> unlimited w -> (length cs + 1 <= f)%nat ->
  exists w',
    runw B (stream_to (S f)) (enc (VBlobStream t cs) ++ rest) w = ((zlen (concat cs), SNone, true), rest, w') /\
    w_out w' = w_out w ++ concat cs.
Proof.
  intros Ht Hcs Hw Hf.
  assert (Hk : k_stream_blob t = true) by (destruct Ht; subst; reflexivity).
  assert (Es : enc (VBlobStream t cs) ++ rest =
               t :: [63] ++ crlf ++ flat_map enc_chunk cs ++ [tChunk; 48] ++ crlf ++ rest).
  { cbn [enc]. unfold enc_chunk. cbn [app]. rewrite <- ?app_assoc. cbn [app]. rewrite <- ?app_assoc. reflexivity. }
  rewrite Es, runw_stream_cons_blob by assumption.
  rewrite (runw_bind_eq B _ _ _ _ _ _ _ (runw_read_i_chunked B _ w HB)).
  change (eChunked =? eChunked) with true. cbv iota.
  destruct cs as [|c cs].
  - destruct f as [|f]; [cbn in Hf; lia|]. cbn [flat_map app].
    rewrite (runw_bind_eq B _ _ _ _ _ _ _ (runw_stream_end f rest w)).
    rewrite stream_chunks_S. cbn [Z.eqb negb andb runw concat]. exists w.
    change (zlen (@nil N)) with 0%Z. rewrite app_nil_r. auto.
  - cbn [length] in Hf. destruct f as [|f]; [lia|].
    unfold chunks_ok in Hcs. cbn [forallb] in Hcs. apply andb_true_iff in Hcs as [Hc Hcs].
    apply andb_true_iff in Hc as [Hne Hlen].
    assert (Hcne : c <> []) by (destruct c; [discriminate|congruence]).
    assert (Hcl : (zlen c + 2 < two63)%Z) by (unfold len_ok in Hlen; lia).
    cbn [flat_map]. unfold enc_chunk at 1. rewrite <- !app_assoc. cbn [app]. rewrite <- !app_assoc.
    rewrite (runw_bind_eq B _ _ _ _ _ _ _ (runw_stream_payload f tChunk c _ w eq_refl Hcne Hcl)).
    destruct (unlimited_write w c Hw) as (Ea & Ef & Hw' & Eo). rewrite Ea, Ef. cbv beta iota.
    assert (Hc0 : (zlen c <> 0)%Z) by (destruct c; [congruence|unfold zlen; cbn [length]; lia]).
    destruct (runw_stream_chunks cs (S f) 0%Z (zlen c) rest (snd (w_write w c)) Hcs Hw' ltac:(lia) Hc0) as (w2 & E2 & Hw2 & Eo2).
    exists w2. change (tChunk :: 48 :: crlf ++ rest) with ([tChunk; 48] ++ crlf ++ rest). rewrite E2. split.
    + cbn [concat]. rewrite zlen_app_b. repeat (f_equal; try lia).
    + rewrite Eo2, Eo. cbn [concat]. now rewrite app_assoc.
Qed.

End Chunks.
