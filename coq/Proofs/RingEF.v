(** Ring LTS: from every reachable state there is a finite continuation, without new tickets, after which
    every ticket holder's command has been written and completed (AG EF).  A lost wake-up or a lock cycle
    would falsify it.  Fair termination under a real scheduler is a different statement and is not claimed. *)
From Coq Require Import List NArith ZArith Bool Arith Lia Wf_nat.
Require Import RV.Model.Base RV.Model.Ring RV.Proofs.RingBase RV.Proofs.RingInv RV.Proofs.RingInv2
               RV.Proofs.RingTheorems RV.Proofs.RingProgress.
Import ListNotations.
Local Open Scope nat_scope.

Ltac rst := cbn [write read1 read2 slots wpc rpc nw n1 n2 wseq rseq recv
                 set_slots set_slot set_counts set_wpc set_rpc add_recv
                 mark payload pm c_one c_multi c_resps slept rlock tk parked1 woken1 bc wt wparked wwoken fillseq
                 sl_lists sl_fill sl_mark sl_clear sl_writer sl_rlock] in *.

Fixpoint sumf (f : nat -> nat) (n : nat) : nat := match n with O => 0 | S m => sumf f m + f m end.

Lemma sumf_ext : forall f g n, (forall j, j < n -> f j = g j) -> sumf f n = sumf g n.
Proof.
  intros f g n. induction n as [|n IH]; intro H; [reflexivity|]. cbn [sumf]. rewrite IH, (H n) by (intros; auto with arith). reflexivity.
Qed.

Lemma sumf_upd : forall f g n s, s < n -> (forall j, j <> s -> g j = f j) -> sumf g n + f s = sumf f n + g s.
Proof.
  intros f g n s. induction n as [|n IH]; intros Hs H; [lia|]. cbn [sumf].
  destruct (Nat.eq_dec s n) as [E|E].
  - rewrite (sumf_ext g f n) by (intros j Hj; apply H; lia). rewrite E. lia.
  - rewrite (H n) by congruence. assert (s < n) by lia. specialize (IH H0 H). lia.
Qed.

Lemma sumf_le : forall f g n, (forall j, j < n -> f j <= g j) -> sumf f n <= sumf g n.
Proof.
  intros f g n. induction n as [|n IH]; intro H; [cbn [sumf]; lia|]. cbn [sumf].
  assert (f n <= g n) by (apply H; lia). assert (sumf f n <= sumf g n) by (apply IH; intros; apply H; lia). lia.
Qed.

Section EF.
Variable k : nat.
Variable start : N.
Notation sof := (sof k start).
Notation cntpos := (cntpos k start).
Notation NS := (2 ^ k).

Lemma sum_cntpos : forall m, sumf (cntpos m) NS = m.
Proof.
  induction m as [|m IH].
  - assert (H : sumf (cntpos 0) NS = sumf (fun _ => 0) NS) by (apply sumf_ext; reflexivity).
    rewrite H. clear. induction NS as [|n IH]; cbn [sumf]; lia.
  - pose proof (sumf_upd (cntpos m) (cntpos (S m)) NS (sof (S m)) (sof_lt k start (S m))) as H.
    rewrite cntpos_succ_same in H. specialize (H ltac:(intros j Hj; apply cntpos_succ_other; exact Hj)). lia.
Qed.

(** slots outside the ring are never touched *)
Definition Out (st : state) : Prop := forall s, NS <= s -> slots st s = slot0.

Lemma out_upd : forall st s v, Out st -> s < NS -> forall s', NS <= s' -> upd (slots st) s v s' = slot0.
Proof. intros st s v H Hs s' Hs'. rewrite upd_other by lia. apply H. exact Hs'. Qed.

Lemma out_step : forall st l st', Out st -> lstep k st l = Some st' -> Out st'.
Proof.
  intros st l st' H Hl. destruct l; cbn [lstep] in Hl.
  - apply some_inj in Hl. subst st'. intros s' Hs'. rst. apply out_upd; [exact H|apply idx_lt|exact Hs'].
  - destruct (negb (rlock (slots st s)) && (memb p (tk (slots st s)) || memb p (woken1 (slots st s)))) eqn:G; [|discriminate].
    assert (Hs : s < NS).
    { destruct (le_lt_dec NS s) as [L|L]; [|exact L]. rewrite (H s L) in G. cbn in G. discriminate. }
    destruct (Nat.eqb _ 0); apply some_inj in Hl; subst st'; intros s' Hs'; rst; apply out_upd; assumption.
  - destruct (memb p (bc (slots st s))) eqn:G; [|discriminate].
    assert (Hs : s < NS).
    { destruct (le_lt_dec NS s) as [L|L]; [|exact L]. rewrite (H s L) in G. cbn in G. discriminate. }
    apply some_inj in Hl; subst st'; intros s' Hs'; rst; apply out_upd; assumption.
  - destruct (wpc st); [|discriminate]. destruct (rlock _); [discriminate|].
    match type of Hl with context [writer_take ?a ?b ?c] => destruct (writer_take a b c) as [st1|] eqn:T end;
      apply some_inj in Hl; subst st'; [|exact H].
    apply writer_take_some in T. destruct T as [_ T]. subst st1. intros s' Hs'. rst. apply out_upd; [exact H|apply idx_lt|exact Hs'].
  - destruct (wpc st); [|discriminate]. destruct (rlock _); [discriminate|].
    match type of Hl with context [writer_take ?a ?b ?c] => destruct (writer_take a b c) as [st1|] eqn:T end;
      apply some_inj in Hl; subst st'.
    + apply writer_take_some in T. destruct T as [_ T]. subst st1. intros s' Hs'. rst. apply out_upd; [exact H|apply idx_lt|exact Hs'].
    + intros s' Hs'. rst. apply out_upd; [exact H|apply idx_lt|exact Hs'].
  - destruct (wpc st) as [|s] eqn:Hw; [discriminate|].
    destruct (wwoken (slots st s) && negb (rlock (slots st s))) eqn:G; [|discriminate].
    assert (Hs : s < NS).
    { destruct (le_lt_dec NS s) as [L|L]; [|exact L]. rewrite (H s L) in G. cbn in G. discriminate. }
    match type of Hl with context [writer_take ?a ?b ?c] => destruct (writer_take a b c) as [st1|] eqn:T end;
      apply some_inj in Hl; subst st'.
    + apply writer_take_some in T. destruct T as [_ T]. subst st1. intros s' Hs'. rst. rewrite !upd_other by lia. apply H. exact Hs'.
    + intros s' Hs'. rst. rewrite !upd_other by lia. apply H. exact Hs'.
  - destruct (rpc st); try discriminate. destruct (rlock _); [discriminate|].
    destruct (Nat.eqb _ 2); apply some_inj in Hl; subst st'; intros s' Hs'; rst; (apply out_upd; [exact H|apply idx_lt|exact Hs']).
  - destruct (rpc st) as [|s [i|]|] eqn:Hrp; try discriminate. destruct (memb p (wt (slots st s))) eqn:G; [|discriminate].
    assert (Hs : s < NS).
    { destruct (le_lt_dec NS s) as [L|L]; [|exact L]. rewrite (H s L) in G. cbn in G. discriminate. }
    apply some_inj in Hl; subst st'; intros s' Hs'; rst; apply out_upd; assumption.
  - destruct (rpc st) as [|s [i|]|] eqn:Hrp; try discriminate. apply some_inj in Hl. subst st'.
    intros s' Hs'. rst. destruct (Nat.eq_dec s' s) as [E|E].
    + subst s'. rewrite upd_same. rewrite (H s Hs'). reflexivity.
    + rewrite upd_other by exact E. apply H. exact Hs'.
  - destruct (rpc st) as [| |s] eqn:Hrp; try discriminate. destruct o as [p|].
    + destruct (memb p (parked1 (slots st s))) eqn:G; [|discriminate].
      assert (Hs : s < NS).
      { destruct (le_lt_dec NS s) as [L|L]; [|exact L]. rewrite (H s L) in G. cbn in G. discriminate. }
      apply some_inj in Hl; subst st'; intros s' Hs'; rst; apply out_upd; assumption.
    + destruct (is_nil _); [|discriminate]. apply some_inj in Hl. subst st'. exact H.
  - destruct (wpc st); [|discriminate]. apply some_inj in Hl. subst st'. exact H.
Qed.

Lemma out_reachable : forall st, reachable k start st -> Out st.
Proof.
  intros st Hr. eapply reachable_ind; [| |exact Hr].
  - intros s _. reflexivity.
  - intros s0 l s1 H Hl. eapply out_step; eassumption.
Qed.

Definition nfill (st : state) : nat := sumf (fun s => length (fillseq (slots st s))) NS.
Definition nbc (st : state) : nat := sumf (fun s => length (bc (slots st s))) NS.
Definition rph (st : state) : nat :=
  match rpc st with RIdle => 0 | RSig _ => 1 | RHold _ None => 2 | RHold _ (Some _) => 3 end.

Definition measure (st : state) : nat :=
  10 * (nw st - nfill st) + 10 * (nw st - n1 st) + 10 * (nw st - n2 st) + nbc st + rph st.

Lemma bounds : forall st, reachable k start st -> n2 st <= n1 st /\ n1 st <= nfill st /\ nfill st <= nw st.
Proof.
  intros st Hr. destruct (inv_reachable _ _ _ Hr) as [A T _]. split; [apply (a_le _ _ _ A)|]. split.
  - rewrite <- (sum_cntpos (n1 st)). apply sumf_le. intros s _.
    pose proof (a_ci _ _ _ A s) as Hci. unfold CI in Hci. cbv zeta in Hci.
    destruct Hci as [(_ & _ & C3 & _)|[(_ & _ & C3 & _)|(_ & _ & C3 & _)]]; lia.
  - rewrite <- (sum_cntpos (nw st)). apply sumf_le. intros s _.
    rewrite (t_tk _ _ _ T s). unfold pend. lia.
Qed.

(** a step that touches the lists of one slot only *)
Lemma nfill_upd : forall st st' s, s < NS -> (forall s', s' <> s -> slots st' s' = slots st s') ->
  nfill st' + length (fillseq (slots st s)) = nfill st + length (fillseq (slots st' s)) /\
  nbc st' + length (bc (slots st s)) = nbc st + length (bc (slots st' s)).
Proof.
  intros st st' s Hs H. unfold nfill, nbc. split.
  - apply (sumf_upd (fun j => length (fillseq (slots st j))) (fun j => length (fillseq (slots st' j))) NS s Hs).
    intros j Hj. rewrite (H j Hj). reflexivity.
  - apply (sumf_upd (fun j => length (bc (slots st j))) (fun j => length (bc (slots st' j))) NS s Hs).
    intros j Hj. rewrite (H j Hj). reflexivity.
Qed.

Lemma same_lists : forall st st', (forall s, fillseq (slots st' s) = fillseq (slots st s) /\ bc (slots st' s) = bc (slots st s)) ->
  nfill st' = nfill st /\ nbc st' = nbc st.
Proof.
  intros st st' H. unfold nfill, nbc. split; apply sumf_ext; intros j _; destruct (H j) as [A B]; rewrite ?A, ?B; reflexivity.
Qed.

Lemma same_lists_upd : forall st s v st', fillseq v = fillseq (slots st s) -> bc v = bc (slots st s) ->
  (forall s', slots st' s' = upd (slots st) s v s') -> nfill st' = nfill st /\ nbc st' = nbc st.
Proof.
  intros st s v st' H1 H2 H. apply same_lists. intro s'. rewrite H. destruct (Nat.eq_dec s' s) as [E|E].
  - subst s'. rewrite upd_same. auto.
  - rewrite upd_other by exact E. auto.
Qed.

Lemma upd_others : forall st s v, forall s', s' <> s -> slots (set_slot st s v) s' = slots st s'.
Proof. intros. apply slots_set_slot_other. assumption. Qed.

Theorem progress_decreases : forall st l st', reachable k start st -> lstep k st l = Some st' -> progress st l st' ->
  measure st' < measure st /\ nw st' = nw st.
Proof.
  intros st l st' Hr Hl Hp.
  assert (Hr' : reachable k start st').
  { destruct Hr as [sch Hs]. exists (sch ++ [l]). rewrite run_app, Hs. cbn [run]. rewrite Hl. reflexivity. }
  destruct (bounds st Hr) as (B1 & B2 & B3). destruct (bounds st' Hr') as (B1' & B2' & B3').
  pose proof (out_reachable st Hr) as HO. destruct (inv_reachable _ _ _ Hr) as [A T W].
  unfold measure. destruct l; cbn [progress] in Hp; cbn [lstep] in Hl.
  - contradiction.
  - (* PutLock: a fill *)
    destruct (negb (rlock (slots st s)) && (memb p (tk (slots st s)) || memb p (woken1 (slots st s)))) eqn:G; [|discriminate].
    assert (Hs : s < NS).
    { destruct (le_lt_dec NS s) as [L|L]; [|exact L]. rewrite (HO s L) in G. cbn in G. discriminate. }
    assert (Hsl : forall s', s' <> s -> slots st' s' = slots st s').
    { destruct (Nat.eqb _ 0); apply some_inj in Hl; subst st'; intros s' E; apply upd_others; exact E. }
    assert (Hc : nw st' = nw st /\ n1 st' = n1 st /\ n2 st' = n2 st /\ rpc st' = rpc st /\
                 length (bc (slots st' s)) <= S (length (bc (slots st s)))).
    { set (x := slots st s) in *.
      remember (if memb p (tk x) then sl_lists x (remove1 p (tk x)) (parked1 x) (woken1 x) (bc x) (wt x)
                else sl_lists x (tk x) (parked1 x) (remove1 p (woken1 x)) (bc x) (wt x)) as x1 eqn:Ex1.
      assert (X1 : bc x1 = bc x) by (subst x1; destruct (memb p (tk x)); reflexivity). clear Ex1.
      destruct (Nat.eqb (mark x1) 0); apply some_inj in Hl; subst st'; rst; rewrite upd_same.
      - destruct (slept x1); rst; rewrite X1, ?app_length; cbn [length]; repeat split; lia.
      - rst. rewrite X1. repeat split; lia. }
    destruct Hc as (C1 & C2 & C3 & C4 & C5). destruct (nfill_upd st st' s Hs Hsl) as [F1 F2].
    unfold rph. rewrite C1, C2, C3, C4 in *. split; [lia|reflexivity].
  - (* PutBcast *)
    destruct (memb p (bc (slots st s))) eqn:G; [|discriminate].
    assert (Hs : s < NS).
    { destruct (le_lt_dec NS s) as [L|L]; [|exact L]. rewrite (HO s L) in G. cbn in G. discriminate. }
    pose proof (remove1_length _ _ G) as HL. apply some_inj in Hl. subst st'.
    match goal with |- context [set_slot st s ?v] => remember v as vv eqn:Ev end.
    assert (V : fillseq vv = fillseq (slots st s) /\ length (bc vv) = length (remove1 p (bc (slots st s)))).
    { subst vv. rst. destruct (wparked (slots st s)); rst; split; reflexivity. }
    destruct V as [V1 V2]. clear Ev.
    destruct (nfill_upd st (set_slot st s vv) s Hs (upd_others st s vv)) as [F1 F2].
    rewrite slots_set_slot_same in F1, F2. rewrite V1 in F1. rewrite V2 in F2. unfold rph. rst. split; [lia|reflexivity].
  - (* WNext *)
    destruct (wpc st); [|discriminate]. destruct (rlock _); [discriminate|].
    match type of Hl with context [writer_take ?a ?b ?c] => destruct (writer_take a b c) as [st1|] eqn:Tk end;
      apply some_inj in Hl; subst st'; [|lia].
    apply writer_take_some in Tk. destruct Tk as [_ Tk]. subst st1.
    match goal with |- context [set_slot st ?ss ?vv] =>
      match goal with |- context [nfill ?x] => destruct (same_lists_upd st ss vv x) as [F1 F2]; [reflexivity|reflexivity|intro; reflexivity|] end end.
    rst. unfold rph in *. rst. rewrite F1, F2 in *. split; [lia|reflexivity].
  - (* WWaitEnter *)
    destruct (wpc st); [|discriminate]. destruct (rlock _); [discriminate|].
    match type of Hl with context [writer_take ?a ?b ?c] => destruct (writer_take a b c) as [st1|] eqn:Tk end;
      apply some_inj in Hl; subst st'; [|rst; lia].
    apply writer_take_some in Tk. destruct Tk as [_ Tk]. subst st1.
    match goal with |- context [set_slot st ?ss ?vv] =>
      match goal with |- context [nfill ?x] => destruct (same_lists_upd st ss vv x) as [F1 F2]; [reflexivity|reflexivity|intro; reflexivity|] end end.
    rst. unfold rph in *. rst. rewrite F1, F2 in *. split; [lia|reflexivity].
  - (* WWaitRetry *)
    destruct (wpc st) as [|s]; [discriminate|]. destruct (wwoken (slots st s) && negb (rlock (slots st s))); [|discriminate].
    match type of Hl with context [writer_take ?a ?b ?c] => destruct (writer_take a b c) as [st1|] eqn:Tk end;
      apply some_inj in Hl; subst st'; [|rst; lia].
    apply writer_take_some in Tk. destruct Tk as [_ Tk]. subst st1.
    match goal with |- context [nfill ?x] => destruct (same_lists st x) as [F1 F2] end.
    { intro s0. rst. destruct (Nat.eq_dec s0 s) as [E|E]; [subst s0; rewrite !upd_same|rewrite !upd_other by exact E]; rst; split; reflexivity. }
    rst. unfold rph in *. rst. rewrite F1, F2 in *. split; [lia|reflexivity].
  - (* RNext *)
    destruct (rpc st) eqn:Hrp; try discriminate. destruct (rlock _); [discriminate|].
    destruct (Nat.eqb _ 2); apply some_inj in Hl; subst st'; [|rst; lia].
    match goal with |- context [set_slot st ?ss ?vv] =>
      match goal with |- context [nfill ?x] => destruct (same_lists_upd st ss vv x) as [F1 F2]; [reflexivity|reflexivity|intro; reflexivity|] end end.
    rst. unfold rph in *. rst. rewrite Hrp, F1, F2 in *. split; [lia|reflexivity].
  - (* RDeliver *)
    destruct (rpc st) as [|s [i|]|] eqn:Hrp; try discriminate. destruct (memb p (wt (slots st s))); [|discriminate].
    apply some_inj in Hl. subst st'.
    match goal with |- context [nfill ?x] => destruct (same_lists st x) as [F1 F2] end.
    { intro s0. rst. destruct (Nat.eq_dec s0 s) as [E|E]; [subst s0; rewrite upd_same|rewrite upd_other by exact E]; rst; split; reflexivity. }
    rst. unfold rph in *. rst. rewrite Hrp, F1, F2 in *. split; [lia|reflexivity].
  - (* RUnlock *)
    destruct (rpc st) as [|s [i|]|] eqn:Hrp; try discriminate. apply some_inj in Hl. subst st'.
    match goal with |- context [nfill ?x] => destruct (same_lists st x) as [F1 F2] end.
    { intro s0. rst. destruct (Nat.eq_dec s0 s) as [E|E]; [subst s0; rewrite upd_same|rewrite upd_other by exact E]; rst; split; reflexivity. }
    rst. unfold rph in *. rst. rewrite Hrp, F1, F2 in *. split; [lia|reflexivity].
  - (* RSignal *)
    destruct (rpc st) as [| |s] eqn:Hrp; try discriminate. destruct o as [p|].
    + destruct (memb p (parked1 (slots st s))); [|discriminate]. apply some_inj in Hl. subst st'.
      match goal with |- context [nfill ?x] => destruct (same_lists st x) as [F1 F2] end.
      { intro s0. rst. destruct (Nat.eq_dec s0 s) as [E|E]; [subst s0; rewrite upd_same|rewrite upd_other by exact E]; rst; split; reflexivity. }
      rst. unfold rph in *. rst. rewrite Hrp, F1, F2 in *. split; [lia|reflexivity].
    + destruct (is_nil _); [|discriminate]. apply some_inj in Hl. subst st'.
      destruct (same_lists st (set_rpc st RIdle) ltac:(intro s0; rst; split; reflexivity)) as [F1 F2].
      rst. unfold rph in *. rst. rewrite Hrp, F1, F2 in *. split; [lia|reflexivity].
  - contradiction.
Qed.

Definition no_ticket (l : label) : bool := match l with PutTicket => false | _ => true end.

Theorem ring_all_answered_EF : forall st, reachable k start st ->
  exists sch st', run k sch st = Some st' /\ forallb no_ticket sch = true /\
                  nw st' = nw st /\ n2 st' = nw st' /\ n1 st' = nw st' /\ rpc st' = RIdle.
Proof.
  intros st. remember (measure st) as m eqn:Hm. revert st Hm.
  induction m as [m IH] using lt_wf_ind. intros st Hm Hr.
  destruct (bounds st Hr) as (B1 & B2 & B3).
  destruct (Nat.eq_dec (n2 st) (nw st)) as [E|E].
  - destruct (rpc st) eqn:Hrp.
    + exists [], st. cbn [run forallb]. repeat split; try reflexivity; try lia; assumption.
    + destruct (ring_not_stuck k start st Hr ltac:(right; congruence)) as (l & st' & Hl & Hp).
      destruct (progress_decreases st l st' Hr Hl Hp) as [Hd Hn].
      assert (Hr' : reachable k start st').
      { destruct Hr as [sch Hs]. exists (sch ++ [l]). rewrite run_app, Hs. cbn [run]. rewrite Hl. reflexivity. }
      destruct (IH (measure st') ltac:(lia) st' eq_refl Hr') as (sch & st'' & R1 & R2 & R3 & R4 & R5 & R6).
      exists (l :: sch), st''. cbn [run forallb]. rewrite Hl. repeat split; try assumption; try lia.
      rewrite R2. destruct l; try reflexivity. cbn [progress] in Hp. contradiction.
    + destruct (ring_not_stuck k start st Hr ltac:(right; congruence)) as (l & st' & Hl & Hp).
      destruct (progress_decreases st l st' Hr Hl Hp) as [Hd Hn].
      assert (Hr' : reachable k start st').
      { destruct Hr as [sch Hs]. exists (sch ++ [l]). rewrite run_app, Hs. cbn [run]. rewrite Hl. reflexivity. }
      destruct (IH (measure st') ltac:(lia) st' eq_refl Hr') as (sch & st'' & R1 & R2 & R3 & R4 & R5 & R6).
      exists (l :: sch), st''. cbn [run forallb]. rewrite Hl. repeat split; try assumption; try lia.
      rewrite R2. destruct l; try reflexivity. cbn [progress] in Hp. contradiction.
  - destruct (ring_not_stuck k start st Hr ltac:(left; lia)) as (l & st' & Hl & Hp).
    destruct (progress_decreases st l st' Hr Hl Hp) as [Hd Hn].
    assert (Hr' : reachable k start st').
    { destruct Hr as [sch Hs]. exists (sch ++ [l]). rewrite run_app, Hs. cbn [run]. rewrite Hl. reflexivity. }
    destruct (IH (measure st') ltac:(lia) st' eq_refl Hr') as (sch & st'' & R1 & R2 & R3 & R4 & R5 & R6).
    exists (l :: sch), st''. cbn [run forallb]. rewrite Hl. repeat split; try assumption; try lia.
    rewrite R2. destruct l; try reflexivity. cbn [progress] in Hp. contradiction.
Qed.

End EF.
