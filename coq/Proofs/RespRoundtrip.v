(** C12: decoding the specification's encoding of any well-formed value tree, for every per-node
    encoding choice, yields exactly [abs v] and leaves the rest of the stream untouched.
    Induction over value trees (nested lists), no bound on size, depth or payload. *)
From Coq Require Import List Arith NArith ZArith Bool Lia ZifyN ZifyNat ZifyBool.
Require Import RV.Model.Base RV.Model.RespWrite RV.Model.Resp.
Require Import RV.Proofs.BinaryProofs RV.Proofs.RespWriteProofs RV.Proofs.RespIOProofs RV.Proofs.RespBaseProofs
               RV.Proofs.RespScalarProofs.
Import ListNotations.
Open Scope N_scope.

(** * induction over value trees *)
Section RvInd.
  Variable P : rv -> Prop.
  Hypothesis HBlob : forall t s, P (VBlob t s).
  Hypothesis HBlobStream : forall t cs, P (VBlobStream t cs).
  Hypothesis HLine : forall t s, P (VLine t s).
  Hypothesis HInt : forall i, P (VInt i).
  Hypothesis HBool : forall b, P (VBool b).
  Hypothesis HNull : forall t, P (VNull t).
  Hypothesis HAgg : forall t st l, Forall P l -> P (VAgg t st l).
  Hypothesis HAttr : forall kvs st v, Forall P kvs -> P v -> P (VAttr kvs st v).
  Fixpoint rv_ind' (v : rv) : P v :=
    let fix go (l : list rv) : Forall P l :=
      match l with
      | [] => Forall_nil P
      | x :: r => Forall_cons x (rv_ind' x) (go r)
      end in
    match v with
    | VBlob t s => HBlob t s
    | VBlobStream t cs => HBlobStream t cs
    | VLine t s => HLine t s
    | VInt i => HInt i
    | VBool b => HBool b
    | VNull t => HNull t
    | VAgg t st l => HAgg t st l (go l)
    | VAttr kvs st v => HAttr kvs st v (go kvs) (rv_ind' v)
    end.
End RvInd.

(** * what readNextMessage returns when attributes were seen before the value *)
Definition abs_with (v : rv) (a : option msg) : msg :=
  match v with
  | VAttr _ _ _ => abs v
  | VNull t => if t =? tNull then with_attrs (abs v) a else abs v
  | _ => with_attrs (abs v) a
  end.

Lemma abs_with_none v : abs_with v None = abs v.
Proof. destruct v; cbn [abs_with abs with_attrs]; try reflexivity. destruct (t =? tNull); reflexivity. Qed.

Lemma abs_with_decorable v a : decorable v = true -> abs_with v a = with_attrs (abs v) a.
Proof. destruct v; cbn [decorable abs_with]; try reflexivity; [intros ->; reflexivity|discriminate]. Qed.

(** * fuel *)
Fixpoint cost (v : rv) : nat :=
  let fix cl (l : list rv) : nat := match l with [] => 2%nat | x :: r => S (cost x + cl r) end in
  match v with
  | VBlobStream _ cs => (length cs + 2)%nat
  | VAgg _ _ l => S (cl l)
  | VAttr kvs _ v => S (cl kvs + cost v)
  | _ => 1%nat
  end.

Fixpoint cost_l (l : list rv) : nat := match l with [] => 2%nat | x :: r => S (cost x + cost_l r) end.

Lemma cost_agg t st l : cost (VAgg t st l) = S (cost_l l).
Proof. cbn [cost]. apply f_equal. induction l as [|x r IH]; [reflexivity|]. cbn [cost_l]. now rewrite <- IH. Qed.

Lemma cost_attr kvs st v : cost (VAttr kvs st v) = S (cost_l kvs + cost v).
Proof. cbn [cost]. apply f_equal. apply (f_equal (fun a => (a + cost v)%nat)). induction kvs as [|x r IH]; [reflexivity|]. cbn [cost_l]. now rewrite <- IH. Qed.

Lemma cost_pos v : (1 <= cost v)%nat.
Proof. destruct v; cbn [cost]; lia. Qed.

(** * unfolding *)
Lemma read_next_S f a : read_next (S f) a = read_next_body (read_next f) (read_a_loop f) (read_e_loop f) f a.
Proof. reflexivity. Qed.

Lemma read_a_loop_S f length n cap acc : read_a_loop (S f) length n cap acc =
    if (n =? length)%Z then Ret (Ok acc)
    else
      (* msgs[n], err = readNextMessage(i): the index is checked when the call has returned *)
      let next (cap' : Z) :=
        bind (read_next f None) (fun r =>
          if (n <? cap')%Z then
            match r with
            | Ok m => read_a_loop f length (n + 1) cap' (acc ++ [m])
            | Err e => Ret (Err e)
            | Panic => Ret Panic
            end
          else Ret Panic) in
      if (n =? cap)%Z then
        let cap' := Z.min length (n * 2) in
        bindr (alloc_make msg_size cap') (fun _ => next cap')
      else next cap.
Proof. reflexivity. Qed.

Lemma read_e_loop_S f acc : read_e_loop (S f) acc =
    bindr (read_next f None) (fun m =>
      if m_typ m =? tEnd then Ret (Ok acc)
      else bind (alloc (Z.to_N msg_size)) (fun _ => read_e_loop f (acc ++ [m]))).
Proof. reflexivity. Qed.

Lemma run_body_cons B rn ral rel cf attrs t s al :
  run B (read_next_body rn ral rel cf attrs) (t :: s) al = run B (dispatch t rn ral rel cf attrs) s al.
Proof. unfold read_next_body. erewrite run_bindr_ok by (rewrite run_do_op; reflexivity). reflexivity. Qed.

Ltac split_type H :=
  repeat (apply orb_true_iff in H; destruct H as [H|H]); apply N.eqb_eq in H; subst.

Lemma dispatch_blob t rn ral rel cf attrs : is_blob_type t = true ->
  dispatch t rn ral rel cf attrs = bind (read_blob_string cf) (fun r => fin_msg t rn attrs (str_msg t r)).
Proof. intros H. unfold is_blob_type in H. split_type H; reflexivity. Qed.

Lemma dispatch_line t rn ral rel cf attrs : is_line_type t = true ->
  dispatch t rn ral rel cf attrs = bind read_s (fun r => fin_msg t rn attrs (str_msg t r)).
Proof. intros H. unfold is_line_type in H. split_type H; reflexivity. Qed.

Lemma fin_ok t rn attrs m : (t =? tAttribute) = false ->
  fin_msg t rn attrs (Ok m) = Ret (Ok (with_attrs m attrs)).
Proof. intros H. cbn [fin_msg]. now rewrite H. Qed.

Lemma blob_not_attr t : is_blob_type t = true -> (t =? tAttribute) = false.
Proof. intros H. unfold is_blob_type in H. split_type H; reflexivity. Qed.
Lemma line_not_attr t : is_line_type t = true -> (t =? tAttribute) = false.
Proof. intros H. unfold is_line_type in H. split_type H; reflexivity. Qed.

(** * streamed strings *)

Definition enc_chunk (c : bytes) : bytes := tChunk :: dec (blen c) ++ crlf ++ c ++ crlf.

Lemma run_chunk_loop B : forall cs fuel acc rest al, (32 <= B)%nat ->
  forallb (fun c => nonempty c && len_ok c) cs = true ->
  (length cs + 1 <= fuel)%nat ->
  exists al', run B (chunk_loop fuel acc) (flat_map enc_chunk cs ++ [tChunk; 48] ++ crlf ++ rest) al
              = (Ok (acc ++ concat cs), rest, al').
Proof.
  induction cs as [|c cs IH]; intros fuel acc rest al HB Hwf Hf.
  - destruct fuel as [|f]; [cbn in Hf; lia|]. cbn [flat_map app chunk_loop concat].
    erewrite run_bindr_ok by (apply (run_discard B 1 [tChunk]); reflexivity).
    erewrite run_bindr_ok by (apply (run_read_i_nat B 0); [assumption|reflexivity]).
    cbn [Z.of_N Z.eqb]. rewrite app_nil_r. eexists. reflexivity.
  - destruct fuel as [|f]; [cbn in Hf; lia|]. cbn [length] in Hf.
    cbn [forallb] in Hwf. apply andb_true_iff in Hwf as [Hc Hwf]. apply andb_true_iff in Hc as [Hne Hlen].
    cbn [flat_map concat]. unfold enc_chunk at 1. cbn [app chunk_loop]. rewrite <- !app_assoc.
    erewrite run_bindr_ok by (apply (run_discard B 1 [tChunk]); reflexivity).
    assert (Hlt : (Z.of_N (blen c) < two63)%Z) by (unfold len_ok, zlen, blen in *; lia).
    erewrite run_bindr_ok by (apply (run_read_i_nat B (blen c)); assumption).
    assert (Hpos : (0 < Z.of_N (blen c))%Z) by (destruct c; [discriminate|unfold blen; cbn [length]; lia]).
    destruct (Z.eqb_spec (Z.of_N (blen c)) 0) as [Hx|_]; [lia|].
    destruct (Z.ltb_spec (Z.of_N (blen c)) 0) as [Hx|_]; [lia|].
    assert (Hg : forall s a, run B (grow (Z.min (Z.of_N (blen c)) max_prealloc_bytes)) s a =
                             (Ok tt, s, a + Z.to_N (Z.min (Z.of_N (blen c)) max_prealloc_bytes))).
    { intros s a. unfold grow, max_prealloc_bytes.
      destruct (Z.ltb_spec (Z.min (Z.of_N (blen c)) 65536) 0) as [Hx|_]; [lia|]. reflexivity. }
    erewrite run_bindr_ok by apply Hg.
    rewrite N2Z.id.
    erewrite run_bindr_ok by apply run_copy_n.
    rewrite run_bind, run_alloc.
    erewrite run_bindr_ok by (apply (run_discard B 2 crlf); reflexivity).
    destruct (IH f (acc ++ c) rest (al + Z.to_N (Z.min (Z.of_N (blen c)) max_prealloc_bytes) + blen c) HB Hwf ltac:(lia)) as [al' E].
    exists al'. rewrite <- app_assoc in E. exact E.
Qed.

(** * the main statement *)
Definition rt (B : nat) (v : rv) : Prop :=
  wf v = true -> forall fuel attrs rest al, (cost v <= fuel)%nat ->
  exists al', run B (read_next fuel attrs) (enc v ++ rest) al = (Ok (abs_with v attrs), rest, al').

(** the loop of readA over the remaining elements *)
Lemma run_read_a_loop B : forall todo, Forall (rt B) todo -> forallb wf todo = true ->
  forall (done : list rv) fuel cap rest al,
    (cost_l todo <= fuel)%nat ->
    (zlen (done ++ todo) * 40 <= max_alloc)%Z ->
    (zlen done <= cap)%Z -> (0 < cap)%Z \/ todo = [] ->
    exists al',
      run B (read_a_loop fuel (zlen (done ++ todo)) (zlen done) cap (map abs done)) (flat_map enc todo ++ rest) al
      = (Ok (map abs (done ++ todo)), rest, al').
Proof.
  induction todo as [|x r IH]; intros HP Hwf done fuel cap rest al Hf Hmax Hcap Hcp.
  - cbn [cost_l] in Hf. destruct fuel as [|f]; [lia|]. rewrite read_a_loop_S, app_nil_r, Z.eqb_refl.
    eexists. reflexivity.
  - cbn [cost_l] in Hf. destruct fuel as [|f]; [lia|]. rewrite read_a_loop_S.
    inversion HP as [|? ? HPx HPr]; subst. cbn [forallb] in Hwf. apply andb_true_iff in Hwf as [Hwx Hwr].
    assert (Hlen : zlen (done ++ x :: r) = (zlen done + 1 + zlen r)%Z).
    { unfold zlen. rewrite app_length. cbn [length]. lia. }
    destruct (Z.eqb_spec (zlen done) (zlen (done ++ x :: r))) as [Hx|_]; [unfold zlen in *; lia|].
    cbv zeta. cbn [flat_map]. rewrite <- app_assoc.
    assert (Hnext : forall cap' al0, (zlen done + 1 <= cap')%Z ->
      exists al', run B (bind (read_next f None) (fun r0 =>
                          if (zlen done <? cap')%Z then
                            match r0 with
                            | Ok m => read_a_loop f (zlen (done ++ x :: r)) (zlen done + 1) cap' (map abs done ++ [m])
                            | Err e => Ret (Err e)
                            | Panic => Ret Panic
                            end
                          else Ret Panic))
                        (enc x ++ flat_map enc r ++ rest) al0 = (Ok (map abs (done ++ x :: r)), rest, al')).
    { intros cap' al0 Hc'.
      destruct (HPx Hwx f None (flat_map enc r ++ rest) al0 ltac:(lia)) as [al1 E1].
      rewrite run_bind, E1. rewrite abs_with_none.
      destruct (Z.ltb_spec (zlen done) cap') as [_|Hx]; [|lia].
      specialize (IH HPr Hwr (done ++ [x]) f cap' rest al1).
      rewrite <- app_assoc in IH. cbn [app] in IH.
      replace (zlen (done ++ [x])) with (zlen done + 1)%Z in IH by (unfold zlen; rewrite app_length; cbn; lia).
      rewrite map_app in IH. cbn [map] in IH.
      apply IH; [lia|assumption|exact Hc'|left; pose proof (Zle_0_nat (length done)); unfold zlen in *; lia]. }
    destruct Hcp as [Hcp|Hcp]; [|discriminate].
    destruct (Z.eqb_spec (zlen done) cap) as [Hc|Hc].
    + erewrite run_bindr_ok.
      2:{ apply run_alloc_make_ok. unfold make_ok, msg_size, max_alloc in *.
          pose proof (Zle_0_nat (length done)) as Hd0. fold (zlen done) in Hd0.
          pose proof (Zle_0_nat (length r)) as Hr0. fold (zlen r) in Hr0.
          destruct (Z.min_spec (zlen (done ++ x :: r)) (zlen done * 2)) as [[Hm ->]|[Hm ->]]; lia. }
      apply Hnext.
      pose proof (Zle_0_nat (length r)) as Hr0. fold (zlen r) in Hr0.
      destruct (Z.min_spec (zlen (done ++ x :: r)) (zlen done * 2)) as [[Hm ->]|[Hm ->]]; lia.
    + apply Hnext. lia.
Qed.

(** * dispatch on concrete type bytes *)
Lemma dispatch_int rn ral rel cf attrs :
  dispatch tInteger rn ral rel cf attrs = bind read_i (fun r => fin_msg tInteger rn attrs (map_res (fun v => Msg tInteger [] v [] None) r)).
Proof. reflexivity. Qed.

Lemma dispatch_bool rn ral rel cf attrs :
  dispatch tBool rn ral rel cf attrs = bind read_boolean (fun r => fin_msg tBool rn attrs (map_res (fun v => Msg tBool [] v [] None) r)).
Proof. reflexivity. Qed.

Lemma dispatch_null t rn ral rel cf attrs : k_null t = true ->
  dispatch t rn ral rel cf attrs = bind read_null (fun r => fin_msg t rn attrs (map_res (fun _ => Msg t [] 0%Z [] None) r)).
Proof. intros H. unfold k_null in H. split_type H; reflexivity. Qed.

Lemma dispatch_array t rn ral rel cf attrs : k_array t = true ->
  dispatch t rn ral rel cf attrs =
  bind read_i (fun r =>
      match r with
      | Ok length => if (length =? -1)%Z then fin_msg t rn attrs (Err eOldNull)
                     else bind (read_a ral length) (fun r => fin_msg t rn attrs (agg_msg t r))
      | Err e => if e =? eChunked then bind (read_e rel) (fun r => fin_msg t rn attrs (agg_msg t r)) else fin_msg t rn attrs (Err e)
      | Panic => Ret Panic
      end).
Proof. intros H. unfold k_array in H. split_type H; reflexivity. Qed.

Lemma dispatch_map t rn ral rel cf attrs : k_map t = true ->
  dispatch t rn ral rel cf attrs =
  bind read_i (fun r =>
      match r with
      | Ok length => bind (read_a ral (wrap64 (length * 2))) (fun r => fin_msg t rn attrs (agg_msg t r))
      | Err e => if e =? eChunked then bind (read_e rel) (fun r => fin_msg t rn attrs (agg_msg t r)) else fin_msg t rn attrs (Err e)
      | Panic => Ret Panic
      end).
Proof. intros H. unfold k_map in H. split_type H; reflexivity. Qed.

(** * the end marker and the loop of readE *)
Lemma run_read_next_end B f attrs rest al :
  run B (read_next (S f) attrs) ([tEnd] ++ crlf ++ rest) al = (Ok (Msg tEnd [] 0%Z [] attrs), rest, al).
Proof.
  rewrite read_next_S. cbn [app]. rewrite run_body_cons, (dispatch_null tEnd) by reflexivity.
  rewrite run_bind. unfold read_null.
  erewrite run_bindr_ok by (apply (run_discard B 2 crlf); reflexivity).
  reflexivity.
Qed.

Lemma abs_typ_not_end v : wf v = true -> (m_typ (abs v) =? tEnd) = false.
Proof.
  assert (Hb : forall t, is_blob_type t = true -> (t =? tEnd) = false)
    by (intros t H; unfold is_blob_type in H; split_type H; reflexivity).
  assert (Hl : forall t, is_line_type t = true -> (t =? tEnd) = false)
    by (intros t H; unfold is_line_type in H; split_type H; reflexivity).
  assert (Ha : forall t, is_agg_type t = true -> (t =? tEnd) = false)
    by (intros t H; unfold is_agg_type in H; split_type H; reflexivity).
  assert (H1 : forall v, wf v = true -> decorable v = true -> (m_typ (abs v) =? tEnd) = false).
  { intros [t s|t cs|t s|i|b|t|t st l|kvs st x] Hw Hd; cbn [wf abs m_typ] in *; try reflexivity; try discriminate.
    - apply andb_true_iff in Hw as [Hw _]. auto.
    - apply andb_true_iff in Hw as [Hw _]. auto.
    - apply andb_true_iff in Hw as [Hw _]. auto.
    - repeat (apply andb_true_iff in Hw as [Hw ?]). auto. }
  intros Hw. destruct v as [t s|t cs|t s|i|b|t|t st l|kvs st x]; try (apply H1; [assumption|reflexivity]).
  - reflexivity.
  - cbn [wf] in Hw. repeat (apply andb_true_iff in Hw as [Hw ?]).
    cbn [abs]. destruct (abs x) eqn:E. cbn [with_attrs m_typ].
    assert (Hx := H1 x ltac:(assumption) ltac:(assumption)). rewrite E in Hx. exact Hx.
Qed.

Lemma run_read_e_loop B : forall todo, Forall (rt B) todo -> forallb wf todo = true ->
  forall acc fuel rest al, (cost_l todo <= fuel)%nat ->
  exists al', run B (read_e_loop fuel acc) (flat_map enc todo ++ [tEnd] ++ crlf ++ rest) al
              = (Ok (acc ++ map abs todo), rest, al').
Proof.
  induction todo as [|x r IH]; intros HP Hwf acc fuel rest al Hf.
  - cbn [cost_l] in Hf. destruct fuel as [|[|f]]; try lia. rewrite read_e_loop_S. cbn [flat_map app].
    erewrite run_bindr_ok by apply run_read_next_end.
    cbn [m_typ]. rewrite N.eqb_refl, app_nil_r. eexists. reflexivity.
  - cbn [cost_l] in Hf. destruct fuel as [|f]; [lia|]. rewrite read_e_loop_S.
    inversion HP as [|? ? HPx HPr]; subst. cbn [forallb] in Hwf. apply andb_true_iff in Hwf as [Hwx Hwr].
    cbn [flat_map]. rewrite <- app_assoc.
    destruct (HPx Hwx f None (flat_map enc r ++ [tEnd] ++ crlf ++ rest) al ltac:(lia)) as [al1 E1].
    erewrite run_bindr_ok by exact E1. rewrite abs_with_none, abs_typ_not_end by assumption.
    rewrite run_bind, run_alloc.
    destruct (IH HPr Hwr (acc ++ [abs x]) f rest (al1 + Z.to_N msg_size) ltac:(lia)) as [al2 E2].
    exists al2. rewrite E2. cbn [map]. now rewrite <- app_assoc.
Qed.

(** * aggregates (arrays, sets, pushes, maps, attribute frames) *)
Definition pair_count_ok (t : N) (l : list rv) : Prop := is_pair_type t = true -> Nat.even (length l) = true.

Lemma div2_even n : Nat.even n = true -> (2 * Nat.div2 n = n)%nat.
Proof.
  intros H. apply Nat.even_spec in H. destruct H as [k ->]. rewrite Nat.div2_double. lia.
Qed.

Lemma run_dispatch_agg B (HB : (32 <= B)%nat) t st l rn cf attrs rest al f :
  (k_array t = true \/ k_map t = true) ->
  (k_map t = true -> Nat.even (length l) = true) ->
  (zlen l * 40 <= max_alloc)%Z ->
  Forall (rt B) l -> forallb wf l = true -> (cost_l l <= f)%nat ->
  exists al',
    run B (dispatch t rn (read_a_loop f) (read_e_loop f) cf attrs)
          (tl (agg_header t st (length l)) ++ flat_map enc l ++ agg_trailer st ++ rest) al
    = run B (fin_msg t rn attrs (Ok (Msg t [] (zlen l) (map abs l) None))) rest al'.
Proof.
  intros Hk Hev Hmax HP Hwf Hf.
  pose proof (Zle_0_nat (length l)) as Hl0. fold (zlen l) in Hl0.
  (* the streamed form is the same for every type *)
  assert (Hstream : forall al0,
    exists al', run B (bind (read_e (read_e_loop f)) (fun r => fin_msg t rn attrs (agg_msg t r)))
                      (flat_map enc l ++ [tEnd] ++ crlf ++ rest) al0
                = run B (fin_msg t rn attrs (Ok (Msg t [] (zlen l) (map abs l) None))) rest al').
  { intros al0. rewrite run_bind. unfold read_e.
    destruct (run_read_e_loop B l HP Hwf [] f rest al0 Hf) as [al1 E1].
    erewrite run_bindr_ok by exact E1. cbn [app run agg_msg map_res fst snd].
    exists al1. unfold zlen. now rewrite map_length. }
  (* the counted form, once the count has been read *)
  assert (Hcount : forall al0,
    exists al', run B (bind (read_a (read_a_loop f) (zlen l)) (fun r => fin_msg t rn attrs (agg_msg t r)))
                      (flat_map enc l ++ rest) al0
                = run B (fin_msg t rn attrs (Ok (Msg t [] (zlen l) (map abs l) None))) rest al').
  { intros al0. rewrite run_bind. unfold read_a.
    destruct (Z.ltb_spec (zlen l) 0) as [Hx|_]; [lia|].
    erewrite run_bindr_ok.
    2:{ apply run_alloc_make_ok. unfold make_ok, msg_size, max_prealloc_msgs, max_alloc in *. lia. }
    destruct (run_read_a_loop B l HP Hwf [] f (Z.min (zlen l) max_prealloc_msgs) rest
                (al0 + Z.to_N (Z.min (zlen l) max_prealloc_msgs * msg_size)) Hf) as [al1 E1].
    - exact Hmax.
    - unfold zlen at 1. cbn [length]. unfold max_prealloc_msgs. lia.
    - unfold max_prealloc_msgs. destruct l; [right; reflexivity|left; unfold zlen; cbn [length]; lia].
    - cbn [app map] in E1. unfold zlen at 2 in E1. cbn [length] in E1.
      erewrite run_bindr_ok by exact E1. cbn [run agg_msg map_res fst snd]. eauto. }
  destruct st.
  - (* streamed: <t>?\r\n … .\r\n *)
    replace (tl (agg_header t true (length l)) ++ flat_map enc l ++ agg_trailer true ++ rest)
      with ([63] ++ crlf ++ flat_map enc l ++ [tEnd] ++ crlf ++ rest)
      by (unfold agg_header, agg_trailer; cbn [tl app]; rewrite <- ?app_assoc; reflexivity).
    destruct (Hstream al) as [al' E].
    exists al'. rewrite <- E.
    destruct Hk as [Hk|Hk].
    + rewrite dispatch_array by assumption. rewrite run_bind.
      rewrite (run_read_i_chunked B _ al HB). reflexivity.
    + rewrite dispatch_map by assumption. rewrite run_bind.
      rewrite (run_read_i_chunked B _ al HB). reflexivity.
  - (* counted *)
    replace (tl (agg_header t false (length l)) ++ flat_map enc l ++ agg_trailer false ++ rest)
      with (dec (N.of_nat (if is_pair_type t then Nat.div2 (length l) else length l)) ++ crlf ++ flat_map enc l ++ rest)
      by (unfold agg_header, agg_trailer; cbn [tl app]; rewrite <- ?app_assoc; reflexivity).
    destruct (Hcount al) as [al' E]. exists al'. rewrite <- E.
    destruct Hk as [Hk|Hk].
    + assert (Hp : is_pair_type t = false).
      { unfold k_array in Hk. split_type Hk; reflexivity. }
      rewrite Hp. rewrite dispatch_array by assumption. rewrite run_bind.
      rewrite (run_read_i_nat B (N.of_nat (length l)) _ al HB) by (unfold zlen, max_alloc, two63 in *; lia).
      replace (Z.of_N (N.of_nat (length l))) with (zlen l) by (unfold zlen; lia).
      destruct (Z.eqb_spec (zlen l) (-1)) as [Hx|_]; [lia|]. reflexivity.
    + assert (Hp : is_pair_type t = true).
      { unfold k_map in Hk. split_type Hk; reflexivity. }
      rewrite Hp. rewrite dispatch_map by assumption. rewrite run_bind.
      pose proof (div2_even _ (Hev Hk)) as Hd.
      rewrite (run_read_i_nat B (N.of_nat (Nat.div2 (length l))) _ al HB) by (unfold zlen, max_alloc, two63 in *; lia).
      replace (wrap64 (Z.of_N (N.of_nat (Nat.div2 (length l))) * 2)) with (zlen l); [reflexivity|].
      rewrite wrap64_small_z; unfold zlen, two63, max_alloc in *; lia.
Qed.

(** * side conditions of well-formedness as propositions *)
Lemma le_max_spec x : le_max x = true -> (x <= max_alloc)%Z.
Proof. unfold le_max. apply Z.leb_le. Qed.

Lemma blob_ok_spec s : blob_ok s = true -> (zlen s <= max_alloc)%Z.
Proof. unfold blob_ok. apply le_max_spec. Qed.

Lemma agg_ok_spec {A} (l : list A) : agg_ok l = true -> (zlen l * 40 <= max_alloc)%Z.
Proof. unfold agg_ok. apply le_max_spec. Qed.

(** * small run lemmas (each proved on its own, so that no conversion problem over a big program is
    ever left to the kernel) *)
Lemma run_ret {A} B (a : A) s al : run B (Ret a) s al = (a, s, al).
Proof. reflexivity. Qed.

Lemma run_bind_eq {A C} B (p : prog A) (f : A -> prog C) s al a s' al' :
  run B p s al = (a, s', al') -> run B (bind p f) s al = run B (f a) s' al'.
Proof. intros H. rewrite run_bind, H. reflexivity. Qed.

Lemma run_bind_fin_ok {A} B (p : prog (result A)) (mk : A -> msg) t rn attrs s al x s' al' :
  run B p s al = (Ok x, s', al') -> (t =? tAttribute) = false ->
  run B (bind p (fun r => fin_msg t rn attrs (map_res mk r))) s al = (Ok (with_attrs (mk x) attrs), s', al').
Proof. intros H Ht. rewrite (run_bind_eq _ _ _ _ _ _ _ _ H). cbn [map_res]. now rewrite fin_ok. Qed.

Lemma run_bind_fin_oldnull {A} B (p : prog (result A)) (mk : A -> msg) t rn attrs s al s' al' :
  run B p s al = (Err eOldNull, s', al') ->
  run B (bind p (fun r => fin_msg t rn attrs (map_res mk r))) s al = (Ok (Msg tNull [] 0%Z [] None), s', al').
Proof. intros H. rewrite (run_bind_eq _ _ _ _ _ _ _ _ H). reflexivity. Qed.

Lemma rbs_ok B cf s al x s' al' :
  run B read_b s al = (Ok x, s', al') -> run B (read_blob_string cf) s al = (Ok x, s', al').
Proof. intros H. unfold read_blob_string. rewrite (run_bind_eq _ _ _ _ _ _ _ _ H). reflexivity. Qed.

Lemma rbs_oldnull B cf s al s' al' :
  run B read_b s al = (Err eOldNull, s', al') -> run B (read_blob_string cf) s al = (Err eOldNull, s', al').
Proof. intros H. unfold read_blob_string. rewrite (run_bind_eq _ _ _ _ _ _ _ _ H). reflexivity. Qed.

Lemma rbs_chunked B cf s al s' al' :
  run B read_b s al = (Err eChunked, s', al') -> run B (read_blob_string cf) s al = run B (chunk_loop cf []) s' al'.
Proof. intros H. unfold read_blob_string. rewrite (run_bind_eq _ _ _ _ _ _ _ _ H). reflexivity. Qed.

Lemma run_read_b_chunked B s al : (32 <= B)%nat -> run B read_b ([63] ++ crlf ++ s) al = (Err eChunked, s, al).
Proof. intros HB. unfold read_b. erewrite run_bindr_err by (apply run_read_i_chunked; assumption). reflexivity. Qed.

Lemma run_read_b_minus1 B s al : (32 <= B)%nat -> run B read_b ([45; 49] ++ crlf ++ s) al = (Err eOldNull, s, al).
Proof. intros HB. unfold read_b. erewrite run_bindr_ok by (apply run_read_i_minus1; assumption). reflexivity. Qed.

Lemma run_read_boolean B b rest al :
  run B read_boolean ([b] ++ crlf ++ rest) al = (Ok (if b =? 116 then 1%Z else 0%Z), rest, al).
Proof.
  unfold read_boolean. cbn [app].
  erewrite run_bindr_ok by apply run_read_byte.
  erewrite run_bindr_ok by (apply (run_discard B 2 crlf); reflexivity).
  reflexivity.
Qed.

Lemma run_read_null B rest al : run B read_null (crlf ++ rest) al = (Ok tt, rest, al).
Proof. unfold read_null. erewrite run_bindr_ok by (apply (run_discard B 2 crlf); reflexivity). reflexivity. Qed.

Lemma fin_attr rn attrs m : fin_msg tAttribute rn attrs (Ok m) = rn (Some m).
Proof. reflexivity. Qed.

Lemma run_array_minus1 B t rn ral rel cf attrs rest al : (32 <= B)%nat -> k_array t = true ->
  run B (dispatch t rn ral rel cf attrs) ([45; 49] ++ crlf ++ rest) al = (Ok (Msg tNull [] 0%Z [] None), rest, al).
Proof.
  intros HB Hk. rewrite dispatch_array by assumption.
  rewrite (run_bind_eq _ _ _ _ _ _ _ _ (run_read_i_minus1 B rest al HB)). reflexivity.
Qed.

(** * the round trip, for every value tree and every encoding choice *)
Section Cases.
Variable B : nat.
Hypothesis HB : (32 <= B)%nat.

Lemma rt_VBlob : forall t s, rt B (VBlob t s).
Proof.
  intros t s Hwf fuel attrs rest al Hf.
  cbn [wf] in Hwf. apply andb_true_iff in Hwf as [Ht Hs].
  destruct fuel as [|f]; [exfalso; clear - Hf; cbn in Hf; lia|].
  assert (Es : enc (VBlob t s) ++ rest = t :: dec (blen s) ++ crlf ++ s ++ crlf ++ rest).
  { cbn [enc app]. rewrite <- ?app_assoc. reflexivity. }
  assert (Hmax : (zlen s <= max_alloc)%Z) by (now apply blob_ok_spec).
  destruct (run_read_b B s rest al HB Hmax) as [al' E].
  exists al'.
  rewrite Es, read_next_S, run_body_cons, dispatch_blob by assumption.
  unfold str_msg. erewrite run_bind_fin_ok; [reflexivity|apply rbs_ok; exact E|now apply blob_not_attr].
Qed.

Lemma rt_VBlobStream : forall t cs, rt B (VBlobStream t cs).
Proof.
  intros t cs Hwf fuel attrs rest al Hf.
  cbn [wf] in Hwf. apply andb_true_iff in Hwf as [Ht Hcs].
  change (cost (VBlobStream t cs)) with (length cs + 2)%nat in Hf. destruct fuel as [|f]; [exfalso; lia|].
  assert (Es : enc (VBlobStream t cs) ++ rest =
               t :: [63] ++ crlf ++ flat_map enc_chunk cs ++ [tChunk; 48] ++ crlf ++ rest).
  { cbn [enc]. unfold enc_chunk. cbn [app]. rewrite <- ?app_assoc. cbn [app]. rewrite <- ?app_assoc. reflexivity. }
  assert (Hfc : (length cs + 1 <= f)%nat) by lia.
  destruct (run_chunk_loop B cs f [] rest al HB Hcs Hfc) as [al' E].
  exists al'.
  rewrite Es, read_next_S, run_body_cons, dispatch_blob by assumption.
  unfold str_msg. erewrite run_bind_fin_ok; [reflexivity| |now apply blob_not_attr].
  rewrite (rbs_chunked B f _ al _ al (run_read_b_chunked B _ al HB)). exact E.
Qed.

Lemma rt_VLine : forall t s, rt B (VLine t s).
Proof.
  intros t s Hwf fuel attrs rest al Hf.
  cbn [wf] in Hwf. apply andb_true_iff in Hwf as [Ht Hs].
  destruct fuel as [|f]; [exfalso; clear - Hf; cbn in Hf; lia|].
  assert (Es : enc (VLine t s) ++ rest = t :: s ++ crlf ++ rest).
  { cbn [enc app]. rewrite <- ?app_assoc. reflexivity. }
  destruct (run_read_s B s rest al Hs) as [al' E].
  exists al'.
  rewrite Es, read_next_S, run_body_cons, dispatch_line by assumption.
  unfold str_msg. erewrite run_bind_fin_ok; [reflexivity|exact E|now apply line_not_attr].
Qed.

Lemma rt_VInt : forall i, rt B (VInt i).
Proof.
  intros i Hwf fuel attrs rest al Hf.
  cbn [wf] in Hwf. destruct fuel as [|f]; [exfalso; clear - Hf; cbn in Hf; lia|].
  assert (Es : enc (VInt i) ++ rest = tInteger :: decZ i ++ crlf ++ rest).
  { cbn [enc app]. rewrite <- ?app_assoc. reflexivity. }
  assert (Hi : in_i64 i) by (clear - Hwf; unfold in_i64b, in_i64 in *; lia).
  exists al.
  rewrite Es, read_next_S, run_body_cons, dispatch_int.
  erewrite run_bind_fin_ok; [reflexivity|apply (run_read_i B i rest al HB Hi)|reflexivity].
Qed.

Lemma rt_VBool : forall b, rt B (VBool b).
Proof.
  intros b Hwf fuel attrs rest al Hf.
  destruct fuel as [|f]; [exfalso; clear - Hf; cbn in Hf; lia|].
  assert (Es : enc (VBool b) ++ rest = tBool :: [if b then 116 else 102] ++ crlf ++ rest).
  { cbn [enc app]. reflexivity. }
  exists al.
  rewrite Es, read_next_S, run_body_cons, dispatch_bool.
  erewrite run_bind_fin_ok; [|apply run_read_boolean|reflexivity].
  destruct b; reflexivity.
Qed.

Lemma rt_VNull : forall t, rt B (VNull t).
Proof.
  intros t Hwf fuel attrs rest al Hf.
  cbn [wf] in Hwf. destruct fuel as [|f]; [exfalso; clear - Hf; cbn in Hf; lia|].
  exists al. rewrite read_next_S.
  unfold is_null_type in Hwf.
  repeat (apply orb_true_iff in Hwf; destruct Hwf as [Hwf|Hwf]); apply N.eqb_eq in Hwf; subst t.
  - (* _\r\n *)
    change (enc (VNull tNull) ++ rest) with (tNull :: crlf ++ rest).
    rewrite run_body_cons, (dispatch_null tNull) by reflexivity.
    erewrite run_bind_fin_ok; [reflexivity|apply run_read_null|reflexivity].
  - change (enc (VNull tBlobString) ++ rest) with (tBlobString :: [45; 49] ++ crlf ++ rest).
    rewrite run_body_cons, (dispatch_blob tBlobString) by reflexivity.
    unfold str_msg. erewrite run_bind_fin_oldnull; [reflexivity|apply rbs_oldnull, run_read_b_minus1; assumption].
  - change (enc (VNull tBlobErr) ++ rest) with (tBlobErr :: [45; 49] ++ crlf ++ rest).
    rewrite run_body_cons, (dispatch_blob tBlobErr) by reflexivity.
    unfold str_msg. erewrite run_bind_fin_oldnull; [reflexivity|apply rbs_oldnull, run_read_b_minus1; assumption].
  - change (enc (VNull tVerbatim) ++ rest) with (tVerbatim :: [45; 49] ++ crlf ++ rest).
    rewrite run_body_cons, (dispatch_blob tVerbatim) by reflexivity.
    unfold str_msg. erewrite run_bind_fin_oldnull; [reflexivity|apply rbs_oldnull, run_read_b_minus1; assumption].
  - change (enc (VNull tArray) ++ rest) with (tArray :: [45; 49] ++ crlf ++ rest).
    rewrite run_body_cons. now rewrite run_array_minus1.
  - change (enc (VNull tSet) ++ rest) with (tSet :: [45; 49] ++ crlf ++ rest).
    rewrite run_body_cons. now rewrite run_array_minus1.
  - change (enc (VNull tPush) ++ rest) with (tPush :: [45; 49] ++ crlf ++ rest).
    rewrite run_body_cons. now rewrite run_array_minus1.
Qed.

Lemma agg_header_cons t st n : agg_header t st n = t :: tl (agg_header t st n).
Proof. unfold agg_header. destruct st; reflexivity. Qed.

Lemma rt_VAgg : forall t st l, Forall (rt B) l -> rt B (VAgg t st l).
Proof.
  intros t st l IHl Hwf fuel attrs rest al Hf.
  cbn [wf] in Hwf. repeat (apply andb_true_iff in Hwf as [Hwf ?]).
  rewrite cost_agg in Hf. destruct fuel as [|f]; [exfalso; lia|].
  assert (Es : enc (VAgg t st l) ++ rest =
               t :: tl (agg_header t st (length l)) ++ flat_map enc l ++ agg_trailer st ++ rest).
  { cbn [enc]. rewrite (agg_header_cons t st (length l)) at 1. cbn [app]. rewrite <- ?app_assoc. reflexivity. }
  assert (Hkind : k_array t = true \/ k_map t = true).
  { clear - Hwf. unfold is_agg_type in Hwf. split_type Hwf; [left|left|left|right]; reflexivity. }
  assert (Hev : k_map t = true -> Nat.even (length l) = true).
  { intros Hm. unfold is_agg_type in Hwf. split_type Hwf; try discriminate Hm. assumption. }
  assert (Hna : (t =? tAttribute) = false).
  { clear - Hwf. unfold is_agg_type in Hwf. split_type Hwf; reflexivity. }
  assert (Hmax : (zlen l * 40 <= max_alloc)%Z) by (now apply agg_ok_spec).
  assert (Hfl : (cost_l l <= f)%nat) by lia.
  destruct (run_dispatch_agg B HB t st l (read_next f) f attrs rest al f Hkind Hev Hmax IHl ltac:(assumption) Hfl) as [al' E].
  exists al'.
  rewrite Es, read_next_S, run_body_cons, E, fin_ok by assumption.
  reflexivity.
Qed.

Lemma rt_VAttr : forall kvs st v, Forall (rt B) kvs -> rt B v -> rt B (VAttr kvs st v).
Proof.
  intros kvs st v IHk IHv Hwf fuel attrs rest al Hf.
  cbn [wf] in Hwf. repeat (apply andb_true_iff in Hwf as [Hwf ?]).
  rewrite cost_attr in Hf. destruct fuel as [|f]; [exfalso; lia|].
  assert (Es : enc (VAttr kvs st v) ++ rest =
               tAttribute :: tl (agg_header tAttribute st (length kvs)) ++ flat_map enc kvs ++ agg_trailer st ++ enc v ++ rest).
  { cbn [enc]. rewrite (agg_header_cons tAttribute st (length kvs)) at 1. cbn [app]. rewrite <- ?app_assoc. reflexivity. }
  assert (Hmax : (zlen kvs * 40 <= max_alloc)%Z) by (now apply agg_ok_spec).
  assert (Hfl : (cost_l kvs <= f)%nat) by lia.
  assert (Hev : k_map tAttribute = true -> Nat.even (length kvs) = true) by (intros _; assumption).
  destruct (run_dispatch_agg B HB tAttribute st kvs (read_next f) f attrs (enc v ++ rest) al f
              (or_intror eq_refl) Hev Hmax IHk ltac:(assumption) Hfl) as [al' E].
  assert (Hfv : (cost v <= f)%nat) by lia.
  destruct (IHv ltac:(assumption) f (Some (Msg tAttribute [] (zlen kvs) (map abs kvs) None)) rest al' Hfv) as [al2 E2].
  exists al2.
  rewrite Es, read_next_S, run_body_cons, E, fin_attr, E2.
  rewrite abs_with_decorable by assumption. reflexivity.
Qed.

Theorem read_next_roundtrip : forall v, rt B v.
Proof.
  induction v using rv_ind'; auto using rt_VBlob, rt_VBlobStream, rt_VLine, rt_VInt, rt_VBool, rt_VNull, rt_VAgg, rt_VAttr.
Qed.
End Cases.

(** fuel: [fuel_for] of the input length is always enough *)
Lemma enc_length_ge : forall v, (3 <= length (enc v))%nat.
Proof.
  destruct v; cbn [enc length app]; rewrite ?app_length; cbn [length crlf]; try lia.
  - destruct (t =? tNull); cbn; lia.
  - unfold agg_header. destruct streamed; cbn [app length]; rewrite ?app_length; cbn [length crlf]; lia.
  - unfold agg_header. destruct streamed; cbn [app length]; rewrite ?app_length; cbn [length crlf]; lia.
Qed.

Lemma cost_le_enc : forall v, (cost v + 1 <= 2 * length (enc v))%nat.
Proof.
  induction v as [t s|t cs|t s|i|b|t|t st l IHl|kvs st v IHk IHv] using rv_ind';
    try (pose proof (enc_length_ge (VBlob t s)); cbn [cost]; lia);
    try (pose proof (enc_length_ge (VLine t s)); cbn [cost]; lia);
    try (pose proof (enc_length_ge (VInt i)); cbn [cost]; lia);
    try (pose proof (enc_length_ge (VBool b)); cbn [cost]; lia);
    try (pose proof (enc_length_ge (VNull t)); cbn [cost]; lia).
  - cbn [cost enc]. rewrite !app_length. cbn [length crlf].
    assert (length cs <= length (flat_map (fun c => tChunk :: dec (blen c) ++ crlf ++ c ++ crlf) cs))%nat.
    { induction cs as [|c cs IH]; cbn [flat_map length]; [lia|]. rewrite app_length. cbn [length]. lia. }
    lia.
  - rewrite cost_agg. cbn [enc]. rewrite !app_length.
    assert (Hl : (cost_l l <= 2 + 2 * length (flat_map enc l))%nat).
    { clear - IHl. induction IHl as [|x r Hx Hr IH]; cbn [cost_l flat_map length]; [lia|]. rewrite app_length. lia. }
    assert (Hh : (2 <= length (agg_header t st (length l)))%nat).
    { unfold agg_header. destruct st; cbn [app length]; rewrite ?app_length; cbn [length crlf]; lia. }
    lia.
  - rewrite cost_attr. cbn [enc]. rewrite !app_length.
    assert (Hl : (cost_l kvs <= 2 + 2 * length (flat_map enc kvs))%nat).
    { clear - IHk. induction IHk as [|x r Hx Hr IH]; cbn [cost_l flat_map length]; [lia|]. rewrite app_length. lia. }
    assert (Hh : (2 <= length (agg_header tAttribute st (length kvs)))%nat).
    { unfold agg_header. destruct st; cbn [app length]; rewrite ?app_length; cbn [length crlf]; lia. }
    lia.
Qed.

Theorem decode_roundtrip B v rest : (32 <= B)%nat -> wf v = true ->
  fst (decode B (enc v ++ rest)) = (Ok (abs v), rest).
Proof.
  intros HB Hwf. unfold decode.
  destruct (read_next_roundtrip B HB v Hwf (fuel_for (length (enc v ++ rest))) None rest 0) as [al' E].
  - unfold fuel_for. rewrite app_length. pose proof (cost_le_enc v). lia.
  - rewrite E, abs_with_none. reflexivity.
Qed.
