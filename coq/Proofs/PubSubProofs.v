(** Proofs about message delivery and the return value of Receive in Model/PubSub.v (C26). *)
From Coq Require Import String List Arith NArith ZArith Bool Lia.
Require Import RV.Model.Base RV.Model.PsBase RV.Model.PubSub RV.Proofs.PubSubHookProofs.
Import ListNotations.
Open Scope N_scope.
Open Scope list_scope.

(** * list facts *)
Lemma fmsgs_app : forall r a b, fmsgs r (a ++ b) = fmsgs r a ++ fmsgs r b.
Proof. intros. unfold fmsgs. rewrite filter_app, map_app. reflexivity. Qed.

Lemma pend_msgs_app : forall id a b, pend_msgs id (a ++ b) = pend_msgs id a ++ pend_msgs id b.
Proof. intros. unfold pend_msgs. rewrite filter_app, map_app. reflexivity. Qed.

Lemma window_app : forall h x r, (rc_from r <= length h)%nat ->
  (forall t, rc_to r = Some t -> (t <= length h)%nat) ->
  window (h ++ [x]) r = window h r ++ (match rc_to r with None => [x] | Some _ => [] end).
Proof.
  intros h x r Hf Ht. unfold window. destruct (rc_to r) as [t|].
  - specialize (Ht t eq_refl). rewrite skipn_app. replace (rc_from r - length h)%nat with 0%nat by lia. cbn [skipn].
    rewrite firstn_app, skipn_length. replace (t - rc_from r - (length h - rc_from r))%nat with 0%nat by lia.
    cbn [firstn]. rewrite !app_nil_r. reflexivity.
  - rewrite skipn_app. replace (rc_from r - length h)%nat with 0%nat by lia. reflexivity.
Qed.

Lemma window_close : forall h r, rc_to r = None -> (rc_from r <= length h)%nat ->
  firstn (length h - rc_from r) (skipn (rc_from r) h) = window h r.
Proof.
  intros h r Ht Hf. unfold window. rewrite Ht. apply firstn_all2. rewrite skipn_length. lia.
Qed.

(** * receivers *)
Lemma find_recv_in : forall id l x, find_recv id l = Some x -> In x l /\ rc_id x = id.
Proof.
  induction l as [|y l IH]; intros x H; [discriminate|]. cbn in H.
  destruct (N.eqb (rc_id y) id) eqn:E.
  - injection H as <-. split; [left; reflexivity|apply N.eqb_eq; exact E].
  - destruct (IH x H) as [A B]. split; [right; exact A|exact B].
Qed.

Lemma find_recv_none : forall id l, find_recv id l = None -> forall x, In x l -> rc_id x <> id.
Proof.
  induction l as [|y l IH]; intros H x Hin; [contradiction|]. cbn in H.
  destruct (N.eqb (rc_id y) id) eqn:E; [discriminate|]. destruct Hin as [<-|Hin].
  - apply N.eqb_neq. exact E.
  - apply IH; assumption.
Qed.

Lemma find_recv_some : forall id l x, NoDup (map rc_id l) -> In x l -> rc_id x = id -> find_recv id l = Some x.
Proof.
  induction l as [|y l IH]; intros x Hnd Hin Hid; [contradiction|]. cbn.
  inversion Hnd as [|? ? Hy Hnd']; subst. destruct Hin as [<-|Hin].
  - rewrite N.eqb_refl. reflexivity.
  - destruct (N.eqb (rc_id y) (rc_id x)) eqn:E.
    + apply N.eqb_eq in E. exfalso. apply Hy. rewrite E. apply in_map. exact Hin.
    + apply IH; auto.
Qed.

Lemma map_ids : forall (f : recv -> recv) l, (forall r, rc_id (f r) = rc_id r) -> map rc_id (map f l) = map rc_id l.
Proof. intros f l H. rewrite map_map. apply map_ext. exact H. Qed.

Lemma upd_recv_ids : forall f id l, (forall r, rc_id (f r) = rc_id r) -> map rc_id (upd_recv f id l) = map rc_id l.
Proof.
  intros f id l H. unfold upd_recv. apply map_ids. intros r. destruct (N.eqb (rc_id r) id); [apply H|reflexivity].
Qed.

(** the per-receiver invariant, relative to the handled message frames [h], the sends in progress [p] and p.error *)
Record rinv (h : list (kind * msg)) (p : list (kind * N * msg)) (pe : option perr) (r : recv) : Prop := {
  ri_from : (rc_from r <= length h)%nat;
  ri_to : match rc_to r with
          | Some t => (rc_from r <= t <= length h)%nat /\ rc_reg r = false
          | None => rc_reg r = true
          end;
  ri_open : rc_open r = rc_reg r;
  ri_nopend : rc_reg r = false -> pend_msgs (rc_id r) p = [];
  ri_live : rc_drain r = false -> rc_got r ++ rc_buf r ++ pend_msgs (rc_id r) p = fmsgs r (window h r);
  ri_prefix : exists rest, rc_got r ++ rest = fmsgs r (window h r);
  ri_done : forall ret, rc_state r = RDone ret ByClose -> rc_reg r = false /\ rc_got r = fmsgs r (window h r);
  ri_drain : rc_drain r = true -> exists ret how, rc_state r = RDone ret how;
  ri_done_drain : forall ret how, rc_state r = RDone ret how -> rc_drain r = true \/ (how = Refused /\ rc_reg r = false);
  ri_ctx : forall ret, rc_state r = RDone ret ByCtx -> ret = Some ECtx /\ rc_ctx r = true;
  ri_close_nil : rc_state r = RDone None ByClose -> exists c, rc_by r = Some (RemUnsub c) /\ mem_bytes c (rc_cs r) = true;
  ri_close_err : forall e, rc_state r = RDone (Some e) ByClose -> pe = Some e;
  ri_by_unsub : forall c, rc_by r = Some (RemUnsub c) -> mem_bytes c (rc_cs r) = true;
  ri_by_cleanup : rc_by r = Some RemCleanup -> pe <> None;
  ri_by_cancel : rc_by r = Some RemCancel -> exists ret how, rc_state r = RDone ret how;
  ri_by_some : rc_reg r = false -> rc_by r <> None \/ exists ret, rc_state r = RDone ret Refused
}.

Record ginv (s : state) : Prop := {
  gi_nodup : NoDup (map rc_id (st_recvs s));
  gi_recvs : Forall (rinv (st_hist s) (st_pend s) (st_perr s)) (st_recvs s);
  gi_pend : forall x, In x (st_pend s) -> exists r, In r (st_recvs s) /\ rc_id r = snd (fst x) /\ rc_kind r = fst (fst x)
}.

Lemma ginv_init : forall b, ginv (init b).
Proof. intros b. constructor; cbn; [constructor|constructor|intros x []]. Qed.

(** p.error only ever goes from nil to an error *)
Lemma rinv_perr : forall h p pe pe' r, (forall e, pe = Some e -> pe' = Some e) -> rinv h p pe r -> rinv h p pe' r.
Proof.
  intros h p pe pe' r Hm [A B C D E F G H I J K L M N O P]. constructor; auto.
  - intros Hx. specialize (N Hx). destruct pe as [e|]; [|congruence]. rewrite (Hm e eq_refl). discriminate.
Qed.

(** no send in progress is addressed to a receiver of another kind *)
Lemma pend_for_none : forall s r, ginv s -> In r (st_recvs s) -> pend_for (rc_kind r) (st_pend s) = false ->
  pend_msgs (rc_id r) (st_pend s) = [].
Proof.
  intros s r [Hnd _ Hp] Hin Hf. unfold pend_msgs.
  assert (Hnone : forall x, In x (st_pend s) -> N.eqb (snd (fst x)) (rc_id r) = false).
  { intros x Hx. destruct (N.eqb (snd (fst x)) (rc_id r)) eqn:E; [|reflexivity].
    apply N.eqb_eq in E. destruct (Hp x Hx) as [r' [A [B C]]].
    assert (r' = r).
    { assert (F1 : find_recv (rc_id r) (st_recvs s) = Some r') by (apply find_recv_some; auto; congruence).
      assert (F2 : find_recv (rc_id r) (st_recvs s) = Some r) by (apply find_recv_some; auto). congruence. }
    subst r'. unfold pend_for in Hf.
    assert (existsb (fun y => kind_eqb (fst (fst y)) (rc_kind r)) (st_pend s) = true).
    { apply existsb_exists. exists x. split; [exact Hx|]. rewrite <- C. destruct (rc_kind r); reflexivity. }
    congruence. }
  clear Hp Hf. induction (st_pend s) as [|x l IH]; [reflexivity|]. cbn.
  rewrite (Hnone x (or_introl eq_refl)). apply IH. intros y Hy. apply Hnone. right. exact Hy.
Qed.

Lemma Forall_upd : forall (P : recv -> Prop) f id l,
  Forall P l -> (forall r, In r l -> rc_id r = id -> P r -> P (f r)) -> Forall P (upd_recv f id l).
Proof.
  intros P f id l H Hf. unfold upd_recv. apply Forall_forall. intros y Hy. apply in_map_iff in Hy.
  destruct Hy as [r [Hr Hin]]. rewrite Forall_forall in H. specialize (H r Hin).
  destruct (N.eqb (rc_id r) id) eqn:E; subst y; [apply Hf; auto; apply N.eqb_eq; exact E|exact H].
Qed.

Lemma in_upd_recv : forall f id l y, In y (upd_recv f id l) ->
  exists r, In r l /\ y = (if N.eqb (rc_id r) id then f r else r).
Proof. intros f id l y H. unfold upd_recv in H. apply in_map_iff in H. destruct H as [r [A B]]. eauto. Qed.

(** updating one receiver keeps the addressees of the sends in progress *)
Lemma pend_upd : forall f id (l : list recv) (p : list (kind * N * msg)),
  (forall r, rc_id (f r) = rc_id r /\ rc_kind (f r) = rc_kind r) ->
  (forall x, In x p -> exists r, In r l /\ rc_id r = snd (fst x) /\ rc_kind r = fst (fst x)) ->
  forall x, In x p -> exists r, In r (upd_recv f id l) /\ rc_id r = snd (fst x) /\ rc_kind r = fst (fst x).
Proof.
  intros f id l p Hf H x Hx. destruct (H x Hx) as [r [A [B C]]].
  exists (if N.eqb (rc_id r) id then f r else r). split.
  - unfold upd_recv. apply in_map_iff. exists r. auto.
  - destruct (N.eqb (rc_id r) id); [destruct (Hf r) as [X Y]; rewrite X, Y|]; auto.
Qed.

Lemma pend_map : forall (f : recv -> recv) (l : list recv) (p : list (kind * N * msg)),
  (forall r, rc_id (f r) = rc_id r /\ rc_kind (f r) = rc_kind r) ->
  (forall x, In x p -> exists r, In r l /\ rc_id r = snd (fst x) /\ rc_kind r = fst (fst x)) ->
  forall x, In x p -> exists r, In r (map f l) /\ rc_id r = snd (fst x) /\ rc_kind r = fst (fst x).
Proof.
  intros f l p Hf H x Hx. destruct (H x Hx) as [r [A [B C]]].
  exists (f r). split; [apply in_map; exact A|]. destruct (Hf r) as [X Y]. rewrite X, Y. auto.
Qed.

(** * single-receiver updates *)
Ltac ri_destruct H := destruct H as [Hfrom Hto Hopen Hnopend Hlive Hprefix Hdone Hdrain Hdd Hctx Hcnil Hcerr Hbu Hbc Hbca Hbs].

Lemma not_done_not_drain : forall h p pe r, rinv h p pe r ->
  (forall ret how, rc_state r <> RDone ret how) -> rc_drain r = false.
Proof.
  intros h p pe r H Hs. destruct (rc_drain r) eqn:E; [|reflexivity].
  destruct (ri_drain _ _ _ _ H E) as [ret [how X]]. exfalso. eapply Hs; eauto.
Qed.

Lemma rinv_take : forall h p pe r m b, rinv h p pe r -> rc_buf r = m :: b ->
  (forall ret how, rc_state r <> RDone ret how) -> rinv h p pe (take_msg r).
Proof.
  intros h p pe r m b H Hb Hs. pose proof (not_done_not_drain _ _ _ _ H Hs) as Hnd. ri_destruct H.
  unfold take_msg. rewrite Hb.
  assert (W : forall x, window h (mkRecv (rc_id r) (rc_kind r) (rc_cs r) (rc_ctx r) (rc_state r) (rc_reg r) (rc_open r) (rc_drain r) b x (rc_from r) (rc_to r) (rc_by r)) = window h r) by reflexivity.
  assert (Fm : forall x l, fmsgs (mkRecv (rc_id r) (rc_kind r) (rc_cs r) (rc_ctx r) (rc_state r) (rc_reg r) (rc_open r) (rc_drain r) b x (rc_from r) (rc_to r) (rc_by r)) l = fmsgs r l) by reflexivity.
  specialize (Hlive Hnd). rewrite Hb in Hlive.
  constructor; cbn [rc_id rc_kind rc_cs rc_ctx rc_state rc_reg rc_open rc_drain rc_buf rc_got rc_from rc_to rc_by]; rewrite ?W, ?Fm; auto.
  - intros _. rewrite <- app_assoc. exact Hlive.
  - exists (b ++ pend_msgs (rc_id r) p). rewrite <- app_assoc. exact Hlive.
  - intros ret Hx. exfalso. eapply Hs; eauto.
Qed.

Lemma rinv_set_state : forall h p pe r, rinv h p pe r -> rc_state r = RWait -> rinv h p pe (set_state RLoop r).
Proof.
  intros h p pe r H Hs. ri_destruct H. unfold set_state.
  constructor; cbn [rc_id rc_kind rc_cs rc_ctx rc_state rc_reg rc_open rc_drain rc_buf rc_got rc_from rc_to rc_by]; auto;
    try (intros; discriminate).
  - intros Hd. destruct (Hdrain Hd) as [ret [how X]]. congruence.
  - intros Hx. destruct (Hbca Hx) as [ret [how X]]. congruence.
  - intros Hr. destruct (Hbs Hr) as [X|[ret X]]; [left; exact X|congruence].
Qed.

(** leaving the loop: by context, by a failed command, or because the channel was closed and is empty *)
Lemma rinv_finished : forall h p pe r ret how, rinv h p pe r ->
  (forall r0 h0, rc_state r <> RDone r0 h0) ->
  match how with
  | ByClose => rc_open r = false /\ rc_buf r = [] /\ ret = pe
  | ByCtx => ret = Some ECtx /\ rc_ctx r = true
  | ByCmdErr => True
  | Refused => False
  end ->
  rinv h p pe (finished ret how r).
Proof.
  intros h p pe r ret how H Hs Hhow. pose proof (not_done_not_drain _ _ _ _ H Hs) as Hnd. ri_destruct H.
  specialize (Hlive Hnd). unfold finished.
  assert (W : window h (mkRecv (rc_id r) (rc_kind r) (rc_cs r) (rc_ctx r) (RDone ret how) (rc_reg r) (rc_open r) true [] (rc_got r) (rc_from r) (rc_to r) (rc_by r)) = window h r) by reflexivity.
  assert (Fm : forall l, fmsgs (mkRecv (rc_id r) (rc_kind r) (rc_cs r) (rc_ctx r) (RDone ret how) (rc_reg r) (rc_open r) true [] (rc_got r) (rc_from r) (rc_to r) (rc_by r)) l = fmsgs r l) by reflexivity.
  constructor; cbn [rc_id rc_kind rc_cs rc_ctx rc_state rc_reg rc_open rc_drain rc_buf rc_got rc_from rc_to rc_by]; rewrite ?W, ?Fm; auto;
    try (intros; discriminate).
  - intros ret0 Hx. injection Hx as -> ->. destruct Hhow as [Ho [Hb _]].
    assert (Hr : rc_reg r = false) by congruence. split; [exact Hr|].
    rewrite Hb, (Hnopend Hr), !app_nil_r in Hlive. exact Hlive.
  - intros _. eauto.
  - intros ret0 Hx. injection Hx as -> ->. exact Hhow.
  - intros Hx. injection Hx as -> ->. destruct Hhow as [Ho [Hb Hp]].
    assert (Hr : rc_reg r = false) by congruence.
    destruct (Hbs Hr) as [Hby|[r0 X]]; [|exfalso; eapply Hs; eauto].
    destruct (rc_by r) as [[c| |]|] eqn:Eby; [| | |congruence].
    + exists c. split; [reflexivity|]. apply Hbu. reflexivity.
    + exfalso. apply Hbc; [reflexivity|]. congruence.
    + destruct (Hbca eq_refl) as [r0 [h0 X]]. exfalso. eapply Hs; eauto.
  - intros e Hx. injection Hx as -> ->. destruct Hhow as [_ [_ Hp]]. congruence.
  - intros _. eauto.
  - intros Hr. destruct (Hbs Hr) as [X|[r0 X]]; [left; exact X|exfalso; eapply Hs; eauto].
Qed.

(** s.remove(id): by cancel(), by an unsubscribe push, or by the clean-up *)
Lemma rinv_removed : forall h p pe r by_, rinv h p pe r -> rc_reg r = true ->
  pend_msgs (rc_id r) p = [] ->
  match by_ with
  | RemUnsub c => mem_bytes c (rc_cs r) = true
  | RemCleanup => pe <> None
  | RemCancel => exists ret how, rc_state r = RDone ret how
  end ->
  rinv h p pe (removed (length h) by_ r).
Proof.
  intros h p pe r by_ H Hr Hp Hby. ri_destruct H. unfold removed.
  assert (Hto' : rc_to r = None) by (destruct (rc_to r) as [t|]; [destruct Hto; congruence|reflexivity]).
  assert (W : forall st rg op bu, window h (mkRecv (rc_id r) (rc_kind r) (rc_cs r) (rc_ctx r) st rg op (rc_drain r) bu (rc_got r) (rc_from r) (Some (length h)) (Some by_)) = window h r).
  { intros. unfold window at 1. cbn [rc_to rc_from]. apply window_close; assumption. }
  assert (Fm : forall l, fmsgs (mkRecv (rc_id r) (rc_kind r) (rc_cs r) (rc_ctx r) (rc_state r) false false (rc_drain r) (rc_buf r) (rc_got r) (rc_from r) (Some (length h)) (Some by_)) l = fmsgs r l) by reflexivity.
  constructor; cbn [rc_id rc_kind rc_cs rc_ctx rc_state rc_reg rc_open rc_drain rc_buf rc_got rc_from rc_to rc_by]; rewrite ?W, ?Fm; auto.
  - intros ret Hx. destruct (Hdone ret Hx) as [X _]. congruence.
  - intros ret how Hx. destruct (Hdd ret how Hx) as [X|[_ X]]; [left; exact X|congruence].
  - intros Hx. destruct (Hdone None Hx) as [X _]. congruence.
  - intros c Hx. injection Hx as ->. exact Hby.
  - intros Hx. injection Hx as ->. exact Hby.
  - intros Hx. injection Hx as ->. exact Hby.
  - intros _. left. discriminate.
Qed.

(** * the reader's Publish *)
Lemma pend_msgs_targets : forall (P : recv -> bool) k m l r,
  NoDup (map rc_id l) -> In r l ->
  pend_msgs (rc_id r) (map (fun r' => (k, rc_id r', m)) (filter P l)) = if P r then [m] else [].
Proof.
  intros P k m l r. induction l as [|y l IH]; intros Hnd Hin; [contradiction|].
  inversion Hnd as [|? ? Hy Hnd']; subst. cbn [filter].
  assert (Hnot : forall l0, ~ In (rc_id r) (map rc_id l0) ->
            pend_msgs (rc_id r) (map (fun r' => (k, rc_id r', m)) (filter P l0)) = []).
  { induction l0 as [|z l0 IH0]; intros Hz; [reflexivity|]. cbn [filter]. cbn in Hz.
    destruct (P z).
    - cbn. unfold pend_msgs in *. cbn. destruct (N.eqb (rc_id z) (rc_id r)) eqn:E.
      + apply N.eqb_eq in E. exfalso. apply Hz. left. exact E.
      + apply IH0. intros Hx. apply Hz. right. exact Hx.
    - apply IH0. intros Hx. apply Hz. right. exact Hx. }
  destruct Hin as [<-|Hin].
  - destruct (P y).
    + cbn [map]. unfold pend_msgs at 1. cbn [filter fst snd]. rewrite N.eqb_refl. cbn [map snd].
      fold (pend_msgs (rc_id y) (map (fun r' => (k, rc_id r', m)) (filter P l))). rewrite (Hnot l Hy). reflexivity.
    + apply (Hnot l Hy).
  - assert (Hne : rc_id y <> rc_id r). { intros E. apply Hy. rewrite E. apply in_map. exact Hin. }
    destruct (P y).
    + cbn [map]. unfold pend_msgs at 1. cbn [filter fst snd]. apply N.eqb_neq in Hne. rewrite Hne.
      apply IH; auto.
    + apply IH; auto.
Qed.

Lemma fmsgs_one : forall r k m, fmsgs r [(k, m)] = if matches r (k, m) then [m] else [].
Proof. intros. unfold fmsgs. cbn. destruct (matches r (k, m)); reflexivity. Qed.

Lemma rinv_push_msg : forall h pe l r k m,
  NoDup (map rc_id l) -> In r l -> rinv h [] pe r ->
  rinv (h ++ [(k, m)]) (map (fun r' => (k, rc_id r', m)) (subscribers k (msg_key k m) l)) pe r.
Proof.
  intros h pe l r k m Hnd Hin H. ri_destruct H.
  assert (Htb : forall t, rc_to r = Some t -> (t <= length h)%nat).
  { intros t Et. rewrite Et in Hto. lia. }
  pose proof (window_app h (k, m) r Hfrom Htb) as W.
  assert (Ep : pend_msgs (rc_id r) (map (fun r' => (k, rc_id r', m)) (subscribers k (msg_key k m) l)) =
               if kind_eqb (rc_kind r) k && rc_reg r && mem_bytes (msg_key k m) (rc_cs r) then [m] else []).
  { unfold subscribers. apply (pend_msgs_targets (fun r0 => kind_eqb (rc_kind r0) k && rc_reg r0 && mem_bytes (msg_key k m) (rc_cs r0)) k m l r Hnd Hin). }
  assert (Hm : matches r (k, m) = kind_eqb (rc_kind r) k && mem_bytes (msg_key k m) (rc_cs r)) by reflexivity.
  constructor; rewrite ?Ep; auto.
  - rewrite app_length. cbn. lia.
  - destruct (rc_to r) as [t|]; [|exact Hto]. rewrite app_length. cbn. destruct Hto. split; [lia|assumption].
  - intros Hr. rewrite Hr, andb_false_r. reflexivity.
  - intros Hd. specialize (Hlive Hd). cbn [pend_msgs filter map] in Hlive. rewrite app_nil_r in Hlive.
    rewrite W, fmsgs_app, <- Hlive.
    destruct (rc_to r) as [t|] eqn:Et.
    + destruct Hto as [_ Hr]. rewrite Hr, andb_false_r. cbn. rewrite !app_nil_r. reflexivity.
    + rewrite Hto, andb_true_r, fmsgs_one, Hm. rewrite <- app_assoc. reflexivity.
  - destruct Hprefix as [rest Hp]. rewrite W, fmsgs_app. eexists. rewrite <- Hp, <- app_assoc. reflexivity.
  - intros ret Hx. destruct (Hdone ret Hx) as [Hr Hg]. split; [exact Hr|].
    rewrite W, fmsgs_app. destruct (rc_to r) as [t|]; [cbn; rewrite app_nil_r; exact Hg|congruence].
Qed.

(** one send of the Publish in progress *)
Lemma pend_msgs_cons_other : forall id k r m rest, r <> id -> pend_msgs id ((k, r, m) :: rest) = pend_msgs id rest.
Proof. intros. unfold pend_msgs. cbn. apply N.eqb_neq in H. rewrite H. reflexivity. Qed.

Lemma pend_msgs_cons_same : forall id k m rest, pend_msgs id ((k, id, m) :: rest) = m :: pend_msgs id rest.
Proof. intros. unfold pend_msgs. cbn. rewrite N.eqb_refl. reflexivity. Qed.

Lemma rinv_send_other : forall h pe k id m rest r, rc_id r <> id ->
  rinv h ((k, id, m) :: rest) pe r -> rinv h rest pe r.
Proof.
  intros h pe k id m rest r Hne H. ri_destruct H.
  rewrite (pend_msgs_cons_other (rc_id r) k id m rest) in * by congruence.
  constructor; auto.
Qed.

Lemma rinv_send_drain : forall h pe k m rest r, rc_drain r = true ->
  rinv h ((k, rc_id r, m) :: rest) pe r -> rinv h rest pe r.
Proof.
  intros h pe k m rest r Hd H. ri_destruct H. rewrite pend_msgs_cons_same in *.
  constructor; auto.
  - intros Hr. specialize (Hnopend Hr). discriminate.
  - intros Hx. congruence.
Qed.

Lemma rinv_send_buf : forall h pe k m rest r, rc_drain r = false ->
  rinv h ((k, rc_id r, m) :: rest) pe r -> rinv h rest pe (set_buf (rc_buf r ++ [m]) r).
Proof.
  intros h pe k m rest r Hd H. ri_destruct H. rewrite pend_msgs_cons_same in *. unfold set_buf.
  assert (W : window h (mkRecv (rc_id r) (rc_kind r) (rc_cs r) (rc_ctx r) (rc_state r) (rc_reg r) (rc_open r) (rc_drain r) (rc_buf r ++ [m]) (rc_got r) (rc_from r) (rc_to r) (rc_by r)) = window h r) by reflexivity.
  assert (Fm : forall l, fmsgs (mkRecv (rc_id r) (rc_kind r) (rc_cs r) (rc_ctx r) (rc_state r) (rc_reg r) (rc_open r) (rc_drain r) (rc_buf r ++ [m]) (rc_got r) (rc_from r) (rc_to r) (rc_by r)) l = fmsgs r l) by reflexivity.
  constructor; cbn [rc_id rc_kind rc_cs rc_ctx rc_state rc_reg rc_open rc_drain rc_buf rc_got rc_from rc_to rc_by]; rewrite ?W, ?Fm; auto.
  - intros Hr. specialize (Hnopend Hr). discriminate.
  - intros _. specialize (Hlive Hd). rewrite <- Hlive, <- !app_assoc. reflexivity.
Qed.

Lemma pend_msgs_none : forall id (p : list (kind * N * msg)), (forall x, In x p -> snd (fst x) <> id) -> pend_msgs id p = [].
Proof.
  intros id p. unfold pend_msgs. induction p as [|x l IH]; intros H; [reflexivity|]. cbn.
  destruct (N.eqb (snd (fst x)) id) eqn:E.
  - apply N.eqb_eq in E. exfalso. apply (H x); [left; reflexivity|exact E].
  - apply IH. intros y Hy. apply H. right. exact Hy.
Qed.

(** * the step lemma *)
Lemma Forall_rinv_weaken : forall h p pe pe' l, (forall e, pe = Some e -> pe' = Some e) ->
  Forall (rinv h p pe) l -> Forall (rinv h p pe') l.
Proof. intros. eapply Forall_impl; [|eassumption]. intros r Hr. eapply rinv_perr; eauto. Qed.

Lemma find_recv_inv : forall s r x, ginv s -> find_recv r (st_recvs s) = Some x ->
  In x (st_recvs s) /\ rc_id x = r /\ rinv (st_hist s) (st_pend s) (st_perr s) x.
Proof.
  intros s r x G F. destruct (find_recv_in _ _ _ F) as [A B]. split; [exact A|]. split; [exact B|].
  pose proof (gi_recvs _ G) as Hf. rewrite Forall_forall in Hf. apply Hf. exact A.
Qed.

Lemma upd_same : forall s (f : recv -> recv) id x, ginv s -> In x (st_recvs s) -> rc_id x = id ->
  forall r, In r (st_recvs s) -> rc_id r = id -> r = x.
Proof.
  intros s f id x G Hx Hid r Hr Hrid.
  assert (F1 : find_recv id (st_recvs s) = Some r) by (apply find_recv_some; auto; apply (gi_nodup _ G)).
  assert (F2 : find_recv id (st_recvs s) = Some x) by (apply find_recv_some; auto; apply (gi_nodup _ G)).
  congruence.
Qed.

(** a step that rewrites one receiver and nothing else the invariant depends on *)
Lemma ginv_upd_one : forall s f id x,
  ginv s -> In x (st_recvs s) -> rc_id x = id ->
  (forall r, rc_id (f r) = rc_id r /\ rc_kind (f r) = rc_kind r) ->
  rinv (st_hist s) (st_pend s) (st_perr s) (f x) ->
  ginv (with_recvs s (upd_recv f id (st_recvs s))).
Proof.
  intros s f id x G Hx Hid Hf Hnew. pose proof G as [Hnd Hall Hp]. constructor; cbn.
  - rewrite upd_recv_ids; [exact Hnd|]. intros r. apply Hf.
  - apply Forall_upd; [exact Hall|]. intros r Hr Hrid _.
    rewrite (upd_same s f id x G Hx Hid r Hr Hrid). exact Hnew.
  - apply pend_upd; assumption.
Qed.

Lemma ids_kind_finished : forall ret how r, rc_id (finished ret how r) = rc_id r /\ rc_kind (finished ret how r) = rc_kind r.
Proof. intros; split; reflexivity. Qed.
Lemma ids_kind_removed : forall n b r, rc_id (removed n b r) = rc_id r /\ rc_kind (removed n b r) = rc_kind r.
Proof. intros; split; reflexivity. Qed.
Lemma ids_kind_take : forall r, rc_id (take_msg r) = rc_id r /\ rc_kind (take_msg r) = rc_kind r.
Proof. intros r. unfold take_msg. destruct (rc_buf r); split; reflexivity. Qed.

Lemma ginv_frame : forall s s',
  st_recvs s' = st_recvs s -> st_hist s' = st_hist s -> st_pend s' = st_pend s ->
  (forall e, st_perr s = Some e -> st_perr s' = Some e) -> ginv s -> ginv s'.
Proof.
  intros s s' A B C D [Hnd Hall Hp]. constructor; rewrite ?A, ?B, ?C; auto.
  eapply Forall_rinv_weaken; eauto.
Qed.

Lemma ginv_cleanup : forall s s', ginv s -> st_pend s = [] -> st_perr s <> None ->
  st_recvs s' = map (fun r => if rc_reg r then removed (length (st_hist s)) RemCleanup r else r) (st_recvs s) ->
  st_pend s' = [] -> st_hist s' = st_hist s -> st_perr s' = st_perr s -> ginv s'.
Proof.
  intros s s' [Hnd Hall Hp] Epend Hpe A B C D. constructor; rewrite ?A, ?B, ?C, ?D.
  - rewrite map_ids; [exact Hnd|]. intros x. destruct (rc_reg x); reflexivity.
  - apply Forall_forall. intros y Hy. apply in_map_iff in Hy. destruct Hy as [x [<- Hx]].
    rewrite Forall_forall in Hall. specialize (Hall x Hx). rewrite Epend in Hall.
    destruct (rc_reg x) eqn:Er; [|exact Hall]. apply rinv_removed; auto.
  - intros x [].
Qed.

Lemma ginv_step : forall pm s l s', ginv s -> step pm s l = Some s' -> ginv s'.
Proof.
  intros pm s l s' G H. destruct l; cbn [step] in H.
  - (* LSubscribe *) step_inv H.
    + pose proof G as [Hnd Hall Hp]. pose proof (find_recv_none _ _ E0) as Hfresh.
      constructor; cbn.
      * rewrite map_app. cbn. apply NoDup_app_one; [exact Hnd|]. intros Hx. apply in_map_iff in Hx.
        destruct Hx as [x [A B]]. apply (Hfresh x B). exact A.
      * apply Forall_app. split; [exact Hall|]. constructor; [|constructor].
        assert (Hpm : pend_msgs r (st_pend s) = []).
        { apply pend_msgs_none. intros x Hx. destruct (Hp x Hx) as [r0 [A [B C]]]. rewrite <- B. apply Hfresh. exact A. }
        constructor; cbn; auto; try (intros; discriminate).
        -- unfold window. cbn. rewrite skipn_all. cbn. rewrite Hpm. reflexivity.
        -- exists []. unfold window. cbn. rewrite skipn_all. reflexivity.
      * intros x Hx. destruct (Hp x Hx) as [r0 [A B]]. exists r0. split; [apply in_or_app; left; exact A|exact B].
    + pose proof G as [Hnd Hall Hp]. pose proof (find_recv_none _ _ E0) as Hfresh.
      constructor; cbn.
      * rewrite map_app. cbn. apply NoDup_app_one; [exact Hnd|]. intros Hx. apply in_map_iff in Hx.
        destruct Hx as [x [A B]]. apply (Hfresh x B). exact A.
      * apply Forall_app. split; [exact Hall|]. constructor; [|constructor].
        assert (Hpm : pend_msgs r (st_pend s) = []).
        { apply pend_msgs_none. intros x Hx. destruct (Hp x Hx) as [r0 [A [B C]]]. rewrite <- B. apply Hfresh. exact A. }
        constructor; cbn; auto; try (intros; discriminate).
        all: try (split; [lia|reflexivity]).
        all: try (intros; unfold window; cbn; rewrite Nat.sub_diag; cbn; rewrite ?Hpm; reflexivity).
        all: try (exists []; unfold window; cbn; rewrite Nat.sub_diag; reflexivity).
        all: try (intros ret how Hx; injection Hx as _ <-; right; auto).
        all: try (intros _; right; eauto).
      * intros x Hx. destruct (Hp x Hx) as [r0 [A B]]. exists r0. split; [apply in_or_app; left; exact A|exact B].
  - (* LCmdErr *) step_inv H. destruct (find_recv_inv _ _ _ G E) as [A [B C]].
    eapply ginv_upd_one; eauto using ids_kind_finished.
    apply rinv_finished; auto. intros ? ?; congruence.
  - (* LRecv *) step_inv H; destruct (find_recv_inv _ _ _ G E) as [A [B C]];
      (eapply ginv_upd_one; eauto using ids_kind_take); (eapply rinv_take; eauto; intros ? ?; congruence).
  - (* LEnd *) step_inv H. destruct (find_recv_inv _ _ _ G E) as [A [B C]].
    eapply ginv_upd_one; eauto using ids_kind_finished.
    apply rinv_finished; auto. intros ? ?; congruence.
  - (* LCtx *) step_inv H. destruct (find_recv_inv _ _ _ G E) as [A [B C]].
    eapply ginv_upd_one; eauto using ids_kind_finished.
    apply rinv_finished; auto. intros ? ?; congruence.
  - (* LRemove *) step_inv H; [|exact G]. destruct (find_recv_inv _ _ _ G E) as [A [B C]].
    eapply ginv_upd_one; eauto using ids_kind_removed.
    apply rinv_removed; auto.
    + apply pend_for_none; auto.
    + eauto.
  - (* LPush *) step_inv H. pose proof G as [Hnd Hall Hp]. rewrite E in Hall, Hp.
    destruct f as [k m|k c [r|]|k c|keys]; unfold handle_push; cbn -[upd_recv subscribers].
    + (* message: Publish *)
      constructor; cbn -[upd_recv subscribers].
      * exact Hnd.
      * apply Forall_forall. intros r Hr. rewrite Forall_forall in Hall.
        apply rinv_push_msg; auto.
      * intros x Hx. apply in_map_iff in Hx. destruct Hx as [r [<- Hr]].
        unfold subscribers in Hr. apply filter_In in Hr. destruct Hr as [Hr Hc].
        exists r. cbn. split; [exact Hr|]. split; [reflexivity|].
        apply andb_prop in Hc. destruct Hc as [Hc _]. apply andb_prop in Hc. destruct Hc as [Hc _].
        destruct (rc_kind r), k; try discriminate; reflexivity.
    + (* confirmation that answers a command *)
      constructor; cbn -[upd_recv subscribers].
      * rewrite upd_recv_ids; [exact Hnd|]. intros x. destruct (rc_state x); reflexivity.
      * apply Forall_upd; [exact Hall|]. intros x Hx Hid Hri. destruct (rc_state x) eqn:Es; auto.
        apply rinv_set_state; auto.
      * intros x [].
    + eapply ginv_frame; [..|exact G]; auto; cbn; symmetry; exact E.
    + (* unsubscribe push *)
      constructor; cbn -[upd_recv subscribers].
      * rewrite map_ids; [exact Hnd|]. intros x. destruct (kind_eqb (rc_kind x) k && rc_reg x && mem_bytes c (rc_cs x)); reflexivity.
      * apply Forall_forall. intros y Hy. apply in_map_iff in Hy. destruct Hy as [x [<- Hx]].
        rewrite Forall_forall in Hall. specialize (Hall x Hx).
        destruct (kind_eqb (rc_kind x) k && rc_reg x && mem_bytes c (rc_cs x)) eqn:Ec; [|exact Hall].
        apply andb_prop in Ec. destruct Ec as [Ec Hm]. apply andb_prop in Ec. destruct Ec as [_ Hr].
        apply rinv_removed; auto.
      * intros x [].
    + eapply ginv_frame; [..|exact G]; auto; cbn; symmetry; exact E.
  - (* LSend *) step_inv H; pose proof G as [Hnd Hall Hp];
      match goal with Hf : find_recv _ _ = Some _ |- _ => destruct (find_recv_in _ _ _ Hf) as [A B] end;
      match goal with Hq : st_pend s = _ :: _ |- _ => rename Hq into Epend end; subst.
    + (* drained *)
      constructor; cbn; [exact Hnd| |intros x Hx; apply Hp; rewrite Epend; right; exact Hx].
      apply Forall_forall. intros y Hy. rewrite Forall_forall in Hall. specialize (Hall y Hy). rewrite Epend in Hall.
      destruct (N.eq_dec (rc_id y) (rc_id r)) as [Heq|Hne].
      * assert (y = r) by (eapply (upd_same s (fun z => z)); eauto). subst y. eapply rinv_send_drain; eauto.
      * eapply rinv_send_other; eauto.
    + (* buffered *)
      constructor; cbn.
      * rewrite upd_recv_ids; [exact Hnd|]. reflexivity.
      * apply Forall_forall. intros y Hy. apply in_upd_recv in Hy. destruct Hy as [x [Hx ->]].
        rewrite Forall_forall in Hall. specialize (Hall x Hx). rewrite Epend in Hall.
        destruct (N.eqb (rc_id x) (rc_id r)) eqn:Eq.
        -- apply N.eqb_eq in Eq. assert (x = r) by (eapply (upd_same s (fun z => z)); eauto). subst x.
           eapply rinv_send_buf; eauto.
        -- apply N.eqb_neq in Eq. eapply rinv_send_other; eauto.
      * intros x Hx. assert (Hx' : In x (st_pend s)) by (rewrite Epend; right; exact Hx).
        eapply (pend_upd _ (rc_id r) (st_recvs s) (st_pend s)); eauto; intros z; split; reflexivity.
  - (* LSetErr *) step_inv H. eapply ginv_frame; [..|exact G]; auto. cbn. intros e0 He. rewrite He. reflexivity.
  - (* LCleanup *) step_inv H.
    assert (Hpe : st_perr s <> None) by congruence.
    destruct (st_cur s); (eapply (ginv_cleanup s); [exact G|assumption|exact Hpe|reflexivity|reflexivity|reflexivity|]; cbn; congruence).
  - (* LSetHooks *) step_inv H. destruct (st_cur s); (eapply ginv_frame; [..|exact G]; auto).
  - (* LClearHooks *) step_inv H. destruct (st_cur s); (eapply ginv_frame; [..|exact G]; auto).
  - (* LCheckHooks *) step_inv H; cbn [st_cur]; try destruct (st_cur s); (eapply ginv_frame; [..|exact G]; auto).
  - step_inv H; (eapply ginv_frame; [..|exact G]; auto).
  - step_inv H; (eapply ginv_frame; [..|exact G]; auto).
  - step_inv H; (eapply ginv_frame; [..|exact G]; auto).
  - step_inv H; (eapply ginv_frame; [..|exact G]; auto).
Qed.

(** * reachable states *)
Theorem ginv_reach : forall pm b ls s, run pm (init b) ls = Some s -> ginv s.
Proof.
  intros pm b ls s H. apply (run_invariant pm ginv) with (ls := ls) (s := init b); auto.
  - intros s0 l s1 G Hs. eapply ginv_step; eauto.
  - apply ginv_init.
Qed.

Theorem delivery : forall pm b ls s, run pm (init b) ls = Some s ->
  forall r, In r (st_recvs s) ->
    (exists rest, rc_got r ++ rest = fmsgs r (window (st_hist s) r)) /\
    (rc_drain r = false -> rc_got r ++ rc_buf r ++ pend_msgs (rc_id r) (st_pend s) = fmsgs r (window (st_hist s) r)) /\
    (forall ret, rc_state r = RDone ret ByClose -> rc_got r = fmsgs r (window (st_hist s) r)).
Proof.
  intros pm b ls s H r Hr. pose proof (ginv_reach pm b ls s H) as [_ Hall _].
  rewrite Forall_forall in Hall. specialize (Hall r Hr). ri_destruct Hall.
  split; [exact Hprefix|]. split; [exact Hlive|]. intros ret Hx. apply (Hdone ret Hx).
Qed.

(** every delivered message is for one of the receiver's own channels / patterns, of its own kind *)
Lemma fmsgs_in : forall r h m, In m (fmsgs r h) -> exists k, In (k, m) h /\ matches r (k, m) = true.
Proof.
  intros r h m H. unfold fmsgs in H. apply in_map_iff in H. destruct H as [[k m'] [E Hin]]. cbn in E. subst m'.
  apply filter_In in Hin. exists k. exact Hin.
Qed.

Lemma in_firstn : forall {A} n (l : list A) x, In x (firstn n l) -> In x l.
Proof. induction n; intros l x H; [contradiction|]. destruct l; [contradiction|]. destruct H; [left|right]; auto. Qed.

Lemma in_skipn : forall {A} n (l : list A) x, In x (skipn n l) -> In x l.
Proof. induction n; intros l x H; [exact H|]. destruct l; [contradiction|]. right. apply IHn. exact H. Qed.

Lemma window_incl : forall h r x, In x (window h r) -> In x h.
Proof.
  intros h r x H. unfold window in H. destruct (rc_to r) as [t|].
  - apply in_firstn in H. eapply in_skipn; eauto.
  - eapply in_skipn; eauto.
Qed.

Theorem no_foreign : forall pm b ls s, run pm (init b) ls = Some s ->
  forall r m, In r (st_recvs s) -> In m (rc_got r) ->
    exists k, In (k, m) (st_hist s) /\ k = rc_kind r /\ mem_bytes (msg_key k m) (rc_cs r) = true.
Proof.
  intros pm b ls s H r m Hr Hm. destruct (delivery pm b ls s H r Hr) as [[rest Hp] _].
  assert (Hin : In m (fmsgs r (window (st_hist s) r))) by (rewrite <- Hp; apply in_or_app; left; exact Hm).
  destruct (fmsgs_in _ _ _ Hin) as [k [A B]]. exists k. split; [eapply window_incl; eauto|].
  unfold matches in B. cbn in B. apply andb_prop in B. destruct B as [B1 B2]. split; [|exact B2].
  destruct (rc_kind r), k; try discriminate; reflexivity.
Qed.

Theorem return_value : forall pm b ls s, run pm (init b) ls = Some s ->
  forall r ret how, In r (st_recvs s) -> rc_state r = RDone ret how ->
    (how = ByCtx -> ret = Some ECtx /\ rc_ctx r = true) /\
    (how = ByClose -> ret = None -> exists c, rc_by r = Some (RemUnsub c) /\ mem_bytes c (rc_cs r) = true) /\
    (how = ByClose -> forall e, ret = Some e -> st_perr s = Some e) /\
    (rc_by r = Some RemCleanup -> st_perr s <> None).
Proof.
  intros pm b ls s H r ret how Hr Hs. pose proof (ginv_reach pm b ls s H) as [_ Hall _].
  rewrite Forall_forall in Hall. specialize (Hall r Hr). ri_destruct Hall.
  split; [|split; [|split]].
  - intros ->. apply (Hctx ret Hs).
  - intros -> ->. apply Hcnil. exact Hs.
  - intros -> e ->. apply Hcerr. exact Hs.
  - exact Hbc.
Qed.

(** the loop of a Receive whose channel was closed and drained ends with p.Error() — nil if no error is latched *)
Lemma end_enabled : forall pm s r x, find_recv r (st_recvs s) = Some x ->
  rc_state x = RLoop -> rc_buf x = [] -> rc_open x = false ->
  step pm s (LEnd r) = Some (with_recvs s (upd_recv (finished (st_perr s) ByClose) r (st_recvs s))).
Proof. intros pm s r x F A B C. cbn [step]. rewrite F, A, B, C. reflexivity. Qed.

(** * the server side: every message frame on the connection stems from a publish *)
Definition frame_ok (pm : pmatch_t) (plog : list (bool * bytes * bytes)) (f : frame) : Prop :=
  match f with
  | FMsg k m => exists sh, In (sh, m_chan m, m_body m) plog /\
                  (sh = true <-> k = KS) /\ (k = KP -> pm (m_pat m) (m_chan m) = true) /\ (k <> KP -> m_pat m = [])
  | _ => True
  end.

Definition sinv (pm : pmatch_t) (s : state) : Prop :=
  Forall (frame_ok pm (st_publog s)) (st_handled s ++ st_wire s).

Lemma frame_ok_mono : forall pm a b f, frame_ok pm a f -> frame_ok pm (a ++ b) f.
Proof.
  intros pm a b f H. destruct f; cbn in *; auto. destruct H as [sh [A B]]. exists sh. split; [apply in_or_app; left; exact A|exact B].
Qed.

Lemma sinv_frame : forall pm s s', st_publog s' = st_publog s -> st_handled s' = st_handled s -> st_wire s' = st_wire s ->
  sinv pm s -> sinv pm s'.
Proof. intros pm s s' A B C H. unfold sinv in *. rewrite A, B, C. exact H. Qed.

Lemma sinv_srv : forall pm s ssub frames plog,
  sinv pm s -> Forall (frame_ok pm (st_publog s ++ plog)) frames -> sinv pm (srv s ssub frames plog).
Proof.
  intros pm s ssub frames plog H Hf. unfold sinv in *. cbn. rewrite app_assoc. apply Forall_app. split; [|exact Hf].
  eapply Forall_impl; [|exact H]. intros f. apply frame_ok_mono.
Qed.

Lemma sinv_step : forall pm s l s', sinv pm s -> step pm s l = Some s' -> sinv pm s'.
Proof.
  intros pm s l s' S H. destruct l; cbn [step] in H;
    try (step_inv H; try destruct (st_cur s); (eapply sinv_frame; [..|exact S]; reflexivity)).
  - (* LPush *) step_inv H. unfold sinv in *. rewrite E0 in S.
    match goal with |- Forall _ (st_handled (handle_push ?s0 ?f) ++ st_wire (handle_push ?s0 ?f)) =>
      destruct (handle_push_hooks s0 f) as [_ [_ [_ [_ [_ [_ [G _]]]]]]];
      assert (W : st_wire (handle_push s0 f) = l) by (unfold handle_push; destruct f as [? ?|? ? [?|]|? ?|?]; reflexivity);
      assert (P : st_publog (handle_push s0 f) = st_publog s) by (unfold handle_push; destruct f as [? ?|? ? [?|]|? ?|?]; reflexivity)
    end.
    rewrite G, W, P. cbn. rewrite <- app_assoc. exact S.
  - (* LSrvSub *) step_inv H. apply sinv_srv; [exact S|].
    apply Forall_forall. intros f Hf. clear - Hf. revert Hf. generalize true. induction cs as [|c cs IH]; intros b0 Hf; [contradiction|].
    destruct Hf as [<-|Hf]; [exact I|eapply IH; eauto].
  - (* LSrvUnsub *) step_inv H. apply sinv_srv; [exact S|]. apply Forall_forall. intros f Hf. apply in_map_iff in Hf.
    destruct Hf as [c [<- _]]. exact I.
  - (* LSrvPublish *) step_inv H. apply sinv_srv; [exact S|]. apply Forall_forall. intros f Hf.
    unfold fanout in Hf. destruct sharded.
    + destruct (mem_bytes c (st_ssub s KS)); [|contradiction]. destruct Hf as [<-|[]]. cbn.
      exists true. split; [apply in_or_app; right; left; reflexivity|]. repeat split; auto; try discriminate.
    + apply in_app_or in Hf. destruct Hf as [Hf|Hf].
      * destruct (mem_bytes c (st_ssub s KN)); [|contradiction]. destruct Hf as [<-|[]]. cbn.
        exists false. split; [apply in_or_app; right; left; reflexivity|]. repeat split; auto; try discriminate.
      * apply in_map_iff in Hf. destruct Hf as [p [<- Hp]]. apply filter_In in Hp. destruct Hp as [_ Hp]. cbn.
        exists false. split; [apply in_or_app; right; left; reflexivity|].
        split; [split; discriminate|]. split; [intros _; exact Hp|intros Hx; exfalso; apply Hx; reflexivity].
  - (* LSrvInval *) step_inv H. apply sinv_srv; [exact S|]. constructor; [exact I|constructor].
Qed.

(** every delivered message was published: same channel and body, a matching pattern for a pattern subscription *)
Theorem delivered_was_published : forall pm b ls s, run pm (init b) ls = Some s ->
  forall r m, In r (st_recvs s) -> In m (rc_got r) ->
    mem_bytes (msg_key (rc_kind r) m) (rc_cs r) = true /\
    exists sh, In (sh, m_chan m, m_body m) (st_publog s) /\ (sh = true <-> rc_kind r = KS) /\
               (rc_kind r = KP -> pm (m_pat m) (m_chan m) = true) /\ (rc_kind r <> KP -> m_pat m = []).
Proof.
  intros pm b ls s H r m Hr Hm.
  destruct (no_foreign pm b ls s H r m Hr Hm) as [k [Hh [-> Hk]]]. split; [exact Hk|].
  destruct (hook_reach pm b ls s H) as [_ HC].
  assert (S : sinv pm s).
  { apply (run_invariant pm (sinv pm)) with (ls := ls) (s := init b); auto.
    - intros; eapply sinv_step; eauto.
    - unfold sinv. cbn. constructor. }
  rewrite (ci_hist _ HC) in Hh. unfold msgs_of in Hh. apply in_flat_map in Hh. destruct Hh as [f [Hf Hin]].
  destruct f as [k m'| | |]; cbn in Hin; try contradiction. destruct Hin as [Heq|[]]. injection Heq as -> ->.
  unfold sinv in S. rewrite Forall_forall in S. apply (S (FMsg (rc_kind r) m)). apply in_or_app. left. exact Hf.
Qed.
