(** Proofs about Model/Bloom.v (C35). *)
From Coq Require Import List NArith Bool Lia ZifyN ZifyNat ZifyBool.
Require Import RV.Model.Base RV.Model.Bloom.
Import ListNotations.
Open Scope N_scope.

(** ---- bitmaps ---- *)

Lemma testbit_app : forall l b i, testbit (l ++ b) i = testbit l i || testbit b i.
Proof. intros. unfold testbit. apply existsb_app. Qed.

Lemma testbit_In : forall l i, testbit l i = true <-> In i l.
Proof.
  intros l i. unfold testbit. rewrite existsb_exists. split.
  - intros [x [Hin Hx]]. apply N.eqb_eq in Hx. subst. exact Hin.
  - intros H. exists i. split; [exact H|apply N.eqb_refl].
Qed.

Lemma testbit_setbit_mono : forall b i j, testbit b i = true -> testbit (setbit b j) i = true.
Proof. intros b i j H. unfold setbit, testbit in *. cbn [existsb]. rewrite H. apply orb_true_r. Qed.

(** ---- the modular test of the scripts ---- *)

Lemma boundary_pos : forall kk q j, kk <> 0 -> 1 <= j -> j <= kk ->
  boundary kk (q * kk + j) = (j =? kk).
Proof.
  intros kk q j Hk H1 H2. unfold boundary.
  destruct (kk =? 0) eqn:E; [apply N.eqb_eq in E; contradiction|].
  rewrite N.add_comm, N.mod_add by exact Hk.
  destruct (N.eq_dec j kk) as [->|Hne].
  - rewrite N.mod_same by exact Hk. rewrite (N.eqb_refl kk). reflexivity.
  - rewrite N.mod_small by lia.
    destruct (j =? 0) eqn:E0; [apply N.eqb_eq in E0; lia|].
    symmetry. apply N.eqb_neq. exact Hne.
Qed.

(** number of set bits among the indexes of one chunk *)
Fixpoint sumbits (b : bitmap) (l : list N) : N :=
  match l with
  | [] => 0
  | ix :: r => bit_of (testbit b ix) + sumbits b r
  end.

Lemma sumbits_le : forall b l, sumbits b l <= N.of_nat (length l).
Proof.
  intros b l. induction l as [|x l IH]; cbn [sumbits length]; [lia|].
  unfold bit_of. destruct (testbit b x); lia.
Qed.

Lemma sumbits_all : forall b l, (sumbits b l =? N.of_nat (length l)) = forallb (testbit b) l.
Proof.
  intros b l. induction l as [|x l IH]; cbn [sumbits length forallb]; [reflexivity|].
  pose proof (sumbits_le b l) as Hle.
  unfold bit_of. destruct (testbit b x); cbn [andb].
  - rewrite <- IH. destruct (sumbits b l =? N.of_nat (length l)) eqn:E.
    + apply N.eqb_eq in E. apply N.eqb_eq. lia.
    + apply N.eqb_neq in E. apply N.eqb_neq. lia.
  - apply N.eqb_neq. lia.
Qed.

(** ---- the Exists script ---- *)

Lemma exists_loop_chunk : forall kk b chunk rest q j one,
  kk <> 0 -> 1 <= j -> j <= kk -> N.of_nat (length chunk) + j = kk + 1 ->
  exists_loop kk (q * kk + j) one (chunk ++ rest) b =
  (one + sumbits b chunk =? kk) :: exists_loop kk ((q + 1) * kk + 1) 0 rest b.
Proof.
  intros kk b chunk. induction chunk as [|x t IH]; intros rest q j one Hk H1 H2 Hlen.
  - cbn [length] in Hlen. lia.
  - cbn [app exists_loop sumbits]. rewrite boundary_pos by assumption.
    destruct (N.eq_dec j kk) as [->|Hne].
    + rewrite N.eqb_refl. cbn [length] in Hlen.
      assert (t = []) by (destruct t; [reflexivity|cbn [length] in Hlen; lia]). subst t.
      cbn [app sumbits]. rewrite N.add_0_r.
      replace (q * kk + kk + 1) with ((q + 1) * kk + 1) by lia. reflexivity.
    + destruct (j =? kk) eqn:E; [apply N.eqb_eq in E; contradiction|].
      replace (q * kk + j + 1) with (q * kk + (j + 1)) by lia.
      cbn [length] in Hlen. rewrite IH by lia.
      rewrite N.add_assoc. reflexivity.
Qed.

Lemma exists_loop_chunks : forall kk b chunks q,
  kk <> 0 -> Forall (fun c => N.of_nat (length c) = kk) chunks ->
  exists_loop kk (q * kk + 1) 0 (concat chunks) b = map (fun c => forallb (testbit b) c) chunks.
Proof.
  intros kk b chunks. induction chunks as [|c cs IH]; intros q Hk Hall.
  - reflexivity.
  - pose proof (Forall_inv Hall) as Hc. pose proof (Forall_inv_tail Hall) as Hcs. cbn beta in Hc. cbn [concat map].
    rewrite exists_loop_chunk by lia.
    rewrite N.add_0_l. rewrite IH by assumption.
    f_equal. rewrite <- Hc. apply sumbits_all.
Qed.

(** ---- the Add script ---- *)

Lemma add_loop_bits : forall kk idxs i one cnt b,
  fst (add_loop kk i one cnt idxs b) = rev idxs ++ b.
Proof.
  intros kk idxs. induction idxs as [|x t IH]; intros i one cnt b; cbn [add_loop rev app fst].
  - reflexivity.
  - destruct (boundary kk i); rewrite IH; unfold setbit; rewrite <- app_assoc; reflexivity.
Qed.

Lemma add_loop_count : forall kk idxs i one cnt b,
  cnt <= snd (add_loop kk i one cnt idxs b).
Proof.
  intros kk idxs. induction idxs as [|x t IH]; intros i one cnt b; cbn [add_loop snd].
  - lia.
  - destruct (boundary kk i).
    + destruct (one + bit_of (testbit b x) =? kk).
      * apply IH.
      * eapply N.le_trans; [|apply IH]. lia.
    + apply IH.
Qed.

Lemma add_script_bits : forall kk idxs f, bits (add_script kk idxs f) = rev idxs ++ bits f.
Proof.
  intros. unfold add_script. pose proof (add_loop_bits kk idxs 1 0 0 (bits f)) as H.
  destruct (add_loop kk 1 0 0 idxs (bits f)) as [b c]. cbn [fst] in H. cbn [bits]. exact H.
Qed.

Lemma add_script_count : forall kk idxs f, count f <= count (add_script kk idxs f).
Proof.
  intros. unfold add_script. pose proof (add_loop_count kk idxs 1 0 0 (bits f)) as H.
  destruct (add_loop kk 1 0 0 idxs (bits f)) as [b c]. cbn [snd] in H. cbn [count]. lia.
Qed.

Lemma add_script_keeps : forall kk idxs f i, testbit (bits f) i = true -> testbit (bits (add_script kk idxs f)) i = true.
Proof. intros. rewrite add_script_bits, testbit_app, H. apply orb_true_r. Qed.

Lemma add_script_sets : forall kk idxs f i, In i idxs -> testbit (bits (add_script kk idxs f)) i = true.
Proof.
  intros. rewrite add_script_bits, testbit_app.
  assert (testbit (rev idxs) i = true) as -> by (apply testbit_In, in_rev; rewrite rev_involutive; exact H).
  reflexivity.
Qed.

(** ---- client ---- *)

Section Client.
  Variable K : Type.
  Variable hash : K -> N * N.
  Variable size k : N.
  Hypothesis Hk : 1 <= k.
  Hypothesis Hsize : 0 < size.

  Notation indexes_of := (indexes_of K hash size k).
  Notation indexes := (indexes K hash size k).
  Notation step := (step K hash size k).
  Notation run := (run K hash size k).
  Notation final := (final K hash size k).
  Notation member := (member K hash size k).

  Lemma indexes_of_length : forall x, N.of_nat (length (indexes_of x)) = k.
  Proof.
    intros x. unfold Bloom.indexes_of. destruct (hash x) as [h1 h2].
    rewrite map_length, seq_length. lia.
  Qed.

  Lemma indexes_ok : forall keys, indexes keys = Ok (flat_map indexes_of keys).
  Proof.
    intros keys. unfold Bloom.indexes.
    assert (size =? 0 = false) as -> by (apply N.eqb_neq; lia). reflexivity.
  Qed.

  Lemma index_lt_size : forall h1 h2 i, index size h1 h2 i < size.
  Proof. intros. unfold index. apply N.mod_lt. lia. Qed.

  Lemma fill_results_exact : forall l, fill_results (length l) l = Ok l.
  Proof. induction l as [|x l IH]; cbn [fill_results length repeat_n]; [reflexivity|rewrite IH; reflexivity]. Qed.

  Lemma exists_script_spec : forall f keys,
    exists_script k (flat_map indexes_of keys) f = map (member f) keys.
  Proof.
    intros f keys. unfold exists_script. rewrite flat_map_concat_map.
    pose proof (exists_loop_chunks k (bits f) (map indexes_of keys) 0) as H.
    rewrite N.mul_0_l, N.add_0_l in H. rewrite H.
    - rewrite map_map. reflexivity.
    - lia.
    - apply Forall_forall. intros c Hc. apply in_map_iff in Hc. destruct Hc as [x [<- _]].
      apply indexes_of_length.
  Qed.

  (** ExistsMulti answers per input key, in order, exactly "all of the key's bits are set" *)
  Lemma exists_positional : forall f qs, step f (OExists qs) = (f, VBools (Ok (map (member f) qs))).
  Proof.
    intros f qs. destruct qs as [|q qs']; [reflexivity|].
    cbn [Bloom.step]. rewrite indexes_ok, exists_script_spec.
    replace (length (q :: qs')) with (length (map (member f) (q :: qs'))) by apply map_length.
    rewrite fill_results_exact. reflexivity.
  Qed.

  Lemma member_after_add : forall f keys x, In x keys -> member (fst (step f (OAdd keys))) x = true.
  Proof.
    intros f keys x Hin. destruct keys as [|y ys]; [contradiction|].
    cbn [Bloom.step]. rewrite indexes_ok. cbn [fst]. unfold Bloom.member.
    apply forallb_forall. intros i Hi. apply add_script_sets.
    apply in_flat_map. exists x. split; assumption.
  Qed.

  Lemma member_preserved : forall f o x, destructive K o = false -> member f x = true ->
    member (fst (step f o)) x = true.
  Proof.
    intros f o x Hd Hm. destruct o as [keys|keys| | |]; try discriminate.
    - destruct keys as [|y ys]; [exact Hm|].
      cbn [Bloom.step]. rewrite indexes_ok. cbn [fst]. unfold Bloom.member in *.
      apply forallb_forall. intros i Hi. apply add_script_keeps.
      rewrite forallb_forall in Hm. apply Hm. exact Hi.
    - destruct keys as [|y ys]; [exact Hm|].
      cbn [Bloom.step]. rewrite indexes_ok. exact Hm.
    - exact Hm.
  Qed.

  Lemma final_app : forall a b f, final f (a ++ b) = final (final f a) b.
  Proof.
    unfold Bloom.final. induction a as [|o a IH]; intros b f; cbn [app Bloom.run fst].
    - reflexivity.
    - destruct (step f o) as [f1 v] eqn:E1.
      specialize (IH b f1).
      destruct (run f1 (a ++ b)) as [f2 vs] eqn:E2.
      destruct (run f1 a) as [f3 vs3] eqn:E3. cbn [fst] in *. exact IH.
  Qed.

  Lemma final_cons : forall o r f, final f (o :: r) = final (fst (step f o)) r.
  Proof.
    intros. unfold Bloom.final. cbn [Bloom.run]. destruct (step f o) as [f1 v]. cbn [fst].
    destruct (run f1 r). reflexivity.
  Qed.

  Lemma member_final : forall post f x, forallb (fun o => negb (destructive K o)) post = true ->
    member f x = true -> member (final f post) x = true.
  Proof.
    induction post as [|o r IH]; intros f x Hnd Hm.
    - exact Hm.
    - cbn [forallb] in Hnd. apply andb_prop in Hnd. destruct Hnd as [Ho Hr].
      rewrite final_cons. apply IH; [exact Hr|].
      apply member_preserved; [|exact Hm]. destruct (destructive K o); [discriminate|reflexivity].
  Qed.

  (** the C35 core: an added item stays a member through every history without Reset/Delete *)
  Theorem no_false_negative : forall f0 pre keys post x,
    In x keys -> forallb (fun o => negb (destructive K o)) post = true ->
    member (final f0 (pre ++ OAdd keys :: post)) x = true.
  Proof.
    intros f0 pre keys post x Hin Hnd.
    rewrite final_app, final_cons. apply member_final; [exact Hnd|].
    apply member_after_add. exact Hin.
  Qed.

  Lemma count_monotone_step : forall f o, destructive K o = false -> count f <= count (fst (step f o)).
  Proof.
    intros f o Hd. destruct o as [keys|keys| | |]; try discriminate.
    - destruct keys as [|y ys]; [cbn; lia|].
      cbn [Bloom.step]. rewrite indexes_ok. cbn [fst]. apply add_script_count.
    - destruct keys as [|y ys]; [cbn; lia|].
      cbn [Bloom.step]. rewrite indexes_ok. cbn [fst]. lia.
    - cbn. lia.
  Qed.

  Theorem count_monotone : forall ops f, forallb (fun o => negb (destructive K o)) ops = true ->
    count f <= count (final f ops).
  Proof.
    induction ops as [|o r IH]; intros f Hnd.
    - unfold Bloom.final. cbn. lia.
    - cbn [forallb] in Hnd. apply andb_prop in Hnd. destruct Hnd as [Ho Hr].
      rewrite final_cons. eapply N.le_trans; [|apply IH; exact Hr].
      apply count_monotone_step. destruct (destructive K o); [discriminate|reflexivity].
  Qed.

  (** what Count reports is what the model's counter holds *)
  Lemma count_obs : forall f, step f OCount = (f, VCount (count f)).
  Proof. reflexivity. Qed.

  Lemma step_no_panic : forall f o, snd (step f o) <> VPanic.
  Proof.
    intros f o. destruct o as [keys|keys| | |]; cbn [Bloom.step].
    - destruct keys; [discriminate|]. rewrite indexes_ok. discriminate.
    - destruct keys; [discriminate|]. rewrite indexes_ok. discriminate.
    - discriminate.
    - discriminate.
    - discriminate.
  Qed.
End Client.
