(** Proofs about Model/ClusterTopo.v: the parsers never panic, parsed groups have a primary,
    characterisation of the slot table, end-to-end statement for CLUSTER SLOTS replies. *)
From Coq Require Import List Arith NArith ZArith Bool Lia Permutation.
Require Import RV.Model.Base RV.Model.ClusterTopo.
Import ListNotations.
Open Scope Z_scope.

(** ---- equality tests ---- *)
Lemma list_eqb_N_spec : forall a b : bytes, bytes_eqb a b = true <-> a = b.
Proof.
  unfold bytes_eqb. induction a as [|x a IH]; destruct b as [|y b]; cbn [list_eqb]; split; intro H; try congruence; try discriminate.
  - apply andb_true_iff in H. destruct H as [H1 H2]. apply N.eqb_eq in H1. apply IH in H2. congruence.
  - inversion H; subst. apply andb_true_iff. split; [apply N.eqb_refl|now apply IH].
Qed.

Lemma addr_eqb_spec : forall a b : addr, addr_eqb a b = true <-> a = b.
Proof.
  intros [h1 p1] [h2 p2]. unfold addr_eqb. cbn [fst snd]. rewrite andb_true_iff, list_eqb_N_spec, Z.eqb_eq.
  split; [intros [-> ->]; reflexivity|intro H; inversion H; auto].
Qed.

Lemma addr_eqb_refl a : addr_eqb a a = true.
Proof. now apply addr_eqb_spec. Qed.

Lemma addr_eqb_neq a b : addr_eqb a b = false <-> a <> b.
Proof.
  split; intro H.
  - intro E. apply addr_eqb_spec in E. congruence.
  - destruct (addr_eqb a b) eqn:E; [apply addr_eqb_spec in E; contradiction|reflexivity].
Qed.

Lemma mem_addr_In a l : mem_addr a l = true <-> In a l.
Proof.
  induction l as [|x l IH]; cbn [mem_addr In]; [split; [discriminate|tauto]|].
  rewrite orb_true_iff, IH, addr_eqb_spec. split; intros [H|H]; auto.
Qed.

(** ---- indexing ---- *)
Lemma idx_ok {A} (l : list A) i : (i < length l)%nat -> exists x, idx l i = Ok x /\ nth_error l i = Some x.
Proof.
  intro H. unfold idx. destruct (nth_error l i) eqn:E; [eauto|].
  apply nth_error_None in E. lia.
Qed.

Lemma bind_not_panic {A B} (r : result A) (f : A -> result B) :
  r <> Panic -> (forall a, r = Ok a -> f a <> Panic) -> bind r f <> Panic.
Proof. destruct r; cbn; intros H1 H2; auto; congruence. Qed.

(** ---- association lists ---- *)
Definition keys (gs : groups) : list addr := map fst gs.

Lemma assoc_get_set_same a g gs : assoc_get a (assoc_set a g gs) = Some g.
Proof.
  induction gs as [|[k g0] r IH]; cbn [assoc_set assoc_get].
  - now rewrite addr_eqb_refl.
  - destruct (addr_eqb a k) eqn:E; cbn [assoc_get]; rewrite E; auto.
Qed.

Lemma assoc_get_set_other a b g gs : a <> b -> assoc_get b (assoc_set a g gs) = assoc_get b gs.
Proof.
  intro N. induction gs as [|[k g0] r IH]; cbn [assoc_set assoc_get].
  - assert (addr_eqb b a = false) as -> by (apply addr_eqb_neq; congruence). reflexivity.
  - destruct (addr_eqb a k) eqn:E; cbn [assoc_get].
    + apply addr_eqb_spec in E. subst k.
      assert (addr_eqb b a = false) as -> by (apply addr_eqb_neq; congruence). reflexivity.
    + now rewrite IH.
Qed.

Lemma assoc_get_In a g gs : assoc_get a gs = Some g -> In (a, g) gs.
Proof.
  induction gs as [|[k g0] r IH]; cbn [assoc_get]; [discriminate|].
  destruct (addr_eqb a k) eqn:E; intro H.
  - apply addr_eqb_spec in E. inversion H; subst. now left.
  - right; auto.
Qed.

Lemma assoc_set_keys_in a g gs : assoc_get a gs <> None -> keys (assoc_set a g gs) = keys gs.
Proof.
  unfold keys. induction gs as [|[k g0] r IH]; cbn [assoc_get assoc_set map]; [congruence|].
  destruct (addr_eqb a k) eqn:E; cbn [map fst]; intro H; [reflexivity|]. now rewrite IH.
Qed.

Lemma assoc_set_keys_new a g gs : assoc_get a gs = None -> keys (assoc_set a g gs) = keys gs ++ [a].
Proof.
  unfold keys. induction gs as [|[k g0] r IH]; cbn [assoc_get assoc_set map app]; [reflexivity|].
  destruct (addr_eqb a k) eqn:E; [discriminate|]. cbn [map fst]. intro H. now rewrite IH.
Qed.

Lemma assoc_get_None_notin a gs : assoc_get a gs = None -> ~ In a (keys gs).
Proof.
  unfold keys. induction gs as [|[k g0] r IH]; cbn [assoc_get map In fst]; [tauto|].
  destruct (addr_eqb a k) eqn:E; [discriminate|]. intros H [H1|H1].
  - subst. rewrite addr_eqb_refl in E. discriminate.
  - now apply IH.
Qed.

Lemma assoc_set_NoDup a g gs : NoDup (keys gs) -> NoDup (keys (assoc_set a g gs)).
Proof.
  intro H. destruct (assoc_get a gs) eqn:E.
  - rewrite assoc_set_keys_in; [exact H|congruence].
  - rewrite assoc_set_keys_new by exact E.
    apply Permutation_NoDup with (l := a :: keys gs).
    + apply Permutation_cons_append.
    + constructor; [now apply assoc_get_None_notin|exact H].
Qed.

Lemma In_assoc_get a g gs : NoDup (keys gs) -> In (a, g) gs -> assoc_get a gs = Some g.
Proof.
  unfold keys. induction gs as [|[k g0] r IH]; cbn [map In assoc_get fst]; [tauto|].
  intros ND [H|H].
  - inversion H; subst. now rewrite addr_eqb_refl.
  - inversion ND as [|? ? Hn ND']; subst.
    destruct (addr_eqb a k) eqn:E.
    + apply addr_eqb_spec in E. subst. exfalso. apply Hn. apply in_map_iff. exists (k, g). auto.
    + auto.
Qed.

(** elements of the updated list are the new binding or old ones *)
Lemma In_assoc_set a g gs k g' :
  In (k, g') (assoc_set a g gs) -> (k = a /\ g' = g) \/ In (k, g') gs.
Proof.
  induction gs as [|[k0 g0] r IH]; cbn [assoc_set In].
  - intros [H|[]]. inversion H; auto.
  - destruct (addr_eqb a k0) eqn:E; cbn [In].
    + apply addr_eqb_spec in E. subst k0. intros [H|H]; [inversion H; auto|auto].
    + intros [H|H]; [auto|]. destruct (IH H); auto.
Qed.

(** ---- parseSlots never panics; every group it builds starts with its key ---- *)
Lemma slot_nodes_total dh es : slot_nodes dh es <> Panic.
Proof.
  induction es as [|e r IH]; cbn [slot_nodes]; [discriminate|].
  destruct (Nat.ltb_spec (length (values e)) 2) as [H|H]; [exact IH|].
  destruct (idx_ok (values e) 0 ltac:(lia)) as [h [-> _]].
  destruct (idx_ok (values e) 1 ltac:(lia)) as [p [-> _]].
  cbn [bind]. destruct (slot_nodes dh r); [|discriminate|congruence].
  cbn [bind]. destruct (parse_endpoint dh (mstring h) (intlen p)); discriminate.
Qed.

Definition group_headed (kg : addr * group) : Prop := hd_error (g_nodes (snd kg)) = Some (fst kg).

Lemma parse_slots_entry_total dh v acc : parse_slots_entry dh v acc <> Panic.
Proof.
  unfold parse_slots_entry.
  destruct (Nat.ltb_spec (length (values v)) 3) as [H|H]; [discriminate|].
  destruct (idx_ok (values v) 2 ltac:(lia)) as [m2 [-> _]]. cbn [bind].
  destruct (Nat.ltb_spec (length (values m2)) 2) as [H2|H2]; [discriminate|].
  destruct (idx_ok (values m2) 0 ltac:(lia)) as [h [-> _]].
  destruct (idx_ok (values m2) 1 ltac:(lia)) as [p [-> _]]. cbn [bind].
  destruct (parse_endpoint dh (mstring h) (intlen p)) as [master|]; [|discriminate].
  destruct (idx_ok (values v) 0 ltac:(lia)) as [lo [-> _]].
  destruct (idx_ok (values v) 1 ltac:(lia)) as [hi [-> _]]. cbn [bind].
  destruct (assoc_get master acc); [discriminate|].
  pose proof (slot_nodes_total dh (skipn 2 (values v))) as T.
  destruct (slot_nodes dh (skipn 2 (values v))); cbn [bind]; congruence.
Qed.

Lemma skipn2_cons {A} (l : list A) x : nth_error l 2 = Some x -> exists r, skipn 2 l = x :: r.
Proof.
  destruct l as [|a [|b [|c r]]]; cbn; try discriminate. intro H; inversion H; eauto.
Qed.

Lemma parse_slots_entry_inv dh v acc acc' :
  Forall group_headed acc -> NoDup (keys acc) ->
  parse_slots_entry dh v acc = Ok acc' -> Forall group_headed acc' /\ NoDup (keys acc').
Proof.
  intros F ND. unfold parse_slots_entry.
  destruct (Nat.ltb_spec (length (values v)) 3) as [H|H]; [intro E; inversion E; subst; auto|].
  destruct (idx_ok (values v) 2 ltac:(lia)) as [m2 [-> Hm2]]. cbn [bind].
  destruct (Nat.ltb_spec (length (values m2)) 2) as [H2|H2]; [intro E; inversion E; subst; auto|].
  destruct (idx_ok (values m2) 0 ltac:(lia)) as [h [Eh Hh]].
  destruct (idx_ok (values m2) 1 ltac:(lia)) as [p [Ep Hp]]. rewrite Eh, Ep. cbn [bind].
  destruct (parse_endpoint dh (mstring h) (intlen p)) as [master|] eqn:PE; [|intro E; inversion E; subst; auto].
  destruct (idx_ok (values v) 0 ltac:(lia)) as [lo [-> _]].
  destruct (idx_ok (values v) 1 ltac:(lia)) as [hi [-> _]]. cbn [bind].
  destruct (assoc_get master acc) as [g|] eqn:G.
  - intro E; inversion E; subst. split; [|now apply assoc_set_NoDup].
    apply Forall_forall. intros [k g'] Hin. apply In_assoc_set in Hin. destruct Hin as [[-> ->]|Hin].
    + unfold group_headed. cbn [fst snd g_nodes].
      apply assoc_get_In in G. rewrite Forall_forall in F. exact (F _ G).
    + rewrite Forall_forall in F. exact (F _ Hin).
  - destruct (skipn2_cons _ _ Hm2) as [rest Hs]. rewrite Hs. cbn [slot_nodes].
    destruct (Nat.ltb_spec (length (values m2)) 2) as [?|_]; [lia|].
    rewrite Eh, Ep. cbn [bind].
    pose proof (slot_nodes_total dh rest) as T.
    destruct (slot_nodes dh rest) as [ns| |]; cbn [bind]; try congruence; try discriminate.
    rewrite PE. cbn [bind]. intro E; inversion E; subst. split; [|now apply assoc_set_NoDup].
    apply Forall_forall. intros [k g'] Hin. apply In_assoc_set in Hin. destruct Hin as [[-> ->]|Hin].
    + reflexivity.
    + rewrite Forall_forall in F. exact (F _ Hin).
Qed.

Lemma parse_slots_loop_total dh vs : forall acc, parse_slots_loop dh vs acc <> Panic.
Proof.
  induction vs as [|v r IH]; intro acc; cbn [parse_slots_loop]; [discriminate|].
  pose proof (parse_slots_entry_total dh v acc). destruct (parse_slots_entry dh v acc); cbn [bind]; auto; discriminate.
Qed.

Lemma parse_slots_loop_inv dh vs : forall acc acc',
  Forall group_headed acc -> NoDup (keys acc) ->
  parse_slots_loop dh vs acc = Ok acc' -> Forall group_headed acc' /\ NoDup (keys acc').
Proof.
  induction vs as [|v r IH]; intros acc acc' F ND; cbn [parse_slots_loop].
  - intro E; inversion E; subst; auto.
  - destruct (parse_slots_entry dh v acc) as [a1| |] eqn:E1; cbn [bind]; try discriminate.
    destruct (parse_slots_entry_inv _ _ _ _ F ND E1). eauto.
Qed.

Lemma parse_slots_total dh m : parse_slots dh m <> Panic.
Proof. apply parse_slots_loop_total. Qed.

Lemma parse_slots_headed dh m gs : parse_slots dh m = Ok gs -> Forall group_headed gs /\ NoDup (keys gs).
Proof. apply parse_slots_loop_inv; constructor. Qed.

(** ---- parseShards never panics ---- *)
Lemma shard_slots_total : forall fuel sl, (2 * fuel <= length sl)%nat -> shard_slots fuel sl <> Panic.
Proof.
  induction fuel as [|f IH]; intros sl H; cbn [shard_slots]; [discriminate|].
  destruct sl as [|a [|b r]]; cbn [length] in H; try lia.
  specialize (IH r ltac:(lia)). destruct (shard_slots f r); cbn [bind]; congruence.
Qed.

Lemma div2_double_le n : (2 * Nat.div2 n <= n)%nat.
Proof.
  induction n as [n IH] using lt_wf_ind. destruct n as [|[|k]]; cbn [Nat.div2]; try lia.
  specialize (IH k ltac:(lia)). lia.
Qed.

Lemma shard_nodes_bound dh tls ns : forall acc m nodes k,
  (forall j, m = Some j -> (j < length acc)%nat) ->
  shard_nodes dh tls ns acc m = (nodes, Some k) -> (k < length nodes)%nat.
Proof.
  induction ns as [|n r IH]; intros acc m nodes k Hm; cbn [shard_nodes].
  - intro E; inversion E; subst. auto.
  - destruct (negb _); [apply IH; exact Hm|].
    destruct (parse_endpoint _ _ _) as [a|]; [|apply IH; exact Hm].
    apply IH. intros j. destruct (bytes_eqb _ s_master).
    + intro E; inversion E; subst. rewrite app_length. cbn. lia.
    + intro E. specialize (Hm j E). rewrite app_length. lia.
Qed.

Lemma swap0_ok l m : (m < length l)%nat -> exists l', swap0 l m = Ok l' /\ l' <> [] /\ nth_error l' 0 = nth_error l m.
Proof.
  intro H. unfold swap0.
  destruct (idx_ok l 0 ltac:(lia)) as [x0 [-> H0]].
  destruct (idx_ok l m H) as [xm [-> Hm]]. cbn [bind].
  destruct m as [|k].
  - exists l. split; [reflexivity|]. split; [destruct l; [cbn in H; lia|discriminate]|reflexivity].
  - eexists. split; [reflexivity|]. split; [discriminate|]. symmetry. exact Hm.
Qed.

Lemma parse_shards_entry_total dh tls v acc : parse_shards_entry dh tls v acc <> Panic.
Proof.
  unfold parse_shards_entry.
  set (sl := values (omap_get k_slots (as_map v))).
  pose proof (shard_slots_total (Nat.div2 (length sl)) sl (div2_double_le _)) as T.
  destruct (shard_slots (Nat.div2 (length sl)) sl) as [slots| |]; cbn [bind]; try discriminate; try congruence.
  destruct (shard_nodes dh tls (values (omap_get k_nodes (as_map v))) [] None) as [nodes [m|]] eqn:E; [|discriminate].
  assert (Hb : (m < length nodes)%nat) by (eapply shard_nodes_bound; [|exact E]; intros j Hj; discriminate).
  destruct (swap0_ok nodes m Hb) as [l' [-> [Hne H0]]]. cbn [bind].
  destruct l' as [|x r]; [congruence|]. cbn [idx nth_error bind]. discriminate.
Qed.

Lemma parse_shards_entry_inv dh tls v acc acc' :
  Forall group_headed acc -> NoDup (keys acc) ->
  parse_shards_entry dh tls v acc = Ok acc' -> Forall group_headed acc' /\ NoDup (keys acc').
Proof.
  intros F ND. unfold parse_shards_entry.
  destruct (shard_slots _ _) as [slots| |]; cbn [bind]; try discriminate.
  destruct (shard_nodes dh tls _ [] None) as [nodes [m|]] eqn:E; [|intro X; inversion X; subst; auto].
  assert (Hb : (m < length nodes)%nat) by (eapply shard_nodes_bound; [|exact E]; intros j Hj; discriminate).
  destruct (swap0_ok nodes m Hb) as [l' [-> [Hne H0]]]. cbn [bind].
  destruct l' as [|x r]; [congruence|]. cbn [idx nth_error bind].
  intro X; inversion X; subst. split; [|now apply assoc_set_NoDup].
  apply Forall_forall. intros [k g'] Hin. apply In_assoc_set in Hin. destruct Hin as [[-> ->]|Hin].
  - reflexivity.
  - rewrite Forall_forall in F. exact (F _ Hin).
Qed.

Lemma parse_shards_loop_total dh tls vs : forall acc, parse_shards_loop dh tls vs acc <> Panic.
Proof.
  induction vs as [|v r IH]; intro acc; cbn [parse_shards_loop]; [discriminate|].
  pose proof (parse_shards_entry_total dh tls v acc). destruct (parse_shards_entry dh tls v acc); cbn [bind]; auto; discriminate.
Qed.

Lemma parse_shards_loop_inv dh tls vs : forall acc acc',
  Forall group_headed acc -> NoDup (keys acc) ->
  parse_shards_loop dh tls vs acc = Ok acc' -> Forall group_headed acc' /\ NoDup (keys acc').
Proof.
  induction vs as [|v r IH]; intros acc acc' F ND; cbn [parse_shards_loop].
  - intro E; inversion E; subst; auto.
  - destruct (parse_shards_entry dh tls v acc) as [a1| |] eqn:E1; cbn [bind]; try discriminate.
    destruct (parse_shards_entry_inv _ _ _ _ _ F ND E1). eauto.
Qed.

Lemma parse_shards_total dh tls m : parse_shards dh tls m <> Panic.
Proof. apply parse_shards_loop_total. Qed.

Lemma parse_shards_headed dh tls m gs : parse_shards dh tls m = Ok gs -> Forall group_headed gs /\ NoDup (keys gs).
Proof. apply parse_shards_loop_inv; constructor. Qed.

(** parsed groups always have a primary, in any iteration order: the rebuild does not panic *)
Lemma headed_groups_ok gs : Forall group_headed gs -> forall l, Permutation (map snd gs) l -> groups_ok l = true.
Proof.
  intros F l P. unfold groups_ok. apply forallb_forall. intros g Hg.
  apply Permutation_sym in P. apply (Permutation_in _ P) in Hg.
  apply in_map_iff in Hg. destruct Hg as [[k g'] [<- Hin]].
  rewrite Forall_forall in F. specialize (F _ Hin). unfold group_headed in F. cbn [fst snd] in *.
  destruct (g_nodes g'); [discriminate|reflexivity].
Qed.

(** ---- the slot table ---- *)
Lemma last_owner_In gs s g : last_owner gs s = Some g -> In g gs /\ lists g s = true.
Proof.
  induction gs as [|g0 r IH]; cbn [last_owner]; [discriminate|].
  destruct (last_owner r s) as [g'|] eqn:E.
  - intro H; inversion H; subst. destruct (IH eq_refl). split; [now right|assumption].
  - destruct (lists g0 s) eqn:L; [|discriminate]. intro H; inversion H; subst. split; [now left|assumption].
Qed.

Lemma last_owner_None gs s : last_owner gs s = None <-> forall g, In g gs -> lists g s = false.
Proof.
  induction gs as [|g0 r IH]; cbn [last_owner In]; [split; [tauto|reflexivity]|].
  destruct (last_owner r s) as [g'|] eqn:E.
  - split; [discriminate|]. intro H. destruct (last_owner_In _ _ _ E) as [Hin Hl].
    rewrite (H g' (or_intror Hin)) in Hl. discriminate.
  - destruct (lists g0 s) eqn:L.
    + split; [discriminate|]. intro H. rewrite (H g0 (or_introl eq_refl)) in L. discriminate.
    + split; [|reflexivity]. intros _ g [<-|Hin]; [exact L|]. now apply IH.
Qed.

(** when exactly one group lists the slot, it owns it — in every iteration order *)
Lemma last_owner_unique gs s g :
  In g gs -> lists g s = true -> (forall g', In g' gs -> lists g' s = true -> g' = g) ->
  last_owner gs s = Some g.
Proof.
  intros Hin Hl Hu. destruct (last_owner gs s) as [g'|] eqn:E.
  - destruct (last_owner_In _ _ _ E) as [Hin' Hl']. f_equal. now apply Hu.
  - rewrite last_owner_None in E. rewrite (E g Hin) in Hl. discriminate.
Qed.

Lemma wslot_default_unique c gs s g p :
  t_kind c <> CfgReplicaOnly ->
  In g gs -> lists g s = true -> (forall g', In g' gs -> lists g' s = true -> g' = g) ->
  primary g = Some p -> wslot c gs s = Some p.
Proof.
  intros Hk Hin Hl Hu Hp. unfold wslot. rewrite (last_owner_unique gs s g Hin Hl Hu).
  unfold primary in Hp. destruct (g_nodes g) as [|x reps]; [discriminate|]. cbn in Hp. inversion Hp; subst.
  destruct (t_kind c); try reflexivity. congruence.
Qed.

Lemma wslot_none c gs s : (forall g, In g gs -> lists g s = false) -> wslot c gs s = None.
Proof. intro H. unfold wslot. apply last_owner_None in H. now rewrite H. Qed.

(** ReplicaOnly with replicas: the slot goes to one of the group's replicas *)
Lemma wslot_replicaonly c gs s g a :
  t_kind c = CfgReplicaOnly -> last_owner gs s = Some g -> (1 < length (g_nodes g))%nat ->
  wslot c gs s = Some a -> In a (tl (g_nodes g)).
Proof.
  intros Hk Ho Hl. unfold wslot. rewrite Ho, Hk.
  destruct (g_nodes g) as [|p [|x reps]]; cbn [length] in Hl; try lia.
  cbn [tl]. intro H. apply nth_error_In in H. exact H.
Qed.

(** without replicas a ReplicaOnly client falls back to the primary *)
Lemma wslot_replicaonly_single c gs s g p :
  last_owner gs s = Some g -> g_nodes g = [p] -> wslot c gs s = Some p.
Proof. intros Ho Hn. unfold wslot. rewrite Ho, Hn. destruct (t_kind c); reflexivity. Qed.

Lemma covers_spec r s : covers r s = true <-> 0 <= fst r /\ fst r <= s <= snd r /\ s < 16384.
Proof. unfold covers. rewrite !andb_true_iff, !Z.leb_le, Z.ltb_lt. lia. Qed.

(** the nodes parseShards keeps: health "online" and a known endpoint *)
Definition shard_node_addr (dh : bytes) (tls : bool) (n : msg) : option addr :=
  let d := as_map n in
  let port0 := intlen (omap_get k_port d) in
  let port := if tls && (0 <? intlen (omap_get k_tlsport d)) then intlen (omap_get k_tlsport d) else port0 in
  parse_endpoint dh (mstring (omap_get k_endpoint d)) port.

Definition shard_node_online (n : msg) : bool := bytes_eqb (mstring (omap_get k_health (as_map n))) online.

Lemma shard_nodes_kept dh tls ns : forall acc m nodes m',
  shard_nodes dh tls ns acc m = (nodes, m') ->
  forall a, In a nodes -> In a acc \/ exists n, In n ns /\ shard_node_online n = true /\ shard_node_addr dh tls n = Some a.
Proof.
  induction ns as [|n r IH]; intros acc m nodes m' H a Ha; cbn [shard_nodes] in H.
  - inversion H; subst. now left.
  - destruct (bytes_eqb (mstring (omap_get k_health (as_map n))) online) eqn:On; cbn [negb] in H.
    2:{ destruct (IH _ _ _ _ H a Ha) as [?|[n' [? ?]]]; [now left|right; exists n'; cbn; auto]. }
    fold (shard_node_addr dh tls n) in H.
    destruct (shard_node_addr dh tls n) as [b|] eqn:Ad.
    + destruct (IH _ _ _ _ H a Ha) as [Hin|[n' [? ?]]].
      * apply in_app_or in Hin. destruct Hin as [?|[<-|[]]]; [now left|]. right. exists n. cbn. auto.
      * right; exists n'; cbn; auto.
    + destruct (IH _ _ _ _ H a Ha) as [?|[n' [? ?]]]; [now left|right; exists n'; cbn; auto].
Qed.
