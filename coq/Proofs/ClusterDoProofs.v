(** Proofs about Model/ClusterDo.v: where the sends of [clusterClient.do] go. *)
From Coq Require Import List Arith NArith ZArith Bool Lia.
Require Import RV.Model.Base RV.Model.ClusterTopo RV.Model.Retry RV.Model.ClusterDo RV.Proofs.ClusterTopoProofs.
Import ListNotations.
Open Scope Z_scope.

Definition sreply (s : csend) : reply := k_reply (s_tick s).

(** what the code decides after the reply of a send *)
Definition smode (s : csend) : rmode := classify (sreply s) (k_ctx_cls (s_tick s)) (k_closed (s_tick s)).

(** [s2] is a legitimate successor of [s1] *)
Definition follows (c : ccfg) (retryable : bool) (s1 s2 : csend) : Prop :=
  if is_expired (sreply s1) then s_why s2 = WExpired
  else match smode s1 with
       | ModeMove a => s_to s2 = a /\ s_kind s2 = SPlain /\ s_why s2 = WRedirect
       | ModeAsk a => s_to s2 = a /\ s_kind s2 = SAsking /\ s_why s2 = WRedirect
       | ModeRetry => s_why s2 = WRetry /\ p_retry (cc_policy c) = true /\ retryable = true /\
                      exists a, wait_or_skip (p_delay (cc_policy c) a (sreply s1)) (k_left (s_tick s1)) = true
       | ModeNone => False
       end.

Fixpoint chain_ok (c : ccfg) (retryable : bool) (tr : list csend) : Prop :=
  match tr with
  | s1 :: ((s2 :: _) as r) => follows c retryable s1 s2 /\ chain_ok c retryable r
  | _ => True
  end.

Definition head_ok (ph : phase) (w : why) (tr : list csend) : Prop :=
  match tr with
  | [] => True
  | s :: _ => s_why s = w /\
              match ph with
              | PhRetry => s_kind s = SPlain
              | PhMoved _ n => s_to s = n /\ s_kind s = SPlain
              | PhAsk _ n => s_to s = n /\ s_kind s = SAsking
              end
  end.

Lemma effective_ctx_call t : k_ctx_call t = true ->
  k_reply (effective t) = RCtx /\ k_ctx_cls (effective t) = true.
Proof. intro H. unfold effective. rewrite H. auto. Qed.

Lemma effective_live t : k_ctx_call t = false -> effective t = t.
Proof. intro H. unfold effective. now rewrite H. Qed.

Lemma classify_ctx r closed : r = RCtx -> classify r true closed = ModeNone.
Proof. intros ->. cbn. destruct closed; reflexivity. Qed.

(** the destination of an attempt *)
Definition dest_of (ph : phase) (st : cstate) (slot : Z) (to_replica : bool) (ct : ctick) : option addr :=
  match ph with
  | PhRetry => pick_slot (cs_table (install st ct)) slot to_replica (ct_nsel ct)
  | PhMoved _ n | PhAsk _ n => Some n
  end.

Lemma chain_cons c retryable s tr : chain_ok c retryable tr -> match tr with [] => True | s2 :: _ => follows c retryable s s2 end -> chain_ok c retryable (s :: tr).
Proof. destruct tr; cbn; auto. Qed.

Section Loop.
Variables (c : ccfg) (slot : Z) (retryable to_replica : bool).

(** main invariant: adjacent sends follow each other, the head is what the phase dictates,
    nothing is sent on a done context *)
Lemma do_loop_chain : forall fuel st ph w attempts redirects env tr out st',
  do_loop fuel c slot retryable to_replica st ph w attempts redirects env = (tr, out, st') ->
  chain_ok c retryable tr /\ head_ok ph w tr /\
  (forall ct env', (0 < fuel)%nat -> env = ct :: env' -> k_ctx_call (ct_tick ct) = false ->
     forall d, dest_of ph st slot to_replica ct = Some d -> exists s rest, tr = s :: rest /\ s_to s = d) /\
  (forall ct env', env = ct :: env' -> k_ctx_call (ct_tick ct) = true -> tr = []).
Proof.
  induction fuel as [|f IH]; intros st ph w attempts redirects env tr out st' H.
  - cbn in H. inversion H; subst. cbn. repeat split; auto; intros; lia.
  - destruct env as [|ct env'].
    { cbn in H. inversion H; subst. cbn. repeat split; auto; intros; discriminate. }
    assert (Hpos : (0 < S f)%nat) by lia.
    cbn [do_loop] in H.
    set (st0 := match ph with PhRetry => install st ct | _ => st end) in *.
    assert (Hdest : match ph with
                     | PhRetry => pick_slot (cs_table st0) slot to_replica (ct_nsel ct)
                     | PhMoved _ n | PhAsk _ n => Some n
                     end = dest_of ph st slot to_replica ct).
    { unfold dest_of, st0. destruct ph; reflexivity. }
    rewrite Hdest in H.
    destruct (dest_of ph st slot to_replica ct) as [d|] eqn:ED.
    2:{ inversion H; subst. cbn. repeat split; auto.
        intros X Y _ E; inversion E; subst; intros; congruence. }
    destruct (k_ctx_call (ct_tick ct)) eqn:CC.
    + (* nothing written: the pipe answers with the context error *)
      destruct (effective_ctx_call _ CC) as [ER EC].
      rewrite ER in H. cbn [is_expired] in H. rewrite EC in H.
      rewrite (classify_ctx RCtx _ eq_refl) in H.
      inversion H; subst. cbn. repeat split; auto.
      intros X Y _ E; inversion E; subst; intros; congruence.
    + rewrite (effective_live _ CC) in H.
      set (t := ct_tick ct) in *.
      set (kind := match ph with PhAsk _ _ => SAsking | _ => SPlain end) in *.
      set (s := mkCsend d kind w t) in *.
      assert (Hhead : head_ok ph w [s]).
      { cbn. split; [reflexivity|]. unfold kind. destruct ph; cbn in ED; try (inversion ED; subst); auto. }
      assert (Hfirst : forall tr', forall ct0 env0, (0 < S f)%nat -> ct :: env' = ct0 :: env0 -> k_ctx_call (ct_tick ct0) = false ->
                 forall d0, dest_of ph st slot to_replica ct0 = Some d0 -> exists s0 rest, s :: tr' = s0 :: rest /\ s_to s0 = d0).
      { intros tr' ct0 env0 _ E _ d0 Hd0. inversion E; subst ct0 env0. rewrite ED in Hd0. inversion Hd0; subst. eauto. }
      assert (Hnone : forall tr', forall ct0 env0, ct :: env' = ct0 :: env0 -> k_ctx_call (ct_tick ct0) = true -> s :: tr' = []).
      { intros tr' ct0 env0 E Hc. inversion E; subst ct0 env0. fold t in Hc. congruence. }
      (* all continuing branches have the same shape *)
      assert (Hgo : forall st1 ph1 w1 a1 rd1,
                 (let '(tr1, o, s') := do_loop f c slot retryable to_replica st1 ph1 w1 a1 rd1 env' in ([s] ++ tr1, o, s')) = (tr, out, st') ->
                 (forall s2, head_ok ph1 w1 (s2 :: nil) -> True) ->
                 (forall tr1, head_ok ph1 w1 tr1 -> match tr1 with [] => True | s2 :: _ => follows c retryable s s2 end) ->
                 chain_ok c retryable tr /\ head_ok ph w tr /\
                 (forall ct0 env0, (0 < S f)%nat -> ct :: env' = ct0 :: env0 -> k_ctx_call (ct_tick ct0) = false ->
                    forall d0, dest_of ph st slot to_replica ct0 = Some d0 -> exists s0 rest, tr = s0 :: rest /\ s_to s0 = d0) /\
                 (forall ct0 env0, ct :: env' = ct0 :: env0 -> k_ctx_call (ct_tick ct0) = true -> tr = [])).
      { intros st1 ph1 w1 a1 rd1 E _ Hf.
        destruct (do_loop f c slot retryable to_replica st1 ph1 w1 a1 rd1 env') as [[tr1 o1] s1'] eqn:R.
        inversion E; subst. destruct (IH _ _ _ _ _ _ _ _ _ R) as [C1 [H1 _]].
        cbn [app]. split; [|split; [|split]].
        - apply chain_cons; [exact C1|]. now apply Hf.
        - exact Hhead.
        - apply Hfirst.
        - apply Hnone. }
      destruct (is_expired (k_reply t)) eqn:EX.
      * apply (Hgo _ _ _ _ _ H); [auto|].
        intros tr1 Hh. destruct tr1 as [|s2 r]; [exact I|]. unfold follows, sreply. cbn [s s_tick]. rewrite EX. exact (proj1 Hh).
      * destruct (classify (k_reply t) (k_ctx_cls t) (k_closed t)) as [|a|a|] eqn:CL.
        -- inversion H; subst. split; [exact I|split; [exact Hhead|split; [apply (Hfirst [])|apply (Hnone [])]]].
        -- destruct ((0 <? cc_max c) && (cc_max c <? redirects + 1)).
           ++ inversion H; subst. split; [exact I|split; [exact Hhead|split; [apply (Hfirst [])|apply (Hnone [])]]].
           ++ apply (Hgo _ _ _ _ _ H); [auto|].
              intros tr1 Hh. destruct tr1 as [|s2 r]; [exact I|]. unfold follows, sreply, smode, sreply. cbn [s s_tick].
              rewrite EX, CL. destruct Hh as [Hw [Ht Hk]]. auto.
        -- destruct ((0 <? cc_max c) && (cc_max c <? redirects + 1)).
           ++ inversion H; subst. split; [exact I|split; [exact Hhead|split; [apply (Hfirst [])|apply (Hnone [])]]].
           ++ apply (Hgo _ _ _ _ _ H); [auto|].
              intros tr1 Hh. destruct tr1 as [|s2 r]; [exact I|]. unfold follows, sreply, smode, sreply. cbn [s s_tick].
              rewrite EX, CL. destruct Hh as [Hw [Ht Hk]]. auto.
        -- destruct (p_retry (cc_policy c) && retryable && wait_or_skip (p_delay (cc_policy c) attempts (k_reply t)) (k_left t)) eqn:Cond.
           ++ apply (Hgo _ _ _ _ _ H); [auto|].
              intros tr1 Hh. destruct tr1 as [|s2 r]; [exact I|]. unfold follows, sreply, smode, sreply. cbn [s s_tick].
              rewrite EX, CL. apply andb_true_iff in Cond. destruct Cond as [Cond W]. apply andb_true_iff in Cond. destruct Cond as [C1 C2].
              split; [exact (proj1 Hh)|]. split; [exact C1|]. split; [exact C2|]. exists attempts. exact W.
           ++ inversion H; subst. split; [exact I|split; [exact Hhead|split; [apply (Hfirst [])|apply (Hnone [])]]].
Qed.

(** the reply handed back is the last reply on the wire (or the context error when the last
    attempt was not written at all) *)
Lemma do_loop_final : forall fuel st ph w attempts redirects env tr out st' r,
  do_loop fuel c slot retryable to_replica st ph w attempts redirects env = (tr, out, st') ->
  out = CDone r -> r = RCtx \/ exists s, last tr s = s /\ tr <> [] /\ sreply (last tr s) = r.
Proof.
  induction fuel as [|f IH]; intros st ph w attempts redirects env tr out st' r H Ho.
  - cbn in H. inversion H; subst. discriminate.
  - destruct env as [|ct env']; [cbn in H; inversion H; subst; discriminate|].
    cbn [do_loop] in H.
    destruct (match ph with
              | PhRetry => pick_slot (cs_table match ph with PhRetry => install st ct | _ => st end) slot to_replica (ct_nsel ct)
              | PhMoved _ n | PhAsk _ n => Some n
              end) as [d|]; [|inversion H; subst; discriminate].
    destruct (k_ctx_call (ct_tick ct)) eqn:CC.
    + destruct (effective_ctx_call _ CC) as [ER EC]. rewrite ER in H. cbn [is_expired] in H. rewrite EC in H.
      rewrite (classify_ctx RCtx _ eq_refl) in H. inversion H; subst. inversion H2; subst. now left.
    + rewrite (effective_live _ CC) in H.
      set (t := ct_tick ct) in *.
      set (s := mkCsend d (match ph with PhAsk _ _ => SAsking | _ => SPlain end) w t) in *.
      assert (Hdone : forall st1, ([s], CDone (k_reply t), st1) = (tr, out, st') ->
                      r = RCtx \/ exists s0, last tr s0 = s0 /\ tr <> [] /\ sreply (last tr s0) = r).
      { intros st1 E. inversion E; subst. inversion H2; subst. right. exists s. cbn. repeat split; auto. discriminate. }
      assert (Hgo : forall st1 ph1 w1 a1 rd1,
                 (let '(tr1, o, s') := do_loop f c slot retryable to_replica st1 ph1 w1 a1 rd1 env' in ([s] ++ tr1, o, s')) = (tr, out, st') ->
                 r = RCtx \/ exists s0, last tr s0 = s0 /\ tr <> [] /\ sreply (last tr s0) = r).
      { intros st1 ph1 w1 a1 rd1 E.
        destruct (do_loop f c slot retryable to_replica st1 ph1 w1 a1 rd1 env') as [[tr1 o1] s1'] eqn:R.
        inversion E; subst. destruct (IH _ _ _ _ _ _ _ _ _ r R eq_refl) as [X|[s0 [L [N S]]]]; [now left|].
        destruct tr1 as [|s2 tr2]; [congruence|].
        right. exists s0. cbn [app]. change (last (s :: s2 :: tr2) s0) with (last (s2 :: tr2) s0).
        repeat split; auto. discriminate. }
      destruct (is_expired (k_reply t)); [eapply Hgo; exact H|].
      destruct (classify (k_reply t) (k_ctx_cls t) (k_closed t)).
      * eapply Hdone; exact H.
      * destruct ((0 <? cc_max c) && (cc_max c <? redirects + 1)); [eapply Hdone|eapply Hgo]; exact H.
      * destruct ((0 <? cc_max c) && (cc_max c <? redirects + 1)); [eapply Hdone|eapply Hgo]; exact H.
      * destruct (p_retry (cc_policy c) && retryable && wait_or_skip _ _); [eapply Hgo|eapply Hdone]; exact H.
Qed.

(** MaxMovedRedirections bounds the redirects that are followed *)
Lemma do_loop_redirect_bound : forall fuel st ph w attempts redirects env tr out st',
  0 < cc_max c -> redirects <= cc_max c ->
  do_loop fuel c slot retryable to_replica st ph w attempts redirects env = (tr, out, st') ->
  Z.of_nat (credirects tr) + redirects <= cc_max c + (match w with WRedirect => 1 | _ => 0 end).
Proof.
  induction fuel as [|f IH]; intros st ph w attempts redirects env tr out st' Hm Hr H.
  - cbn in H. inversion H; subst. cbn. destruct w; lia.
  - destruct env as [|ct env']; [cbn in H; inversion H; subst; cbn; destruct w; lia|].
    cbn [do_loop] in H.
    destruct (match ph with
              | PhRetry => pick_slot (cs_table match ph with PhRetry => install st ct | _ => st end) slot to_replica (ct_nsel ct)
              | PhMoved _ n | PhAsk _ n => Some n
              end) as [d|]; [|inversion H; subst; cbn; destruct w; lia].
    set (t := effective (ct_tick ct)) in *.
    set (here := if k_ctx_call (ct_tick ct) then [] else [mkCsend d (match ph with PhAsk _ _ => SAsking | _ => SPlain end) w t]) in *.
    assert (Hhere : Z.of_nat (credirects here) <= (match w with WRedirect => 1 | _ => 0 end)).
    { unfold here. destruct (k_ctx_call (ct_tick ct)); cbn; destruct w; cbn; lia. }
    assert (Hdone : forall o st1, (here, o, st1) = (tr, out, st') ->
              Z.of_nat (credirects tr) + redirects <= cc_max c + (match w with WRedirect => 1 | _ => 0 end)).
    { intros o st1 E. inversion E; subst. lia. }
    assert (Happ : forall l1 l2, credirects (l1 ++ l2) = (credirects l1 + credirects l2)%nat).
    { intros. unfold credirects. now rewrite filter_app, app_length. }
    assert (Hgo : forall st1 ph1 w1 a1 rd1,
               rd1 <= cc_max c -> (rd1 = redirects /\ w1 <> WRedirect) \/ (rd1 = redirects + 1 /\ w1 = WRedirect) ->
               (let '(tr1, o, s') := do_loop f c slot retryable to_replica st1 ph1 w1 a1 rd1 env' in (here ++ tr1, o, s')) = (tr, out, st') ->
               Z.of_nat (credirects tr) + redirects <= cc_max c + (match w with WRedirect => 1 | _ => 0 end)).
    { intros st1 ph1 w1 a1 rd1 Hrd Hcase E.
      destruct (do_loop f c slot retryable to_replica st1 ph1 w1 a1 rd1 env') as [[tr1 o1] s1'] eqn:R.
      inversion E; subst. specialize (IH _ _ _ _ _ _ _ _ _ Hm Hrd R). rewrite Happ, Nat2Z.inj_add.
      destruct Hcase as [[-> Hw]|[-> ->]]; [destruct w1; try congruence; lia|lia]. }
    destruct (is_expired (k_reply t)).
    { eapply (Hgo _ _ WExpired _ redirects); [exact Hr|left; split; [reflexivity|discriminate]|exact H]. }
    destruct (classify (k_reply t) (k_ctx_cls t) (k_closed t)).
    + eapply Hdone; exact H.
    + destruct ((0 <? cc_max c) && (cc_max c <? redirects + 1)) eqn:B; [eapply Hdone; exact H|].
      eapply (Hgo _ _ WRedirect _ (redirects + 1)); [|right; auto|exact H].
      apply andb_false_iff in B. destruct B as [B|B]; [apply Z.ltb_ge in B; lia|apply Z.ltb_ge in B; lia].
    + destruct ((0 <? cc_max c) && (cc_max c <? redirects + 1)) eqn:B; [eapply Hdone; exact H|].
      eapply (Hgo _ _ WRedirect _ (redirects + 1)); [|right; auto|exact H].
      apply andb_false_iff in B. destruct B as [B|B]; [apply Z.ltb_ge in B; lia|apply Z.ltb_ge in B; lia].
    + destruct (p_retry (cc_policy c) && retryable && wait_or_skip _ _); [|eapply Hdone; exact H].
      eapply (Hgo _ _ WRetry _ redirects); [exact Hr|left; split; [reflexivity|discriminate]|exact H].
Qed.

End Loop.

(** enough fuel: the loop consumes one environment item per step *)
Lemma do_loop_fuel c slot retryable to_replica : forall env fuel st ph w attempts redirects tr out st',
  (length env < fuel)%nat ->
  do_loop fuel c slot retryable to_replica st ph w attempts redirects env = (tr, out, st') -> out <> COutOfFuel.
Proof.
  induction env as [|ct env' IH]; intros fuel st ph w attempts redirects tr out st' Hf H.
  - destruct fuel; [cbn in Hf; lia|]. cbn in H. inversion H; subst. discriminate.
  - destruct fuel as [|f]; [cbn in Hf; lia|]. cbn [do_loop] in H.
    destruct (match ph with
              | PhRetry => pick_slot (cs_table match ph with PhRetry => install st ct | _ => st end) slot to_replica (ct_nsel ct)
              | PhMoved _ n | PhAsk _ n => Some n
              end) as [d|]; [|inversion H; subst; discriminate].
    set (t := effective (ct_tick ct)) in *.
    assert (Hgo : forall here st1 ph1 w1 a1 rd1,
               (let '(tr1, o, s') := do_loop f c slot retryable to_replica st1 ph1 w1 a1 rd1 env' in (here ++ tr1, o, s')) = (tr, out, st') ->
               out <> COutOfFuel).
    { intros here st1 ph1 w1 a1 rd1 E.
      destruct (do_loop f c slot retryable to_replica st1 ph1 w1 a1 rd1 env') as [[tr1 o1] s1'] eqn:R.
      inversion E; subst. eapply IH; [|exact R]. cbn in Hf. lia. }
    destruct (is_expired (k_reply t)); [eapply Hgo; exact H|].
    destruct (classify (k_reply t) (k_ctx_cls t) (k_closed t)).
    + inversion H; subst; discriminate.
    + destruct ((0 <? cc_max c) && (cc_max c <? redirects + 1)); [inversion H; subst; discriminate|eapply Hgo; exact H].
    + destruct ((0 <? cc_max c) && (cc_max c <? redirects + 1)); [inversion H; subst; discriminate|eapply Hgo; exact H].
    + destruct (p_retry (cc_policy c) && retryable && wait_or_skip _ _); [eapply Hgo; exact H|inversion H; subst; discriminate].
Qed.

(** ---- C03 for the cluster client ---- *)
Lemma classify_move r x y a : classify r x y = ModeMove a -> r = RMoved a.
Proof. destruct r; cbn; destruct y; try discriminate; try (destruct x; discriminate); intro H; inversion H; reflexivity. Qed.
Lemma classify_ask r x y a : classify r x y = ModeAsk a -> r = RAsk a.
Proof. destruct r; cbn; destruct y; try discriminate; try (destruct x; discriminate); intro H; inversion H; reflexivity. Qed.

(** every send is an attempt of the environment that was really written *)
Lemma do_loop_sends_env c slot retryable to_replica : forall fuel st ph w attempts redirects env tr out st',
  do_loop fuel c slot retryable to_replica st ph w attempts redirects env = (tr, out, st') ->
  forall s, In s tr -> exists ct, In ct env /\ s_tick s = ct_tick ct.
Proof.
  induction fuel as [|f IH]; intros st ph w attempts redirects env tr out st' H s Hin.
  - cbn in H. injection H as Htr _ _. subst tr. destruct Hin.
  - destruct env as [|ct env']; [cbn in H; injection H as Htr _ _; subst tr; destruct Hin|].
    cbn [do_loop] in H.
    destruct (match ph with
              | PhRetry => pick_slot (cs_table match ph with PhRetry => install st ct | _ => st end) slot to_replica (ct_nsel ct)
              | PhMoved _ n | PhAsk _ n => Some n
              end) as [d|]; [|injection H as Htr _ _; subst tr; destruct Hin].
    set (t := effective (ct_tick ct)) in *.
    set (here := if k_ctx_call (ct_tick ct) then [] else [mkCsend d (match ph with PhAsk _ _ => SAsking | _ => SPlain end) w t]) in *.
    assert (Hhere : forall x, In x here -> exists ct0, In ct0 (ct :: env') /\ s_tick x = ct_tick ct0).
    { intros x Hx. unfold here in Hx. destruct (k_ctx_call (ct_tick ct)) eqn:CC; [destruct Hx|].
      destruct Hx as [<-|[]]. exists ct. split; [now left|]. cbn [s_tick]. unfold t. now apply effective_live. }
    assert (Hdone : forall o st1, (here, o, st1) = (tr, out, st') -> exists ct0, In ct0 (ct :: env') /\ s_tick s = ct_tick ct0).
    { intros o st1 E. injection E as E1 _ _. subst tr. now apply Hhere. }
    assert (Hgo : forall st1 ph1 w1 a1 rd1,
               (let '(tr1, o, s') := do_loop f c slot retryable to_replica st1 ph1 w1 a1 rd1 env' in (here ++ tr1, o, s')) = (tr, out, st') ->
               exists ct0, In ct0 (ct :: env') /\ s_tick s = ct_tick ct0).
    { intros st1 ph1 w1 a1 rd1 E.
      destruct (do_loop f c slot retryable to_replica st1 ph1 w1 a1 rd1 env') as [[tr1 o1] s1'] eqn:R.
      injection E as E1 _ _. subst tr. apply in_app_or in Hin. destruct Hin as [Hx|Hx]; [now apply Hhere|].
      destruct (IH _ _ _ _ _ _ _ _ _ R s Hx) as [ct0 [I0 E0]]. exists ct0. split; [now right|exact E0]. }
    destruct (is_expired (k_reply t)); [eapply Hgo; exact H|].
    destruct (classify (k_reply t) (k_ctx_cls t) (k_closed t)).
    + eapply Hdone; exact H.
    + destruct ((0 <? cc_max c) && (cc_max c <? redirects + 1)); [eapply Hdone|eapply Hgo]; exact H.
    + destruct ((0 <? cc_max c) && (cc_max c <? redirects + 1)); [eapply Hdone|eapply Hgo]; exact H.
    + destruct (p_retry (cc_policy c) && retryable && wait_or_skip _ _); [eapply Hgo|eapply Hdone]; exact H.
Qed.

Definition cexpired_executed (s : csend) : bool := is_expired (sreply s) && k_executed (s_tick s).

(** a chain of sends of a non-retryable command: every send but the last was refused (MOVED / ASK)
    or ended with an expired connection *)
Lemma chain_c03 c : forall tr,
  chain_ok c false tr -> (forall s, In s tr -> consistent (s_tick s) = true) ->
  (cexecutions tr <= 1 + length (filter cexpired_executed tr))%nat.
Proof.
  induction tr as [|s1 r IH]; intros Hc Hk; [cbn; lia|].
  destruct r as [|s2 r2].
  - unfold cexecutions. cbn. destruct (k_executed (s_tick s1)); destruct (cexpired_executed s1); cbn; lia.
  - destruct Hc as [F C]. specialize (IH C (fun s Hs => Hk s (or_intror Hs))).
    assert (X : (cexecutions [s1] <= length (filter cexpired_executed [s1]))%nat).
    { unfold cexecutions. cbn [filter]. unfold cexpired_executed. unfold follows in F.
      destruct (is_expired (sreply s1)) eqn:E; cbn [andb].
      - destruct (k_executed (s_tick s1)); cbn; lia.
      - pose proof (Hk s1 (or_introl eq_refl)) as K. unfold consistent in K. apply andb_true_iff in K. destruct K as [K _].
        unfold smode in F. destruct (classify (sreply s1) _ _) eqn:CL; try contradiction.
        + apply classify_move in CL. unfold sreply in CL. rewrite CL in K. apply negb_true_iff in K. rewrite K. cbn. lia.
        + apply classify_ask in CL. unfold sreply in CL. rewrite CL in K. apply negb_true_iff in K. rewrite K. cbn. lia.
        + destruct F as [_ [_ [F _]]]. discriminate. }
    change (s1 :: s2 :: r2) with ([s1] ++ s2 :: r2).
    unfold cexecutions in *. rewrite !filter_app, !app_length. lia.
Qed.
