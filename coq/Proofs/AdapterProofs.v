(** Proofs about the NewSimpleCacheAdapter model (Model/Adapter.v). *)
From Coq Require Import List NArith ZArith Bool Lia Permutation.
Require Import RV.Model.Base RV.Model.Lru RV.Model.Adapter RV.Proofs.LruBase.
Import ListNotations.
Open Scope Z_scope.

(** ** the SimpleCache as a finite map *)

Lemma sdel_in sk l r : In r (sdel sk l) <-> In r l /\ sr_key r <> sk.
Proof.
  unfold sdel. rewrite filter_In, negb_true_iff, bytes_eqb_neq. split; intros [A B]; split; auto.
Qed.

Lemma sget_in sk l v : is_pending_msg v = false -> sget sk l = v -> In (SR sk v) l.
Proof.
  intros Hv. induction l as [|[k w] r IH]; cbn [sget]; intro H.
  - subst v. discriminate.
  - destruct (bytes_eqb sk k) eqn:E.
    + apply bytes_eqb_eq in E. subst. left. reflexivity.
    + right. apply IH. exact H.
Qed.

Lemma sget_unique sk l v : NoDup (map sr_key l) -> In (SR sk v) l -> sget sk l = v.
Proof.
  intros Hnd Hin. induction l as [|[k w] r IH]; [contradiction|].
  cbn [map sr_key] in Hnd. inversion Hnd as [|? ? Hk Hr]; subst. cbn [sget].
  destruct Hin as [Hin|Hin].
  - injection Hin as -> ->. rewrite bytes_eqb_refl. reflexivity.
  - destruct (bytes_eqb sk k) eqn:E; [|apply IH; assumption].
    apply bytes_eqb_eq in E. subst. exfalso. apply Hk. change k with (sr_key (SR k v)). apply in_map. exact Hin.
Qed.

Lemma sdel_nodup sk l : NoDup (map sr_key l) -> NoDup (map sr_key (sdel sk l)).
Proof. apply NoDup_map_filter. Qed.

Lemma sset_nodup sk v l : NoDup (map sr_key l) -> NoDup (map sr_key (sset sk v l)).
Proof.
  intro H. unfold sset. cbn [map sr_key]. constructor; [|apply sdel_nodup; exact H].
  intro Hin. apply in_map_iff in Hin. destruct Hin as [r [Hr Hin]]. apply sdel_in in Hin. tauto.
Qed.

Lemma fold_sdel_in (gone : list flrow) : forall st r,
  In r (fold_left (fun st x => sdel (fr_key x ++ fr_cmd x) st) gone st) <->
  In r st /\ forall x, In x gone -> sr_key r <> fr_key x ++ fr_cmd x.
Proof.
  induction gone as [|g gone IH]; intros st r; cbn [fold_left].
  - split; [intro H; split; [exact H|intros ? []]|tauto].
  - rewrite IH, sdel_in. split.
    + intros [[A B] C]. split; [exact A|]. intros x [<-|Hx]; [exact B|apply C; exact Hx].
    + intros [A B]. split; [split; [exact A|apply B; left; reflexivity]|]. intros x Hx. apply B. right. exact Hx.
Qed.

Lemma fold_sdel_nodup (gone : list flrow) : forall st,
  NoDup (map sr_key st) -> NoDup (map sr_key (fold_left (fun st x => sdel (fr_key x ++ fr_cmd x) st) gone st)).
Proof.
  induction gone as [|g gone IH]; intros st H; cbn [fold_left]; [exact H|]. apply IH. apply sdel_nodup. exact H.
Qed.

(** ** the flights table as a finite map *)

Definition frkc (r : flrow) : bytes * bytes := (fr_key r, fr_cmd r).

Lemma fmatch_iff k c r : fmatch k c r = true <-> frkc r = (k, c).
Proof.
  unfold fmatch, frkc. rewrite andb_true_iff, !bytes_eqb_eq. split.
  - intros [-> ->]. reflexivity.
  - intro H. injection H as <- <-. split; reflexivity.
Qed.

Lemma fmatch_false k c r : fmatch k c r = false <-> frkc r <> (k, c).
Proof.
  split; intro H.
  - intro E. apply fmatch_iff in E. congruence.
  - destruct (fmatch k c r) eqn:E; [apply fmatch_iff in E; contradiction|reflexivity].
Qed.

Lemma flookup_fset_same k c x l : flookup k c (fset k c x l) = Some x.
Proof.
  unfold flookup, fset. cbn [find]. assert (E : fmatch k c (FR k c x) = true) by (apply fmatch_iff; reflexivity).
  rewrite E. reflexivity.
Qed.

Lemma find_filter_other {A : Type} (p q : A -> bool) l :
  (forall x, p x = true -> q x = true) -> find p (filter q l) = find p l.
Proof.
  intro H. induction l as [|x r IH]; [reflexivity|]. cbn [filter find].
  destruct (q x) eqn:Eq; cbn [find].
  - destruct (p x); [reflexivity|exact IH].
  - destruct (p x) eqn:Ep; [rewrite (H x Ep) in Eq; discriminate|exact IH].
Qed.

Lemma flookup_fset_other k c k1 c1 x l : (k1, c1) <> (k, c) -> flookup k c (fset k1 c1 x l) = flookup k c l.
Proof.
  intro Hne. unfold flookup, fset, fdel. cbn [find].
  assert (E : fmatch k c (FR k1 c1 x) = false) by (apply fmatch_false; exact Hne). rewrite E.
  f_equal. apply find_filter_other. intros r Hr. apply negb_true_iff. apply fmatch_false.
  apply fmatch_iff in Hr. congruence.
Qed.

Lemma flookup_some k c l x : flookup k c l = Some x -> In (FR k c x) l.
Proof.
  unfold flookup. destruct (find (fmatch k c) l) as [r|] eqn:E; [|discriminate].
  cbn. intros [= <-]. apply find_some in E. destruct E as [A B]. apply fmatch_iff in B.
  destruct r as [k' c' e]. unfold frkc in B. cbn in B. injection B as -> ->. exact A.
Qed.

Lemma flookup_unique k c l x : NoDup (map frkc l) -> In (FR k c x) l -> flookup k c l = Some x.
Proof.
  intros Hnd Hin. unfold flookup. induction l as [|r l IH]; [contradiction|].
  cbn [map] in Hnd. inversion Hnd as [|? ? Hr Hl]; subst. cbn [find].
  destruct Hin as [->|Hin].
  - assert (E : fmatch k c (FR k c x) = true) by (apply fmatch_iff; reflexivity). rewrite E. reflexivity.
  - destruct (fmatch k c r) eqn:E; [|apply IH; assumption].
    apply fmatch_iff in E. exfalso. apply Hr. rewrite E. change (k, c) with (frkc (FR k c x)). apply in_map. exact Hin.
Qed.

Lemma fset_nodup k c x l : NoDup (map frkc l) -> NoDup (map frkc (fset k c x l)).
Proof.
  intro H. unfold fset. cbn [map]. constructor; [|apply NoDup_map_filter; exact H].
  intro Hin. apply in_map_iff in Hin. destruct Hin as [r [Hr Hin]]. unfold fdel in Hin.
  apply filter_In in Hin. destruct Hin as [_ Hin]. apply negb_true_iff, fmatch_false in Hin. exact (Hin Hr).
Qed.

(** ** structural invariant *)

Record ainv (s : astate) : Prop := mkAInv {
  ai_store : NoDup (map sr_key (astore s));
  ai_fl : forall fl, aflights s = Some fl -> NoDup (map frkc fl);
  ai_closed : aflights s = None -> astore s = []
}.

Lemma ainv_init : ainv ainit.
Proof. constructor; cbn; [constructor|intros fl [= <-]; constructor|discriminate]. Qed.

Lemma ainv_aslow s k c ttl now : ainv s -> ainv (fst (aslow s k c ttl now)).
Proof.
  intros Hi. unfold aslow. destruct (a_live _ now); [exact Hi|].
  destruct (aflights s) as [fl|] eqn:Ef; [|exact Hi].
  destruct (flookup k c fl) as [[ae|]|]; [exact Hi| |];
    (constructor; cbn [astore aflights fst]; [apply (ai_store s Hi)|intros ? [= <-]; apply fset_nodup; apply (ai_fl s Hi); exact Ef|discriminate]).
Qed.

Lemma ainv_step s o : ainv s -> ainv (fst (astep s o)).
Proof.
  intros Hi. destruct o; cbn [astep fst].
  - unfold aflight. destruct (afast s k c now); try exact Hi; apply ainv_aslow; exact Hi.
  - unfold aupdate. destruct (aflights s) as [fl|] eqn:Ef; [|exact Hi].
    destruct (flookup k c fl) as [[ae|]|]; try exact Hi.
    constructor; cbn [astore aflights fst]; [apply sset_nodup; apply (ai_store s Hi)|intros ? [= <-]; apply fset_nodup; apply (ai_fl s Hi); exact Ef|discriminate].
  - unfold acancel. destruct (aflights s) as [fl|] eqn:Ef; [|exact Hi].
    destruct (flookup k c fl) as [[ae|]|]; try exact Hi.
    constructor; cbn [astore aflights fst]; [apply (ai_store s Hi)|intros ? [= <-]; apply fset_nodup; apply (ai_fl s Hi); exact Ef|discriminate].
  - assert (H : forall p, ainv (adel_if p s)).
    { intro p. unfold adel_if. destruct (aflights s) as [fl|] eqn:Ef; [|exact Hi].
      constructor; cbn [astore aflights]; [apply fold_sdel_nodup; apply (ai_store s Hi)|intros ? [= <-]; apply NoDup_map_filter; apply (ai_fl s Hi); exact Ef|discriminate]. }
    unfold adelete. destruct keys; apply H.
  - constructor; cbn; [constructor|discriminate|reflexivity].
  - constructor; cbn [astore aflights]; [apply sdel_nodup; apply (ai_store s Hi)|apply (ai_fl s Hi)|].
    intro H. rewrite (ai_closed s Hi H). reflexivity.
  - exact Hi.
  - apply ainv_aslow; exact Hi.
Qed.

Lemma arun_snoc ops o s : arun (ops ++ [o]) s = fst (astep (arun ops s) o).
Proof. unfold arun. rewrite fold_left_app. reflexivity. Qed.

Lemma ainv_run ops : ainv (arun ops ainit).
Proof. induction ops as [|o ops IH] using rev_ind; [apply ainv_init|]. rewrite arun_snoc. apply ainv_step. exact IH. Qed.

(** ** hits: what the two sections of Flight return, as functions of the state *)

Definition aflight_result (s : astate) (k c : bytes) (ttl now : Z) : aout :=
  let v := sget (k ++ c) (astore s) in
  if a_live v now then AOFlight v None
  else match aflights s with
       | None => AOFlight empty_msg None
       | Some fl => match flookup k c fl with
                    | Some (Some ae) => AOFlight empty_msg (Some (aid ae))
                    | _ => AOFlight empty_msg None
                    end
       end.

Lemma aslow_out s k c ttl now : snd (aslow s k c ttl now) = aflight_result s k c ttl now.
Proof.
  unfold aslow, aflight_result. cbv zeta. destruct (a_live _ now); [reflexivity|].
  destruct (aflights s) as [fl|]; [|reflexivity]. destruct (flookup k c fl) as [[ae|]|]; reflexivity.
Qed.

Lemma aflight_out s k c ttl now : snd (aflight s k c ttl now) = aflight_result s k c ttl now.
Proof.
  unfold aflight, afast. cbv zeta. pose proof (aslow_out s k c ttl now) as Hs. unfold aflight_result in *. cbv zeta in *.
  destruct (a_live (sget (k ++ c) (astore s)) now) eqn:El; [reflexivity|].
  destruct (aflights s) as [fl|] eqn:Ef; [|exact Hs].
  destruct (flookup k c fl) as [[ae|]|] eqn:Efl; [reflexivity|exact Hs|exact Hs].
Qed.

Definition a_hit_from (s : astate) (k c : bytes) (now : Z) (v : msg) : Prop :=
  In (SR (k ++ c) v) (astore s) /\ is_pending_msg v = false /\ unix_milli now < m_xat v.

Lemma a_live_spec v now : a_live v now = true <-> is_pending_msg v = false /\ unix_milli now < m_xat v.
Proof.
  unfold a_live, rel_pttl. rewrite andb_true_iff, negb_true_iff, Z.ltb_lt. split; intros [A B]; split; auto; lia.
Qed.

Lemma ans_hit_inv v ce w : In (AHit w) [ans_of_flight v ce] -> w = v /\ is_pending_msg v = false.
Proof.
  unfold ans_of_flight. intros [H|[]]. destruct (is_pending_msg v); [destruct ce; discriminate|].
  injection H as ->. split; reflexivity.
Qed.

Lemma aflight_result_hit s k c ttl now v ce w :
  aflight_result s k c ttl now = AOFlight v ce -> In (AHit w) [ans_of_flight v ce] -> a_hit_from s k c now w.
Proof.
  intros Hr Ha. apply ans_hit_inv in Ha. destruct Ha as [-> Hv]. unfold aflight_result in Hr. cbv zeta in Hr.
  destruct (a_live (sget (k ++ c) (astore s)) now) eqn:El.
  - injection Hr as <- <-. apply a_live_spec in El. destruct El as [A B]. split; [|split; assumption].
    apply sget_in; [exact A|reflexivity].
  - destruct (aflights s) as [fl|]; [destruct (flookup k c fl) as [[ae|]|]|]; injection Hr as <- <-; discriminate.
Qed.

Lemma kc_eqb_iff' k c k' c' : bytes_eqb k k' && bytes_eqb c c' = true <-> (k', c') = (k, c).
Proof.
  rewrite andb_true_iff, !bytes_eqb_eq. split.
  - intros [-> ->]. reflexivity.
  - intro H. injection H as <- <-. split; reflexivity.
Qed.

Theorem astep_hit s o k c v :
  In (AHit v) (a_answers k c o (snd (astep s o))) -> a_hit_from s k c (a_now_of o) v.
Proof.
  intro H. destruct o as [k0 c0 ttl now|k0 c0 v0|k0 c0 err|keys|err|sk|k0 c0 now|k0 c0 ttl now];
    cbn [astep snd a_answers a_now_of] in *; try contradiction.
  - rewrite aflight_out in H. destruct (aflight_result s k0 c0 ttl now) as [w ce| | | | | | |] eqn:Er; try contradiction.
    destruct (bytes_eqb k k0 && bytes_eqb c c0) eqn:Ek; [|contradiction].
    apply kc_eqb_iff' in Ek. injection Ek as -> ->. eapply aflight_result_hit; eassumption.
  - unfold afast in H. cbv zeta in H. destruct (a_live (sget (k0 ++ c0) (astore s)) now) eqn:El.
    + destruct (bytes_eqb k k0 && bytes_eqb c c0) eqn:Ek; [|contradiction].
      apply kc_eqb_iff' in Ek. injection Ek as -> ->. destruct H as [[= <-]|[]].
      apply a_live_spec in El. destruct El as [A B]. split; [|split; assumption]. apply sget_in; [exact A|reflexivity].
    + destruct (aflights s) as [fl|]; [destruct (flookup k0 c0 fl) as [[ae|]|]|]; try contradiction.
      destruct (bytes_eqb k k0 && bytes_eqb c c0); [destruct H as [H|[]]; discriminate|contradiction].
  - rewrite aslow_out in H. destruct (aflight_result s k0 c0 ttl now) as [w ce| | | | | | |] eqn:Er; try contradiction.
    destruct (bytes_eqb k k0 && bytes_eqb c c0) eqn:Ek; [|contradiction].
    apply kc_eqb_iff' in Ek. injection Ek as -> ->. eapply aflight_result_hit; eassumption.
Qed.

(** hit iff stored, completed and before expiry (C07) *)
Theorem a_hit_iff s k c ttl now v :
  ainv s -> In (SR (k ++ c) v) (astore s) -> is_pending_msg v = false ->
  (unix_milli now < m_xat v -> snd (aflight s k c ttl now) = AOFlight v None) /\
  (m_xat v <= unix_milli now -> forall w ce, snd (aflight s k c ttl now) = AOFlight w ce -> is_pending_msg w = true).
Proof.
  intros Hi Hin Hv. rewrite aflight_out. unfold aflight_result. cbv zeta.
  rewrite (sget_unique _ _ v (ai_store s Hi) Hin). split; intro H.
  - assert (E : a_live v now = true) by (apply a_live_spec; split; assumption). rewrite E. reflexivity.
  - assert (E : a_live v now = false).
    { destruct (a_live v now) eqn:E; [|reflexivity]. apply a_live_spec in E. lia. }
    rewrite E. intros w ce Hw.
    destruct (aflights s) as [fl|]; [destruct (flookup k c fl) as [[ae|]|]|]; injection Hw as <- <-; reflexivity.
Qed.

(** ** expiry rule of Update (C07) *)

Theorem aupdate_expiry s fl k c v ae :
  aflights s = Some fl -> flookup k c fl = Some (Some ae) ->
  let px := min_xat (axat ae) (m_xat v) in
  let v' := if (axat ae <? m_xat v) || (m_xat v =? 0) then set_xat v (trunc56 (axat ae)) else v in
  snd (aupdate s k c v) = AOUpdate px (Some (Rel (aid ae) v')) /\
  sget (k ++ c) (astore (fst (aupdate s k c v))) = v' /\
  (0 <= axat ae < two56 -> m_xat v' = px).
Proof.
  intros Hf Hl px v'. unfold aupdate. rewrite Hf, Hl. cbn [fst snd astore sset sget]. rewrite bytes_eqb_refl.
  unfold px, v', min_xat. split; [reflexivity|]. split; [reflexivity|].
  intro Hr. destruct ((axat ae <? m_xat v) || (m_xat v =? 0)); [|reflexivity].
  destruct v. cbn. apply Z.mod_small. exact Hr.
Qed.

Theorem aslow_creates s fl k c ttl now :
  aflights s = Some fl -> a_live (sget (k ++ c) (astore s)) now = false ->
  (flookup k c fl = None \/ flookup k c fl = Some None) ->
  aslow s k c ttl now =
  (mkA (Some (fset k c (Some (mkAE (anext s) (unix_milli (now + ttl)))) fl)) (astore s) (N.succ (anext s)), AOFlight empty_msg None).
Proof. intros Hf Hl Hm. unfold aslow. rewrite Hl, Hf. destruct Hm as [-> | ->]; reflexivity. Qed.

(** ** single flight (C09) *)

Definition a_pending (s : astate) (k c : bytes) (ae : aentry) : Prop :=
  exists fl, aflights s = Some fl /\ flookup k c fl = Some (Some ae).

(** while a flight for (k, c) is pending no lookup of (k, c) is told to send a request: it waits on
    that flight (or is served a live value of the SimpleCache) *)
Theorem a_single_flight s o k c ae a :
  a_pending s k c ae -> In a (a_answers k c o (snd (astep s o))) -> a = AWait (aid ae) \/ exists v, a = AHit v.
Proof.
  intros [fl [Hf Hl]] H.
  assert (Hres : forall ttl now, In a [match aflight_result s k c ttl now with AOFlight v ce => ans_of_flight v ce | _ => AMiss end] ->
             a = AWait (aid ae) \/ exists v, a = AHit v).
  { intros ttl now [<-|[]]. unfold aflight_result. cbv zeta. rewrite Hf, Hl.
    destruct (a_live (sget (k ++ c) (astore s)) now) eqn:E.
    - right. apply a_live_spec in E. destruct E as [E _]. unfold ans_of_flight. rewrite E. eexists. reflexivity.
    - left. reflexivity. }
  destruct o as [k0 c0 ttl now|k0 c0 v0|k0 c0 err|keys|err|sk|k0 c0 now|k0 c0 ttl now];
    cbn [astep snd a_answers] in *; try contradiction.
  - rewrite aflight_out in H. destruct (bytes_eqb k k0 && bytes_eqb c c0) eqn:Ek.
    + pose proof Ek as Ek'. apply kc_eqb_iff' in Ek'. injection Ek' as -> ->. apply (Hres ttl now).
      destruct (aflight_result s k c ttl now); try contradiction. try rewrite Ek in H. exact H.
    + destruct (aflight_result s k0 c0 ttl now); try contradiction; try (rewrite Ek in H; contradiction).
  - unfold afast in H. cbv zeta in H. destruct (bytes_eqb k k0 && bytes_eqb c c0) eqn:Ek.
    + pose proof Ek as Ek'. apply kc_eqb_iff' in Ek'. injection Ek' as -> ->. rewrite Hf, Hl in H.
      destruct (a_live (sget (k ++ c) (astore s)) now); try rewrite Ek in H; destruct H as [<-|[]]; [right; eexists; reflexivity|left; reflexivity].
    + destruct (a_live _ now); [try rewrite Ek in H; contradiction|].
      destruct (aflights s) as [fl'|]; [destruct (flookup k0 c0 fl') as [[ae'|]|]|]; try contradiction; try (rewrite Ek in H; contradiction).
  - rewrite aslow_out in H. destruct (bytes_eqb k k0 && bytes_eqb c c0) eqn:Ek.
    + pose proof Ek as Ek'. apply kc_eqb_iff' in Ek'. injection Ek' as -> ->. apply (Hres ttl now).
      destruct (aflight_result s k c ttl now); try contradiction. try rewrite Ek in H. exact H.
    + destruct (aflight_result s k0 c0 ttl now); try contradiction; try (rewrite Ek in H; contradiction).
Qed.

(** the flight stays until its own Update / Cancel or Close *)
Theorem a_flight_persists s o k c ae :
  ainv s -> a_pending s k c ae -> ~ a_resolves k c o -> a_pending (fst (astep s o)) k c ae.
Proof.
  intros Hi [fl [Hf Hl]] Hr.
  assert (Hself : a_pending s k c ae) by (exists fl; split; assumption).
  assert (Hset : forall k1 c1 x st n, ((k1, c1) = (k, c) -> x = Some ae) ->
            a_pending (mkA (Some (fset k1 c1 x fl)) st n) k c ae).
  { intros k1 c1 x st n Hx. eexists. split; [reflexivity|].
    destruct (list_eq_dec N.eq_dec k1 k) as [->|Hk]; [destruct (list_eq_dec N.eq_dec c1 c) as [->|Hc]|].
    - rewrite flookup_fset_same, (Hx eq_refl). reflexivity.
    - rewrite flookup_fset_other; [exact Hl|congruence].
    - rewrite flookup_fset_other; [exact Hl|congruence]. }
  assert (Hslow : forall k1 c1 ttl now, a_pending (fst (aslow s k1 c1 ttl now)) k c ae).
  { intros k1 c1 ttl now. unfold aslow. destruct (a_live _ now); [exact Hself|]. rewrite Hf.
    destruct (flookup k1 c1 fl) as [[ae'|]|] eqn:E1; [exact Hself| |]; cbn [fst]; apply Hset; intro E; injection E as -> ->; congruence. }
  destruct o as [k0 c0 ttl now|k0 c0 v0|k0 c0 err|keys|err|sk|k0 c0 now|k0 c0 ttl now]; cbn [astep fst a_resolves] in *.
  - unfold aflight. destruct (afast s k0 c0 now); try exact Hself; apply Hslow.
  - unfold aupdate. rewrite Hf. destruct (flookup k0 c0 fl) as [[ae'|]|] eqn:E1; try exact Hself.
    cbn [fst]. apply Hset. intro E. injection E as -> ->. exfalso. apply Hr. split; reflexivity.
  - unfold acancel. rewrite Hf. destruct (flookup k0 c0 fl) as [[ae'|]|] eqn:E1; try exact Hself.
    cbn [fst]. apply Hset. intro E. injection E as -> ->. exfalso. apply Hr. split; reflexivity.
  - assert (H : forall p, a_pending (adel_if p s) k c ae).
    { intro p. unfold adel_if. rewrite Hf. eexists. split; [reflexivity|].
      apply flookup_unique.
      - apply NoDup_map_filter. apply (ai_fl s Hi). exact Hf.
      - apply filter_In. split; [apply flookup_some; exact Hl|]. cbn. rewrite andb_false_r. reflexivity. }
    unfold adelete. destruct keys; apply H.
  - exfalso. apply Hr. exact I.
  - exists fl. split; assumption.
  - exact Hself.
  - apply Hslow.
Qed.

(** Update / Cancel / Close deliver to the waiters of a pending flight *)
Theorem a_waiters_get_result s k c ae :
  a_pending s k c ae ->
  (forall v, exists px v', snd (astep s (AUpdate k c v)) = AOUpdate px (Some (Rel (aid ae) v')) /\
                           (v' = v \/ v' = set_xat v (trunc56 (axat ae)))) /\
  (forall err, snd (astep s (ACancel k c err)) = AOCancel (Some (aid ae)) /\
               astore (fst (astep s (ACancel k c err))) = astore s) /\
  (forall err, In (aid ae) (a_released (snd (astep s (AClose err))))).
Proof.
  intros [fl [Hf Hl]]. split; [|split].
  - intro v. cbn [astep]. unfold aupdate. rewrite Hf, Hl. cbn [snd]. eexists _, _. split; [reflexivity|].
    destruct ((axat ae <? m_xat v) || (m_xat v =? 0)); [right|left]; reflexivity.
  - intro err. cbn [astep]. unfold acancel. rewrite Hf, Hl. split; reflexivity.
  - intro err. cbn [astep aclose snd a_released]. rewrite Hf. unfold pending_ids. apply in_flat_map.
    exists (FR k c (Some ae)). split; [apply flookup_some; exact Hl|left; reflexivity].
Qed.

(** a Miss on an open adapter starts a flight *)
Theorem a_miss_starts_flight s k c ttl now :
  aflights s <> None -> snd (aflight s k c ttl now) = AOFlight empty_msg None ->
  a_pending (fst (aflight s k c ttl now)) k c (mkAE (anext s) (unix_milli (now + ttl))).
Proof.
  intros Hopen Ho. destruct (aflights s) as [fl|] eqn:Hf; [|contradiction].
  unfold aflight, afast in *. cbv zeta in *.
  destruct (a_live (sget (k ++ c) (astore s)) now) eqn:El.
  - cbn in Ho. apply a_live_spec in El. injection Ho as Ho. rewrite Ho in El. destruct El; discriminate.
  - rewrite Hf in *. destruct (flookup k c fl) as [[ae|]|] eqn:E; [discriminate| |];
      unfold aslow in *; rewrite El, Hf, E in *; cbn [fst]; (eexists; split; [reflexivity|apply flookup_fset_same]).
Qed.
