(** C13, part 2c: errOldNull (the RESP2 null marker) is produced in exactly one place, before any
    allocation. *)
From Coq Require Import List Arith NArith ZArith Bool Lia ZifyN ZifyNat ZifyBool.
Require Import RV.Model.Base RV.Model.RespWrite RV.Model.Resp.
Require Import RV.Proofs.RespIOProofs RV.Proofs.RespBaseProofs RV.Proofs.RespSafetyBase RV.Proofs.RespSafetyScalars
               RV.Proofs.RespSafetyScalars2.
Import ListNotations.
Open Scope N_scope.

Lemma step_not_oldnull B o s : fst (flat_step B o s) <> Err eOldNull.
Proof.
  destruct o; cbn [flat_step]; try discriminate.
  - destruct s; discriminate.
  - destruct (n <? 0)%Z; [discriminate|]. destruct (Z.to_N n <=? blen s); discriminate.
  - destruct (find_lf (firstn B s)); [discriminate|]. destruct (B <=? length s)%nat; discriminate.
  - destruct (find_lf s); discriminate.
  - destruct (n =? 0); [discriminate|]. destruct (n <=? blen s); [discriminate|]. destruct s; discriminate.
  - destruct (n <=? blen s); discriminate.
  - destruct (n <=? blen s); discriminate.
Qed.

Lemma run_op_not_oldnull B o s al s' al' : run B (do_op o) s al = (Err eOldNull, s', al') -> False.
Proof. intros H. apply run_op_inv in H as [H _]. pose proof (step_not_oldnull B o s) as Hn. rewrite H in Hn. now apply Hn. Qed.

Lemma parse_int_not_oldnull bs : parse_int_line bs <> Err eOldNull.
Proof.
  unfold parse_int_line. destruct (length bs <? 3)%nat; [discriminate|]. destruct (hd 0 bs =? 63); [discriminate|].
  set (ds := firstn _ _). generalize 0%Z. 
  assert (H : forall v, digits_loop ds v <> Err eOldNull).
  { induction ds as [|c r IH]; intros v; cbn [digits_loop]; [discriminate|]. destruct (is_dig c); [apply IH|discriminate]. }
  intros v. specialize (H v). destruct (digits_loop ds v); congruence.
Qed.

Lemma read_i_not_oldnull B s al s' al' : run B read_i s al = (Err eOldNull, s', al') -> False.
Proof.
  unfold read_i, bindr. rewrite run_bind. destruct (run B (do_op OReadSlice) s al) as [[r0 s0] al0] eqn:E.
  destruct r0 as [bs|e|]; cbn [run]; intros Heq; inversion Heq; subst.
  - now apply (parse_int_not_oldnull bs).
  - now apply run_op_not_oldnull in E.
Qed.

Lemma read_n_loop_not_oldnull B : forall fuel L n cap acc s al s' al',
  run B (read_n_loop fuel L n cap acc) s al = (Err eOldNull, s', al') -> False.
Proof.
  induction fuel as [|f IH]; intros L n cap acc s al s' al'.
  - cbn. intros Heq; inversion Heq.
  - cbn [read_n_loop]. rewrite run_bind.
    destruct (run B (do_op (OReadFull (Z.to_N (cap - n)))) s al) as [[r0 s0] al0] eqn:E.
    destruct r0 as [d|e|]; [| |cbn; intros Heq; inversion Heq].
    + destruct (cap =? L)%Z; [cbn; intros Heq; inversion Heq|].
      unfold bindr. rewrite run_bind.
      destruct (run B (alloc_make 1 (Z.min L (cap * 2))) s0 al0) as [[r1 s1] al1] eqn:E1.
      apply alloc_make_spec in E1 as [-> [(-> & _)|(-> & _)]]; [cbn; intros Heq; inversion Heq|]. apply IH.
    + cbn [run]. intros Heq. inversion Heq as [Hx]. subst.
      destruct (N.eqb_spec e eOldNull) as [->|Hne]; [now apply run_op_not_oldnull in E|].
      destruct ((e =? eEOF) && (0 <? n)%Z); [discriminate Hx|congruence].
Qed.

Lemma read_n_not_oldnull B L s al s' al' : run B (read_n L) s al = (Err eOldNull, s', al') -> False.
Proof.
  unfold read_n. destruct (L <? 0)%Z; [cbn; intros Heq; inversion Heq|].
  unfold bindr. rewrite run_bind.
  destruct (run B (alloc_make 1 (Z.min L max_prealloc_bytes)) s al) as [[r2 s2] al2] eqn:E2.
  apply alloc_make_spec in E2 as [-> [(-> & _)|(-> & _)]]; [cbn; intros Heq; inversion Heq|].
  apply read_n_loop_not_oldnull.
Qed.

Lemma chunk_loop_not_oldnull B : forall fuel acc s al s' al',
  run B (chunk_loop fuel acc) s al = (Err eOldNull, s', al') -> False.
Proof.
  induction fuel as [|f IH]; intros acc s al s' al'.
  - cbn. intros Heq; inversion Heq.
  - cbn [chunk_loop]. unfold bindr. rewrite run_bind.
    destruct (run B (do_op (ODiscard 1)) s al) as [[r0 s0] al0] eqn:E0.
    destruct r0 as [d0|e|]; [|cbn [run]; intros Heq; inversion Heq; subst; now apply run_op_not_oldnull in E0|cbn; intros Heq; inversion Heq].
    rewrite run_bind. destruct (run B read_i s0 al0) as [[r1 s1] al1] eqn:E1.
    destruct r1 as [L|e|]; [|cbn [run]; intros Heq; inversion Heq; subst; now apply read_i_not_oldnull in E1|cbn; intros Heq; inversion Heq].
    destruct (L =? 0)%Z; [cbn; intros Heq; inversion Heq|]. destruct (L <? 0)%Z; [cbn; intros Heq; inversion Heq|].
    rewrite run_bind. destruct (run B (grow (Z.min L max_prealloc_bytes)) s1 al1) as [[r2 s2] al2] eqn:E2.
    apply grow_spec in E2 as [-> [(-> & _)|(-> & _)]]; [cbn; intros Heq; inversion Heq|].
    rewrite run_bind. destruct (run B (do_op (OCopyN (Z.to_N L))) s1 al2) as [[r3 s3] al3] eqn:E3.
    destruct r3 as [d|e|]; [|cbn [run]; intros Heq; inversion Heq; subst; now apply run_op_not_oldnull in E3|cbn; intros Heq; inversion Heq].
    rewrite run_bind, run_alloc. rewrite run_bind.
    destruct (run B (do_op (ODiscard 2)) s3 (al3 + blen d)) as [[r4 s4] al4] eqn:E4.
    destruct r4 as [d4|e|]; [|cbn [run]; intros Heq; inversion Heq; subst; now apply run_op_not_oldnull in E4|cbn; intros Heq; inversion Heq].
    apply IH.
Qed.

(** readB reports the RESP2 null right after the length line: nothing allocated, at least 3 bytes consumed *)
Lemma read_b_oldnull B s al s' al' : run B read_b s al = (Err eOldNull, s', al') -> al' = al /\ blen s' + 3 <= blen s.
Proof.
  unfold read_b, bindr. rewrite run_bind.
  destruct (run B read_i s al) as [[r0 s0] al0] eqn:E0.
  pose proof E0 as E0'. apply read_i_spec in E0 as (_ & -> & _ & Hok).
  destruct r0 as [L|e|]; [|cbn [run]; intros Heq; inversion Heq; subst; now apply read_i_not_oldnull in E0'|cbn; intros Heq; inversion Heq].
  destruct (Hok L eq_refl) as [Hc _].
  destruct (L =? -1)%Z; [cbn [run]; intros Heq; apply triple_inv in Heq as (_ & <- & <-); auto|].
  rewrite run_bind. destruct (run B (read_n L) s0 al) as [[r1 s1] al1] eqn:E1.
  destruct r1 as [bs|e|]; [|cbn [run]; intros Heq; inversion Heq; subst; now apply read_n_not_oldnull in E1|cbn; intros Heq; inversion Heq].
  rewrite run_bind. destruct (run B (do_op (ODiscard 2)) s1 al1) as [[r2 s2] al2] eqn:E2.
  destruct r2 as [d|e|]; cbn [run]; intros Heq; inversion Heq; subst. now apply run_op_not_oldnull in E2.
Qed.

Lemma read_blob_string_oldnull B cf s al s' al' :
  run B (read_blob_string cf) s al = (Err eOldNull, s', al') -> al' = al /\ blen s' + 3 <= blen s.
Proof.
  unfold read_blob_string. rewrite run_bind.
  destruct (run B read_b s al) as [[r0 s0] al0] eqn:E0.
  destruct r0 as [y|e|]; [cbn; intros Heq; inversion Heq| |cbn; intros Heq; inversion Heq].
  destruct (N.eqb_spec e eChunked) as [->|_].
  - intros H. now apply chunk_loop_not_oldnull in H.
  - cbn [run]. intros Heq. apply triple_inv in Heq as (He & <- & <-). inversion He; subst e. now apply read_b_oldnull in E0.
Qed.
