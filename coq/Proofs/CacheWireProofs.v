(** The expiry the reader attaches to a reply before handing it to the store (C07), and which store
    call each wire form produces. *)
From Coq Require Import List NArith ZArith Bool Lia.
Require Import RV.Model.Base RV.Model.Lru RV.Model.CacheKey RV.Model.CacheWire RV.Proofs.LruHist.
Import ListNotations.
Open Scope Z_scope.

Lemma with_pttl_xat cp pttl now :
  m_xat (with_pttl cp pttl now) = if 0 <=? pttl then trunc56 (unix_milli (now + pttl * 1000000)) else m_xat cp.
Proof. unfold with_pttl. destruct (0 <=? pttl); [apply m_xat_set|reflexivity]. Qed.

Lemma m_xat_set_mark v b : m_xat (set_mark v b) = m_xat v.
Proof. destruct v. reflexivity. Qed.

(** standard form: CLIENT CACHING YES, MULTI, PTTL k, cmd, EXEC; the EXEC reply [.. ; pttl ; v] *)
Theorem wire_standard c0 c1 c2 cmd c4 pre p v now k c :
  w_optin c0 = true -> w_static c4 = false -> w_mget cmd = false ->
  cache_key (w_scr cmd) (w_tokens cmd) = Ok (k, c) ->
  cache_wire [c0; c1; c2; cmd; c4] 4 (Msg 42 0 [] (pre ++ [p; v]) 0 false) now =
  Ok [SUpdate k c (with_pttl (set_mark v true) (m_intlen p) now)].
Proof.
  intros H0 H4 Hm Hk. unfold cache_wire. cbn [nth_error]. rewrite H4, H0, Hm, Hk. cbn [m_vals].
  assert (Hl : (2 <=? Z.of_nat (length (pre ++ [p; v]))) = true).
  { apply Z.leb_le. rewrite app_length. cbn. lia. }
  rewrite Hl. cbn [andb Z.leb Z.of_nat Z.compare Pos.compare Pos.compare_cont Pos.of_succ_nat Pos.succ].
  assert (Hn : length (pre ++ [p; v]) = (length pre + 2)%nat) by (rewrite app_length; reflexivity).
  rewrite Hn. replace (length pre + 2 - 1)%nat with (length pre + 1)%nat by lia.
  replace (length pre + 1 - 1)%nat with (length pre) by lia.
  rewrite !app_nth2 by lia. replace (length pre + 1 - length pre)%nat with 1%nat by lia.
  rewrite Nat.sub_diag. reflexivity.
Qed.

(** static-TTL form: CLIENT CACHING YES, cmd; the reply is committed as it is (no server expiry),
    a Redis error reply cancels the flight instead *)
Theorem wire_static c0 cmd m now k c :
  w_static cmd = true -> cache_key (w_scr cmd) (w_tokens cmd) = Ok (k, c) ->
  cache_wire [c0; cmd] 1 m now = if is_redis_err m then Ok [SCancel k c m] else Ok [SUpdate k c (set_mark m true)].
Proof. intros Hs Hk. unfold cache_wire. cbn [nth_error]. rewrite Hs, Hk. reflexivity. Qed.

(** the expiry of the entry the built-in store keeps for a reply fetched in the standard form *)
Theorem wire_expiry cx v p now :
  0 <= m_xat v ->
  let sv := with_pttl (set_mark v true) (m_intlen p) now in
  min_xat cx (m_xat sv) =
  if 0 <=? m_intlen p
  then (let sx := trunc56 (unix_milli (now + m_intlen p * 1000000)) in if sx =? 0 then cx else Z.min cx sx)
  else if m_xat v =? 0 then cx else Z.min cx (m_xat v).
Proof.
  intros Hv sv. unfold sv. rewrite with_pttl_xat, m_xat_set_mark. destruct (0 <=? m_intlen p).
  - apply min_xat_spec. apply trunc56_range.
  - apply min_xat_spec. exact Hv.
Qed.

(** MGET form: member j of the reply array is committed under key j of the command, the shared
    GET / JSON.GET identity, and with the PTTL reply at the same position *)
Lemma mget_calls_spec s cc replies now : forall msgs i,
  (forall j, (j < length msgs)%nat -> exists k p, nth_error s (S (i + j)) = Some k /\ nth_error replies (i + j) = Some p) ->
  exists l, mget_calls s cc replies msgs i now = Ok l /\ length l = length msgs /\
    forall j cp, nth_error msgs j = Some cp ->
      exists k p, nth_error s (S (i + j)) = Some k /\ nth_error replies (i + j) = Some p /\
                  nth_error l j = Some (SUpdate k cc (with_pttl (set_mark cp true) (m_intlen p) now)).
Proof.
  induction msgs as [|cp r IH]; intros i H.
  - exists []. split; [reflexivity|]. split; [reflexivity|]. intros j cp Hj. destruct j; discriminate.
  - cbn [mget_calls]. destruct (H 0%nat ltac:(cbn; lia)) as [k [p [Hk Hp]]]. rewrite Nat.add_0_r in Hk, Hp.
    unfold mget_cache_key. rewrite Hk, Hp.
    destruct (IH (S i)) as [l [Hl [Hlen Hall]]].
    { intros j Hj. destruct (H (S j) ltac:(cbn; lia)) as [k' [p' [A B]]]. exists k', p'.
      rewrite Nat.add_succ_r in A, B. split; assumption. }
    rewrite Hl. eexists. split; [reflexivity|]. split; [cbn; rewrite Hlen; reflexivity|].
    intros j cp0 Hj. destruct j as [|j].
    + injection Hj as <-. exists k, p. rewrite Nat.add_0_r. repeat split; assumption.
    + cbn [nth_error] in Hj. destruct (Hall j cp0 Hj) as [k' [p' [A [B C]]]]. exists k', p'.
      rewrite Nat.add_succ_r. repeat split; assumption.
Qed.
