(** Structural theorems over paths of any builder graph (used on the regenerated graph in
    Proofs/BuilderGenProofs.v): what a path appends, where the caller's arguments end up, how the key
    slot evolves. *)
From Coq Require Import List Arith NArith ZArith Bool Lia.
Require Import RV.Model.Base RV.Model.Slot RV.Model.Format RV.Model.BuilderGraph RV.Model.BuilderSem RV.Model.BuilderChecks.
Import ListNotations.
Open Scope N_scope.

(** * Provenance projections *)

Lemma args_of_app o1 o2 : args_of (o1 ++ o2) = args_of o1 ++ args_of o2.
Proof. unfold args_of. now rewrite filter_app, map_app. Qed.

Lemma toks_of_app o1 o2 : toks_of (o1 ++ o2) = toks_of o1 ++ toks_of o2.
Proof. unfold toks_of. now rewrite filter_app, map_app. Qed.

Lemma args_of_true bs : args_of (map (pair true) bs) = bs.
Proof. unfold args_of. induction bs as [|b bs IH]; cbn; [reflexivity|now f_equal]. Qed.

Lemma toks_of_true bs : toks_of (map (pair true) bs) = [].
Proof. unfold toks_of. induction bs as [|b bs IH]; cbn; [reflexivity|exact IH]. Qed.

Lemma args_of_false bs : args_of (map (pair false) bs) = [].
Proof. unfold args_of. induction bs as [|b bs IH]; cbn; [reflexivity|exact IH]. Qed.

Lemma toks_of_false bs : toks_of (map (pair false) bs) = bs.
Proof. unfold toks_of. induction bs as [|b bs IH]; cbn; [reflexivity|now f_equal]. Qed.

Lemma argv_split_length (o : out) : (length (args_of o) + length (toks_of o) = length o)%nat.
Proof.
  unfold args_of, toks_of. rewrite !map_length.
  induction o as [|[b x] o IH]; cbn; [reflexivity|]. destruct b; cbn; lia.
Qed.

(** * One item *)

Definition render_at (fe : fenv) (args : list arg) (it : item) : option (list bytes) :=
  match get_arg args (item_index it) with
  | Some a => render fe it a
  | None => None
  end.

Lemma all_some_pairs fe c1 f1 c2 f2 : forall ps bss,
  all_some (map (fun p => match fmt_sval fe f1 (comp c1 p), fmt_sval fe f2 (comp c2 p) with
                          | Some x, Some y => Some [(true, x); (true, y)]
                          | _, _ => None
                          end) ps) = Some bss ->
  all_some (map (fun p => match fmt_sval fe f1 (comp c1 p), fmt_sval fe f2 (comp c2 p) with
                          | Some x, Some y => Some [x; y]
                          | _, _ => None
                          end) ps) = Some (map args_of bss)
  /\ args_of (concat bss) = concat (map args_of bss) /\ toks_of (concat bss) = [].
Proof.
  induction ps as [|p ps IH]; intros bss H; cbn [map all_some] in *.
  - inversion H; subst. repeat split.
  - destruct (fmt_sval fe f1 (comp c1 p)) as [x|]; [|discriminate].
    destruct (fmt_sval fe f2 (comp c2 p)) as [y|]; [|discriminate].
    destruct (all_some (map _ ps)) as [r|] eqn:E; [|discriminate].
    inversion H; subst. destruct (IH r eq_refl) as (A & B & C).
    rewrite A. cbn [map concat]. rewrite args_of_app, toks_of_app, B, C. repeat split.
Qed.

Lemma emit_item_arg fe args it o :
  emit_item fe args it = Some o -> is_arg_item it = true ->
  render_at fe args it = Some (args_of o) /\ toks_of o = [].
Proof.
  unfold render_at. destruct it as [t|i f|i f|i c1 f1 c2 f2]; cbn [emit_item is_arg_item item_index render]; intros H Ha; try discriminate.
  - destruct (get_arg args i) as [a|]; [|discriminate].
    destruct (arg_scalar a) as [v|]; [|discriminate].
    destruct (fmt_sval fe f v) as [b|]; [|discriminate].
    inversion H; subst. split; reflexivity.
  - destruct (get_arg args i) as [a|]; [|discriminate].
    destruct (arg_elems a) as [vs|]; [|discriminate].
    destruct (all_some (map (fmt_sval fe f) vs)) as [bs|]; [|discriminate].
    inversion H; subst. now rewrite args_of_true, toks_of_true.
  - destruct (get_arg args i) as [a|]; [|discriminate].
    destruct (arg_pairs a) as [ps|]; [|discriminate].
    destruct (all_some (map _ ps)) as [bss|] eqn:E; [|discriminate].
    inversion H; subst.
    destruct (all_some_pairs fe c1 f1 c2 f2 ps bss E) as (A & B & C).
    rewrite A, B, C. split; reflexivity.
Qed.

Lemma emit_items_spec fe args : forall its o, emit_items fe args its = Some o ->
  exists rs, all_some (map (render_at fe args) (filter is_arg_item its)) = Some rs /\
             args_of o = concat rs /\ toks_of o = map unpack (tok_items its).
Proof.
  induction its as [|it its IH]; intros o H; cbn [emit_items] in H.
  - inversion H; subst. exists []. repeat split.
  - destruct (emit_item fe args it) as [a|] eqn:Ea; [|discriminate].
    destruct (emit_items fe args its) as [b|] eqn:Eb; [|discriminate].
    inversion H; subst. destruct (IH b eq_refl) as (rs & A & B & C).
    destruct (is_arg_item it) eqn:Ei.
    + destruct (emit_item_arg fe args it a Ea Ei) as [R T].
      exists (args_of a :: rs). cbn [filter]. rewrite Ei. cbn [map all_some]. rewrite R, A.
      rewrite args_of_app, toks_of_app, B, C, T. repeat split.
      destruct it; try discriminate; reflexivity.
    + destruct it as [t| | |]; try discriminate. cbn [emit_item] in Ea. inversion Ea; subst.
      exists rs. cbn [filter is_arg_item]. rewrite A. rewrite args_of_app, toks_of_app, B, C. repeat split.
Qed.

(** * Parameter order *)

Lemma get_arg_app pre a rest : get_arg (pre ++ a :: rest) (N.of_nat (length pre)) = Some a.
Proof.
  unfold get_arg. rewrite Nat2N.id, nth_error_app2 by lia. now rewrite Nat.sub_diag.
Qed.

Lemma render_at_seq fe : forall ais pre rest rs,
  map item_index ais = map N.of_nat (seq (length pre) (length ais)) ->
  length rest = length ais ->
  all_some (map (render_at fe (pre ++ rest)) ais) = Some rs ->
  render_all fe ais rest = Some (concat rs).
Proof.
  induction ais as [|it ais IH]; intros pre rest rs Hi Hl Hr.
  - destruct rest; [|discriminate]. cbn in Hr. inversion Hr; subst. reflexivity.
  - destruct rest as [|a rest]; [discriminate|].
    cbn [map seq length] in Hi. inversion Hi as [[Hidx Htl]].
    cbn [map all_some] in Hr.
    destruct (render_at fe (pre ++ a :: rest) it) as [x|] eqn:Ex; [|discriminate].
    destruct (all_some (map (render_at fe (pre ++ a :: rest)) ais)) as [r|] eqn:Er; [|discriminate].
    inversion Hr; subst rs.
    unfold render_at in Ex. rewrite Hidx, get_arg_app in Ex.
    cbn [render_all]. rewrite Ex.
    rewrite (IH (pre ++ [a]) rest r).
    + reflexivity.
    + rewrite app_length. cbn [length]. rewrite Nat.add_1_r. exact Htl.
    + cbn [length] in Hl. lia.
    + rewrite <- app_assoc. exact Er.
Qed.

Lemma list_eqb_N_eq : forall l1 l2 : list N, list_eqb N.eqb l1 l2 = true -> l1 = l2.
Proof.
  induction l1 as [|x l1 IH]; intros [|y l2] H; cbn in H; try discriminate; [reflexivity|].
  apply andb_prop in H. destruct H as [Hx Hl]. apply N.eqb_eq in Hx. subst. f_equal. now apply IH.
Qed.

Lemma args_ok_length : forall ps args, args_ok ps args = true -> length args = length ps.
Proof.
  induction ps as [|p ps IH]; intros [|a args] H; cbn in H; try discriminate; [reflexivity|].
  apply andb_prop in H. cbn [length]. f_equal. now apply IH.
Qed.

(** the caller's arguments of one call land in argv in parameter order, each rendered once;
    the rest of what the call appends are the method's literal tokens *)
Lemma edge_args_text fe e args o :
  edge_args_in_order e = true -> args_ok (e_params e) args = true ->
  emit_items fe args (e_items e) = Some o ->
  call_args_text fe e args = Some (args_of o) /\ toks_of o = map unpack (tok_items (e_items e)).
Proof.
  intros Ho Ha He.
  destruct (emit_items_spec fe args _ _ He) as (rs & A & B & C).
  split; [|exact C].
  unfold call_args_text, arg_items. rewrite B.
  apply (render_at_seq fe _ [] args rs).
  - unfold edge_args_in_order, arg_items, Nseq in Ho. apply list_eqb_N_eq in Ho.
    cbn [length]. rewrite Ho.
    assert (Hlen : length (filter is_arg_item (e_items e)) = length (e_params e)).
    { apply (f_equal (@length N)) in Ho. now rewrite !map_length, seq_length in Ho. }
    now rewrite Hlen.
  - unfold edge_args_in_order, arg_items, Nseq in Ho. apply list_eqb_N_eq in Ho.
    apply (f_equal (@length N)) in Ho. rewrite !map_length, seq_length in Ho.
    rewrite (args_ok_length _ _ Ha). now symmetry.
  - exact A.
Qed.

(** * Paths *)

Definition in_graph (g : graph) (e : edge) : Prop := exists nd, In nd (g_nodes g) /\ In e (n_edges nd).

Lemma find_edge_In name : forall es e, find_edge name es = Some e -> In e es /\ e_name e = name.
Proof.
  induction es as [|x es IH]; intros e H; cbn in H; [discriminate|].
  destruct (N.eqb_spec (e_name x) name) as [E|E].
  - inversion H; subst. split; [now left|reflexivity].
  - destruct (IH e H). split; [now right|assumption].
Qed.

Lemma get_node_In g i nd : get_node g i = Some nd -> In nd (g_nodes g).
Proof. unfold get_node. apply nth_error_In. Qed.

Definition call_out (fe : fenv) (c : edge * list arg) : out :=
  opt_list (emit_items fe (snd c) (e_items (fst c))).

Definition call_ok (g : graph) (fe : fenv) (c : edge * list arg) : Prop :=
  in_graph g (fst c) /\ args_ok (e_params (fst c)) (snd c) = true /\
  exists o, emit_items fe (snd c) (e_items (fst c)) = Some o.

Definition call_events (c : edge * list arg) : list key_event := opt_list (edge_key_events (fst c) (snd c)).
Definition path_events (tr : list (edge * list arg)) : list key_event := flat_map call_events tr.

Lemma ks_run_app tab : forall l1 l2 ks,
  ks_run tab ks (l1 ++ l2) =
  match ks_run tab ks l1 with Ok ks' => ks_run tab ks' l2 | Err x => Err x | Panic => Panic end.
Proof.
  induction l1 as [|e l1 IH]; intros l2 ks; cbn [app ks_run]; [reflexivity|].
  destruct (ks_event tab ks e); [apply IH|reflexivity|reflexivity].
Qed.

Lemma exec_edge_ok tab fe st e args st' :
  exec_edge tab fe st e args = Ok st' ->
  args_ok (e_params e) args = true /\
  (exists o, emit_items fe args (e_items e) = Some o /\ b_cs st' = b_cs st ++ o) /\
  b_node st' = e_tgt e /\ b_cf st' = N.lor (b_cf st) (e_cf e) /\
  ks_run tab (b_ks st) (call_events (e, args)) = Ok (b_ks st').
Proof.
  unfold exec_edge, call_events. cbn [fst snd].
  destruct (args_ok (e_params e) args); cbn [negb]; [|discriminate].
  destruct (edge_key_events e args) as [evs|]; [|discriminate].
  destruct (ks_run tab (b_ks st) evs) as [ks'|x|] eqn:Ek; try discriminate.
  destruct (emit_items fe args (e_items e)) as [o|]; [|discriminate].
  intros H. inversion H; subst. cbn. repeat split; eauto.
Qed.

Lemma exec_steps_spec g tab fe : forall ss st st',
  exec_steps g tab fe st ss = Ok st' ->
  exists tr, resolve g (b_node st) ss = Some tr /\
             Forall (call_ok g fe) tr /\
             b_cs st' = b_cs st ++ flat_map (call_out fe) tr /\
             ks_run tab (b_ks st) (path_events tr) = Ok (b_ks st') /\
             b_cf st' = fold_left (fun cf c => N.lor cf (e_cf (fst c))) tr (b_cf st).
Proof.
  induction ss as [|[name args] ss IH]; intros st st' H; cbn [exec_steps] in H.
  - inversion H; subst. exists []. cbn. rewrite app_nil_r. repeat split; constructor.
  - destruct (exec_step g tab fe st (Call name args)) as [st1| |] eqn:E1; try discriminate.
    cbn [exec_step] in E1.
    destruct (get_node g (b_node st)) as [nd|] eqn:En; [|discriminate].
    destruct (find_edge name (n_edges nd)) as [e|] eqn:Ee; [|discriminate].
    destruct (exec_edge_ok _ _ _ _ _ _ E1) as (Ha & (o & Ho & Hcs) & Hn & Hcf & Hks).
    destruct (IH st1 st' H) as (tr & Hr & Hf & Hc & Hk & Hcf').
    exists ((e, args) :: tr). cbn [resolve]. rewrite En, Ee. rewrite Hn in Hr. rewrite Hr.
    repeat split.
    + constructor; [|exact Hf]. repeat split; cbn [fst snd]; eauto.
      exists nd. split; [eapply get_node_In; eauto|]. now apply (find_edge_In name).
    + rewrite Hc, Hcs. cbn [flat_map]. unfold call_out at 2. cbn [fst snd]. rewrite Ho. cbn [opt_list].
      now rewrite app_assoc.
    + unfold path_events. cbn [flat_map]. fold (path_events tr). rewrite ks_run_app, Hks. exact Hk.
    + cbn [fold_left fst]. rewrite <- Hcf. exact Hcf'.
Qed.

Lemma flat_map_args_of {A} (f : A -> out) : forall l, args_of (flat_map f l) = flat_map (fun x => args_of (f x)) l.
Proof. induction l as [|x l IH]; cbn [flat_map]; [reflexivity|]. now rewrite args_of_app, IH. Qed.

Lemma flat_map_toks_of {A} (f : A -> out) : forall l, toks_of (flat_map f l) = flat_map (fun x => toks_of (f x)) l.
Proof. induction l as [|x l IH]; cbn [flat_map]; [reflexivity|]. now rewrite toks_of_app, IH. Qed.

Lemma flat_map_ext_Forall {A B} (P : A -> Prop) (f g : A -> list B) : forall l,
  Forall P l -> (forall x, P x -> f x = g x) -> flat_map f l = flat_map g l.
Proof.
  induction l as [|x l IH]; intros HF H; cbn [flat_map]; [reflexivity|].
  inversion HF; subst. rewrite H by assumption. f_equal. now apply IH.
Qed.

Lemma graph_wf_edge g e : graph_wf g = true -> in_graph g e -> edge_wf e = true.
Proof.
  unfold graph_wf. intros H (nd & Hn & He). apply andb_prop in H. destruct H as [H _].
  rewrite forallb_forall in H. specialize (H nd Hn). unfold node_wf in H.
  rewrite forallb_forall in H. now apply H.
Qed.

(** The argv theorem, for any well-formed graph. *)
Theorem argv_structure g tab fe init rn ss st r :
  graph_wf g = true ->
  find_root rn (g_roots g) = Some r ->
  run_path g tab fe init rn ss = Ok st ->
  exists tr, resolve g (r_node r) ss = Some tr /\
    (* argv = command tokens, then what each call appends, in call order *)
    map snd (b_cs st) = map unpack (r_toks r) ++ flat_map (fun c => map snd (call_out fe c)) tr /\
    (* the argument-derived elements of argv are the caller's arguments, call by call, parameter by parameter *)
    args_of (b_cs st) = flat_map (fun c => opt_list (call_args_text fe (fst c) (snd c))) tr /\
    (* all other elements are the literal tokens of the command and of the options chosen *)
    toks_of (b_cs st) = map unpack (r_toks r ++ flat_map (fun c => tok_items (e_items (fst c))) tr).
Proof.
  intros Hwf Hr Hrun. unfold run_path in Hrun. rewrite Hr in Hrun.
  destruct (exec_steps_spec _ _ _ _ _ _ Hrun) as (tr & Hres & Hf & Hcs & _ & _).
  exists tr. cbn [root_state b_node b_cs] in *. split; [exact Hres|].
  assert (Hroot_args : args_of (map (fun t => (false, unpack t)) (r_toks r)) = []).
  { rewrite <- (map_map unpack (pair false)). apply args_of_false. }
  assert (Hroot_toks : toks_of (map (fun t => (false, unpack t)) (r_toks r)) = map unpack (r_toks r)).
  { rewrite <- (map_map unpack (pair false)). apply toks_of_false. }
  repeat split.
  - rewrite Hcs, map_app, map_map. cbn [snd]. f_equal.
    clear. induction tr as [|c tr IH]; cbn [flat_map]; [reflexivity|]. now rewrite map_app, IH.
  - rewrite Hcs, args_of_app, Hroot_args, flat_map_args_of. cbn [app].
    apply (flat_map_ext_Forall (call_ok g fe)); [exact Hf|].
    intros [e args] (Hin & Ha & o & Ho). cbn [fst snd] in *.
    pose proof (graph_wf_edge g e Hwf Hin) as Hw. unfold edge_wf in Hw.
    apply andb_prop in Hw. destruct Hw as [Hw _]. apply andb_prop in Hw. destruct Hw as [Hw _].
    apply andb_prop in Hw. destruct Hw as [Hord _].
    destruct (edge_args_text fe e args o Hord Ha Ho) as [T _].
    unfold call_out. cbn [fst snd]. rewrite Ho, T. reflexivity.
  - rewrite Hcs, toks_of_app, Hroot_toks, flat_map_toks_of, map_app. f_equal.
    transitivity (flat_map (fun c => map unpack (tok_items (e_items (fst c)))) tr).
    + apply (flat_map_ext_Forall (call_ok g fe)); [exact Hf|].
      intros [e args] (Hin & Ha & o & Ho). cbn [fst snd] in *.
      pose proof (graph_wf_edge g e Hwf Hin) as Hw. unfold edge_wf in Hw.
      apply andb_prop in Hw. destruct Hw as [Hw _]. apply andb_prop in Hw. destruct Hw as [Hw _].
      apply andb_prop in Hw. destruct Hw as [Hord _].
      destruct (edge_args_text fe e args o Hord Ha Ho) as [_ T].
      unfold call_out. cbn [fst snd]. rewrite Ho. exact T.
    + clear. induction tr as [|c tr IH]; cbn [flat_map]; [reflexivity|]. now rewrite map_app, IH.
Qed.

(** * Key slot along a path *)

Theorem path_slot g tab fe init rn ss st r :
  find_root rn (g_roots g) = Some r ->
  run_path g tab fe init rn ss = Ok st ->
  exists tr, resolve g (r_node r) ss = Some tr /\ ks_run tab init (path_events tr) = Ok (b_ks st).
Proof.
  intros Hr Hrun. unfold run_path in Hrun. rewrite Hr in Hrun.
  destruct (exec_steps_spec _ _ _ _ _ _ Hrun) as (tr & Hres & _ & _ & Hk & _).
  exists tr. split; assumption.
Qed.

Lemma exec_steps_panic g tab fe : forall ss st,
  exec_steps g tab fe st ss = Panic ->
  exists k tr, resolve g (b_node st) (firstn k ss) = Some tr /\ ks_run tab (b_ks st) (path_events tr) = Panic.
Proof.
  induction ss as [|[name args] ss IH]; intros st H; cbn [exec_steps] in H; [discriminate|].
  destruct (exec_step g tab fe st (Call name args)) as [st1| |] eqn:E1; try discriminate.
  - cbn [exec_step] in E1.
    destruct (get_node g (b_node st)) as [nd|] eqn:En; [|discriminate].
    destruct (find_edge name (n_edges nd)) as [e|] eqn:Ee; [|discriminate].
    destruct (exec_edge_ok _ _ _ _ _ _ E1) as (_ & _ & Hn & _ & Hks).
    destruct (IH st1 H) as (k & tr & Hr & Hp).
    exists (S k), ((e, args) :: tr). cbn [firstn resolve]. rewrite En, Ee. rewrite Hn in Hr. rewrite Hr.
    split; [reflexivity|]. unfold path_events. cbn [flat_map]. fold (path_events tr).
    now rewrite ks_run_app, Hks.
  - clear H IH. cbn [exec_step] in E1.
    destruct (get_node g (b_node st)) as [nd|] eqn:En; [|discriminate].
    destruct (find_edge name (n_edges nd)) as [e|] eqn:Ee; [|discriminate].
    exists 1%nat, [(e, args)]. cbn [firstn resolve]. rewrite En, Ee. split; [reflexivity|].
    unfold exec_edge in E1.
    destruct (args_ok (e_params e) args); cbn [negb] in E1; [|discriminate].
    unfold path_events, call_events. cbn [flat_map fst snd]. rewrite app_nil_r.
    destruct (edge_key_events e args) as [evs|]; [|discriminate]. cbn [opt_list].
    destruct (ks_run tab (b_ks st) evs) as [ks'|x|]; try discriminate; [|reflexivity].
    destruct (emit_items fe args (e_items e)); discriminate.
Qed.

(** a path panics only in check(): two of its keys are in different slots *)
Theorem path_panic g tab fe init rn ss r :
  find_root rn (g_roots g) = Some r ->
  run_path g tab fe init rn ss = Panic ->
  exists k tr, resolve g (r_node r) (firstn k ss) = Some tr /\ ks_run tab init (path_events tr) = Panic.
Proof.
  intros Hr Hrun. unfold run_path in Hrun. rewrite Hr in Hrun.
  exact (exec_steps_panic _ _ _ _ _ Hrun).
Qed.

(** * Flags along a path: cf only accumulates the masks of the edges *)
Lemma path_cf g tab fe init rn ss st r :
  find_root rn (g_roots g) = Some r ->
  run_path g tab fe init rn ss = Ok st ->
  exists tr, resolve g (r_node r) ss = Some tr /\
             b_cf st = fold_left (fun cf c => N.lor cf (e_cf (fst c))) tr (r_cf r).
Proof.
  intros Hr Hrun. unfold run_path in Hrun. rewrite Hr in Hrun.
  destruct (exec_steps_spec _ _ _ _ _ _ Hrun) as (tr & Hres & _ & _ & _ & Hcf).
  exists tr. split; assumption.
Qed.
