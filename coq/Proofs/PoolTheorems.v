(** Pool LTS: the statements used by Props/C24.v and Props/C05pool.v. *)
From Coq Require Import List NArith ZArith Bool Arith Lia.
Require Import RV.Model.Base RV.Model.Pool RV.Proofs.PoolBase RV.Proofs.PoolProofs RV.Proofs.PoolProofs2
               RV.Proofs.PoolProofs3 RV.Proofs.PoolProofs4.
Import ListNotations.
Open Scope Z_scope.

Ltac st := cbn [size idle down timer_on tarmed mutex parked woken making exiting entered cancellable armed
                ctxdone bpend held broken nostop used sigs cbc dstores
                upd_threads upd_wires upd_misc set_eval hand_out set_mutex add_making] in *.

Definition enabled (cfg : config) (s : state) (l : label) : Prop := exists s', lstep cfg s l = Some s'.

(** ---- bound ---- *)

Theorem pool_bound : forall cfg s, repaired cfg -> reachable cfg s ->
  size s = Z.of_nat (live s) - Z.of_nat (dstores s) /\ Z.of_nat (live s) <= cap cfg /\
  (down s = false -> dstores s = 0%nat /\ size s = Z.of_nat (live s) /\ 0 <= size s <= cap cfg).
Proof.
  intros cfg s Hrep Hr. destruct (inv_reachable _ _ Hrep Hr) as [[I1 I2 I3 I4] _ _].
  split; [exact I1|]. split; [exact I2|]. intro Hd. destruct (I3 Hd) as [D1 D2]. rewrite D1 in *. lia.
Qed.

(** ---- exclusivity ---- *)

Theorem pool_exclusive : forall cfg s, reachable cfg s -> NoDup (idle s ++ real_ids (held s)).
Proof. intros cfg s Hr. apply inv2_nodup. eapply inv2_reachable. exact Hr. Qed.

(** ---- every handed-out wire can be given back, and Store removes exactly it ---- *)

Theorem pool_store_accepts : forall cfg s w, In w (held s) -> mutex s = None ->
  exists s', lstep cfg s (Store w) = Some s' /\ held s' = wremove1 w (held s) /\
             (sigs s' = S (sigs s)).
Proof.
  intros cfg s w Hin Hm. apply wmemb_In in Hin. cbn [lstep]. unfold mutex_free. rewrite Hin, Hm. cbn [andb].
  destruct (if down s then None else is_real_ok s w) as [id|]; eexists; (split; [reflexivity|]); st; split; reflexivity.
Qed.

Theorem pool_mutex_released : forall cfg s u, mutex s = Some u -> enabled cfg s (AcqPark u).
Proof.
  intros cfg s u Hm. unfold enabled. cbn [lstep]. rewrite Hm, Nat.eqb_refl. eexists. reflexivity.
Qed.

(** ---- after Close ---- *)

Definition acquire_label (l : label) : bool :=
  match l with AcqEnter _ _ | AcqWake _ | MakeBad _ _ => true | _ => false end.

Theorem pool_after_close : forall cfg s l s', down s = true -> acquire_label l = true ->
  lstep cfg s l = Some s' ->
  exists w, held s' = w :: held s /\ (w = CtxDead \/ w = DeadDown) /\ idle s' = idle s /\ down s' = true.
Proof.
  intros cfg s l s' Hd Hal Hl. destruct l; try discriminate; cbn [lstep] in Hl.
  - destruct (mutex_free s && negb (memb t (entered s)) && (c || negb (memb t (ctxdone s)))); [|discriminate].
    inversion Hl; subst s'. clear Hl.
    match goal with |- context [acquire_eval _ _ ?s1] => destruct (acquire_eval_down cfg t s1) as (w & W1 & W2 & W3 & W4 & W5); [st; exact Hd|] end.
    exists w. st. repeat split; try assumption. rewrite down_acquire_eval. st. exact Hd.
  - destruct (mutex_free s && memb t (woken s)); [|discriminate].
    inversion Hl; subst s'. clear Hl.
    match goal with |- context [acquire_eval _ _ ?s1] => destruct (acquire_eval_down cfg t s1) as (w & W1 & W2 & W3 & W4 & W5); [st; exact Hd|] end.
    exists w. st. repeat split; try assumption. rewrite down_acquire_eval. st. exact Hd.
  - destruct (mutex_free s && memb t (making s) && negb (memb id (used s))); [|discriminate].
    inversion Hl; subst s'. clear Hl.
    match goal with |- context [acquire_eval _ _ ?s1] => destruct (acquire_eval_down cfg t s1) as (w & W1 & W2 & W3 & W4 & W5); [st; exact Hd|] end.
    exists w. st. repeat split; try assumption. rewrite down_acquire_eval. st. exact Hd.
Qed.

Theorem pool_after_close_idle_closed : forall cfg s, reachable cfg s -> down s = true ->
  forall id, In id (idle s) -> In id (broken s).
Proof. intros cfg s Hr. apply (invC_reachable _ _ Hr). Qed.

Theorem pool_store_after_close : forall cfg s w s', down s = true -> lstep cfg s (Store w) = Some s' ->
  idle s' = idle s /\ (forall id, w = Real id -> In id (broken s')).
Proof.
  intros cfg s w s' Hd Hl. cbn [lstep] in Hl. destruct (wmemb w (held s) && mutex_free s); [|discriminate].
  rewrite Hd in Hl. inversion Hl; subst s'. st. split; [reflexivity|]. intros id Hw. subst w. left. reflexivity.
Qed.

(** ---- no lost wake-up, no stuck state ---- *)

Lemma count_counted_pos : forall l, (1 <= count_counted l)%nat -> exists w, In w l /\ counted w = true.
Proof.
  induction l as [|y r IH]; cbn [count_counted]; [lia|]. intro H.
  destruct (counted y) eqn:E.
  - exists y. split; [left; reflexivity|exact E].
  - destruct IH as (w & W1 & W2); [lia|]. exists w. split; [right; exact W1|exact W2].
Qed.

Lemma count_ctxdead_pos : forall l, (1 <= count_ctxdead l)%nat -> In CtxDead l.
Proof.
  induction l as [|y r IH]; cbn [count_ctxdead]; [lia|]. intro H.
  destruct y; try (right; apply IH; exact H). left. reflexivity.
Qed.

Definition waker_label (l : label) : bool :=
  match l with Signal (Some _) | AcqWake _ | Store CtxDead => true | _ => false end.

(** If somebody is parked while the pool has free capacity, a wake-up is in flight and its next
    step is enabled: a pending Signal, a woken thread re-acquiring the mutex, or the Store of a dead
    pipe handed to a cancelled caller (which signals). *)
Theorem pool_no_lost_wakeup : forall cfg s, repaired cfg -> reachable cfg s ->
  down s = false -> parked s <> [] -> 0 < free cfg s ->
  exists l, waker_label l = true /\ enabled cfg s l.
Proof.
  intros cfg s Hrep Hr Hd Hp Hf. destruct (inv_reachable _ _ Hrep Hr) as [[I1 I2 I3 I4] _ [LW _]].
  specialize (LW Hd Hp). unfold wakers in LW.
  assert (Hm : mutex s = None).
  { destruct (mutex s) as [u|] eqn:E; [|reflexivity]. destruct (I4 _ eq_refl) as (K1 & K2 & K3).
    unfold free in Hf. rewrite K1 in Hf. cbn [length] in Hf. lia. }
  destruct (sigs s) as [|k] eqn:Hs.
  - destruct (woken s) as [|u r] eqn:Hw.
    + cbn [length] in LW. assert (H : (1 <= count_ctxdead (held s))%nat) by lia.
      apply count_ctxdead_pos in H. exists (Store CtxDead). split; [reflexivity|].
      destruct (pool_store_accepts cfg s CtxDead H Hm) as (s' & S1 & _). exists s'. exact S1.
    + exists (AcqWake u). split; [reflexivity|]. unfold enabled. cbn [lstep]. unfold mutex_free. rewrite Hm, Hw.
      cbn [memb]. rewrite Nat.eqb_refl. cbn [orb andb]. eexists. reflexivity.
  - destruct (parked s) as [|p r] eqn:Hpk; [congruence|].
    exists (Signal (Some p)). split; [reflexivity|]. unfold enabled. cbn [lstep]. rewrite Hs, Hpk.
    cbn [memb]. rewrite Nat.eqb_refl. cbn [orb]. eexists. reflexivity.
Qed.

(** steps of threads and goroutines that are already inside the pool's code or hold one of its wires
    (no new caller, no cancellation, no connection failure is needed) *)
Definition internal_label (l : label) : bool :=
  match l with
  | AcqPark _ | AcqWake _ | MakeOk _ None _ | Store _ | Signal (Some _) | CloseBcast => true
  | _ => false
  end.

Theorem pool_not_stuck : forall cfg s, repaired cfg -> reachable cfg s -> parked s <> [] ->
  exists l, internal_label l = true /\ enabled cfg s l.
Proof.
  intros cfg s Hrep Hr Hp. pose proof (inv_reachable _ _ Hrep Hr) as [[I1 I2 I3 I4] _ [LW LD]].
  destruct Hrep as (R1 & R2 & R3).
  destruct (mutex s) as [u|] eqn:Hm.
  { exists (AcqPark u). split; [reflexivity|]. apply pool_mutex_released. exact Hm. }
  destruct (down s) eqn:Hd.
  { destruct (LD eq_refl) as [X|X]; [congruence|]. exists CloseBcast. split; [reflexivity|].
    unfold enabled. cbn [lstep]. destruct (cbc s); [lia|]. eexists. reflexivity. }
  destruct (I3 eq_refl) as [D1 D2].
  destruct (Z_lt_le_dec 0 (free cfg s)) as [Hf|Hf].
  { assert (Hrep : repaired cfg) by (repeat split; assumption).
    destruct (pool_no_lost_wakeup cfg s Hrep Hr Hd Hp Hf) as (l & L1 & L2). exists l. split; [|exact L2].
    destruct l; try discriminate; try reflexivity. destruct o; [reflexivity|discriminate]. }
  unfold free in Hf. unfold live in *.
  assert (Hlive : (1 <= count_counted (held s) + length (making s))%nat) by lia.
  destruct (making s) as [|u r] eqn:Hmk.
  - cbn [length] in Hlive. destruct (count_counted_pos (held s)) as (w & W1 & W2); [lia|].
    exists (Store w). split; [reflexivity|]. destruct (pool_store_accepts cfg s w W1 Hm) as (s' & S1 & _). exists s'. exact S1.
  - exists (MakeOk u None false). split; [reflexivity|]. unfold enabled. cbn [lstep]. rewrite Hmk. cbn [memb].
    rewrite Nat.eqb_refl. cbn [orb]. eexists. reflexivity.
Qed.

(** ---- the cancelled waiter ---- *)

Theorem pool_cancelled_waiter_has_waker : forall cfg s t, repaired cfg -> reachable cfg s ->
  In t (parked s) -> In t (ctxdone s) -> In t (bpend s).
Proof.
  intros cfg s t Hrep Hr Hp Hd. destruct (inv_reachable _ _ Hrep Hr) as [_ [_ _ _ _ IW] _].
  apply IW; [right; exact Hp|exact Hd].
Qed.

Lemma acquire_eval_ctxdone : forall cfg t s, memb t (ctxdone s) = true ->
  held (acquire_eval cfg t s) = CtxDead :: held s /\ In t (exiting (acquire_eval cfg t s)).
Proof.
  intros cfg t s Hc. unfold acquire_eval.
  destruct (eval cfg (down s) (memb t (ctxdone s)) (broken s) (nostop s) (idle s) (size s)) as [[[o l'] sz'] cl] eqn:E.
  apply eval_spec in E. destruct E as (E1 & E2 & E3 & E4). rewrite Hc in E4.
  destruct o.
  - destruct E4 as (_ & _ & _ & F). discriminate.
  - st. split; [reflexivity|left; reflexivity].
  - destruct E4 as (_ & F). discriminate.
  - destruct E4 as (_ & _ & F & _). discriminate.
  - destruct E4 as (_ & F & _). discriminate.
Qed.

Definition wake_label (t : nat) (l : label) : bool :=
  match l with AcqPark _ => true | Bcast u | AcqWake u => Nat.eqb u t | _ => false end.

(** From every reachable state in which [t] is parked with a done context there is a continuation of
    at most three steps - the mutex holder finishing its cond.Wait, the broadcast of t's cancellation
    goroutine, and t re-acquiring the mutex - after which t leaves Acquire with the context error. *)
Theorem pool_cancelled_waiter_wakes : forall cfg s t, repaired cfg -> reachable cfg s ->
  In t (parked s) -> In t (ctxdone s) ->
  exists sch s', (length sch <= 3)%nat /\ forallb (wake_label t) sch = true /\ run cfg sch s = Some s' /\
                 In t (exiting s') /\ hd_error (held s') = Some CtxDead.
Proof.
  intros cfg s t Hrep Hr Hp Hd. pose proof (pool_cancelled_waiter_has_waker _ _ _ Hrep Hr Hp Hd) as Hb.
  destruct Hrep as (R1 & R2 & R3).
  (* step A: release the mutex if somebody is between its check and its Wait *)
  assert (HA : exists pre s1, (length pre <= 1)%nat /\ forallb (wake_label t) pre = true /\ run cfg pre s = Some s1 /\
                 mutex s1 = None /\ In t (parked s1) /\ ctxdone s1 = ctxdone s /\ bpend s1 = bpend s).
  { destruct (mutex s) as [u|] eqn:Hm.
    - exists [AcqPark u]. eexists. split; [cbn; lia|]. split; [reflexivity|]. cbn [run lstep]. rewrite Hm, Nat.eqb_refl.
      split; [reflexivity|]. st. repeat split; try reflexivity. apply in_or_app. left. exact Hp.
    - exists []. exists s. cbn [run length forallb]. repeat split; auto. }
  destruct HA as (pre & s1 & A1 & A2 & A3 & A4 & A5 & A6 & A7).
  (* step B: the broadcast *)
  pose (s2 := upd_threads s1 [] (woken s1 ++ parked s1) (making s1) (exiting s1) (entered s1) (cancellable s1) (armed s1)
                (ctxdone s1) (remove1 t (bpend s1))).
  assert (HB : lstep cfg s1 (Bcast t) = Some s2).
  { apply memb_In in Hb. rewrite <- A7 in Hb. cbn [lstep]. rewrite Hb. unfold mutex_free. rewrite A4, R2. reflexivity. }
  (* step C: t re-acquires the mutex *)
  assert (Hw : memb t (woken s2) = true). { apply memb_In. subst s2. st. apply in_or_app. right. exact A5. }
  pose (s2' := upd_threads s2 (parked s2) (remove1 t (woken s2)) (making s2) (exiting s2) (entered s2)
                 (cancellable s2) (armed s2) (ctxdone s2) (bpend s2)).
  assert (HC : lstep cfg s2 (AcqWake t) = Some (acquire_eval cfg t s2')).
  { cbn [lstep]. rewrite Hw. unfold mutex_free. subst s2. st. rewrite A4. reflexivity. }
  assert (Hcd : memb t (ctxdone s2') = true). { subst s2' s2. st. rewrite A6. apply memb_In. exact Hd. }
  destruct (acquire_eval_ctxdone cfg t s2' Hcd) as [H1 H2].
  exists (pre ++ [Bcast t; AcqWake t]). exists (acquire_eval cfg t s2').
  split; [rewrite app_length; cbn [length]; lia|].
  split; [rewrite forallb_app, A2; cbn [forallb wake_label]; rewrite Nat.eqb_refl; reflexivity|].
  split; [rewrite run_app, A3; cbn [run]; rewrite HB, HC; reflexivity|].
  split; [exact H2|rewrite H1; reflexivity].
Qed.

(** ---- the original code (orig_cfg): refutations with witness schedules ---- *)

(** D6: a dead pipe handed out for a done context is stored back: size goes negative, and two
    later callers both open a connection although the capacity is 1. *)
Definition d6_schedule : list label :=
  [CtxCancel 1; AcqEnter 1 true; AcqReturn 1; Store CtxDead; Signal None;
   AcqEnter 2 false; MakeOk 2 (Some 1%nat) false; AcqReturn 2;
   AcqEnter 3 false; MakeOk 3 (Some 2%nat) false; AcqReturn 3].

Theorem pool_bound_refuted_orig :
  exists sch s, run (orig_cfg 1 0 false) sch init = Some s /\ cap (orig_cfg 1 0 false) < Z.of_nat (live s) /\
                size s <> Z.of_nat (live s) - Z.of_nat (dstores s).
Proof. exists d6_schedule. eexists. split; [vm_compute; reflexivity|]. split; vm_compute; congruence. Qed.

(** D8: "check; cancel; Broadcast; Wait" - the waiter is parked with a done context and nothing
    that could wake it is pending. *)
Definition d8_schedule : list label :=
  [AcqEnter 1 false; MakeOk 1 (Some 1%nat) false; AcqReturn 1; AcqEnter 2 true; CtxCancel 2; Bcast 2; AcqPark 2].

Theorem pool_wakeup_refuted_orig :
  exists sch s, run (orig_cfg 1 0 false) sch init = Some s /\
    In 2%nat (parked s) /\ In 2%nat (ctxdone s) /\ ~ In 2%nat (bpend s) /\
    (forall l, wake_label 2 l = true -> lstep (orig_cfg 1 0 false) s l = None) /\
    (forall o, lstep (orig_cfg 1 0 false) s (Signal o) = None) /\ lstep (orig_cfg 1 0 false) s CloseBcast = None.
Proof.
  exists d8_schedule. eexists. split; [vm_compute; reflexivity|].
  split; [cbn; tauto|]. split; [cbn; tauto|]. split; [cbn; tauto|].
  split; [|split; [intros [o|]; reflexivity|reflexivity]].
  intros l Hl. destruct l; try discriminate; cbn [wake_label] in Hl.
  - reflexivity.
  - apply Nat.eqb_eq in Hl. subst t. reflexivity.
  - apply Nat.eqb_eq in Hl. subst t. reflexivity.
Qed.

(** the same schedule is not a run of the repaired code: its Bcast needs the mutex *)
Theorem pool_d8_schedule_disabled_fixed : run (fixed_cfg 1 0 false) d8_schedule init = None.
Proof. vm_compute. reflexivity. Qed.
