(** cluster.go askingMultiCache: the ASK path answers its commands in order. *)
From Coq Require Import String Ascii.
From Coq Require Import List Arith NArith ZArith Bool Lia.
Require Import RV.Model.Base RV.Model.CacheBatch RV.Proofs.CacheBatchBase RV.Proofs.CacheBatchMulti.
Import ListNotations.
Open Scope nat_scope.

Section Ask.
  Variable srv : argv -> msg.
  Variable qerr : argv -> option msg.
  Variable optin : bool.

  Definition asking_cmd : argv := [bs "ASKING"].

  Definition ask_msgs (skip : bool) (a : argv) : list msg :=
    if skip then [optin_reply srv qerr optin; q_or qerr asking_cmd (srv asking_cmd); q_or qerr a (srv a)]
    else [optin_reply srv qerr optin; q_or qerr asking_cmd (srv asking_cmd); ok_msg;
          q_or qerr (pttl_cmd a) queued_msg; q_or qerr a queued_msg;
          if rejected qerr (pttl_cmd a) || rejected qerr a then execabort_msg else arr [srv (pttl_cmd a); srv a]].

  Lemma wire_go_ask_stride skip a rest :
    not_tx a ->
    wire_go srv qerr false [] false (asking_stride optin skip a ++ rest)
    = ask_msgs skip a ++ wire_go srv qerr false [] false rest.
  Proof.
    intros [Hm He]. destruct (optin_not_multi optin) as [Om Oe].
    unfold asking_stride, ask_msgs, optin_reply, q_or, rejected, pttl_cmd, asking_cmd.
    assert (Am : is_cmd "MULTI" [bs "ASKING"] = false) by reflexivity.
    assert (Ae : is_cmd "EXEC" [bs "ASKING"] = false) by reflexivity.
    destruct skip.
    - cbn [app wire_go]. rewrite Om, Oe.
      destruct (qerr (optin_cmd optin)); cbn [orb]; rewrite Am, Ae; destruct (qerr [bs "ASKING"]); cbn [orb];
        rewrite Hm, He; destruct (qerr a); reflexivity.
    - cbn [app wire_go]. rewrite Om, Oe.
      assert (Pm : forall k, is_cmd "MULTI" [bs "PTTL"; k] = false) by reflexivity.
      assert (Pe : forall k, is_cmd "EXEC" [bs "PTTL"; k] = false) by reflexivity.
      assert (Mm : is_cmd "MULTI" [bs "MULTI"] = true) by reflexivity.
      assert (Ee : is_cmd "EXEC" [bs "EXEC"] = true) by reflexivity.
      assert (Em : is_cmd "MULTI" [bs "EXEC"] = false) by reflexivity.
      destruct (qerr (optin_cmd optin)); cbn [orb]; rewrite Am, Ae; destruct (qerr [bs "ASKING"]); cbn [orb];
        rewrite Mm, Pm, Pe; destruct (qerr [bs "PTTL"; fst (cache_key a)]); cbn [orb]; rewrite Hm, He;
        destruct (qerr a); cbn [orb]; rewrite Em, Ee; reflexivity.
  Qed.

  Definition ask_res (skip : bool) (a : argv) : list rres := map new_result (ask_msgs skip a).

  Lemma redis_wire_ask skip l :
    Forall not_tx l ->
    redis_wire srv qerr (flat_map (asking_stride optin skip) l) = flat_map (ask_res skip) l.
  Proof.
    intro H. unfold redis_wire.
    assert (E : wire_go srv qerr false [] false (flat_map (asking_stride optin skip) l) = flat_map (ask_msgs skip) l).
    { induction H as [|a l Ha _ IH]; [reflexivity|]. cbn [flat_map]. rewrite wire_go_ask_stride by assumption. now rewrite IH. }
    rewrite E. apply map_flat_map.
  Qed.

  (** what one command alone is answered on the ASK path *)
  Definition ask_one (skip : bool) (a : argv) : rres :=
    if skip then new_result (q_or qerr a (srv a))
    else if aborted qerr a
         then new_error (match res_error (new_result (q_or qerr a queued_msg)) with
                         | Some pe => pe
                         | None => ERedis (trim_err (m_str execabort_msg))
                         end)
         else new_result (srv a).

  Lemma decode_ask_stride a :
    decode_ask (new_result (q_or qerr a queued_msg))
               (new_result (if aborted qerr a then execabort_msg else arr [srv (pttl_cmd a); srv a]))
    = Ok (ask_one false a).
  Proof. unfold ask_one. destruct (aborted qerr a); reflexivity. Qed.

  Lemma ask_walk6 rest : forall pre fuel,
    length rest < fuel ->
    ask_walk fuel false (pre ++ flat_map (ask_res false) rest) (length pre + 5) = Ok (map (ask_one false) rest).
  Proof.
    induction rest as [|a rest IH]; intros pre fuel Hf.
    - destruct fuel; [cbn in Hf; lia|]. cbn [flat_map ask_walk map]. rewrite app_nil_r.
      destruct (Nat.ltb_spec (length pre + 5) (length pre)); [lia|reflexivity].
    - destruct fuel as [|fuel]; [cbn in Hf; lia|]. cbn [length] in Hf. cbn [flat_map ask_walk map].
      assert (L6 : length (ask_res false a) = 6) by reflexivity.
      assert (Hlt : (length pre + 5 <? length (pre ++ ask_res false a ++ flat_map (ask_res false) rest)) = true)
        by (apply Nat.ltb_lt; rewrite !app_length, L6; lia).
      rewrite Hlt. replace (length pre + 5 - 1) with (length pre + 4) by lia. rewrite !rnth_app_r.
      assert (E4 : rnth 4 (ask_res false a ++ flat_map (ask_res false) rest) = new_result (q_or qerr a queued_msg)) by reflexivity.
      assert (E5 : rnth 5 (ask_res false a ++ flat_map (ask_res false) rest)
                   = new_result (if aborted qerr a then execabort_msg else arr [srv (pttl_cmd a); srv a])) by reflexivity.
      rewrite E4, E5, decode_ask_stride.
      assert (Ei : length pre + 5 + 6 = length (pre ++ ask_res false a) + 5) by (rewrite app_length, L6; lia).
      rewrite app_assoc, Ei, IH by lia. reflexivity.
  Qed.

  Lemma ask_walk3 rest : forall pre fuel,
    length rest < fuel ->
    ask_walk fuel true (pre ++ flat_map (ask_res true) rest) (length pre + 2) = Ok (map (ask_one true) rest).
  Proof.
    induction rest as [|a rest IH]; intros pre fuel Hf.
    - destruct fuel; [cbn in Hf; lia|]. cbn [flat_map ask_walk map]. rewrite app_nil_r.
      destruct (Nat.ltb_spec (length pre + 2) (length pre)); [lia|reflexivity].
    - destruct fuel as [|fuel]; [cbn in Hf; lia|]. cbn [length] in Hf. cbn [flat_map ask_walk map].
      assert (L3 : length (ask_res true a) = 3) by reflexivity.
      assert (Hlt : (length pre + 2 <? length (pre ++ ask_res true a ++ flat_map (ask_res true) rest)) = true)
        by (apply Nat.ltb_lt; rewrite !app_length, L3; lia).
      rewrite Hlt. rewrite !rnth_app_r.
      assert (E2 : rnth 2 (ask_res true a ++ flat_map (ask_res true) rest) = ask_one true a) by reflexivity.
      rewrite E2.
      assert (Ei : length pre + 2 + 3 = length (pre ++ ask_res true a) + 2) by (rewrite app_length, L3; lia).
      rewrite app_assoc, Ei, IH by lia. reflexivity.
  Qed.

  Lemma ask_fuel skip l : length l < S (length (flat_map (ask_res skip) l)).
  Proof.
    induction l as [|a l IH]; cbn [flat_map length]; [lia|]. rewrite app_length.
    assert (length (ask_res skip a) >= 3) by (destruct skip; cbn; lia). lia.
  Qed.

  Theorem asking_multi_cache_spec batch :
    Forall (fun it => not_tx (it_argv it)) batch ->
    asking_multi_cache srv qerr optin batch = Ok (map (fun it => ask_one (forallb it_static batch) (it_argv it)) batch).
  Proof.
    intro Htx. unfold asking_multi_cache. set (skip := forallb it_static batch).
    rewrite <- (flat_map_map (asking_stride optin skip) it_argv).
    assert (Htx' : Forall not_tx (map it_argv batch)) by (apply Forall_map; exact Htx).
    rewrite redis_wire_ask by assumption.
    rewrite <- (map_map it_argv (ask_one skip)).
    destruct skip.
    - exact (ask_walk3 (map it_argv batch) [] _ (ask_fuel true _)).
    - exact (ask_walk6 (map it_argv batch) [] _ (ask_fuel false _)).
  Qed.
End Ask.
