(** Specification of the Scanner iteration and proofs that the model of helper.go meets it. *)
From Coq Require Import List NArith Bool Lia Arith.
Require Import RV.Model.Base RV.Model.Scanner.
Import ListNotations.
Open Scope N_scope.

(** ---- specification vocabulary ---- *)

Definition elems (p : page) : list bytes := match p with POk vs _ => vs | PErr _ => [] end.
Definition cursor_of (p : page) : N := match p with POk _ c => c | PErr _ => 0 end.

(** a page that lets the scan continue: a successful page with a non-zero cursor *)
Definition passes (p : page) : Prop := exists vs c, p = POk vs c /\ c <> 0.

(** the pages a consumer that never stops gets to see: everything up to and including the first
    page that is an error or carries cursor 0 *)
Fixpoint live (script : list page) : list page :=
  match script with
  | [] => []
  | PErr e :: _ => [PErr e]
  | POk vs c :: r => if c =? 0 then [POk vs c] else POk vs c :: live r
  end.

(** Err() for a consumer that never stops *)
Fixpoint final_err (script : list page) : option N :=
  match script with
  | [] => Some exhausted
  | PErr e :: _ => Some e
  | POk _ c :: r => if c =? 0 then None else final_err r
  end.

Definition page_items {A} (view : list bytes -> list A) (p : page) : list A :=
  match p with POk vs _ => view vs | PErr _ => [] end.
Definition items {A} (view : list bytes -> list A) (ps : list page) : list A :=
  flat_map (page_items view) ps.

(** what a consumer with stop point [b] receives from the stream [l] *)
Definition take {A} (b : budget) (l : list A) : list A :=
  match b with None => l | Some k => firstn (S k) l end.

(** the consumer said "stop" while being fed [l] *)
Definition stopped {A} (b : budget) (l : list A) : bool :=
  match b with None => false | Some k => (k <? length l)%nat end.

(** ---- feed ---- *)

Lemma feed_none {A} (vs : list A) : feed vs None = (vs, None, true).
Proof. induction vs as [|v r IH]; cbn [feed]; [reflexivity|now rewrite IH]. Qed.

Lemma feed_some {A} (vs : list A) : forall k,
  feed vs (Some k) =
  if (k <? length vs)%nat then (firstn (S k) vs, Some O, false)
  else (vs, Some (k - length vs)%nat, true).
Proof.
  induction vs as [|v r IH]; intros k.
  - cbn. now rewrite Nat.sub_0_r.
  - destruct k as [|k].
    + cbn. now destruct r.
    + cbn [feed]. rewrite IH. cbn [length].
      change (S k <? S (length r))%nat with (k <? length r)%nat.
      destruct (k <? length r)%nat; reflexivity.
Qed.

Lemma feed_spec {A} (vs : list A) (b : budget) :
  feed vs b = (take b vs,
               match b with None => None | Some k => if (k <? length vs)%nat then Some O else Some (k - length vs)%nat end,
               negb (stopped b vs)).
Proof.
  destruct b as [k|].
  - rewrite feed_some. cbn [take stopped]. destruct (k <? length vs)%nat eqn:E; cbn [negb]; [reflexivity|].
    apply Nat.ltb_ge in E. rewrite firstn_all2 by lia. reflexivity.
  - rewrite feed_none. reflexivity.
Qed.

Lemma take_nil {A} (b : budget) : take b (@nil A) = [].
Proof. now destruct b. Qed.

Lemma take_all {A} (b : budget) (l : list A) : stopped b l = false -> take b l = l.
Proof. destruct b as [k|]; cbn [stopped take]; [|reflexivity]. intro H. apply Nat.ltb_ge in H. apply firstn_all2. lia. Qed.

Lemma take_app {A} (b : budget) (l1 l2 : list A) :
  take b (l1 ++ l2) =
  if stopped b l1 then take b l1
  else l1 ++ take (match b with None => None | Some k => Some (k - length l1)%nat end) l2.
Proof.
  destruct b as [k|]; cbn [take stopped]; [|reflexivity].
  destruct (k <? length l1)%nat eqn:E.
  - apply Nat.ltb_lt in E. rewrite firstn_app. replace (S k - length l1)%nat with O by lia.
    cbn [firstn]. now rewrite app_nil_r.
  - apply Nat.ltb_ge in E. rewrite firstn_app. rewrite (firstn_all2 l1) by lia.
    replace (S k - length l1)%nat with (S (k - length l1)) by lia. reflexivity.
Qed.

Lemma stopped_app {A} (b : budget) (l1 l2 : list A) :
  stopped b (l1 ++ l2) =
  stopped b l1 || stopped (match b with None => None | Some k => Some (k - length l1)%nat end) l2.
Proof.
  destruct b as [k|]; cbn [stopped]; [|reflexivity].
  rewrite app_length.
  destruct (Nat.ltb_spec k (length l1)); destruct (Nat.ltb_spec (k - length l1) (length l2));
    destruct (Nat.ltb_spec k (length l1 + length l2)); cbn [orb]; try reflexivity; lia.
Qed.

Definition sub_budget {A} (b : budget) (l : list A) : budget :=
  match b with None => None | Some k => Some (k - length l)%nat end.

(** one unfolding of the loop in terms of the vocabulary above *)
Lemma scan_loop_step {A} (view : list bytes -> list A) vs c rest cur b :
  scan_loop view (POk vs c :: rest) cur b =
  if negb (stopped b (view vs)) && negb (c =? 0) then
    let o := scan_loop view rest c (sub_budget b (view vs)) in
    mkOut (view vs ++ yielded o) (cur :: cursors o) (err o)
  else mkOut (take b (view vs)) [cur] None.
Proof.
  cbn [scan_loop]. rewrite feed_spec. cbv beta iota zeta.
  destruct (stopped b (view vs)) eqn:HS; cbn [negb andb].
  - reflexivity.
  - destruct (c =? 0); cbn [negb]; [reflexivity|].
    destruct b as [k|]; cbn [stopped] in HS; cbn [sub_budget take].
    + rewrite HS. apply Nat.ltb_ge in HS. rewrite firstn_all2 by lia. reflexivity.
    + reflexivity.
Qed.

Lemma items_live_cons {A} (view : list bytes -> list A) vs c r :
  items view (live (POk vs c :: r)) = view vs ++ (if c =? 0 then [] else items view (live r)).
Proof. cbn [live]. destruct (c =? 0); cbn [items flat_map page_items]; [now rewrite app_nil_r|reflexivity]. Qed.

(** ---- T1: what is yielded ---- *)
Theorem scan_yielded {A} (view : list bytes -> list A) : forall script cur b,
  yielded (scan_loop view script cur b) = take b (items view (live script)).
Proof.
  induction script as [|p rest IH]; intros cur b.
  - cbn. now destruct b.
  - destruct p as [e|vs c].
    + cbn. now destruct b.
    + rewrite scan_loop_step, items_live_cons, take_app.
      destruct (stopped b (view vs)) eqn:HS; cbn [negb andb]; [reflexivity|].
      destruct (c =? 0); cbn [negb yielded].
      * rewrite take_nil, app_nil_r. now apply take_all.
      * rewrite IH. reflexivity.
Qed.

(** ---- T2: the error exposed by Err() ---- *)
Theorem scan_err {A} (view : list bytes -> list A) : forall script cur b,
  err (scan_loop view script cur b) =
  if stopped b (items view (live script)) then None else final_err script.
Proof.
  induction script as [|p rest IH]; intros cur b.
  - cbn. now destruct b.
  - destruct p as [e|vs c].
    + cbn. now destruct b.
    + rewrite scan_loop_step, items_live_cons, stopped_app.
      destruct (stopped b (view vs)) eqn:HS; cbn [negb andb orb]; [reflexivity|].
      cbn [final_err].
      destruct (c =? 0); cbn [negb err].
      * destruct b as [k|]; cbn; reflexivity.
      * rewrite IH. reflexivity.
Qed.

(** ---- T3: the cursors requested ---- *)

(** number of pages that were passed completely (the loop went on after them) *)
Theorem scan_cursors {A} (view : list bytes -> list A) : forall script cur b,
  exists n : nat,
    cursors (scan_loop view script cur b) = firstn (S n) (cur :: map cursor_of script) /\
    (n <= length script)%nat /\
    Forall passes (firstn n script) /\
    stopped b (items view (firstn n script)) = false /\
    (* the call after those n pages is the last one: it fails, ends the scan, or the consumer stops in it *)
    match nth_error script n with
    | None => True
    | Some (PErr _) => True
    | Some (POk vs c) => c = 0 \/ stopped b (items view (firstn (S n) script)) = true
    end.
Proof.
  induction script as [|p rest IH]; intros cur b.
  - exists O. cbn. repeat split; auto. now destruct b.
  - destruct p as [e|vs c].
    + exists O. cbn. repeat split; auto; try lia. now destruct b.
    + rewrite scan_loop_step.
      destruct (stopped b (view vs)) eqn:HS; cbn [negb andb].
      * exists O. cbn [firstn map cursors nth_error items flat_map page_items length]. rewrite app_nil_r.
        repeat split; auto; try lia. now destruct b.
      * destruct (c =? 0) eqn:C; cbn [negb].
        -- exists O. cbn [firstn map cursors nth_error items flat_map length].
           repeat split; auto; try lia. now destruct b. left. now apply N.eqb_eq.
        -- destruct (IH c (sub_budget b (view vs))) as (n & Hc & Hn & Hp & Hs & Hl).
           exists (S n). cbn [cursors]. rewrite Hc.
           repeat split.
           ++ cbn [length]. lia.
           ++ cbn [firstn]. constructor; [|exact Hp]. exists vs, c. split; [reflexivity|]. now apply N.eqb_neq.
           ++ cbn [firstn items flat_map page_items]. fold (items view (firstn n rest)).
              rewrite stopped_app, HS. cbn [orb]. exact Hs.
           ++ cbn [nth_error]. destruct (nth_error rest n) as [[e|vs' c']|]; auto.
              destruct Hl as [Hl|Hl]; [now left|right].
              change (firstn (S (S n)) (POk vs c :: rest)) with (POk vs c :: firstn (S n) rest).
              cbn [items flat_map page_items]. fold (items view (firstn (S n) rest)).
              rewrite stopped_app, HS. cbn [orb]. exact Hl.
Qed.

(** Iter2 sees each page as its consecutive pairs *)
Lemma list_ind2 {A} (P : list A -> Prop) :
  P [] -> (forall a, P [a]) -> (forall a b l, P l -> P (a :: b :: l)) -> forall l, P l.
Proof. intros H0 H1 H2. fix F 1. intros [|a [|b l]]; [exact H0|exact (H1 a)|exact (H2 a b l (F l))]. Qed.

Lemma pairs_of_length {A} (l : list A) : length (pairs_of l) = Nat.div2 (length l).
Proof.
  induction l as [|a|a b r IH] using list_ind2; cbn [pairs_of length Nat.div2]; try reflexivity.
  now rewrite IH.
Qed.

Lemma pairs_of_nth {A} (d : A) (l : list A) : forall i, (i < Nat.div2 (length l))%nat ->
  nth_error (pairs_of l) i = Some (nth (2 * i) l d, nth (2 * i + 1) l d).
Proof.
  induction l as [|a|a b r IH] using list_ind2; intros i Hi; cbn [length Nat.div2] in Hi; try lia.
  destruct i as [|i]; [reflexivity|].
  cbn [pairs_of nth_error]. rewrite IH by lia.
  replace (2 * S i)%nat with (S (S (2 * i))) by lia.
  replace (S (S (2 * i)) + 1)%nat with (S (S (2 * i + 1))) by lia. reflexivity.
Qed.

(** ---- statements in the vocabulary of the property ---- *)

Lemma items_id ps : items (fun vs => vs) ps = concat (map elems ps).
Proof.
  unfold items. induction ps as [|p r IH]; cbn [flat_map map concat]; [reflexivity|].
  rewrite IH. now destruct p.
Qed.

Lemma items_pairs ps : items pairs_of ps = concat (map (fun p => pairs_of (elems p)) ps).
Proof.
  unfold items. induction ps as [|p r IH]; cbn [flat_map map concat]; [reflexivity|].
  rewrite IH. now destruct p.
Qed.

Theorem iter_yielded script b :
  yielded (iter script b) = take b (concat (map elems (live script))).
Proof. unfold iter. now rewrite scan_yielded, items_id. Qed.

Theorem iter2_yielded script b :
  yielded (iter2 script b) = take b (concat (map (fun p => pairs_of (elems p)) (live script))).
Proof. unfold iter2. now rewrite scan_yielded, items_pairs. Qed.

Theorem iter_err script b :
  err (iter script b) = if stopped b (concat (map elems (live script))) then None else final_err script.
Proof. unfold iter. now rewrite scan_err, items_id. Qed.

Theorem iter2_err script b :
  err (iter2 script b) =
  if stopped b (concat (map (fun p => pairs_of (elems p)) (live script))) then None else final_err script.
Proof. unfold iter2. now rewrite scan_err, items_pairs. Qed.

Lemma cursors_complete {A} (view : list bytes -> list A) pre vs post : Forall passes pre -> forall cur,
  cursors (scan_loop view (pre ++ POk vs 0 :: post) cur None) = cur :: map cursor_of pre.
Proof.
  intros Hp. induction Hp as [|p r (vs' & c & -> & Hc) _ IH]; intro cur.
  - cbn [app]. rewrite scan_loop_step. cbn. reflexivity.
  - cbn [app]. rewrite scan_loop_step. cbn [stopped negb andb]. apply N.eqb_neq in Hc. rewrite Hc. cbn [negb cursors].
    cbn [sub_budget]. rewrite IH. reflexivity.
Qed.

(** a scan that is allowed to finish: every page up to the one with cursor 0, nothing after it *)
Theorem iter_complete pre vs post :
  Forall passes pre ->
  let o := iter (pre ++ POk vs 0 :: post) None in
  yielded o = concat (map elems pre) ++ vs /\ err o = None /\
  cursors o = 0 :: map cursor_of pre.
Proof.
  intros Hp o. subst o.
  assert (L : live (pre ++ POk vs 0 :: post) = pre ++ [POk vs 0]).
  { induction Hp as [|p r (vs' & c & -> & Hc) _ IH]; [reflexivity|].
    cbn [app live]. apply N.eqb_neq in Hc. rewrite Hc, IH. reflexivity. }
  assert (F : final_err (pre ++ POk vs 0 :: post) = None).
  { clear L. induction Hp as [|p r (vs' & c & -> & Hc) _ IH]; [reflexivity|].
    cbn [app final_err]. apply N.eqb_neq in Hc. rewrite Hc. exact IH. }
  rewrite iter_yielded, iter_err, L, F. cbn [take stopped].
  rewrite map_app, concat_app. cbn [map concat elems]. rewrite app_nil_r.
  repeat split.
  apply cursors_complete. exact Hp.
Qed.
