(** Where the entries of the next state come from (provenance), which entries survive a step,
    and what a step guarantees to have removed.  Everything else (C06, C07, C09, C10) is a history
    induction on top of these three families of lemmas. *)
From Coq Require Import List NArith ZArith Bool Lia Permutation.
Require Import RV.Model.Base RV.Model.Lru RV.Proofs.LruBase.
Import ListNotations.
Open Scope Z_scope.

(** ** provenance *)

(** a fresh in-flight entry created for (k, c) by a Flight / Flights at [now] with [ttl] *)
Definition new_pending (s : state) (k c : bytes) (ttl now : Z) (e' : entry) : Prop :=
  kc e' = (k, c) /\ eval e' = pending_msg ttl now /\ esize e' = 0 /\ (next_id s <= eid e')%N.

(** the completed form of a pending entry [e] after [Update (ekey e) (ecmd e) v] *)
Definition completed (g : cfg) (e : entry) (v : msg) : entry :=
  let v' := set_xat v (min_xat (m_xat (eval e)) (m_xat v)) in
  mkE (eid e) (ekey e) (ecmd e) v' (entry_size g (ekey e) (ecmd e) v').

Lemma pending_msg_pending ttl now : is_pending_msg (pending_msg ttl now) = true.
Proof. reflexivity. Qed.

Lemma new_pending_pending s k c ttl now e : new_pending s k c ttl now e -> pending e = true.
Proof. intros [_ [H _]]. unfold pending. rewrite H. reflexivity. Qed.

Lemma move_to_back_in id l x : NoDup (map eid l) -> In x (move_to_back id l) <-> In x l.
Proof.
  intro H. split; intro Hx; eapply Permutation_in; try exact Hx;
    [apply move_to_back_perm|apply Permutation_sym; apply move_to_back_perm]; exact H.
Qed.

Lemma slow_one_next s k c ttl now : (next_id s <= next_id (fst (slow_one s k c ttl now)))%N.
Proof.
  unfold slow_one. destruct (lookup k c (order s)) as [e|].
  - destruct (live (eval e) now); cbn; lia.
  - cbn. lia.
Qed.

Lemma slow_one_prov s k c ttl now e' :
  inv s -> In e' (order (fst (slow_one s k c ttl now))) ->
  In e' (order s) \/ new_pending s k c ttl now e'.
Proof.
  intros Hi. unfold slow_one. destruct (lookup k c (order s)) as [e|] eqn:El.
  - destruct (live (eval e) now).
    + cbn [bump fst set_order set_hit order]. intro H. left.
      apply (move_to_back_in (eid e) (order s) e' (inv_idnd s Hi)). exact H.
    + cbn [push_pending fst order size closed next_id]. intro H. apply in_app_or in H.
      destruct H as [H|[<-|[]]].
      * left. apply remove_kc_in in H. apply H.
      * right. unfold new_pending, kc. cbn. repeat split; lia.
  - cbn [push_pending fst order]. intro H. apply in_app_or in H.
    destruct H as [H|[<-|[]]]; [left; exact H|right]. unfold new_pending, kc. cbn. repeat split; lia.
Qed.

(** what a slow-path miss removes: only the expired completed entry of that very command *)
Lemma slow_one_surv s k c ttl now e :
  inv s -> In e (order s) ->
  In e (order (fst (slow_one s k c ttl now))) \/ (kc e = (k, c) /\ live (eval e) now = false).
Proof.
  intros Hi He. unfold slow_one. destruct (lookup k c (order s)) as [e0|] eqn:El.
  - destruct (live (eval e0) now) eqn:Elive.
    + left. cbn [bump fst set_order set_hit order].
      apply (move_to_back_in (eid e0) (order s) e (inv_idnd s Hi)). exact He.
    + cbn [push_pending fst order].
      destruct (ematch k c e) eqn:Em.
      * right. apply ematch_iff in Em. split; [exact Em|].
        rewrite (lookup_unique k c (order s) e (inv_kc s Hi) He Em) in El. injection El as <-. exact Elive.
      * left. apply in_or_app. left. apply remove_kc_in. split; [exact He|apply ematch_false; exact Em].
  - left. cbn [push_pending fst order]. apply in_or_app. left. exact He.
Qed.

(** the result of the slow path tells what it found *)
Lemma slow_one_res s k c ttl now :
  inv s ->
  match snd (slow_one s k c ttl now) with
  | SHit v id => exists e, In e (order s) /\ kc e = (k, c) /\ eval e = v /\ eid e = id /\ pending e = false /\ 0 < rel_pttl v now
  | SWait v id => exists e, In e (order s) /\ kc e = (k, c) /\ eval e = v /\ eid e = id /\ pending e = true
  | SMiss v => v = pending_msg ttl now /\
               (forall e, In e (order s) -> kc e = (k, c) -> live (eval e) now = false) /\
               exists e', In e' (order (fst (slow_one s k c ttl now))) /\ new_pending s k c ttl now e' /\ eid e' = next_id s
  | SClosed => False
  end.
Proof.
  intro Hi. unfold slow_one. destruct (lookup k c (order s)) as [e|] eqn:El.
  - destruct (live (eval e) now) eqn:Elive.
    + cbn [bump snd]. pose proof (lookup_some _ _ _ _ El) as [Hin Hkc].
      destruct (pending e) eqn:Ep; exists e; repeat split; try assumption.
      unfold live in Elive. unfold pending in Ep. rewrite Ep in Elive. cbn in Elive. apply Z.ltb_lt. exact Elive.
    + cbn [push_pending snd fst order]. split; [reflexivity|]. split.
      * intros x Hx Hk. rewrite (lookup_unique k c (order s) x (inv_kc s Hi) Hx Hk) in El. injection El as <-. exact Elive.
      * eexists. split; [apply in_or_app; right; left; reflexivity|]. unfold new_pending, kc. cbn. repeat split; lia.
  - cbn [push_pending snd fst order]. split; [reflexivity|]. split.
    + intros x Hx Hk. exfalso. exact (lookup_none k c _ El x Hx Hk).
    + eexists. split; [apply in_or_app; right; left; reflexivity|]. unfold new_pending, kc. cbn. repeat split; lia.
Qed.

Lemma new_pending_mono s s1 k c ttl now e : (next_id s <= next_id s1)%N -> new_pending s1 k c ttl now e -> new_pending s k c ttl now e.
Proof. intros H [A [B [C D]]]. repeat split; try assumption. lia. Qed.

Lemma slow_one_closed s k c ttl now : closed (fst (slow_one s k c ttl now)) = closed s.
Proof.
  unfold slow_one. destruct (lookup k c (order s)) as [e|]; [destruct (live (eval e) now)|]; reflexivity.
Qed.

(** ** Flights second pass *)

Lemma flights_slow_open_next now items : forall s, (next_id s <= next_id (fst (flights_slow_open s now items)))%N.
Proof.
  induction items as [|[k c t] r IH]; intro s; [cbn; lia|].
  cbn [flights_slow_open]. pose proof (slow_one_next s k c t now) as H1.
  destruct (slow_one s k c t now) as [s1 x]. cbn [fst] in H1.
  specialize (IH s1). destruct (flights_slow_open s1 now r) as [s2 rs]. cbn [fst] in *. lia.
Qed.

Lemma flights_slow_open_prov now items : forall s e',
  inv s -> closed s = false -> In e' (order (fst (flights_slow_open s now items))) ->
  In e' (order s) \/ exists it, In it items /\ new_pending s (fi_key it) (fi_cmd it) (fi_ttl it) now e'.
Proof.
  induction items as [|[k c t] r IH]; intros s e' Hi Hc H; [left; exact H|].
  cbn [flights_slow_open] in H.
  pose proof (inv_slow_one s k c t now Hi Hc) as [Hi1 Hc1].
  pose proof (slow_one_next s k c t now) as Hn.
  pose proof (slow_one_prov s k c t now) as Hp.
  destruct (slow_one s k c t now) as [s1 x]. cbn [fst] in *.
  specialize (IH s1 e' Hi1 Hc1). destruct (flights_slow_open s1 now r) as [s2 rs]. cbn [fst] in *.
  destruct (IH H) as [H1|[it [Hit Hnp]]].
  - destruct (Hp e' Hi H1) as [H2|H2]; [left; exact H2|right]. exists (FI k c t). split; [left; reflexivity|exact H2].
  - right. exists it. split; [right; exact Hit|]. eapply new_pending_mono; eassumption.
Qed.

Lemma flights_slow_open_surv now items : forall s e,
  inv s -> closed s = false -> In e (order s) ->
  In e (order (fst (flights_slow_open s now items))) \/
  exists it, In it items /\ kc e = (fi_key it, fi_cmd it) /\ live (eval e) now = false.
Proof.
  induction items as [|[k c t] r IH]; intros s e Hi Hc H; [left; exact H|].
  cbn [flights_slow_open].
  pose proof (inv_slow_one s k c t now Hi Hc) as [Hi1 Hc1].
  pose proof (slow_one_surv s k c t now e Hi H) as Hs.
  destruct (slow_one s k c t now) as [s1 x]. cbn [fst] in *.
  specialize (IH s1 e Hi1 Hc1). destruct (flights_slow_open s1 now r) as [s2 rs]. cbn [fst] in *.
  destruct Hs as [Hs|Hs].
  - destruct (IH Hs) as [H1|[it [Hit H1]]]; [left; exact H1|right; exists it; split; [right; exact Hit|exact H1]].
  - right. exists (FI k c t). split; [left; reflexivity|exact Hs].
Qed.

Lemma flights_slow_open_length now items : forall s, length (snd (flights_slow_open s now items)) = length items.
Proof.
  induction items as [|[k c t] r IH]; intro s; [reflexivity|].
  cbn [flights_slow_open]. destruct (slow_one s k c t now) as [s1 x].
  specialize (IH s1). destruct (flights_slow_open s1 now r) as [s2 rs]. cbn [snd length] in *. lia.
Qed.

(** ** composite Flight *)

Lemma flight_fast_hits_only s k c now : 
  order (fst (flight_fast s k c now)) = order s /\ closed (fst (flight_fast s k c now)) = closed s.
Proof. destruct (flight_fast_core s k c now) as [A [_ [C _]]]. split; assumption. Qed.

Lemma flight_fast_out s k c now :
  snd (flight_fast s k c now) =
  match lookup k c (order s) with
  | Some e => if live (eval e) now
              then OFast (Some (Rel (eid e) (eval e))) (negb (is_last e (order s)) && threshold (N.succ (get_hits k (hits s))))
              else OFast None false
  | None => OFast None false
  end.
Proof. unfold flight_fast. destruct (lookup k c (order s)) as [e|]; [destruct (live (eval e) now)|]; reflexivity. Qed.

(** what Flight (or its slow path alone) returns, as a function of the entry found *)
Definition flight_result (s : state) (k c : bytes) (ttl now : Z) : out :=
  match lookup k c (order s) with
  | Some e => if live (eval e) now then OFlight (eval e) (Some (eid e)) else OFlight (pending_msg ttl now) None
  | None => if closed s then OFlight empty_msg None else OFlight (pending_msg ttl now) None
  end.

Lemma flight_slow_out s k c ttl now : inv s -> snd (flight_slow s k c ttl now) = flight_result s k c ttl now.
Proof.
  intro Hi. unfold flight_slow, flight_result. destruct (closed s) eqn:Hc.
  - rewrite (inv_closed s Hi Hc). reflexivity.
  - unfold slow_one. destruct (lookup k c (order s)) as [e|].
    + destruct (live (eval e) now); [|reflexivity]. cbn [bump snd]. destruct (pending e); reflexivity.
    + reflexivity.
Qed.

Lemma flight_out s k c ttl now : inv s -> snd (flight s k c ttl now) = flight_result s k c ttl now.
Proof.
  intro Hi. unfold flight.
  pose proof (flight_fast_out s k c now) as Ho. pose proof (flight_fast_hits_only s k c now) as [Hord Hcl].
  pose proof (inv_flight_fast s k c now Hi) as Hi1.
  destruct (flight_fast s k c now) as [s1 x]. cbn [fst snd] in *. subst x.
  unfold flight_result. destruct (lookup k c (order s)) as [e|] eqn:El.
  - destruct (live (eval e) now) eqn:Elive.
    + destruct (negb (is_last e (order s)) && threshold _); reflexivity.
    + rewrite (flight_slow_out s1 k c ttl now Hi1). unfold flight_result. rewrite Hord, El, Elive. reflexivity.
  - rewrite (flight_slow_out s1 k c ttl now Hi1). unfold flight_result. rewrite Hord, Hcl, El. reflexivity.
Qed.

(** ** Update *)

Lemma update_none g s k c v : lookup k c (order s) = None -> update g s k c v = (s, OUpdate 0 None).
Proof. intro H. unfold update. rewrite H. reflexivity. Qed.

Definition commit (g : cfg) (s : state) (k c : bytes) (v : msg) (e : entry) : state :=
  let v' := set_xat v (min_xat (m_xat (eval e)) (m_xat v)) in
  let sz := entry_size g k c v' in
  mkS (size s + sz) (upd_kc k c (fun x => mkE (eid x) (ekey x) (ecmd x) v' sz) (order s)) (hits s) (closed s) (next_id s).

Definition after_evict (g : cfg) (s1 : state) : state :=
  let '(z, keep, _) := evict (cmax g) (size s1) (order s1) in
  mkS z keep (gc_hits keep (hits s1)) (closed s1) (next_id s1).

Lemma update_some g s k c v e :
  lookup k c (order s) = Some e ->
  update g s k c v =
  if pending e
  then (after_evict g (commit g s k c v e),
        OUpdate (min_xat (m_xat (eval e)) (m_xat v)) (Some (Rel (eid e) (set_xat v (min_xat (m_xat (eval e)) (m_xat v))))))
  else (after_evict g s, OUpdate 0 None).
Proof.
  intro H. unfold update, after_evict, commit. rewrite H. destruct (pending e).
  - cbn [size order hits closed next_id].
    destruct (evict (cmax g) _ _) as [[z keep] ev]. reflexivity.
  - destruct (evict (cmax g) (size s) (order s)) as [[z keep] ev]. reflexivity.
Qed.

Lemma after_evict_in g s1 e : In e (order (after_evict g s1)) -> In e (order s1).
Proof.
  unfold after_evict. destruct (evict (cmax g) (size s1) (order s1)) as [[z keep] ev] eqn:E. cbn [order].
  apply (evict_keep_sub _ _ _ _ _ _ E).
Qed.

Lemma after_evict_surv g s1 e : In e (order s1) -> In e (order (after_evict g s1)) \/ pending e = false.
Proof.
  unfold after_evict. destruct (evict (cmax g) (size s1) (order s1)) as [[z keep] ev] eqn:E. cbn [order].
  destruct (evict_spec _ _ _ _ _ _ E) as [_ [B [C _]]]. intro H.
  apply (Permutation_in _ (Permutation_sym B)) in H. apply in_app_or in H.
  destruct H as [H|H]; [right; apply C; exact H|left; exact H].
Qed.

Lemma commit_in g s k c v e x :
  inv s -> lookup k c (order s) = Some e ->
  In x (order (commit g s k c v e)) <-> (In x (order s) /\ kc x <> (k, c)) \/ x = completed g e v.
Proof.
  intros Hi El. pose proof (lookup_some _ _ _ _ El) as [Hin Hkc].
  assert (Hc : mkE (eid e) (ekey e) (ecmd e) (set_xat v (min_xat (m_xat (eval e)) (m_xat v)))
                   (entry_size g k c (set_xat v (min_xat (m_xat (eval e)) (m_xat v)))) = completed g e v).
  { unfold completed. unfold kc in Hkc. injection Hkc as -> ->. reflexivity. }
  unfold commit. cbn [order]. split.
  - intro H. apply upd_kc_in in H. destruct H as [y [Hy [[Hk ->]|[Hk ->]]]].
    + right. rewrite (lookup_unique k c _ y (inv_kc s Hi) Hy Hk) in El. injection El as ->. exact Hc.
    + left. split; assumption.
  - intros [[H1 H2]|Heq]; [|subst x].
    + unfold upd_kc. apply in_map_iff. exists x. apply ematch_false in H2. rewrite H2. split; [reflexivity|exact H1].
    + unfold upd_kc. apply in_map_iff. exists e. apply ematch_iff in Hkc. rewrite Hkc. split; [exact Hc|exact Hin].
Qed.

Lemma update_prov g s k c v e' :
  inv s -> In e' (order (fst (update g s k c v))) ->
  In e' (order s) \/ exists e, In e (order s) /\ kc e = (k, c) /\ pending e = true /\ e' = completed g e v.
Proof.
  intros Hi H. destruct (lookup k c (order s)) as [e|] eqn:El.
  - rewrite (update_some g s k c v e El) in H. destruct (pending e) eqn:Ep; cbn [fst] in H.
    + apply after_evict_in in H. apply (commit_in g s k c v e e' Hi El) in H.
      destruct H as [[H _]| ->]; [left; exact H|right].
      exists e. pose proof (lookup_some _ _ _ _ El) as [A B]. repeat split; assumption.
    + left. apply after_evict_in in H. exact H.
  - rewrite (update_none g s k c v El) in H. left. exact H.
Qed.

Lemma update_surv g s k c v e :
  inv s -> In e (order s) ->
  In e (order (fst (update g s k c v))) \/ pending e = false \/ kc e = (k, c).
Proof.
  intros Hi He. destruct (lookup k c (order s)) as [e0|] eqn:El.
  - rewrite (update_some g s k c v e0 El). destruct (pending e0) eqn:Ep; cbn [fst].
    + destruct (ematch k c e) eqn:Em; [right; right; apply ematch_iff; exact Em|].
      apply ematch_false in Em.
      assert (H : In e (order (commit g s k c v e0))) by (apply (commit_in g s k c v e0 e Hi El); left; split; assumption).
      destruct (after_evict_surv g _ e H) as [H1|H1]; [left; exact H1|right; left; exact H1].
    + destruct (after_evict_surv g s e He) as [H1|H1]; [left; exact H1|right; left; exact H1].
  - rewrite (update_none g s k c v El). left. exact He.
Qed.

(** ** Cancel *)

Lemma cancel_spec s k c :
  cancel s k c =
  match lookup k c (order s) with
  | Some e => if pending e
              then (mkS (size s) (remove_kc k c (order s)) (gc_hits (remove_kc k c (order s)) (hits s)) (closed s) (next_id s),
                    OCancel (Some (Rel (eid e) (eval e))))
              else (s, OCancel None)
  | None => (s, OCancel None)
  end.
Proof. reflexivity. Qed.

Lemma cancel_in s k c x : In x (order (fst (cancel s k c))) -> In x (order s).
Proof.
  rewrite cancel_spec. destruct (lookup k c (order s)) as [e|]; [|tauto].
  destruct (pending e); cbn [fst order]; [|tauto]. intro H. apply remove_kc_in in H. apply H.
Qed.

Lemma cancel_surv s k c e :
  inv s -> In e (order s) -> In e (order (fst (cancel s k c))) \/ (kc e = (k, c) /\ pending e = true).
Proof.
  intros Hi He. rewrite cancel_spec. destruct (lookup k c (order s)) as [e0|] eqn:El; [|left; exact He].
  destruct (pending e0) eqn:Ep; cbn [fst order]; [|left; exact He].
  destruct (ematch k c e) eqn:Em.
  - right. apply ematch_iff in Em. split; [exact Em|].
    rewrite (lookup_unique k c _ e (inv_kc s Hi) He Em) in El. injection El as <-. exact Ep.
  - left. apply remove_kc_in. split; [exact He|apply ematch_false; exact Em].
Qed.

(** ** Delete *)

Lemma purge_if_in p s x :
  In x (order (purge_if p s)) <-> In x (order s) /\ (p x = false \/ pending x = true).
Proof.
  unfold purge_if. cbn [order]. rewrite filter_In. split; intros [A B]; (split; [exact A|]).
  - destruct (p x); [|left; reflexivity]. destruct (pending x); [right; reflexivity|discriminate].
  - destruct B as [-> | ->]; [reflexivity|]. rewrite andb_false_r. reflexivity.
Qed.

Definition key_in (ks : list bytes) (e : entry) : bool := existsb (fun k => bytes_eqb k (ekey e)) ks.

Lemma key_in_iff ks e : key_in ks e = true <-> In (ekey e) ks.
Proof.
  unfold key_in. rewrite existsb_exists. split.
  - intros [k [Hk Hb]]. apply bytes_eqb_eq in Hb. subst. exact Hk.
  - intro H. exists (ekey e). split; [exact H|apply bytes_eqb_refl].
Qed.

Lemma delete_in s keys x :
  In x (order (delete s keys)) <->
  In x (order s) /\ (pending x = true \/ match keys with None => False | Some ks => ~ In (ekey x) ks end).
Proof.
  unfold delete. destruct keys as [ks|]; rewrite purge_if_in.
  - fold (key_in ks x). split; intros [A B]; (split; [exact A|]).
    + destruct B as [B|B]; [right|left; exact B]. intro H. apply key_in_iff in H. congruence.
    + destruct B as [B|B]; [right; exact B|left].
      destruct (key_in ks x) eqn:E; [apply key_in_iff in E; contradiction|reflexivity].
  - split; intros [A B]; (split; [exact A|]); destruct B as [B|B]; try discriminate; try contradiction; tauto.
Qed.

(** ** the three families for [step] *)

Definition creates (s : state) (o : op) (e' : entry) : Prop :=
  match o with
  | Flight k c ttl now | FlightSlow k c ttl now => new_pending s k c ttl now e'
  | Flights now items | FlightsSlow now items =>
      exists it, In it items /\ new_pending s (fi_key it) (fi_cmd it) (fi_ttl it) now e'
  | _ => False
  end.

Lemma flight_slow_prov s k c ttl now e' :
  inv s -> In e' (order (fst (flight_slow s k c ttl now))) -> In e' (order s) \/ new_pending s k c ttl now e'.
Proof.
  intros Hi. unfold flight_slow. destruct (closed s); [left; assumption|].
  pose proof (slow_one_prov s k c ttl now e' Hi) as H. destruct (slow_one s k c ttl now) as [s1 r]. exact H.
Qed.

Lemma missed_items_sub items : forall rs it, In it (missed_items items rs) -> In it items.
Proof.
  induction items as [|x r IH]; intros [|y rr] it H; cbn [missed_items] in H; try contradiction.
  destruct y; try (right; eapply IH; exact H).
  destruct H as [-> |H]; [left; reflexivity|right; eapply IH; exact H].
Qed.

Lemma flights_slow_prov s now items e' :
  inv s -> In e' (order (fst (flights_slow s now items))) ->
  In e' (order s) \/ exists it, In it items /\ new_pending s (fi_key it) (fi_cmd it) (fi_ttl it) now e'.
Proof.
  intros Hi. unfold flights_slow. destruct (closed s) eqn:Hc; [left; assumption|].
  apply flights_slow_open_prov; assumption.
Qed.

(** the state of a composite Flights just before its second pass *)
Definition flights_mid (s : state) (now : Z) (items : list fitem) : state :=
  let '(s1, rs, mv) := flights_fast s now items in
  match mv with [] => s1 | _ => touch s1 mv end.

Lemma flights_mid_spec s now items :
  inv s ->
  let s2 := flights_mid s now items in
  inv s2 /\ Permutation (order s2) (order s) /\ closed s2 = closed s /\ next_id s2 = next_id s /\ size s2 = size s.
Proof.
  intro Hi. unfold flights_mid.
  pose proof (flights_fast_core now items s) as [A [B [C D]]].
  pose proof (inv_flights_fast s now items Hi) as Hi1.
  destruct (flights_fast s now items) as [[s1 rs] mv]. cbn [fst] in *.
  destruct mv as [|m mv].
  - split; [exact Hi1|]. rewrite A. split; [apply Permutation_refl|]. tauto.
  - pose proof (touch_core s1 (m :: mv)) as [T1 [T2 T3]]. split; [apply inv_touch; exact Hi1|].
    split; [rewrite <- A; apply touch_perm; exact Hi1|]. rewrite T1, T2, T3. tauto.
Qed.

Lemma flights_unfold s now items :
  flights s now items =
  let rs := snd (fst (flights_fast s now items)) in
  match missed_items items rs with
  | [] => (flights_mid s now items, OFlights rs)
  | mi => let '(s3, rs2) := flights_slow (flights_mid s now items) now mi in (s3, OFlights (merge_res rs rs2))
  end.
Proof.
  unfold flights, flights_mid. destruct (flights_fast s now items) as [[s1 rs] mv]. reflexivity.
Qed.

Lemma flights_prov s now items e' :
  inv s -> In e' (order (fst (flights s now items))) ->
  In e' (order s) \/ exists it, In it items /\ new_pending s (fi_key it) (fi_cmd it) (fi_ttl it) now e'.
Proof.
  intros Hi. rewrite flights_unfold. cbv zeta.
  pose proof (flights_mid_spec s now items Hi) as [Hi2 [Hp [Hc [Hn Hs]]]].
  set (rs := snd (fst (flights_fast s now items))).
  destruct (missed_items items rs) as [|m mi] eqn:Em.
  - cbn [fst]. intro H. left. eapply Permutation_in; eassumption.
  - pose proof (flights_slow_prov (flights_mid s now items) now (m :: mi) e' Hi2) as H.
    destruct (flights_slow (flights_mid s now items) now (m :: mi)) as [s3 rs2]. cbn [fst] in *.
    intro H0. destruct (H H0) as [H1|[it [Hit Hnp]]].
    + left. eapply Permutation_in; eassumption.
    + right. exists it. split; [eapply missed_items_sub; rewrite Em; exact Hit|].
      eapply new_pending_mono; [|exact Hnp]. rewrite Hn. lia.
Qed.

Lemma step_prov g s o e' :
  inv s -> In e' (order (fst (step g s o))) ->
  In e' (order s) \/ creates s o e' \/
  (exists e v, o = Update (ekey e) (ecmd e) v /\ In e (order s) /\ pending e = true /\ e' = completed g e v).
Proof.
  intros Hi H. destruct o; cbn [step fst creates] in *.
  - (* Flight *)
    unfold flight in H. pose proof (flight_fast_core s k c now) as [A [_ [_ D]]].
    pose proof (inv_flight_fast s k c now Hi) as Hi1.
    destruct (flight_fast s k c now) as [s1 x]. cbn [fst] in *.
    assert (Hslow : In e' (order (fst (flight_slow s1 k c ttl now))) -> In e' (order s) \/ new_pending s k c ttl now e').
    { intro H0. destruct (flight_slow_prov s1 k c ttl now e' Hi1 H0) as [H1|H1]; [left; rewrite <- A; exact H1|right].
      eapply new_pending_mono; [|exact H1]. rewrite D. lia. }
    destruct x as [| [[id v]|] mv | | | | | | |]; try (destruct (Hslow H) as [H1|H1]; [left; exact H1|right; left; exact H1]).
    left. rewrite <- A. destruct mv; cbn [fst] in H; [|exact H].
    eapply Permutation_in; [apply touch_perm; exact Hi1|exact H].
  - destruct (flights_prov s now items e' Hi H) as [H1|H1]; [left; exact H1|right; left; exact H1].
  - destruct (update_prov g s k c v e' Hi H) as [H1|[e [A [B [C D]]]]]; [left; exact H1|right; right].
    exists e, v. unfold kc in B. injection B as <- <-. repeat split; assumption.
  - left. eapply cancel_in; exact H.
  - left. apply delete_in in H. apply H.
  - contradiction.
  - left. exact H.
  - left. destruct (flight_fast_core s k c now) as [A _]. rewrite <- A. exact H.
  - left. eapply Permutation_in; [apply touch_perm; exact Hi|exact H].
  - destruct (flight_slow_prov s k c ttl now e' Hi H) as [H1|H1]; [left; exact H1|right; left; exact H1].
  - left. pose proof (flights_fast_core now items s) as [A _].
    destruct (flights_fast s now items) as [[s1 rs] mv]. cbn [fst] in *. rewrite <- A. exact H.
  - pose proof (flights_slow_prov s now items e' Hi) as Hp.
    destruct (flights_slow s now items) as [s1 rs]. cbn [fst] in *.
    destruct (Hp H) as [H1|H1]; [left; exact H1|right; left; exact H1].
Qed.

(** ** survival *)

Definition removed_by (o : op) (e : entry) : Prop :=
  match o with
  | Flight k c _ now | FlightSlow k c _ now => kc e = (k, c) /\ live (eval e) now = false
  | Flights now items | FlightsSlow now items =>
      exists it, In it items /\ kc e = (fi_key it, fi_cmd it) /\ live (eval e) now = false
  | Update k c _ => pending e = false \/ kc e = (k, c)
  | Cancel k c _ => kc e = (k, c) /\ pending e = true
  | Delete None => pending e = false
  | Delete (Some ks) => pending e = false /\ In (ekey e) ks
  | Close _ => True
  | _ => False
  end.

Lemma flight_slow_surv s k c ttl now e :
  inv s -> In e (order s) ->
  In e (order (fst (flight_slow s k c ttl now))) \/ (kc e = (k, c) /\ live (eval e) now = false).
Proof.
  intros Hi He. unfold flight_slow. destruct (closed s) eqn:Hc.
  - rewrite (inv_closed s Hi Hc) in He. contradiction.
  - pose proof (slow_one_surv s k c ttl now e Hi He) as H. destruct (slow_one s k c ttl now) as [s1 r]. exact H.
Qed.

Lemma flights_slow_surv s now items e :
  inv s -> In e (order s) ->
  In e (order (fst (flights_slow s now items))) \/
  exists it, In it items /\ kc e = (fi_key it, fi_cmd it) /\ live (eval e) now = false.
Proof.
  intros Hi He. unfold flights_slow. destruct (closed s) eqn:Hc.
  - left. exact He.
  - apply flights_slow_open_surv; assumption.
Qed.

Lemma step_surv g s o e :
  inv s -> In e (order s) -> In e (order (fst (step g s o))) \/ removed_by o e.
Proof.
  intros Hi He. destruct o; cbn [step fst removed_by].
  - unfold flight. pose proof (flight_fast_core s k c now) as [A _].
    pose proof (inv_flight_fast s k c now Hi) as Hi1.
    destruct (flight_fast s k c now) as [s1 x]. cbn [fst] in *. rewrite <- A in He.
    destruct x as [| [[id v]|] mv | | | | | | |]; try (apply flight_slow_surv; assumption).
    left. destruct mv; cbn [fst]; [|exact He].
    eapply Permutation_in; [apply Permutation_sym; apply touch_perm; exact Hi1|exact He].
  - rewrite flights_unfold. cbv zeta.
    pose proof (flights_mid_spec s now items Hi) as [Hi2 [Hp _]].
    assert (He2 : In e (order (flights_mid s now items))) by (eapply Permutation_in; [apply Permutation_sym; exact Hp|exact He]).
    set (rs := snd (fst (flights_fast s now items))).
    destruct (missed_items items rs) as [|m mi] eqn:Em; [left; exact He2|].
    pose proof (flights_slow_surv (flights_mid s now items) now (m :: mi) e Hi2 He2) as H.
    destruct (flights_slow (flights_mid s now items) now (m :: mi)) as [s3 rs2]. cbn [fst] in *.
    destruct H as [H|[it [Hit H]]]; [left; exact H|right]. exists it. split; [|exact H].
    eapply missed_items_sub. rewrite Em. exact Hit.
  - destruct (update_surv g s k c v e Hi He) as [H|H]; [left; exact H|right; exact H].
  - apply cancel_surv; assumption.
  - destruct (pending e) eqn:Ep.
    + left. apply delete_in. split; [exact He|left; exact Ep].
    + destruct keys as [ks|].
      * destruct (in_dec (list_eq_dec N.eq_dec) (ekey e) ks) as [Hin|Hin].
        -- right. split; [first [exact Ep|reflexivity]|exact Hin].
        -- left. apply delete_in. split; [exact He|right; exact Hin].
      * right. first [exact Ep|reflexivity].
  - right. exact I.
  - left. exact He.
  - left. destruct (flight_fast_core s k c now) as [A _]. rewrite A. exact He.
  - left. eapply Permutation_in; [apply Permutation_sym; apply touch_perm; exact Hi|exact He].
  - apply flight_slow_surv; assumption.
  - left. pose proof (flights_fast_core now items s) as [A _].
    destruct (flights_fast s now items) as [[s1 rs] mv]. cbn [fst] in *. rewrite A. exact He.
  - pose proof (flights_slow_surv s now items e Hi He) as H.
    destruct (flights_slow s now items) as [s1 rs]. exact H.
Qed.

Lemma live_pending e now : pending e = true -> live (eval e) now = true.
Proof. unfold pending, live. intros ->. reflexivity. Qed.

(** an in-flight entry leaves the store only through Update / Cancel of its command, or Close *)
Lemma pending_survives g s o e :
  inv s -> In e (order s) -> pending e = true -> ~ resolves (ekey e) (ecmd e) o -> In e (order (fst (step g s o))).
Proof.
  intros Hi He Hp Hr. destruct (step_surv g s o e Hi He) as [H|H]; [exact H|exfalso].
  destruct o; cbn [removed_by resolves] in *; try contradiction.
  - destruct H as [_ H]. rewrite (live_pending e now Hp) in H. discriminate.
  - destruct H as [it [_ [_ H]]]. rewrite (live_pending e now Hp) in H. discriminate.
  - destruct H as [H|H]; [congruence|]. apply Hr. unfold kc in H. injection H as -> ->. split; reflexivity.
  - destruct H as [H _]. apply Hr. unfold kc in H. injection H as -> ->. split; reflexivity.
  - destruct keys; [destruct H as [H _]|]; congruence.
  - destruct H as [_ H]. rewrite (live_pending e now Hp) in H. discriminate.
  - destruct H as [it [_ [_ H]]]. rewrite (live_pending e now Hp) in H. discriminate.
Qed.

(** ** what an invalidating step guarantees *)

Lemma step_invalidated g s o x :
  In x (order (fst (step g s o))) -> pending x = false -> ~ invalidates (ekey x) o.
Proof.
  intros H Hp Hi. destruct o; cbn [invalidates] in Hi; try contradiction.
  - cbn [step fst] in H. apply delete_in in H. destruct H as [_ [H|H]]; [congruence|].
    destruct keys; [contradiction|exact H].
Qed.

Lemma close_order s : order (fst (close s)) = [] /\ closed (fst (close s)) = true.
Proof. split; reflexivity. Qed.

(** ** results of the two passes of Flights, for an arbitrary per-command predicate *)

Definition fres_of_sres (x : sres) : fres := match x with SHit v _ => FHit v | SWait _ id => FWait id | _ => FMiss end.

Lemma flights_fast_forall2 (P : fitem -> fres -> Prop) l now items : forall s,
  order s = l ->
  (forall it, In it items ->
     match lookup (fi_key it) (fi_cmd it) l with
     | Some e => if live (eval e) now then P it (if pending e then FWait (eid e) else FHit (eval e)) else P it FMiss
     | None => P it FMiss
     end) ->
  Forall2 P items (snd (fst (flights_fast s now items))).
Proof.
  induction items as [|[k c t] r IH]; intros s Ho H; [constructor|].
  cbn [flights_fast]. pose proof (H (FI k c t) (or_introl eq_refl)) as H0. cbn [fi_key fi_cmd] in H0. rewrite <- Ho in H0.
  assert (Hr : forall it, In it r -> match lookup (fi_key it) (fi_cmd it) l with
     | Some e => if live (eval e) now then P it (if pending e then FWait (eid e) else FHit (eval e)) else P it FMiss
     | None => P it FMiss end) by (intros it Hit; apply H; right; exact Hit).
  destruct (lookup k c (order s)) as [e|].
  - destruct (live (eval e) now).
    + unfold bump. specialize (IH (set_hit s k (N.succ (get_hits k (hits s)))) Ho Hr).
      destruct (flights_fast (set_hit s k (N.succ (get_hits k (hits s)))) now r) as [[s2 rs] mv]. cbn [fst snd] in *.
      constructor; assumption.
    + specialize (IH s Ho Hr). destruct (flights_fast s now r) as [[s2 rs] mv]. cbn [fst snd] in *. constructor; assumption.
  - specialize (IH s Ho Hr). destruct (flights_fast s now r) as [[s2 rs] mv]. cbn [fst snd] in *. constructor; assumption.
Qed.

Lemma flights_slow_open_forall2 (P : fitem -> fres -> Prop) (Q : state -> Prop) now items :
  (forall s' k c t, inv s' -> closed s' = false -> Q s' -> Q (fst (slow_one s' k c t now))) ->
  (forall s' it, inv s' -> closed s' = false -> Q s' -> In it items ->
       P it (fres_of_sres (snd (slow_one s' (fi_key it) (fi_cmd it) (fi_ttl it) now)))) ->
  forall s, inv s -> closed s = false -> Q s -> Forall2 P items (snd (flights_slow_open s now items)).
Proof.
  intros HQ. induction items as [|[k c t] r IH]; intros HP s Hi Hc Hq; [constructor|].
  cbn [flights_slow_open].
  pose proof (inv_slow_one s k c t now Hi Hc) as [Hi1 Hc1].
  pose proof (HQ s k c t Hi Hc Hq) as Hq1.
  pose proof (HP s (FI k c t) Hi Hc Hq (or_introl eq_refl)) as Hp0. cbn [fi_key fi_cmd fi_ttl] in Hp0.
  destruct (slow_one s k c t now) as [s1 x]. cbn [fst snd] in *.
  assert (HP' : forall s' it, inv s' -> closed s' = false -> Q s' -> In it r ->
       P it (fres_of_sres (snd (slow_one s' (fi_key it) (fi_cmd it) (fi_ttl it) now))))
    by (intros; apply HP; try assumption; right; assumption).
  specialize (IH HP' s1 Hi1 Hc1 Hq1). destruct (flights_slow_open s1 now r) as [s2 rs]. cbn [snd] in *.
  constructor; [|exact IH]. destruct x; exact Hp0.
Qed.

Lemma merge_forall2 (P : fitem -> fres -> Prop) items rs : Forall2 P items rs ->
  forall rs2, Forall2 P (missed_items items rs) rs2 -> Forall2 P items (merge_res rs rs2).
Proof.
  induction 1 as [|it r items rs Hp Hf IH]; intros rs2 H2; [constructor|].
  cbn [missed_items] in H2. destruct r; cbn [merge_res].
  - constructor; [exact Hp|apply IH; exact H2].
  - constructor; [exact Hp|apply IH; exact H2].
  - inversion H2 as [|? x ? r2 Hx Hr2]; subst. constructor; [exact Hx|apply IH; exact Hr2].
Qed.

(** results of a composite Flights: it is enough to establish [P] for the first pass on the initial
    list, and for the second pass along any state satisfying an invariant [Q] of the slow path *)
Lemma flights_forall2 (P : fitem -> fres -> Prop) (Q : state -> Prop) s now items :
  inv s ->
  (forall it, In it items ->
     match lookup (fi_key it) (fi_cmd it) (order s) with
     | Some e => if live (eval e) now then P it (if pending e then FWait (eid e) else FHit (eval e)) else P it FMiss
     | None => P it FMiss
     end) ->
  (closed s = true -> forall it, In it items -> P it FMiss) ->
  (forall s' k c t, inv s' -> closed s' = false -> Q s' -> Q (fst (slow_one s' k c t now))) ->
  (forall s' it, inv s' -> closed s' = false -> Q s' -> In it items ->
       P it (fres_of_sres (snd (slow_one s' (fi_key it) (fi_cmd it) (fi_ttl it) now)))) ->
  (forall s2, Permutation (order s2) (order s) -> next_id s2 = next_id s -> size s2 = size s -> Q s2) ->
  match snd (flights s now items) with OFlights rs => Forall2 P items rs | _ => False end.
Proof.
  intros Hi Hfast Hclosed HQ HP Hq0. rewrite flights_unfold. cbv zeta.
  pose proof (flights_mid_spec s now items Hi) as [Hi2 [Hp [Hc [Hn Hs]]]].
  pose proof (flights_fast_forall2 P (order s) now items s eq_refl Hfast) as Hf.
  set (rs := snd (fst (flights_fast s now items))) in *.
  destruct (missed_items items rs) as [|m mi] eqn:Em; [exact Hf|].
  unfold flights_slow. rewrite Hc. destruct (closed s) eqn:Hcs.
  - cbn [snd]. apply merge_forall2; [exact Hf|]. rewrite Em.
    assert (Hall : forall it, In it (m :: mi) -> P it FMiss).
    { intros it Hit. apply Hclosed; [reflexivity|]. eapply missed_items_sub. rewrite Em. exact Hit. }
    clear Em. induction (m :: mi) as [|x r IH]; cbn [map]; constructor.
    + apply Hall. left. reflexivity.
    + apply IH. intros it Hit. apply Hall. right. exact Hit.
  - assert (HP' : forall s' it, inv s' -> closed s' = false -> Q s' -> In it (m :: mi) ->
       P it (fres_of_sres (snd (slow_one s' (fi_key it) (fi_cmd it) (fi_ttl it) now)))).
    { intros s' it A B C D. apply HP; try assumption. eapply missed_items_sub. rewrite Em. exact D. }
    assert (Hc2 : closed (flights_mid s now items) = false) by congruence.
    pose proof (flights_slow_open_forall2 P Q now (m :: mi) HQ HP' _ Hi2 Hc2 (Hq0 _ Hp Hn Hs)) as H2.
    destruct (flights_slow_open (flights_mid s now items) now (m :: mi)) as [s3 rs2]. cbn [snd] in *.
    apply merge_forall2; [exact Hf|rewrite Em; exact H2].
Qed.
